(* _parse_ptb on lines printed by ptb_of: the round trip (C20, PTB half). *)
From Coq Require Import List NArith Bool Lia Arith.
Import ListNotations.
Require Import Cat CatFacts CatLex CatRoundTrip Tree Ptb PtbEscape.
Open Scope N_scope.

Definition rp (k : nat) : text := repeat cRP k.

(* ---------- peel ---------- *)
Lemma peel_rp k : peel (rp k) = ([], k).
Proof. induction k as [|k IH]; [reflexivity|]. cbn [rp repeat peel]. fold (rp k). now rewrite IH. Qed.

Lemma peel_core core k : has cRP core = false -> core <> [] -> peel (core ++ rp k) = (core, k).
Proof.
  induction core as [|c core IH]; [congruence|]. intros H _. cbn [app peel].
  rewrite has_cons in H. apply orb_false_iff in H as [Hc Hr].
  destruct core as [|c2 core'].
  - cbn [app]. rewrite peel_rp. rewrite N.eqb_sym in Hc. now rewrite Hc.
  - rewrite IH by (try assumption; discriminate). reflexivity.
Qed.

Lemma peel_noclose x : has cRP x = false -> peel x = (x, O).
Proof.
  intros H. destruct x as [|c x]; [reflexivity|].
  pose proof (peel_core (c :: x) O H) as Hp. cbn [rp repeat] in Hp. rewrite app_nil_r in Hp. apply Hp. discriminate.
Qed.

(* ---------- join / split ---------- *)
Lemma join_cons sep x xs : xs <> [] -> join sep (x :: xs) = x ++ sep ++ join sep xs.
Proof. destruct xs; [congruence|reflexivity]. Qed.

Lemma join_app sep a b : a <> [] -> b <> [] -> join sep (a ++ b) = join sep a ++ sep ++ join sep b.
Proof.
  induction a as [|x a IH]; [congruence|]. intros _ Hb. destruct a as [|y a].
  - cbn [app]. now rewrite join_cons.
  - change ((x :: y :: a) ++ b) with (x :: (y :: a) ++ b). rewrite join_cons by discriminate.
    rewrite IH by (try assumption; discriminate). rewrite (join_cons sep x (y :: a)) by discriminate.
    now rewrite <- !app_assoc.
Qed.

Lemma split_join c xs : Forall (fun x => has c x = false) xs -> xs <> [] -> split_on c (join [c] xs) [] = xs.
Proof.
  induction xs as [|x xs IH]; [congruence|]. intros Hall _. apply Forall_cons_iff in Hall as [Hx Hxs].
  destruct xs as [|y xs].
  - cbn [join]. now rewrite split_on_nochar.
  - rewrite join_cons by discriminate. cbn [app]. rewrite split_on_app by assumption. cbn [rev app].
    now rewrite IH by (try assumption; discriminate).
Qed.

(* ---------- no blank in a printed category ---------- *)
Lemma allplain_noblank t : allplain t = true -> has cSP t = false.
Proof.
  induction t as [|x t IH]; [reflexivity|]. cbn [allplain forallb]. intros H. apply andb_true_iff in H as [Hx Ht].
  rewrite has_cons, (IH Ht), orb_false_r. unfold plainc in Hx. apply andb_true_iff in Hx as [_ Hx].
  apply negb_true_iff in Hx. now rewrite N.eqb_sym.
Qed.

Section Show.
Variable puncts : list text.
Lemma show_noblank c : wf puncts c -> has cSP (show c) = false.
Proof.
  induction c as [b f | l IHl s r IHr]; intros Hwf.
  - destruct Hwf as ([_ Hb] & Hf & _). cbn [show].
    pose proof (allplain_show_feat f Hf) as Hft. destruct (show_feat f) as [|c0 ft].
    + now apply allplain_noblank.
    + rewrite !has_app. rewrite (allplain_noblank b Hb), (allplain_noblank _ Hft). reflexivity.
  - destruct Hwf as (Hl & Hs & Hr).
    assert (Hp : forall x, has cSP (show x) = false -> has cSP (pshow x) = false).
    { intros x Hx. destruct x; [exact Hx|]. unfold pshow. rewrite !has_app, Hx. reflexivity. }
    change (show (Fun l s r)) with (pshow l ++ s ++ pshow r). rewrite !has_app, (Hp l (IHl Hl)), (Hp r (IHr Hr)).
    destruct Hs as [-> | [-> | ->]]; reflexivity.
Qed.
End Show.

(* ---------- the domain ---------- *)
Definition word_of (tok : token) : text := tok_get_default k_word [] tok.
(* non-empty, no blank, representable under the -LRB-/-RRB- convention *)
Definition wf_word (w : text) : Prop := w <> [] /\ has cSP w = false /\ esc_safe w = true.
Definition wf_wordb (w : text) : bool := match w with [] => false | _ => negb (has cSP w) && esc_safe w end.

Lemma wf_wordb_ok w : wf_wordb w = true <-> wf_word w.
Proof.
  unfold wf_word, wf_wordb. destruct w as [|c w].
  - split; [discriminate|]. intros [H _]. congruence.
  - rewrite andb_true_iff, negb_true_iff. split; [intros [H1 H2]; repeat split; [discriminate|assumption|assumption] | tauto].
Qed.

Section WF.
Variable puncts : list text.
Fixpoint wf_ptb (t : tree) : Prop :=
  match t with
  | Leaf c tok _ _ => wf puncts c /\ exists w, leaf_word tok = Some w /\ wf_word w
  | Un c _ _ t1 => wf puncts c /\ wf_ptb t1
  | Bin c _ _ _ l r => wf puncts c /\ wf_ptb l /\ wf_ptb r
  end.
Fixpoint wf_ptbb (t : tree) : bool :=
  match t with
  | Leaf c tok _ _ => wfb puncts c && match leaf_word tok with Some w => wf_wordb w | None => false end
  | Un c _ _ t1 => wfb puncts c && wf_ptbb t1
  | Bin c _ _ _ l r => wfb puncts c && wf_ptbb l && wf_ptbb r
  end.
Lemma wf_ptbb_ok t : wf_ptbb t = true -> wf_ptb t.
Proof.
  induction t as [c tok ops sym | c ops sym t1 IH | c ops sym hl l IHl r IHr]; cbn [wf_ptbb wf_ptb]; intros H.
  - apply andb_true_iff in H as [Hc Hw]. split; [now apply wfb_ok|].
    destruct (leaf_word tok) as [w|]; [|discriminate]. exists w. split; [reflexivity | now apply wf_wordb_ok].
  - apply andb_true_iff in H as [Hc Ht]. split; [now apply wfb_ok | now apply IH].
  - apply andb_true_iff in H as [H Hr]. apply andb_true_iff in H as [Hc Hl]. repeat split; [now apply wfb_ok | now apply IHl | now apply IHr].
Qed.
End WF.

(* same categories, same shape, same words *)
Fixpoint same_csw (a b : tree) : Prop :=
  match a, b with
  | Leaf c tok _ _, Leaf c' tok' _ _ => c' = c /\ leaf_word tok' = leaf_word tok
  | Un c _ _ t, Un c' _ _ t' => c' = c /\ same_csw t t'
  | Bin c _ _ _ l r, Bin c' _ _ _ l' r' => c' = c /\ same_csw l l' /\ same_csw r r'
  | _, _ => False
  end.

(* ---------- the printed line as a list of blank-separated items ---------- *)
(* [k] = number of further ')' that follow the subtree on its last item *)
Fixpoint items (t : tree) (k : nat) : list text :=
  match t with
  | Leaf c tok _ _ => [cLP :: show c; esc_word (word_of tok) ++ rp (S k)]
  | Un c _ _ t1 => (cLP :: show c) :: items t1 (S k)
  | Bin c _ _ _ l r => (cLP :: show c) :: items l 0 ++ items r (S k)
  end.

Lemma items_nonnil t k : items t k <> [].
Proof. destruct t; discriminate. Qed.

Lemma rp_S k : [cRP] ++ rp k = rp (S k).
Proof. reflexivity. Qed.

Lemma leaf_word_of tok w : leaf_word tok = Some w -> word_of tok = w.
Proof. unfold leaf_word, word_of, tok_get_default. now intros ->. Qed.

Section RoundTrip.
Variable puncts : list text.
Variable parse_cat : text -> option cat.
Hypothesis parse_show : forall c, wf puncts c -> parse_cat (show c) = Some c.
Variable guess : cat -> cat -> cat -> text * text * bool.

Notation wf_ptb := (wf_ptb puncts).
Notation run := (run parse_cat guess).
Notation closes := (closes guess).
Notation close_node := (close_node guess).
Notation canon := (canon_ptb guess).

Lemma ptb_rec_items t : wf_ptb t -> exists s, ptb_rec t = Some s /\ forall k, s ++ rp k = join [cSP] (items t k).
Proof.
  induction t as [c tok ops sym | c ops sym t1 IH | c ops sym hl l IHl r IHr]; cbn [wf_ptb ptb_rec items].
  - intros (_ & w & Hw & _). rewrite Hw. rewrite (leaf_word_of tok w Hw). eexists; split; [reflexivity|].
    intros k. cbn [join]. rewrite <- !app_assoc. cbn [app]. reflexivity.
  - intros (_ & Ht). destruct (IH Ht) as (s & -> & Hs). eexists; split; [reflexivity|].
    intros k. rewrite join_cons by apply items_nonnil. rewrite <- (Hs (S k)). rewrite <- !app_assoc. cbn [app]. reflexivity.
  - intros (_ & Hl & Hr). destruct (IHl Hl) as (a & -> & Ha). destruct (IHr Hr) as (b & -> & Hb). eexists; split; [reflexivity|].
    intros k. rewrite join_cons by (intros E; apply app_eq_nil in E as [E _]; now apply (items_nonnil l 0)).
    rewrite join_app by apply items_nonnil. rewrite <- (Hb (S k)). rewrite <- (Ha O). cbn [rp repeat]. rewrite app_nil_r.
    rewrite <- !app_assoc. cbn [app]. reflexivity.
Qed.

Lemma items_noblank t k : wf_ptb t -> Forall (fun x => has cSP x = false) (items t k).
Proof.
  revert k; induction t as [c tok ops sym | c ops sym t1 IH | c ops sym hl l IHl r IHr]; intros k; cbn [wf_ptb items].
  - intros (Hc & w & Hw & _ & Hsp & _). rewrite (leaf_word_of tok w Hw).
    constructor; [|constructor; [|constructor]].
    + rewrite has_cons. now rewrite (show_noblank puncts c Hc).
    + rewrite has_app. rewrite has_esc_word by (try reflexivity; assumption).
      clear. induction k as [|k IHk]; [reflexivity|exact IHk].
  - intros (Hc & Ht). constructor; [|now apply IH]. rewrite has_cons. now rewrite (show_noblank puncts c Hc).
  - intros (Hc & Hl & Hr). constructor; [rewrite has_cons; now rewrite (show_noblank puncts c Hc)|].
    apply Forall_app; split; [now apply IHl | now apply IHr].
Qed.

Lemma canon_tcat t : tcat (canon t) = tcat t.
Proof. destruct t as [c tok ops sym | c ops sym t1 | c ops sym hl l r]; cbn [canon_ptb tcat]; [reflexivity|reflexivity|]. destruct (guess c (tcat l) (tcat r)) as [[o s] h]. reflexivity. Qed.

(* an opening item pushes its category *)
Lemma run_opener c rest st : wf puncts c -> run ((cLP :: show c) :: rest) st = run rest (PCat c :: st).
Proof. intros Hc. cbn [Ptb.run]. rewrite N.eqb_refl. now rewrite (parse_show c Hc). Qed.

(* a closing item builds the leaf and closes k enclosing nodes *)
Lemma run_closer c w k rest st : wf_word w ->
  run ((esc_word w ++ rp (S k)) :: rest) (PCat c :: st) =
  match closes k (PTree (Leaf c [(k_word, w)] s_lex s_lexsym) :: st) with Some st' => run rest st' | None => None end.
Proof.
  intros (Hne & _ & Hsafe).
  pose proof (esc_word_nonnil w Hne) as Hen. destruct (esc_word_no_paren w) as [HnoL HnoR].
  assert (Hpeel : peel (esc_word w ++ rp (S k)) = (esc_word w, S k)) by now apply peel_core.
  destruct (esc_word w) as [|c0 e] eqn:E; [congruence|].
  change ((c0 :: e) ++ rp (S k)) with (c0 :: (e ++ rp (S k))) in *.
  cbn [Ptb.run]. rewrite has_cons in HnoL. apply orb_false_iff in HnoL as [Hc0 _]. rewrite N.eqb_sym in Hc0. rewrite Hc0.
  rewrite Hpeel. unfold reduce. rewrite Hpeel. rewrite <- E. rewrite (unesc_esc w Hsafe). cbn [terminal]. reflexivity.
Qed.

Lemma close_un c x st : close_node (PTree x :: PCat c :: st) = Some (PTree (Un c s_lex s_unsym x) :: st).
Proof. reflexivity. Qed.
Lemma close_bin c l r st :
  close_node (PTree r :: PTree l :: PCat c :: st) =
  Some (PTree (let '(ops, sym, hl) := guess c (tcat l) (tcat r) in Bin c ops sym hl l r) :: st).
Proof. unfold Ptb.close_node. cbn [pop_trees]. destruct (guess c (tcat l) (tcat r)) as [[o s] h]. reflexivity. Qed.

(* the items of a subtree leave its (canonical) tree on the stack, then close k enclosing nodes *)
Lemma run_items t : wf_ptb t -> forall k rest st,
  run (items t k ++ rest) st =
  match closes k (PTree (canon t) :: st) with Some st' => run rest st' | None => None end.
Proof.
  induction t as [c tok ops sym | c ops sym t1 IH | c ops sym hl l IHl r IHr]; cbn [wf_ptb]; intros Hwf k rest st.
  - destruct Hwf as (Hc & w & Hw & Hww). cbn [items canon_ptb]. fold (word_of tok). rewrite (leaf_word_of tok w Hw).
    cbn [app]. rewrite run_opener by assumption. now rewrite run_closer.
  - destruct Hwf as (Hc & Ht). cbn [items canon_ptb app]. rewrite run_opener by assumption.
    rewrite (IH Ht). cbn [Ptb.closes]. rewrite close_un. reflexivity.
  - destruct Hwf as (Hc & Hl & Hr). cbn [items canon_ptb app]. rewrite run_opener by assumption.
    rewrite <- app_assoc. rewrite (IHl Hl). cbn [Ptb.closes]. rewrite (IHr Hr). cbn [Ptb.closes].
    rewrite close_bin. rewrite !canon_tcat. destruct (guess c (tcat l) (tcat r)) as [[o s] h]. reflexivity.
Qed.

(* "same categories, shape and words", stated without reference to canon_ptb *)
Lemma canon_same t : wf_ptb t -> same_csw t (canon t).
Proof.
  induction t as [c tok ops sym | c ops sym t1 IH | c ops sym hl l IHl r IHr]; cbn [wf_ptb canon_ptb same_csw].
  - intros (_ & w & Hw & _). split; [reflexivity|]. rewrite Hw. unfold tok_get_default. unfold leaf_word in Hw. now rewrite Hw.
  - intros (_ & Ht). split; [reflexivity | now apply IH].
  - intros (_ & Hl & Hr). destruct (guess c (tcat l) (tcat r)) as [[o s] h]. cbn [same_csw].
    split; [reflexivity|]. split; [now apply IHl | now apply IHr].
Qed.

Lemma read_items_items t : wf_ptb t -> read_items parse_cat guess (items t 0) = Some (canon t).
Proof.
  intros H. unfold read_items. rewrite <- (app_nil_r (items t 0)). rewrite (run_items t H). reflexivity.
Qed.

(* the line level: '(ROOT ' + rec(t) + ')' *)
Lemma line_items_print s : line_items (t_ROOT ++ s ++ [cRP]) = split_on cSP s [].
Proof. unfold line_items. change (skipn 6 (t_ROOT ++ s ++ [cRP])) with (s ++ [cRP]). now rewrite removelast_last. Qed.

Theorem read_print_ptb t : wf_ptb t ->
  exists line, print_ptb t = Some line /\ read_line parse_cat guess line = Some (canon t).
Proof.
  intros H. destruct (ptb_rec_items t H) as (s & Hs & Hj). unfold print_ptb. rewrite Hs. eexists; split; [reflexivity|].
  unfold read_line. change (t_ROOT ++ s ++ [cRP]) with (t_ROOT ++ (s ++ [cRP])) at 1. rewrite prefixb_app.
  rewrite line_items_print. specialize (Hj O). cbn [rp repeat] in Hj. rewrite app_nil_r in Hj. rewrite Hj.
  rewrite split_join by (try apply items_nonnil; now apply items_noblank). now apply read_items_items.
Qed.
End RoundTrip.
