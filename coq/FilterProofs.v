(* C17 - lemmas about the model of _type_check / apply_category_filters (Filter.v) and the checks on shipped data. *)
From Coq Require Import List NArith ZArith Bool Lia Arith.
Import ListNotations.
Require Import Cat CatFacts Filter.
Open Scope nat_scope.

(* ---------- _type_check ---------- *)
Lemma type_check_ok n d s docs scs : type_check n d s = Ok (docs, scs) ->
  docs = doc_list d /\ scs = sc_list s /\ length docs = length scs /\ scs <> [] /\
  (forall k ws sc, nth_error docs k = Some ws -> nth_error scs k = Some sc -> shape_ok n ws sc = true).
Proof.
  unfold type_check. intros H.
  destruct (many_sentences d) as [ms|e] eqn:Ems; [|discriminate].
  destruct (many_scores s) as [msc|e] eqn:Emsc; [|discriminate].
  destruct (negb (Bool.eqb ms msc) || (ms && negb (Nat.eqb (doc_len d) (sc_len s)))) eqn:Ec; [discriminate|].
  destruct (forallb (fun p => shape_ok n (fst p) (snd p)) (combine (doc_list d) (sc_list s))) eqn:Ef; [|discriminate].
  inversion H; subst docs scs. clear H.
  apply orb_false_iff in Ec as [Ec1 Ec2]. apply negb_false_iff in Ec1. apply eqb_prop in Ec1. subst msc.
  assert (Hlen : length (doc_list d) = length (sc_list s) /\ sc_list s <> []).
  { destruct d as [[|w ws]|[|[|w ws] ss]]; cbn in Ems; try discriminate; inversion Ems; subst ms;
      destruct s as [x|[|x l]]; cbn in Emsc; try discriminate.
    - split; [reflexivity | discriminate].
    - cbn in Ec2. apply negb_false_iff in Ec2. apply Nat.eqb_eq in Ec2. cbn [doc_list sc_list length]. split; [now f_equal | discriminate]. }
  destruct Hlen as [Hlen Hne].
  repeat split; try assumption.
  intros k ws sc Hd Hs. rewrite forallb_forall in Ef.
  apply (Ef (ws, sc)).
  clear Ef Hlen Hne. revert k Hd Hs. generalize (doc_list d) (sc_list s). intros l1.
  induction l1 as [|a l1 IH]; intros l2 [|k] Hd Hs; destruct l2 as [|b l2]; cbn in *; try discriminate.
  - inversion Hd; inversion Hs; subst. now left.
  - right. now apply (IH l2 k).
Qed.

Lemma type_check_err_first neg cats cd d s e : type_check (length cats) d s = Err e -> apply_category_filters neg cats cd d s = Err e.
Proof. unfold apply_category_filters. now intros ->. Qed.

Lemma err_arrays_untouched neg cats cd d s e : apply_category_filters neg cats cd d s = Err e -> arrays_after neg cats cd d s = sc_list s.
Proof. unfold arrays_after. now intros ->. Qed.

Lemma shape_ok_iff n ws sc : shape_ok n ws sc = true <->
  ncols (tag sc) = n /\ nrows (tag sc) = length ws /\ nrows (dep sc) = length ws /\ ncols (dep sc) = S (length ws).
Proof.
  unfold shape_ok. rewrite !andb_true_iff, !Nat.eqb_eq. split.
  - intros [[H1 [H2 H3]] [H4 H5]]. repeat split; congruence.
  - intros (H1 & H2 & H3 & H4). repeat split; congruence.
Qed.

Lemma apply_ok_checked neg cats cd d s r : apply_category_filters neg cats cd d s = Ok r ->
  exists docs scs, type_check (length cats) d s = Ok (docs, scs).
Proof.
  unfold apply_category_filters. destruct (type_check (length cats) d s) as [[docs scs]|e]; [|discriminate].
  intros _. now exists docs, scs.
Qed.

(* ---------- category ids ---------- *)
Lemma index_from_notin c cats : forall i acc, ~ In c cats -> index_from c cats i acc = acc.
Proof.
  induction cats as [|x r IH]; intros i acc Hn; cbn [index_from]; [reflexivity|].
  rewrite IH by (intros H; apply Hn; now right).
  destruct (cat_eqb x c) eqn:E; [|reflexivity]. apply cat_eqb_eq in E. exfalso. apply Hn. now left.
Qed.

Lemma index_from_sound c cats : forall i acc j, index_from c cats i acc = Some j ->
  acc = Some j \/ (i <= j /\ nth_error cats (j - i) = Some c).
Proof.
  induction cats as [|x r IH]; intros i acc j H; cbn [index_from] in H; [now left|].
  destruct (IH _ _ _ H) as [Ha | [Hle Hn]].
  - destruct (cat_eqb x c) eqn:E; [|now left].
    apply cat_eqb_eq in E. inversion Ha; subst. right. split; [lia|]. now rewrite Nat.sub_diag.
  - right. split; [lia|]. replace (j - i) with (S (j - S i)) by lia. exact Hn.
Qed.

Lemma index_from_acc_some c cats : forall i a, exists j, index_from c cats i (Some a) = Some j.
Proof.
  induction cats as [|x r IH]; intros i a; cbn [index_from]; [now exists a|].
  destruct (cat_eqb x c); apply IH.
Qed.

Lemma index_from_in c cats : forall i acc, In c cats -> exists j, index_from c cats i acc = Some j.
Proof.
  induction cats as [|x r IH]; intros i acc Hin; [destruct Hin|]. cbn [index_from].
  destruct (cat_eqb x c) eqn:E.
  - apply index_from_acc_some.
  - destruct Hin as [->|Hin]; [rewrite cat_eqb_refl in E; discriminate | now apply IH].
Qed.

Lemma index_from_nodup c cats : forall i acc k, NoDup cats -> nth_error cats k = Some c -> index_from c cats i acc = Some (i + k).
Proof.
  induction cats as [|x r IH]; intros i acc k Hnd Hn; [destruct k; discriminate|].
  inversion Hnd as [|x' r' Hx Hr]; subst. cbn [index_from]. destruct k as [|k]; cbn [nth_error] in Hn.
  - inversion Hn; subst x. rewrite cat_eqb_refl. rewrite index_from_notin by assumption. f_equal. lia.
  - assert (Hc : In c r) by (eapply nth_error_In; eassumption).
    destruct (cat_eqb x c) eqn:E; [apply cat_eqb_eq in E; subst; contradiction|].
    rewrite (IH (S i) acc k Hr Hn). f_equal. lia.
Qed.

Lemma category_id_sound cats c j : category_id cats c = Some j -> nth_error cats j = Some c.
Proof.
  unfold category_id. intros H. destruct (index_from_sound _ _ _ _ _ H) as [Ha | [_ Hn]]; [discriminate|].
  now rewrite Nat.sub_0_r in Hn.
Qed.
Lemma category_id_bound cats c j : category_id cats c = Some j -> j < length cats.
Proof. intros H. apply category_id_sound in H. apply nth_error_Some. congruence. Qed.
Lemma category_id_nodup cats c j : NoDup cats -> (category_id cats c = Some j <-> nth_error cats j = Some c).
Proof. intros Hnd. split; [apply category_id_sound|]. intros H. unfold category_id. now rewrite (index_from_nodup c cats 0 None j Hnd H). Qed.
Lemma category_id_in cats c : In c cats -> exists j, category_id cats c = Some j.
Proof. apply index_from_in. Qed.
Lemma category_id_none cats c : category_id cats c = None -> ~ In c cats.
Proof. intros H Hin. destruct (category_id_in cats c Hin) as [j Hj]. congruence. Qed.

Definition listed_cat (cats : list cat) (cs : list cat) (j : nat) : bool :=
  existsb (fun c => match category_id cats c with Some j' => Nat.eqb j' j | None => false end) cs.

Lemma ids_listed cats cs : forall ixs, ids_of cats cs = Ok ixs -> forall j, listed ixs j = listed_cat cats cs j.
Proof.
  induction cs as [|c r IH]; intros ixs H j; cbn [ids_of] in H.
  - inversion H. reflexivity.
  - destruct (category_id cats c) as [i|] eqn:Ei; [|discriminate].
    destruct (ids_of cats r) as [l|e] eqn:El; [|discriminate]. inversion H; subst ixs.
    unfold listed_cat. cbn [listed existsb]. rewrite Ei. rewrite (Nat.eqb_sym j i). f_equal. apply (IH l eq_refl j).
Qed.

Lemma ids_of_ok cats cs : (forall c, In c cs -> In c cats) -> exists ixs, ids_of cats cs = Ok ixs.
Proof.
  induction cs as [|c r IH]; intros H; cbn [ids_of]; [now eexists|].
  destruct (category_id_in cats c (H c (or_introl eq_refl))) as [i ->].
  destruct IH as [l ->]; [intros c' Hc'; apply H; now right|]. now eexists.
Qed.

Lemma ids_of_err cats cs e : ids_of cats cs = Err e -> e = EKey /\ exists c, In c cs /\ ~ In c cats.
Proof.
  induction cs as [|c r IH]; cbn [ids_of]; intros H; [discriminate|].
  destruct (category_id cats c) as [i|] eqn:Ei.
  - destruct (ids_of cats r) as [l|e'] eqn:El; [discriminate|]. inversion H; subst e'.
    destruct (IH eq_refl) as [He (c' & Hc' & Hn)]. split; [exact He|]. exists c'. split; [now right | exact Hn].
  - inversion H. split; [reflexivity|]. exists c. split; [now left | now apply category_id_none].
Qed.

Lemma ids_of_bound cats cs ixs : ids_of cats cs = Ok ixs -> forall j, In j ixs -> j < length cats.
Proof.
  revert ixs; induction cs as [|c r IH]; intros ixs H j Hj; cbn [ids_of] in H.
  - inversion H; subst. destruct Hj.
  - destruct (category_id cats c) as [i|] eqn:Ei; [|discriminate].
    destruct (ids_of cats r) as [l|e] eqn:El; [|discriminate]. inversion H; subst ixs.
    destruct Hj as [<-|Hj]; [now apply (category_id_bound cats c) | now apply (IH l eq_refl)].
Qed.

(* the resolved dictionary has the same keys in the same order *)
Lemma resolve_lookup cats cd : forall dix, resolve cats cd = Ok dix -> forall w,
  match lookup w cd with
  | None => lookup w dix = None
  | Some cs => exists ixs, lookup w dix = Some ixs /\ ids_of cats cs = Ok ixs
  end.
Proof.
  induction cd as [|[k cs] r IH]; intros dix H w; cbn [resolve] in H.
  - inversion H. reflexivity.
  - destruct (ids_of cats cs) as [ixs|e] eqn:Ei; [|discriminate].
    destruct (resolve cats r) as [l|e] eqn:El; [|discriminate]. inversion H; subst dix.
    cbn [lookup]. destruct (text_eqb k w); [now exists ixs | apply (IH l eq_refl)].
Qed.

Lemma resolve_ok cats cd : (forall w cs, In (w, cs) cd -> forall c, In c cs -> In c cats) -> exists dix, resolve cats cd = Ok dix.
Proof.
  induction cd as [|[k cs] r IH]; intros H; cbn [resolve]; [now eexists|].
  destruct (ids_of_ok cats cs (H k cs (or_introl eq_refl))) as [ixs ->].
  destruct IH as [l ->]; [intros w cs' Hin c Hc; apply (H w cs'); [now right | exact Hc]|]. now eexists.
Qed.

Lemma resolve_err cats cd e : resolve cats cd = Err e -> e = EKey /\ exists w cs c, In (w, cs) cd /\ In c cs /\ ~ In c cats.
Proof.
  induction cd as [|[k cs] r IH]; cbn [resolve]; intros H; [discriminate|].
  destruct (ids_of cats cs) as [ixs|e'] eqn:Ei.
  - destruct (resolve cats r) as [l|e''] eqn:El; [discriminate|]. inversion H; subst e''.
    destruct (IH eq_refl) as [He (w & cs' & c & Hin & Hc & Hn)]. split; [exact He|]. exists w, cs', c. split; [now right | now split].
  - inversion H; subst e'. destruct (ids_of_err _ _ _ Ei) as [He (c & Hc & Hn)]. split; [exact He|]. exists k, cs, c. split; [now left | now split].
Qed.

Lemma lookup_map {A B} (f : A -> B) w (d : list (word * A)) :
  lookup w (map (fun p => (fst p, f (snd p))) d) = option_map f (lookup w d).
Proof. induction d as [|[k v] r IH]; cbn [map lookup fst snd]; [reflexivity|]. destruct (text_eqb k w); [reflexivity | exact IH]. Qed.

(* ---------- masks ---------- *)
Lemma binarize_length ixs n : length (binarize ixs n) = n.
Proof. unfold binarize. now rewrite map_length, seq_length. Qed.

Lemma binarize_nth ixs n j : j < n -> nth_error (binarize ixs n) j = Some (negb (listed ixs j)).
Proof.
  intros H. unfold binarize. rewrite nth_error_map.
  rewrite (nth_error_nth' (seq 0 n) 0) by (now rewrite seq_length). rewrite seq_nth by assumption. reflexivity.
Qed.

Lemma mask_assign_spec neg row : forall m row', mask_assign neg row m = Some row' ->
  length m = length row /\ length row' = length row /\
  forall j v, nth_error row j = Some v -> exists b, nth_error m j = Some b /\ nth_error row' j = Some (if b then neg else v).
Proof.
  induction row as [|v r IH]; intros [|b ms] row' H; cbn [mask_assign] in H; try discriminate.
  - inversion H; subst. repeat split. intros [|j] v Hv; discriminate.
  - destruct (mask_assign neg r ms) as [r'|] eqn:E; [|discriminate]. cbn [option_map] in H. inversion H; subst row'.
    destruct (IH _ _ E) as (H1 & H2 & H3). cbn [length]. repeat split; try congruence.
    intros [|j] v' Hv; cbn [nth_error] in *.
    + inversion Hv; subst. exists b. now split.
    + now apply H3.
Qed.

Lemma mask_assign_total neg row : forall m, length m = length row -> exists row', mask_assign neg row m = Some row'.
Proof.
  induction row as [|v r IH]; intros [|b ms] H; cbn [length] in H; try discriminate; cbn [mask_assign]; [now eexists|].
  destruct (IH ms) as [r' ->]; [congruence|]. now eexists.
Qed.

(* ---------- rows, sentences, documents ---------- *)
Section ApplyFacts.
Variable neg : Z.
Variable masks : list (word * list bool).

Lemma filter_rows_spec ws : forall rs rs', filter_rows neg masks ws rs = Some rs' ->
  length rs' = length rs /\
  (forall i w row, nth_error ws i = Some w -> nth_error rs i = Some row ->
     exists row', nth_error rs' i = Some row' /\
       match lookup w masks with None => row' = row | Some m => mask_assign neg row m = Some row' end) /\
  (forall i, length ws <= i -> nth_error rs' i = nth_error rs i).
Proof.
  induction ws as [|w ws IH]; intros rs rs' H; cbn [filter_rows] in H.
  - inversion H; subst. split; [reflexivity|]. split; [|reflexivity]. intros [|i] w row Hw; discriminate.
  - destruct (lookup w masks) as [m|] eqn:El.
    + destruct rs as [|r rs0]; [discriminate|].
      destruct (mask_assign neg r m) as [r'|] eqn:Em; [|discriminate].
      destruct (filter_rows neg masks ws rs0) as [t|] eqn:Et; [|discriminate]. cbn [option_map] in H. inversion H; subst rs'.
      destruct (IH _ _ Et) as (I1 & I2 & I3). split; [cbn [length]; congruence|]. split.
      * intros [|i] w' row Hw Hr; cbn [nth_error] in *.
        -- inversion Hw; inversion Hr; subst. exists r'. split; [reflexivity|]. now rewrite El.
        -- now apply I2.
      * intros [|i] Hi; cbn [length] in Hi; [lia|]. cbn [nth_error]. apply I3. lia.
    + destruct rs as [|r rs0].
      * destruct (filter_rows neg masks ws []) as [t|] eqn:Et; [|discriminate]. cbn [option_map] in H. inversion H; subst rs'.
        split; [reflexivity|]. split; [|reflexivity]. intros [|i] w' row _ Hr; discriminate.
      * destruct (filter_rows neg masks ws rs0) as [t|] eqn:Et; [|discriminate]. cbn [option_map] in H. inversion H; subst rs'.
        destruct (IH _ _ Et) as (I1 & I2 & I3). split; [cbn [length]; congruence|]. split.
        -- intros [|i] w' row Hw Hr; cbn [nth_error] in *.
           ++ inversion Hw; inversion Hr; subst. exists row. split; [reflexivity|]. now rewrite El.
           ++ now apply I2.
        -- intros [|i] Hi; cbn [length] in Hi; [lia|]. cbn [nth_error]. apply I3. lia.
Qed.

Lemma filter_rows_total n ws : forall rs, length ws = length rs -> (forall r, In r rs -> length r = n) ->
  (forall w m, lookup w masks = Some m -> length m = n) -> exists rs', filter_rows neg masks ws rs = Some rs'.
Proof.
  induction ws as [|w ws IH]; intros rs Hl Hr Hm; cbn [filter_rows]; [now eexists|].
  destruct rs as [|r rs0]; [discriminate|]. cbn [length] in Hl.
  destruct (IH rs0) as [t Ht]; [congruence | intros r0 H0; apply Hr; now right | exact Hm |].
  destruct (lookup w masks) as [m|] eqn:El.
  - destruct (mask_assign_total neg r m) as [r' ->]; [rewrite (Hm w m El); symmetry; apply Hr; now left|].
    rewrite Ht. now eexists.
  - rewrite Ht. now eexists.
Qed.

Lemma filter_all_spec docs : forall scs scs', filter_all neg masks docs scs = Some scs' ->
  length scs' = length scs /\
  forall k ws sc, nth_error docs k = Some ws -> nth_error scs k = Some sc ->
    exists sc', nth_error scs' k = Some sc' /\ filter_sentence neg masks ws sc = Some sc'.
Proof.
  induction docs as [|ws docs IH]; intros scs scs' H; cbn [filter_all] in H.
  - inversion H; subst. split; [reflexivity|]. intros [|k] ws sc Hd; discriminate.
  - destruct scs as [|s scs0].
    + inversion H; subst. split; [reflexivity|]. intros [|k] ws' sc _ Hs; discriminate.
    + destruct (filter_sentence neg masks ws s) as [s'|] eqn:Es; [|discriminate].
      destruct (filter_all neg masks docs scs0) as [t|] eqn:Et; [|discriminate]. cbn [option_map] in H. inversion H; subst scs'.
      destruct (IH _ _ Et) as (I1 & I2). split; [cbn [length]; congruence|].
      intros [|k] ws' sc Hd Hs; cbn [nth_error] in *.
      * inversion Hd; inversion Hs; subst. now exists s'.
      * now apply I2.
Qed.

Lemma filter_all_total n docs : forall scs,
  (forall k ws sc, nth_error docs k = Some ws -> nth_error scs k = Some sc ->
     length ws = nrows (tag sc) /\ forall r, In r (rows (tag sc)) -> length r = n) ->
  (forall w m, lookup w masks = Some m -> length m = n) -> exists scs', filter_all neg masks docs scs = Some scs'.
Proof.
  induction docs as [|ws docs IH]; intros scs H Hm; cbn [filter_all]; [now eexists|].
  destruct scs as [|s scs0]; [now eexists|].
  destruct (H 0 ws s eq_refl eq_refl) as [Hl Hr].
  destruct (filter_rows_total n ws (rows (tag s)) Hl Hr Hm) as [rs' Hrs].
  unfold filter_sentence. rewrite Hrs. cbn [option_map].
  destruct (IH scs0) as [t ->]; [intros k ws' sc Hd Hs; now apply (H (S k)) | exact Hm |]. now eexists.
Qed.
End ApplyFacts.

(* ---------- the whole function ---------- *)
(* what one entry of the result is *)
Definition filtered_value (neg : Z) (cats : list cat) (cd : list (word * list cat)) (w : word) (j : nat) (v : Z) : Z :=
  match lookup w cd with
  | None => v                                               (* the word is not a key of the dictionary *)
  | Some cs => if listed_cat cats cs j then v else neg      (* category number j is listed for the word, or not *)
  end.

Lemma filter_spec neg cats cd d s docs' scs' :
  apply_category_filters neg cats cd d s = Ok (docs', scs') ->
  docs' = doc_list d /\ length scs' = length (sc_list s) /\ length (doc_list d) = length (sc_list s) /\
  forall k ws sc, nth_error (doc_list d) k = Some ws -> nth_error (sc_list s) k = Some sc ->
    exists sc', nth_error scs' k = Some sc' /\
      dep sc' = dep sc /\ ncols (tag sc') = ncols (tag sc) /\ nrows (tag sc') = nrows (tag sc) /\ nrows (tag sc) = length ws /\
      forall i w row, nth_error ws i = Some w -> nth_error (rows (tag sc)) i = Some row ->
        exists row', nth_error (rows (tag sc')) i = Some row' /\ length row' = length row /\
          forall j v, nth_error row j = Some v -> nth_error row' j = Some (filtered_value neg cats cd w j v).
Proof.
  unfold apply_category_filters. intros H.
  destruct (type_check (length cats) d s) as [[docs scs]|e] eqn:Etc; [|discriminate].
  destruct (resolve cats cd) as [dix|e] eqn:Er; [|discriminate].
  destruct scs as [|s0 scs0] eqn:Escs; [discriminate|]. rewrite <- Escs in *.
  destruct (apply_filter neg dix (ncols (tag s0)) docs scs) as [out|] eqn:Ea; [|discriminate].
  inversion H; subst docs' scs'. clear H.
  destruct (type_check_ok _ _ _ _ _ Etc) as (Hd & Hs & Hlen & _ & Hshape).
  unfold apply_filter in Ea. destruct (filter_all_spec _ _ _ _ _ Ea) as (Hl' & Hall).
  subst docs. rewrite Hs in *. split; [reflexivity|]. split; [exact Hl'|]. split; [exact Hlen|].
  intros k ws sc Hk Hsc. destruct (Hall k ws sc Hk Hsc) as (sc' & Hsc' & Hfs).
  exists sc'. split; [exact Hsc'|].
  unfold filter_sentence in Hfs. destruct (filter_rows neg _ ws (rows (tag sc))) as [rs'|] eqn:Efr; [|discriminate].
  cbn [option_map] in Hfs. inversion Hfs; subst sc'. cbn [dep tag ncols rows nrows].
  destruct (filter_rows_spec _ _ _ _ _ Efr) as (R1 & R2 & _).
  pose proof (Hshape k ws sc Hk Hsc) as Hsh. unfold shape_ok in Hsh.
  apply andb_true_iff in Hsh as [Hsh _]. apply andb_true_iff in Hsh as [_ Hsh]. apply andb_true_iff in Hsh as [Hsh _]. apply Nat.eqb_eq in Hsh.
  split; [reflexivity|]. split; [reflexivity|]. split; [exact R1|]. split; [now symmetry|].
  intros i w row Hw Hrow. destruct (R2 i w row Hw Hrow) as (row' & Hr' & Hm).
  exists row'. split; [exact Hr'|].
  rewrite (lookup_map (fun ixs => binarize ixs (ncols (tag s0)))) in Hm. pose proof (resolve_lookup _ _ _ Er w) as Hres. unfold filtered_value.
  destruct (lookup w cd) as [cs|] eqn:Ecd.
  - destruct Hres as (ixs & Hix & Hids). rewrite Hix in Hm. cbn [option_map] in Hm.
    destruct (mask_assign_spec _ _ _ _ Hm) as (M1 & M2 & M3). split; [exact M2|].
    intros j v Hv. destruct (M3 j v Hv) as (b & Hb & Hout).
    assert (Hj : j < ncols (tag s0)).
    { rewrite <- (binarize_length ixs (ncols (tag s0))). rewrite M1. apply nth_error_Some. congruence. }
    rewrite (binarize_nth ixs _ j Hj) in Hb. inversion Hb; subst b.
    rewrite Hout. rewrite (ids_listed _ _ _ Hids j). destruct (listed_cat cats cs j); reflexivity.
  - rewrite Hres in Hm. cbn [option_map] in Hm. subst row'. split; [reflexivity|]. intros j v Hv. exact Hv.
Qed.

(* the function succeeds whenever the shapes are right and the dictionary only mentions known categories *)
Lemma filter_total neg cats cd d s docs scs :
  type_check (length cats) d s = Ok (docs, scs) -> forallb scores_okb (sc_list s) = true ->
  (forall w cs, In (w, cs) cd -> forall c, In c cs -> In c cats) ->
  exists scs', apply_category_filters neg cats cd d s = Ok (docs, scs').
Proof.
  intros Etc Hok Hcd. unfold apply_category_filters. rewrite Etc.
  destruct (resolve_ok cats cd Hcd) as [dix ->].
  destruct (type_check_ok _ _ _ _ _ Etc) as (Hd & Hs & Hlen & Hne & Hshape).
  destruct scs as [|s0 scs0] eqn:Escs; [congruence|]. rewrite <- Escs in *.
  assert (H0 : ncols (tag s0) = length cats).
  { destruct docs as [|ws0 docs0]; [rewrite Escs in Hlen; discriminate|].
    pose proof (Hshape 0 ws0 s0 eq_refl) as Hsh. rewrite Escs in Hsh. specialize (Hsh eq_refl).
    unfold shape_ok in Hsh. apply andb_true_iff in Hsh as [Hsh _]. apply andb_true_iff in Hsh as [Hsh _]. apply Nat.eqb_eq in Hsh. congruence. }
  unfold apply_filter.
  destruct (filter_all_total neg (map (fun p => (fst p, binarize (snd p) (ncols (tag s0)))) dix) (length cats) docs scs) as [out ->]; [| |now eexists].
  - intros k ws sc Hk Hsc. pose proof (Hshape k ws sc Hk Hsc) as Hsh. unfold shape_ok in Hsh.
    apply andb_true_iff in Hsh as [Hsh _]. apply andb_true_iff in Hsh as [Hc Hsh]. apply andb_true_iff in Hsh as [Hsh _].
    apply Nat.eqb_eq in Hsh, Hc. split; [exact Hsh|].
    intros r Hr. rewrite forallb_forall in Hok. assert (Hin : In sc (sc_list s)) by (rewrite <- Hs; eapply nth_error_In; eassumption).
    specialize (Hok sc Hin). unfold scores_okb in Hok. apply andb_true_iff in Hok as [Hok _]. unfold mat_okb in Hok.
    rewrite forallb_forall in Hok. specialize (Hok r Hr). apply Nat.eqb_eq in Hok. congruence.
  - intros w m Hm. rewrite (lookup_map (fun ixs => binarize ixs (ncols (tag s0)))) in Hm. destruct (lookup w dix) as [ixs|]; [|discriminate].
    cbn [option_map] in Hm. inversion Hm. rewrite binarize_length. exact H0.
Qed.

(* ---------- shipped data: boolean checks and their meaning ---------- *)
Section Shipped.
Variable puncts : list text.
Notation parse := (parse_toks puncts).

(* a shipped token list reads to a well-formed value whose own text reads back to it *)
Definition toks_wfb (ts : list text) : bool :=
  match parse ts with
  | Some c => wfb puncts c && match parse (toks c) with Some c' => cat_eqb c' c | None => false end
  | None => false
  end.
Lemma toks_wfb_ok ts : toks_wfb ts = true -> exists c, parse ts = Some c /\ wf puncts c /\ parse (toks c) = Some c.
Proof.
  unfold toks_wfb. destruct (parse ts) as [c|]; [|discriminate]. intros H. apply andb_true_iff in H as [H1 H2].
  exists c. split; [reflexivity|]. split; [now apply wfb_ok|].
  destruct (parse (toks c)) as [c'|]; [|discriminate]. apply cat_eqb_eq in H2. now subst.
Qed.

Fixpoint parse_all (l : list (list text)) : option (list cat) :=
  match l with
  | [] => Some []
  | ts :: r => match parse ts, parse_all r with Some c, Some cs => Some (c :: cs) | _, _ => None end
  end.
Lemma parse_all_spec l : forall cs, parse_all l = Some cs -> length cs = length l /\
  forall i ts, nth_error l i = Some ts -> exists c, nth_error cs i = Some c /\ parse ts = Some c.
Proof.
  induction l as [|ts r IH]; intros cs H; cbn [parse_all] in H.
  - inversion H; subst. split; [reflexivity|]. intros [|i] ts Hn; discriminate.
  - destruct (parse ts) as [c|] eqn:Ec; [|discriminate]. destruct (parse_all r) as [cs0|] eqn:Er; [|discriminate].
    inversion H; subst cs. destruct (IH _ eq_refl) as [I1 I2]. split; [cbn [length]; congruence|].
    intros [|i] ts' Hn; cbn [nth_error] in *; [inversion Hn; subst; now exists c | now apply I2].
Qed.

Fixpoint nodupb (l : list cat) : bool :=
  match l with [] => true | c :: r => negb (existsb (cat_eqb c) r) && nodupb r end.
Lemma nodupb_ok l : nodupb l = true -> NoDup l.
Proof.
  induction l as [|c r IH]; cbn [nodupb]; intros H; [constructor|].
  apply andb_true_iff in H as [H1 H2]. constructor; [|now apply IH].
  intros Hin. apply negb_true_iff in H1. assert (existsb (cat_eqb c) r = true); [|congruence].
  apply existsb_exists. exists c. split; [assumption | apply cat_eqb_refl].
Qed.

(* dictionary categories: an index into the inventory (same string) or a token list of their own *)
Definition entry_toks (inv : list (list text)) (e : nat + list text) : option (list text) :=
  match e with inl i => nth_error inv i | inr ts => Some ts end.
Definition entry_in (inv : list (list text)) (invc : list cat) (e : nat + list text) : bool :=
  match entry_toks inv e with
  | Some ts => match parse ts with Some c => existsb (cat_eqb c) invc | None => false end
  | None => false
  end.
Lemma entry_in_ok inv invc e : entry_in inv invc e = true -> exists ts c, entry_toks inv e = Some ts /\ parse ts = Some c /\ In c invc.
Proof.
  unfold entry_in. destruct (entry_toks inv e) as [ts|]; [|discriminate]. destruct (parse ts) as [c|] eqn:Ep; [|discriminate].
  intros H. apply existsb_exists in H as [c' [Hin Hc]]. apply cat_eqb_eq in Hc. subst c'. exists ts, c. now repeat split.
Qed.

Definition inv_nodupb (l : list (list text)) : bool :=
  match parse_all l with Some cs => nodupb cs | None => false end.
Lemma inv_nodupb_ok l : inv_nodupb l = true -> exists cs, parse_all l = Some cs /\ NoDup cs.
Proof. unfold inv_nodupb. destruct (parse_all l) as [cs|]; [|discriminate]. intros H. exists cs. split; [reflexivity | now apply nodupb_ok]. Qed.

Definition dict_inb (inv : list (list text)) (entries : list (nat + list text)) : bool :=
  match parse_all inv with Some cs => forallb (entry_in inv cs) entries | None => false end.
Lemma dict_inb_ok inv entries : dict_inb inv entries = true -> exists cs, parse_all inv = Some cs /\
  forall e, In e entries -> exists ts c, entry_toks inv e = Some ts /\ parse ts = Some c /\ In c cs.
Proof.
  unfold dict_inb. destruct (parse_all inv) as [cs|]; [|discriminate]. intros H. exists cs. split; [reflexivity|].
  intros e He. rewrite forallb_forall in H. exact (entry_in_ok inv cs e (H e He)).
Qed.
End Shipped.
