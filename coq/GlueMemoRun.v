(* depccg.parsing.run (parsing.py:100-169), the wrapper around depccg._parsing.run.   MODEL ONLY.

     doc, score_results = _type_check(doc, score_results, categories)          -> Filter.type_check (model of C17)
     kwargs = {'num_tags': score_results[0][0].shape[1], ...}
     if len(doc) <= max_chunk_size:  results = depccg._parsing.run(doc, score_results, *args, **kwargs)
     else:
         chunks = _chunks(list(zip(doc, score_results)), processes)           (a generator: nothing is evaluated yet)
         with Pool(processes) as pool:                                         (ValueError when processes < 1)
             for chunk_index, chunk in enumerate(chunks): ... apply_async(depccg._parsing.run, (list(doc_), list(score_results_)) + args,
                                                                        {**kwargs, 'process_id': chunk_index})
             results = [result for task in tasks for result in task.get()]    (task order; get() re-raises a worker's exception)

   The parser depccg._parsing.run is the parameter `inner`: process id, num_tags, the sentences it is given (tokens
   zipped with their scores) |-> one result per sentence, or an exception.  Exceptions are explicit values.
   max_chunk_size and processes are Python ints: Z. *)
From Coq Require Import List ZArith Bool Arith.
Import ListNotations.
Require Import Cat Filter AStar Glue GlueMemo.
Open Scope nat_scope.

Inductive rerr (E : Type) :=
| RType (e : Filter.err)      (* _type_check raised (IndexError / RuntimeError); nothing else has happened *)
| RScores0                    (* IndexError of score_results[0] - proved unreachable after _type_check *)
| RPool                       (* ValueError of Pool(processes), processes < 1 *)
| RChunks                     (* ValueError of range(0, 0, 0) inside _chunks - proved unreachable from run *)
| RInner (e : E).             (* depccg._parsing.run raised: in-process, or re-raised by the first failing task.get() *)
Arguments RType {E} e. Arguments RScores0 {E}. Arguments RPool {E}. Arguments RChunks {E}. Arguments RInner {E} e.
Inductive rres (E A : Type) := ROk (a : A) | RErr (e : rerr E).
Arguments ROk {E A} a. Arguments RErr {E A} e.
Inductive ires (E A : Type) := IOk (a : A) | IErr (e : E).
Arguments IOk {E A} a. Arguments IErr {E A} e.

Definition lift {E A} (r : ires E A) : rres E A := match r with IOk a => ROk a | IErr e => RErr (RInner e) end.
(* [result for task in tasks for result in task.get()]: tasks in order, the first exception wins *)
Fixpoint collect {E A} (ts : list (ires E (list A))) : ires E (list A) :=
  match ts with
  | [] => IOk []
  | IErr e :: _ => IErr e
  | IOk l :: r => match collect r with IOk m => IOk (l ++ m) | IErr e => IErr e end
  end.

Section Run.
Variables E R : Type.
Variable inner : nat -> nat -> list (list word * scores) -> ires E (list R).

Definition run (ntags : nat) (d : docarg) (s : scarg) (max_chunk_size processes : Z) : rres E (list R) :=
  match type_check ntags d s with
  | Err e => RErr (RType e)
  | Ok (docs, scs) =>
      match scs with
      | [] => RErr RScores0
      | s0 :: _ =>
          let nt := ncols (Filter.tag s0) in
          if (Z.of_nat (length docs) <=? max_chunk_size)%Z then lift (inner 0 nt (combine docs scs))
          else if (processes <? 1)%Z then RErr RPool
          else match chunks_py (combine docs scs) (Z.to_nat processes) with
               | None => RErr RChunks
               | Some cs => lift (collect (map (fun ic => inner (fst ic) nt (snd ic)) (enum cs)))
               end
      end
  end.
End Run.

(* ---------- for the correspondence with the real wrapper: a parser that only reports how it was called ---------- *)
(* per sentence: (process_id, num_tags, number of sentences in this call, number of tokens); raises iff `fails` *)
Definition probe (fails : bool) (pid nt : nat) (l : list (list word * scores)) : ires unit (list (nat * nat * nat * nat)) :=
  if fails then IErr tt else IOk (map (fun x => (pid, nt, length l, length (fst x))) l).

Inductive obs := OErr (code : nat) | OOk (l : list (nat * nat * nat * nat)).
(* error codes: 1 IndexError, 2 RuntimeError of _type_check, 3 ValueError, 4 the parser's own exception *)
Definition observe (r : rres unit (list (nat * nat * nat * nat))) : obs :=
  match r with
  | ROk l => OOk l
  | RErr (RType EIndex) => OErr 1
  | RErr (RType _) => OErr 2
  | RErr RScores0 => OErr 1
  | RErr RPool => OErr 3
  | RErr RChunks => OErr 3
  | RErr (RInner _) => OErr 4
  end.
Fixpoint quad_list_eqb (a b : list (nat * nat * nat * nat)) : bool :=
  match a, b with
  | [], [] => true
  | (p, q, r, s) :: a', (p', q', r', s') :: b' => Nat.eqb p p' && Nat.eqb q q' && Nat.eqb r r' && Nat.eqb s s' && quad_list_eqb a' b'
  | _, _ => false
  end.
Definition obs_eqb (a b : obs) : bool :=
  match a, b with OErr x, OErr y => Nat.eqb x y | OOk x, OOk y => quad_list_eqb x y | _, _ => false end.
Definition run_agrees (fails : bool) (ntags : nat) (d : docarg) (s : scarg) (mcs procs : Z) (real : obs) : bool :=
  obs_eqb (observe (run unit (nat * nat * nat * nat) (probe fails) ntags d s mcs procs)) real.
