(* The memo layer (GlueMemo.v) is transparent: whatever lookups happened before - earlier sentences of the same call, in
   any order - the table stays injective, ids keep their meaning, every cached vector is what the grammar returns for
   the categories its key names, and the decoded answer of every lookup is the grammar's answer.  Plus the
   per-sentence loop of run: alignment and locality of failures. *)
From Coq Require Import List ZArith Bool Arith Lia.
Import ListNotations.
Require Import Cat CatFacts Tree GramPrims AStar Glue GlueProofs GlueMemo.
Open Scope nat_scope.

(* ---------- tables ---------- *)
Lemma nth_error_ext {A} (t u : list A) j x : nth_error t j = Some x -> nth_error (t ++ u) j = Some x.
Proof. intros H. rewrite nth_error_app1; [assumption|]. apply nth_error_Some. congruence. Qed.

Lemma intern_all_spec rs : forall t, NoDup t ->
  let '(ids, t') := intern_all rs t in
  (exists u, t' = t ++ u) /\ NoDup t' /\ Forall2 (fun i r => nth_error t' i = Some (rcat r)) ids rs.
Proof.
  induction rs as [|r rs IH]; intros t Hnd; simpl.
  - split; [exists []; now rewrite app_nil_r|]. split; [assumption | constructor].
  - pose proof (get_or_add_spec (rcat r) t Hnd) as Hg. destruct (get_or_add (rcat r) t) as [i t1].
    destruct Hg as ([u1 Hu1] & Hi & Hnd1 & _).
    specialize (IH t1 Hnd1). destruct (intern_all rs t1) as [is_ t2]. destruct IH as ([u2 Hu2] & Hnd2 & HF).
    split; [exists (u1 ++ u2); subst; now rewrite app_assoc|]. split; [assumption|].
    constructor; [|assumption]. subst t2. now apply nth_error_ext.
Qed.

Lemma intern_cats_spec cs : forall t, NoDup t ->
  let '(ids, t') := intern_cats cs t in
  (exists u, t' = t ++ u) /\ NoDup t' /\ Forall2 (fun i c => nth_error t' i = Some c) ids cs.
Proof.
  induction cs as [|c cs IH]; intros t Hnd; simpl.
  - split; [exists []; now rewrite app_nil_r|]. split; [assumption | constructor].
  - pose proof (get_or_add_spec c t Hnd) as Hg. destruct (get_or_add c t) as [i t1].
    destruct Hg as ([u1 Hu1] & Hi & Hnd1 & _).
    specialize (IH t1 Hnd1). destruct (intern_cats cs t1) as [is_ t2]. destruct IH as ([u2 Hu2] & Hnd2 & HF).
    split; [exists (u1 ++ u2); subst; now rewrite app_assoc|]. split; [assumption|].
    constructor; [|assumption]. subst t2. now apply nth_error_ext.
Qed.

Lemma intern_all_length rs : forall t, length (fst (intern_all rs t)) = length rs.
Proof.
  induction rs as [|r rs IH]; intros t; simpl; [reflexivity|].
  destruct (get_or_add (rcat r) t) as [i t1]. specialize (IH t1). destruct (intern_all rs t1) as [is_ t2]. simpl in *. now rewrite IH.
Qed.

(* ---------- keys and the cache ---------- *)
Lemma mkey_eqb_eq a b : mkey_eqb a b = true <-> a = b.
Proof.
  destruct a as [x y|x], b as [x' y'|x']; simpl; split; intros H; try discriminate.
  - apply andb_true_iff in H as [H1 H2]. apply Nat.eqb_eq in H1, H2. now subst.
  - inversion H; subst. now rewrite !Nat.eqb_refl.
  - apply Nat.eqb_eq in H. now subst.
  - inversion H; subst. apply Nat.eqb_refl.
Qed.

Lemma mkey_eqb_refl a : mkey_eqb a a = true.
Proof. now apply mkey_eqb_eq. Qed.

Section Memo.
Variable gbin : cat -> cat -> list cres.
Variable gun : cat -> list cres.
Notation memo_step := (memo_step gbin gun).
Notation memo_ops := (memo_ops gbin gun).
Notation op_cats := (op_cats gbin gun).

(* what the grammar returns for the categories a key names under a table *)
Definition key_cats (t : table) (k : mkey) : option (list cres) :=
  match k with
  | KBin x y => match nth_error t x, nth_error t y with Some cx, Some cy => Some (gbin cx cy) | _, _ => None end
  | KUn x => match nth_error t x with Some cx => Some (gun cx) | None => None end
  end.

Lemma key_cats_key_of t o : key_cats t (key_of o) = op_cats t o.
Proof. destruct o; reflexivity. Qed.

Lemma key_cats_ext t u k rs : key_cats t k = Some rs -> key_cats (t ++ u) k = Some rs.
Proof.
  destruct k as [x y|x]; simpl.
  - destruct (nth_error t x) as [cx|] eqn:Ex; [|discriminate]. destruct (nth_error t y) as [cy|] eqn:Ey; [|discriminate].
    now rewrite (nth_error_ext _ u _ _ Ex), (nth_error_ext _ u _ _ Ey).
  - destruct (nth_error t x) as [cx|] eqn:Ex; [|discriminate]. now rewrite (nth_error_ext _ u _ _ Ex).
Qed.

(* a cached vector is sound under a table: it lists, in order, the grammar's results for the categories the key names
   now, and every stored id names its result's category *)
Definition entry_ok (t : table) (k : mkey) (e : mentry) : Prop :=
  exists rs, key_cats t k = Some rs /\ map snd e = rs /\ Forall (fun p => nth_error t (fst p) = Some (rcat (snd p))) e.

Definition coherent (st : mstate) : Prop :=
  NoDup (mtable st) /\ forall k e, cache_find k (mcache st) = Some e -> entry_ok (mtable st) k e.

Lemma entry_ok_ext t u k e : entry_ok t k e -> entry_ok (t ++ u) k e.
Proof.
  intros (rs & Hk & Hm & HF). exists rs. split; [now apply key_cats_ext|]. split; [assumption|].
  eapply Forall_impl; [|exact HF]. intros p Hp. now apply nth_error_ext.
Qed.

Lemma combine_ok t' ids rs : Forall2 (fun i r => nth_error t' i = Some (rcat r)) ids rs ->
  map snd (combine ids rs) = rs /\ Forall (fun p => nth_error t' (fst p) = Some (rcat (snd p))) (combine ids rs).
Proof.
  intros HF. induction HF as [|i r ids rs Hir _ [IH1 IH2]]; simpl; [split; [reflexivity | constructor]|].
  split; [now rewrite IH1 | now constructor].
Qed.

(* ---------- one lookup ---------- *)
Theorem memo_step_coherent o st e st' : coherent st -> memo_step o st = Some (e, st') ->
  coherent st' /\ (exists u, mtable st' = mtable st ++ u) /\
  (forall j x, nth_error (mtable st) j = Some x -> nth_error (mtable st') j = Some x) /\
  entry_ok (mtable st') (key_of o) e.
Proof.
  intros [Hnd Hc] H. unfold GlueMemo.memo_step in H.
  destruct (cache_find (key_of o) (mcache st)) as [e0|] eqn:Ef.
  - inversion H; subst. split; [now split|]. split; [exists []; now rewrite app_nil_r|]. split; [auto | now apply Hc].
  - destruct (op_cats (mtable st) o) as [rs|] eqn:Eo; [|discriminate].
    pose proof (intern_all_spec rs (mtable st) Hnd) as Hi. destruct (intern_all rs (mtable st)) as [ids t'].
    destruct Hi as ([u Hu] & Hnd' & HF). inversion H; subst e st'; clear H. simpl.
    destruct (combine_ok _ _ _ HF) as [Hm Hall].
    assert (Hnew : entry_ok t' (key_of o) (combine ids rs)).
    { exists rs. split; [|split; assumption]. subst t'. apply key_cats_ext. now rewrite key_cats_key_of. }
    split; [|split; [now exists u | split; [intros j x Hj; subst t'; now apply nth_error_ext | exact Hnew]]].
    split; [assumption|]. intros k e Hk. simpl in Hk.
    destruct (mkey_eqb k (key_of o)) eqn:Ek.
    + apply mkey_eqb_eq in Ek. inversion Hk; subst. exact Hnew.
    + subst t'. apply entry_ok_ext. now apply Hc.
Qed.

(* a lookup on ids of the table never fails *)
Theorem memo_step_total o st : (match o with OBin x y => x < length (mtable st) /\ y < length (mtable st) | OUn x => x < length (mtable st) end) ->
  exists e st', memo_step o st = Some (e, st').
Proof.
  intros Hb. unfold GlueMemo.memo_step. destruct (cache_find (key_of o) (mcache st)) as [e0|]; [now exists e0, st|].
  assert (Ho : exists rs, op_cats (mtable st) o = Some rs).
  { destruct o as [x y|x]; simpl.
    - destruct Hb as [Hx Hy]. apply nth_error_Some in Hx, Hy.
      destruct (nth_error (mtable st) x); [|congruence]. destruct (nth_error (mtable st) y); [|congruence]. eauto.
    - apply nth_error_Some in Hb. destruct (nth_error (mtable st) x); [|congruence]. eauto. }
  destruct Ho as [rs ->]. destruct (intern_all rs (mtable st)) as [ids t']. eauto.
Qed.

(* ---------- any sequence of lookups ---------- *)
Theorem memo_ops_coherent_from os : forall st st', coherent st -> memo_ops os st = Some st' ->
  coherent st' /\ (exists u, mtable st' = mtable st ++ u) /\
  (forall j x, nth_error (mtable st) j = Some x -> nth_error (mtable st') j = Some x).
Proof.
  induction os as [|o os IH]; intros st st' Hc H; simpl in H.
  - inversion H; subst. split; [assumption|]. split; [exists []; now rewrite app_nil_r | auto].
  - destruct (memo_step o st) as [[e st1]|] eqn:E; [|discriminate].
    destruct (memo_step_coherent _ _ _ _ Hc E) as (Hc1 & [u1 Hu1] & Hk1 & _).
    destruct (IH _ _ Hc1 H) as (Hc' & [u2 Hu2] & Hk2).
    split; [assumption|]. split; [exists (u1 ++ u2); rewrite Hu2, Hu1; now rewrite app_assoc | auto].
Qed.

Lemma init_coherent cats roots : NoDup cats -> coherent (init_state cats roots) /\ exists u, mtable (init_state cats roots) = cats ++ u.
Proof.
  intros Hnd. unfold init_state, coherent; simpl.
  pose proof (intern_cats_spec roots cats Hnd) as H. destruct (intern_cats roots cats) as [ids t']. simpl.
  destruct H as (Hu & Hnd' & _). split; [split; [assumption | intros k e Hk; discriminate] | assumption].
Qed.

(* from the initial state of a call: the input category list (no duplicates - run raises otherwise), root categories
   interned, empty cache *)
Theorem memo_ops_coherent cats roots os st : NoDup cats -> memo_ops os (init_state cats roots) = Some st ->
  coherent st /\ (exists u, mtable st = cats ++ u) /\ (forall j x, nth_error cats j = Some x -> nth_error (mtable st) j = Some x).
Proof.
  intros Hnd H. destruct (init_coherent cats roots Hnd) as [Hc [u0 Hu0]].
  destruct (memo_ops_coherent_from _ _ _ Hc H) as (Hc' & [u Hu] & Hk).
  split; [assumption|]. split; [exists (u0 ++ u); rewrite Hu, Hu0; now rewrite app_assoc|].
  intros j x Hj. apply Hk. rewrite Hu0. now apply nth_error_ext.
Qed.

(* lexical ids are the positions in the input list, before and after any history *)
Corollary lexical_ids_are_positions cats roots os st j x : NoDup cats -> memo_ops os (init_state cats roots) = Some st ->
  nth_error cats j = Some x -> nth_error (mtable st) j = Some x /\ forall i, nth_error (mtable st) i = Some x -> i = j.
Proof.
  intros Hnd H Hj. destruct (memo_ops_coherent _ _ _ _ Hnd H) as ([Hnd' _] & _ & Hk).
  split; [now apply Hk|]. intros i Hi. apply (proj1 (NoDup_nth_error (mtable st)) Hnd').
  - apply nth_error_Some. congruence.
  - rewrite Hi. symmetry. now apply Hk.
Qed.

(* ids are never reassigned, and no category ever has two ids *)
Theorem ids_never_reassigned os st st' : coherent st -> memo_ops os st = Some st' ->
  (forall j x, nth_error (mtable st) j = Some x -> nth_error (mtable st') j = Some x) /\
  (forall i j x, nth_error (mtable st') i = Some x -> nth_error (mtable st') j = Some x -> i = j).
Proof.
  intros Hc H. destruct (memo_ops_coherent_from _ _ _ Hc H) as ([Hnd' _] & _ & Hk). split; [assumption|].
  intros i j x Hi Hj. apply (proj1 (NoDup_nth_error (mtable st')) Hnd').
  - apply nth_error_Some. congruence.
  - congruence.
Qed.

(* ---------- transparency ---------- *)
Lemma decode_ok t e : Forall (fun p => nth_error t (fst p) = Some (rcat (snd p))) e -> decode t e = Some (map snd e).
Proof.
  intros HF. unfold decode. induction HF as [|p e Hp _ IH]; simpl; [reflexivity|].
  rewrite Hp. simpl in IH. rewrite IH. destruct p as [i r]. destruct r. reflexivity.
Qed.

(* the decoded answer of a lookup, in any coherent state, is the grammar's answer for the categories the ids name *)
Theorem memo_transparent_step o st e st' : coherent st -> memo_step o st = Some (e, st') ->
  exists rs, op_cats (mtable st) o = Some rs /\ decode (mtable st') e = Some rs.
Proof.
  intros Hc H. destruct (memo_step_coherent _ _ _ _ Hc H) as (_ & [u Hu] & _ & (rs & Hk & Hm & HF)).
  exists rs. split.
  - rewrite key_cats_key_of in Hk. destruct Hc as [_ Hcc]. unfold GlueMemo.memo_step in H.
    destruct (cache_find (key_of o) (mcache st)) as [e0|] eqn:Ef.
    + inversion H; subst. exact Hk.
    + destruct (op_cats (mtable st) o) as [rs0|] eqn:Eo; [|discriminate].
      rewrite Hu in Hk. rewrite <- key_cats_key_of in Eo. apply (key_cats_ext _ u) in Eo. rewrite key_cats_key_of in Eo. congruence.
  - rewrite <- Hm. now apply decode_ok.
Qed.

(* ... in any state reachable from the start of a call: the answer does not depend on the lookups made before *)
Theorem memo_transparent cats roots os st o e st' : NoDup cats ->
  memo_ops os (init_state cats roots) = Some st -> memo_step o st = Some (e, st') ->
  exists rs, op_cats (mtable st) o = Some rs /\ decode (mtable st') e = Some rs.
Proof.
  intros Hnd H Hs. destruct (memo_ops_coherent _ _ _ _ Hnd H) as (Hc & _). now apply (memo_transparent_step o st).
Qed.

(* two histories, two tables, possibly different ids for the same categories: same decoded answers *)
Corollary memo_history_independent st1 st2 o1 o2 e1 e2 st1' st2' : coherent st1 -> coherent st2 ->
  op_cats (mtable st1) o1 = op_cats (mtable st2) o2 ->
  memo_step o1 st1 = Some (e1, st1') -> memo_step o2 st2 = Some (e2, st2') ->
  decode (mtable st1') e1 = decode (mtable st2') e2.
Proof.
  intros Hc1 Hc2 Ho H1 H2.
  destruct (memo_transparent_step _ _ _ _ Hc1 H1) as (rs1 & Ho1 & Hd1).
  destruct (memo_transparent_step _ _ _ _ Hc2 H2) as (rs2 & Ho2 & Hd2). congruence.
Qed.

(* once cached, an answer stays: later lookups of the same key return the very same vector *)
Theorem cached_answer_stable o os st e st1 st2 : memo_step o st = Some (e, st1) -> memo_ops os st1 = Some st2 ->
  cache_find (key_of o) (mcache st2) = Some e.
Proof.
  intros H Hos.
  assert (H1 : cache_find (key_of o) (mcache st1) = Some e).
  { unfold GlueMemo.memo_step in H. destruct (cache_find (key_of o) (mcache st)) as [e0|] eqn:Ef.
    - inversion H; subst. exact Ef.
    - destruct (op_cats (mtable st) o) as [rs|]; [|discriminate]. destruct (intern_all rs (mtable st)) as [ids t'].
      inversion H; subst. simpl. now rewrite mkey_eqb_refl. }
  clear H. revert st1 st2 Hos H1. induction os as [|o2 os IH]; intros st1 st2 Hos H1; simpl in Hos.
  - inversion Hos; now subst.
  - destruct (memo_step o2 st1) as [[e2 st3]|] eqn:E; [|discriminate]. apply (IH st3 st2 Hos).
    unfold GlueMemo.memo_step in E. destruct (cache_find (key_of o2) (mcache st1)) as [e0|] eqn:Ef.
    + inversion E; subst. exact H1.
    + destruct (op_cats (mtable st1) o2) as [rs|]; [|discriminate]. destruct (intern_all rs (mtable st1)) as [ids t'].
      inversion E; subst. simpl. destruct (mkey_eqb (key_of o) (key_of o2)) eqn:Ek; [|assumption].
      apply mkey_eqb_eq in Ek. rewrite Ek in H1. congruence.
Qed.

(* ---------- the per-sentence loop ---------- *)
Section Loop.
Variables S R : Type.
Variable slen : S -> nat.
Variable placeholder : R.
Variable search : S -> mstate -> list mop * option (list R).
Notation run_loop := (run_loop gbin gun S R slen placeholder search).

(* what sentence s contributes when its search starts in state st *)
Definition sentence_result (max_length : nat) (s : S) (st : mstate) : list R :=
  if max_length <? slen s then [placeholder]
  else match snd (search s st) with Some trees => trees | None => [placeholder] end.

(* one result list per sentence, in order; a sentence that is too long or whose search fails (status 1) contributes
   exactly [placeholder] and nothing else changes; every sentence starts from a coherent memo state *)
Theorem failure_is_local max_length sents : forall st rs st', coherent st -> run_loop max_length sents st = Some (rs, st') ->
  coherent st' /\
  Forall2 (fun s r => exists sti, coherent sti /\ r = sentence_result max_length s sti /\
                      (max_length < slen s -> r = [placeholder]) /\
                      (snd (search s sti) = None -> r = [placeholder])) sents rs.
Proof.
  induction sents as [|s sents IH]; intros st rs st' Hc H; simpl in H.
  - inversion H; subst. split; [assumption | constructor].
  - destruct (max_length <? slen s) eqn:El.
    + destruct (run_loop max_length sents st) as [[rs0 st0]|] eqn:E; [|discriminate]. inversion H; subst.
      destruct (IH _ _ _ Hc E) as [Hc' HF]. split; [assumption|]. constructor; [|assumption].
      exists st. unfold sentence_result. rewrite El. split; [assumption|]. repeat split; auto.
    + destruct (search s st) as [os out] eqn:Es.
      destruct (memo_ops os st) as [st1|] eqn:Eo; [|discriminate].
      destruct (run_loop max_length sents st1) as [[rs0 st0]|] eqn:E; [|discriminate]. inversion H; subst.
      destruct (memo_ops_coherent_from _ _ _ Hc Eo) as (Hc1 & _).
      destruct (IH _ _ _ Hc1 E) as [Hc' HF]. split; [assumption|]. constructor; [|assumption].
      exists st. unfold sentence_result. rewrite El, Es. simpl. split; [assumption|]. repeat split; auto.
      * intros Hlt. apply Nat.ltb_ge in El. lia.
      * intros ->. reflexivity.
Qed.

Corollary results_align max_length sents st rs st' : run_loop max_length sents st = Some (rs, st') -> length rs = length sents.
Proof.
  revert st rs st'. induction sents as [|s sents IH]; intros st rs st' H; simpl in H.
  - inversion H; now subst.
  - destruct (max_length <? slen s).
    + destruct (run_loop max_length sents st) as [[rs0 st0]|] eqn:E; [|discriminate]. inversion H; subst. simpl. f_equal. eapply IH; eassumption.
    + destruct (search s st) as [os out]. destruct (memo_ops os st) as [st1|]; [|discriminate].
      destruct (run_loop max_length sents st1) as [[rs0 st0]|] eqn:E; [|discriminate]. inversion H; subst. simpl. f_equal. eapply IH; eassumption.
Qed.

(* composition for an ABSTRACT search function: IF the outcome of a sentence's search, decoded to categories, is the same
   from every coherent memo state, THEN every sentence's result in a batch is its result when parsed alone from the
   initial state.  Superseded as a property theorem by GlueMemoSearchProofs.brun_iff_alone / brun_p_deterministic, where
   the search is the concrete one reading the memo incrementally and the premise is proved; kept as a lemma about run_loop. *)
Theorem batch_equals_alone max_length sents st0 st rs st' :
  (forall s st1 st2, coherent st1 -> coherent st2 -> snd (search s st1) = snd (search s st2)) ->
  coherent st0 -> coherent st -> run_loop max_length sents st = Some (rs, st') ->
  rs = map (fun s => sentence_result max_length s st0) sents.
Proof.
  intros Hind Hc0 Hc H. destruct (failure_is_local _ _ _ _ _ Hc H) as [_ HF]. clear H.
  induction HF as [|s r sents rs (sti & Hci & Hr & _) _ IH]; simpl; [reflexivity|].
  rewrite IH. f_equal. rewrite Hr. unfold sentence_result. now rewrite (Hind s sti st0 Hci Hc0).
Qed.
End Loop.
End Memo.
