(* C13 - extra model pieces for "categories behave as values" (depccg/cat.py).
   MODEL ONLY.  Cat.v already has cat_eqb (__eq__), cat_xor (__xor__), eq_str (== with a str),
   clear_features, feat_eq_str (Feature == "text"), show (__str__), atoms, skeleton.

   Here: the dataclass-generated __hash__ and hashed containers.
   @dataclass(frozen=True) with eq=True and a hand-written __eq__ in the class body still gets the
   generated field hash:  __hash__(self) = hash((self.f1, ..., self.fn))   (dataclasses._hash_action "add").
   hash(tuple) is a function of the hashes of the items, hash(str) and hash(None) are opaque: all three are
   Section variables, so every theorem holds for *every* string/tuple hash (any PYTHONHASHSEED, any Python). *)
From Coq Require Import List NArith ZArith Bool.
Import ListNotations.
Require Import Cat.

Section Hash.
Variable hstr : text -> Z.          (* hash(some str) *)
Variable hnone : Z.                 (* hash(None) *)
Variable htuple : list Z -> Z.      (* hash(tuple) from the item hashes *)

(* UnaryFeature: fields (value,);  TernaryFeature: fields (kv1, kv2, kv3), each a 2-tuple of str *)
Definition feat_hash (f : feat) : Z :=
  match f with
  | FNone => htuple [hnone]
  | FUn v => htuple [hstr v]
  | FTer k1 v1 k2 v2 k3 v3 => htuple [htuple [hstr k1; hstr v1]; htuple [hstr k2; hstr v2]; htuple [hstr k3; hstr v3]]
  end.

(* Atom: fields (base, feature);  Functor: fields (left, slash, right) *)
Fixpoint cat_hash (c : cat) : Z :=
  match c with
  | Atom b f => htuple [hstr b; feat_hash f]
  | Fun l s r => htuple [cat_hash l; hstr s; cat_hash r]
  end.

(* a hashed container (set / dict keys): a key is found iff some stored key has the same hash and is == *)
Definition hashed_mem (c : cat) (keys : list cat) : bool :=
  existsb (fun k => Z.eqb (cat_hash k) (cat_hash c) && cat_eqb k c) keys.
(* dict lookup: value of the first stored key with equal hash that is == (keys of a dict are pairwise non-equal) *)
Fixpoint hashed_get {V : Type} (c : cat) (d : list (cat * V)) : option V :=
  match d with
  | [] => None
  | (k, v) :: r => if Z.eqb (cat_hash k) (cat_hash c) && cat_eqb k c then Some v else hashed_get c r
  end.
End Hash.

(* the same containers without hashing: what "finds them" means *)
Definition plain_mem (c : cat) (keys : list cat) : bool := existsb (fun k => cat_eqb k c) keys.
Fixpoint plain_get {V : Type} (c : cat) (d : list (cat * V)) : option V :=
  match d with
  | [] => None
  | (k, v) :: r => if cat_eqb k c then Some v else plain_get c r
  end.

(* ---------- feature erasure, seen feature by feature ---------- *)
Definition named (names : list text) (f : feat) : bool := existsb (feat_eq_str f) names.
Definition erase (names : list text) (f : feat) : feat := if named names f then FNone else f.
Definition erase_atom (names : list text) (a : text * feat) : text * feat := (fst a, erase names (snd a)).
Definition feats (c : cat) : list feat := map snd (atoms c).

(* a small concrete hash used in Examples only (shows that the abstract parameters can be instantiated) *)
Definition ex_hstr (t : text) : Z := fold_left (fun h c => (h * 31 + Z.of_N c)%Z) t 7%Z.
Definition ex_htuple (l : list Z) : Z := fold_left (fun h x => (h * 1000003 + x)%Z) l 3430008%Z.
