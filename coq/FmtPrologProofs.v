(* C07 - the token-level readers of FmtProlog.v read back what the Prolog printer models write.
   Part 1: the lexer on the printed pieces.  Part 2: category spellings.  Part 3: English terms.  Part 4: Japanese terms. *)
From Coq Require Import List NArith Bool Arith Lia.
Import ListNotations.
Require Import Cat CatFacts Tree GenTables Fmt FmtProofs FmtProlog.
Local Open Scope N_scope.

Lemma Some_inj {A} (a b : A) : Some a = Some b -> a = b.
Proof. intros H. now inversion H. Qed.

(* ================= Part 1: the lexer ================= *)
(* a piece of text that the lexer turns into the tokens ts whatever follows / provided a delimiter (or the end) follows *)
Definition clean (s : text) (ts : list ptok) : Prop := forall rest, plex (s ++ rest) (LN []) = ts ++ plex rest (LN []).
Definition sdelim (rest : text) : Prop := match rest with [] => True | c :: _ => is_delim c = true end.
Definition cleanD (s : text) (ts : list ptok) : Prop := forall rest, sdelim rest -> plex (s ++ rest) (LN []) = ts ++ plex rest (LN []).
Definition hd_delim (b : text) : Prop := match b with [] => False | c :: _ => is_delim c = true end.

Lemma clean_nil : clean [] [].
Proof. intros rest. reflexivity. Qed.

Lemma clean_app a b ta tb : clean a ta -> clean b tb -> clean (a ++ b) (ta ++ tb).
Proof. intros Ha Hb rest. now rewrite <- !app_assoc, Ha, Hb. Qed.

Lemma clean_cleanD a ta : clean a ta -> cleanD a ta.
Proof. intros Ha rest _. apply Ha. Qed.

Lemma clean_appD a b ta tb : clean a ta -> cleanD b tb -> cleanD (a ++ b) (ta ++ tb).
Proof. intros Ha Hb rest Hr. now rewrite <- !app_assoc, Ha, (Hb rest Hr). Qed.

Lemma hd_delim_app b rest : hd_delim b -> sdelim (b ++ rest).
Proof. destruct b as [|c b]; cbn [hd_delim app sdelim]; [tauto | trivial]. Qed.

Lemma cleanD_app a b ta tb : cleanD a ta -> hd_delim b -> clean b tb -> clean (a ++ b) (ta ++ tb).
Proof. intros Ha Hd Hb rest. rewrite <- !app_assoc, (Ha (b ++ rest) (hd_delim_app b rest Hd)), Hb. reflexivity. Qed.

Lemma plex_flush rest acc : sdelim rest -> plex rest (LN acc) = flushN acc ++ plex rest (LN []).
Proof.
  destruct rest as [|c r]; cbn [sdelim plex]; intros H.
  - cbn [flushN]. now rewrite app_nil_r.
  - unfold is_delim in H. destruct (N.eqb c cQ); [reflexivity|]. destruct (is_ws c); [reflexivity|].
    destruct (punct_tok c); [reflexivity | discriminate].
Qed.

Lemma namechar_step c : negb (is_delim c) = true -> N.eqb c cQ = false /\ is_ws c = false /\ punct_tok c = None.
Proof.
  rewrite negb_true_iff. unfold is_delim. intros H.
  destruct (is_ws c); [discriminate|]. destruct (N.eqb c cQ); [discriminate|]. destruct (punct_tok c); [discriminate|]. repeat split.
Qed.

Lemma plex_name s rest acc : namechars s = true -> plex (s ++ rest) (LN acc) = plex rest (LN (rev s ++ acc)).
Proof.
  revert acc. induction s as [|c s IH]; intros acc H; [reflexivity|].
  unfold namechars in H. cbn [forallb] in H. apply andb_true_iff in H as [Hc Hs].
  destruct (namechar_step c Hc) as (E1 & E2 & E3). cbn [app plex]. rewrite E1, E2, E3.
  rewrite (IH (c :: acc) Hs). cbn [rev]. now rewrite <- app_assoc.
Qed.

Lemma name_ok_chars s : name_ok s = true -> s <> [] /\ namechars s = true.
Proof. destruct s as [|c s]; cbn [name_ok]; [discriminate|]. intros H. split; [discriminate | exact H]. Qed.

Lemma flushN_rev s : s <> [] -> flushN (rev s) = [PName s].
Proof.
  intros H. unfold flushN. destruct (rev s) as [|x r] eqn:E.
  - apply (f_equal (@rev N)) in E. rewrite rev_involutive in E. cbn in E. congruence.
  - rewrite <- E, rev_involutive. reflexivity.
Qed.

Lemma cleanD_name s : name_ok s = true -> cleanD s [PName s].
Proof.
  intros H rest Hr. destruct (name_ok_chars s H) as [Hne Hc].
  rewrite (plex_name s rest [] Hc), app_nil_r, (plex_flush rest _ Hr), (flushN_rev s Hne). reflexivity.
Qed.

Lemma clean_indent d : clean (pl_indent d) [].
Proof. intros rest. induction d as [|d IH]; [reflexivity|]. cbn [pl_indent repeat app plex]. exact IH. Qed.

Lemma clean_nl : clean [cNL] [].                 Proof. intros rest. reflexivity. Qed.
Lemma clean_sp : clean [cSP] [].                 Proof. intros rest. reflexivity. Qed.
Lemma clean_comma : clean [cCOMMA] [PComma].     Proof. intros rest. reflexivity. Qed.
Lemma clean_cs : clean s_cs [PComma].            Proof. intros rest. reflexivity. Qed.
Lemma clean_cnl : clean s_cnl [PComma].          Proof. intros rest. reflexivity. Qed.
Lemma clean_lp : clean [cLP] [PLP].              Proof. intros rest. reflexivity. Qed.
Lemma clean_rp : clean [cRP] [PRP].              Proof. intros rest. reflexivity. Qed.
Lemma clean_bs : clean [cBS] [PSlash cBS].       Proof. intros rest. reflexivity. Qed.

Definition slash_toks (s : text) : list ptok := match s with [c] => [PSlash c] | _ => [] end.
Lemma clean_slash s : is_slash s = true -> clean s (slash_toks s) /\ hd_delim s.
Proof.
  intros H. apply is_slash_slashP in H. destruct H as [-> | [-> | ->]]; (split; [intros rest; reflexivity | reflexivity]).
Qed.

(* quoted atoms *)
Lemma plex_q s rest acc : no_bs s = true -> plex (esc_pl s ++ rest) (LQ acc) = plex rest (LQ (rev s ++ acc)).
Proof.
  unfold no_bs, has. revert acc. induction s as [|c s IH]; intros acc H; [reflexivity|].
  cbn [existsb] in H. rewrite negb_true_iff, orb_false_iff in H. destruct H as [Hc Hs].
  cbn [esc_pl flat_map]. fold (esc_pl s). cbn [rev]. rewrite <- (app_assoc (rev s)). cbn [app].
  destruct (N.eqb_spec c cQ) as [->|Hq].
  - cbn [app plex]. change (N.eqb cBS cQ) with false. change (N.eqb cBS cBS) with true. cbv beta iota.
    apply IH. now rewrite negb_true_iff.
  - cbn [app plex]. apply N.eqb_neq in Hq. rewrite Hq. rewrite N.eqb_sym in Hc. rewrite Hc. apply IH. now rewrite negb_true_iff.
Qed.

Lemma clean_quoted s : no_bs s = true -> clean (quoted s) [PQ s].
Proof.
  intros H rest. unfold quoted. rewrite <- !app_assoc. cbn [app plex]. change (N.eqb cQ cQ) with true. cbv beta iota. cbn [flushN app].
  rewrite (plex_q s _ [] H), app_nil_r. cbn [plex]. change (N.eqb cQ cQ) with true. cbv beta iota. now rewrite rev_involutive.
Qed.

(* the five quoted fields of a leaf, followed by tl *)
Definition q5 (x : tok5) (tl : list ptok) : list ptok :=
  let '(a, b, c, d, e) := x in PQ a :: PComma :: PQ b :: PComma :: PQ c :: PComma :: PQ d :: PComma :: PQ e :: tl.

(* str(k) is a name *)
Lemma digit_not_delim c : 48 <= c -> c <= 57 -> negb (is_delim c) = true.
Proof.
  intros H1 H2. rewrite negb_true_iff. unfold is_delim, is_ws, punct_tok, cQ, cLP, cRP, cCOMMA, cSL, cBS, cBAR.
  repeat match goal with |- context [N.eqb c ?k] => replace (N.eqb c k) with false by (symmetry; apply N.eqb_neq; lia) end. reflexivity.
Qed.

Lemma digits_namechars fuel n acc : namechars acc = true -> namechars (digits fuel n acc) = true.
Proof.
  revert n acc. induction fuel as [|f IH]; intros n acc H; cbn [digits]; [exact H|].
  assert (Hd : namechars ((48 + n mod 10) :: acc) = true).
  { unfold namechars. cbn [forallb]. rewrite andb_true_iff. split; [|exact H].
    pose proof (N.mod_upper_bound n 10 ltac:(discriminate)) as Hm. revert Hm. generalize (n mod 10). intros m Hm. apply digit_not_delim; lia. }
  destruct (N.eqb (n / 10) 0); [exact Hd | now apply IH].
Qed.

Lemma digits_nonempty fuel n acc : acc <> [] -> digits fuel n acc <> [].
Proof.
  revert n acc. induction fuel as [|f IH]; intros n acc H; cbn [digits]; [exact H|].
  destruct (N.eqb (n / 10) 0); [discriminate | apply IH; discriminate].
Qed.

Lemma show_nat_name k : name_ok (show_nat k) = true.
Proof.
  unfold show_nat, show_N. set (n := N.of_nat k). set (f := N.size_nat n).
  assert (Hc : namechars (digits (S f) n []) = true) by (now apply digits_namechars).
  assert (Hn : digits (S f) n [] <> []).
  { cbn [digits]. destruct (N.eqb (n / 10) 0); [discriminate | apply digits_nonempty; discriminate]. }
  destruct (digits (S f) n []) as [|x r]; [congruence | exact Hc].
Qed.

(* ================= Part 2: category spellings ================= *)
Lemma split_colon_none b acc : has cCOLON b = false -> split_colon b acc = (rev acc ++ b, None).
Proof.
  unfold has. revert acc. induction b as [|c b IH]; intros acc H; cbn [split_colon].
  - now rewrite app_nil_r.
  - cbn [existsb] in H. apply orb_false_iff in H as [Hc Hb]. rewrite N.eqb_sym in Hc. rewrite Hc, (IH (c :: acc) Hb). cbn [rev]. now rewrite <- app_assoc.
Qed.
Lemma split_colon_some b f acc : has cCOLON b = false -> split_colon (b ++ [cCOLON] ++ f) acc = (rev acc ++ b, Some f).
Proof.
  unfold has. revert acc. induction b as [|c b IH]; intros acc H; cbn [split_colon app].
  - change (N.eqb cCOLON cCOLON) with true. cbv beta iota. now rewrite app_nil_r.
  - cbn [existsb] in H. apply orb_false_iff in H as [Hc Hb]. rewrite N.eqb_sym in Hc. rewrite Hc.
    change (b ++ cCOLON :: f) with (b ++ [cCOLON] ++ f). rewrite (IH (c :: acc) Hb). cbn [rev]. now rewrite <- app_assoc.
Qed.

Lemma namechars_app a b : namechars (a ++ b) = namechars a && namechars b.
Proof. unfold namechars. apply forallb_app. Qed.

Section Spelling.
(* how an atom is spelled, the value a reader makes of that spelling, and when that is the case *)
Variable atom_text : text -> feat -> text.
Variable atom_val : text -> feat -> cat.
Variable atom_ok : text -> feat -> bool.
Hypothesis atom_spec : forall b f, atom_ok b f = true -> name_ok (atom_text b f) = true /\ atom_of (atom_text b f) = atom_val b f.

Fixpoint sp_text (c : cat) : text :=
  match c with Atom b f => atom_text b f | Fun l s r => [cLP] ++ sp_text l ++ s ++ sp_text r ++ [cRP] end.
Fixpoint sp_val (c : cat) : cat :=
  match c with Atom b f => atom_val b f | Fun l s r => Fun (sp_val l) s (sp_val r) end.
Fixpoint sp_ok (c : cat) : bool :=
  match c with Atom b f => atom_ok b f | Fun l s r => sp_ok l && is_slash s && sp_ok r end.
Fixpoint sp_toks (c : cat) : list ptok :=
  match c with Atom b f => [PName (atom_text b f)] | Fun l s r => PLP :: sp_toks l ++ slash_toks s ++ sp_toks r ++ [PRP] end.
Fixpoint cdepth (c : cat) : nat :=
  match c with Atom _ _ => O | Fun l _ r => S (Nat.max (cdepth l) (cdepth r)) end.

Lemma sp_cleanD c : sp_ok c = true -> cleanD (sp_text c) (sp_toks c).
Proof.
  induction c as [b f | l IHl s r IHr]; cbn [sp_ok sp_text sp_toks]; intros H.
  - apply cleanD_name. now apply atom_spec.
  - apply andb_true_iff in H as [H Hr]. apply andb_true_iff in H as [Hl Hs].
    destruct (clean_slash s Hs) as [Cs Ds]. apply clean_cleanD.
    change (PLP :: sp_toks l ++ slash_toks s ++ sp_toks r ++ [PRP]) with ([PLP] ++ sp_toks l ++ slash_toks s ++ sp_toks r ++ [PRP]).
    apply clean_app; [apply clean_lp|]. rewrite !app_assoc. rewrite <- (app_assoc _ (sp_text r)), <- (app_assoc _ (sp_toks r)).
    apply clean_app.
    + apply cleanD_app; [now apply IHl | exact Ds | exact Cs].
    + apply cleanD_app; [now apply IHr | reflexivity | apply clean_rp].
Qed.

Lemma sp_toks_length c : (cdepth c < length (sp_toks c))%nat.
Proof.
  induction c as [b f | l IHl s r IHr]; cbn [cdepth sp_toks length]; [lia|]. rewrite !app_length. cbn [length]. lia.
Qed.

Lemma dec_operand_toks c : sp_ok c = true -> forall n rest, (cdepth c <= n)%nat ->
  dec_poperand (dec_pexpr n) (sp_toks c ++ rest) = Some (sp_val c, rest).
Proof.
  induction c as [b f | l IHl s r IHr]; cbn [sp_ok sp_toks sp_val cdepth]; intros H n rest Hn.
  - cbn [app dec_poperand]. destruct (atom_spec b f H) as [_ E]. now rewrite E.
  - apply andb_true_iff in H as [H Hr]. apply andb_true_iff in H as [Hl Hs].
    destruct n as [|n]; [lia|]. cbn [app dec_poperand]. cbn [dec_pexpr]. rewrite <- !app_assoc.
    rewrite (IHl Hl n _ ltac:(lia)).
    apply is_slash_slashP in Hs. assert (Es : exists c, s = [c]) by (destruct Hs as [->|[->| ->]]; eauto). destruct Es as [c ->].
    cbn [slash_toks app]. rewrite (IHr Hr n _ ltac:(lia)). reflexivity.
Qed.

Definition no_slash_hd (ts : list ptok) : Prop := match ts with PSlash _ :: _ => False | _ => True end.

Lemma dec_pexpr_toks c : sp_ok c = true -> forall n rest, (cdepth c <= n)%nat -> no_slash_hd rest ->
  dec_pexpr (S n) (sp_toks c ++ rest) = Some (sp_val c, rest).
Proof.
  intros H n rest Hn Hr. cbn [dec_pexpr]. rewrite (dec_operand_toks c H n rest Hn).
  destruct rest as [|[] rest]; cbn [no_slash_hd] in Hr; try reflexivity. contradiction.
Qed.

Lemma dec_pcat_toks c rest : sp_ok c = true -> no_slash_hd rest -> dec_pcat (sp_toks c ++ rest) = Some (sp_val c, rest).
Proof.
  intros H Hr. unfold dec_pcat. apply dec_pexpr_toks; [exact H | | exact Hr].
  rewrite app_length. pose proof (sp_toks_length c). lia.
Qed.

(* the unbracketed  c\c  of the conj wrapper *)
Lemma dec_pcat_toks2 c rest : sp_ok c = true ->
  dec_pcat (sp_toks c ++ PSlash cBS :: sp_toks c ++ rest) = Some (Fun (sp_val c) [cBS] (sp_val c), rest).
Proof.
  intros H. unfold dec_pcat. cbn [dec_pexpr]. pose proof (sp_toks_length c) as Hl.
  rewrite (dec_operand_toks c H); [|rewrite app_length; cbn [length]; rewrite app_length; lia].
  rewrite (dec_operand_toks c H); [reflexivity|rewrite app_length; cbn [length]; rewrite app_length; lia].
Qed.
End Spelling.

(* ---- the English spelling ---- *)
Definition en_atom_text (b : text) (f : feat) : text := pl_cat_en (Atom b f).
Definition en_atom_val (b : text) (f : feat) : cat := plc_en (Atom b f).
Definition en_atom_ok (b : text) (f : feat) : bool := plcat_okb_en (Atom b f).

Lemma name_ok_app_colon b ft : name_ok b = true -> namechars ft = true -> name_ok (b ++ [cCOLON] ++ ft) = true.
Proof.
  intros Hb Hf. destruct (name_ok_chars b Hb) as [Hne Hc]. destruct b as [|x b]; [congruence|].
  cbn [app name_ok]. change (x :: b ++ cCOLON :: ft) with ((x :: b) ++ [cCOLON] ++ ft). rewrite !namechars_app, Hc, Hf. reflexivity.
Qed.

Lemma en_atom_spec b f : en_atom_ok b f = true -> name_ok (en_atom_text b f) = true /\ atom_of (en_atom_text b f) = en_atom_val b f.
Proof.
  unfold en_atom_ok, en_atom_text, en_atom_val. cbn [plcat_okb_en pl_cat_en plc_en]. cbv zeta.
  destruct (pl_punct (lower b)) as [n|] eqn:E.
  - intros _. unfold pl_punct in E.
    repeat match type of E with (if ?x then _ else _) = _ => destruct x end; inversion E; subst n; split; reflexivity.
  - intros H. apply andb_true_iff in H as [H Hf]. apply andb_true_iff in H as [Hb Hc]. rewrite negb_true_iff in Hc.
    destruct (show_feat f) as [|x ft] eqn:Ef.
    + split; [exact Hb|]. unfold atom_of. now rewrite (split_colon_none _ [] Hc).
    + split; [now apply name_ok_app_colon|]. unfold atom_of. now rewrite (split_colon_some _ _ [] Hc).
Qed.

Notation en_ctoks := (sp_toks en_atom_text).
Lemma pl_cat_en_sp c : pl_cat_en c = sp_text en_atom_text c.
Proof. induction c as [b f | l IHl s r IHr]; [reflexivity|]. cbn [pl_cat_en sp_text]. now rewrite IHl, IHr. Qed.
Lemma plc_en_sp c : plc_en c = sp_val en_atom_val c.
Proof. induction c as [b f | l IHl s r IHr]; [reflexivity|]. cbn [plc_en sp_val]. now rewrite IHl, IHr. Qed.
Lemma plcat_okb_en_sp c : plcat_okb_en c = sp_ok en_atom_ok c.
Proof. induction c as [b f | l IHl s r IHr]; [reflexivity|]. cbn [plcat_okb_en sp_ok]. now rewrite IHl, IHr. Qed.

Lemma en_cat_cleanD c : plcat_okb_en c = true -> cleanD (pl_cat_en c) (en_ctoks c).
Proof. rewrite plcat_okb_en_sp, pl_cat_en_sp. exact (sp_cleanD en_atom_text en_atom_val en_atom_ok en_atom_spec c). Qed.
Lemma en_dec_pcat c rest : plcat_okb_en c = true -> no_slash_hd rest -> dec_pcat (en_ctoks c ++ rest) = Some (plc_en c, rest).
Proof. rewrite plcat_okb_en_sp, plc_en_sp. exact (dec_pcat_toks en_atom_text en_atom_val en_atom_ok en_atom_spec c rest). Qed.
Lemma en_dec_pcat2 c rest : plcat_okb_en c = true ->
  dec_pcat (en_ctoks c ++ PSlash cBS :: en_ctoks c ++ rest) = Some (Fun (plc_en c) [cBS] (plc_en c), rest).
Proof. rewrite plcat_okb_en_sp, plc_en_sp. exact (dec_pcat_toks2 en_atom_text en_atom_val en_atom_ok en_atom_spec c rest). Qed.

(* ---- the Japanese spelling ---- *)
Definition ja_atom_text (b : text) (f : feat) : text := pl_cat_ja (Atom b f).
Definition ja_atom_val (b : text) (f : feat) : cat := plc_ja (Atom b f).
Definition ja_atom_ok (b : text) (f : feat) : bool := plcat_okb_ja (Atom b f).

Lemma ja_atom_spec b f : ja_atom_ok b f = true -> name_ok (ja_atom_text b f) = true /\ atom_of (ja_atom_text b f) = ja_atom_val b f.
Proof.
  unfold ja_atom_ok, ja_atom_text, ja_atom_val. cbn [plcat_okb_ja pl_cat_ja plc_ja].
  intros H. apply andb_true_iff in H as [H Hf]. apply andb_true_iff in H as [Hb Hc]. rewrite negb_true_iff in Hc.
  destruct (ja_case f) as [v|].
  - split; [now apply name_ok_app_colon|]. unfold atom_of. now rewrite (split_colon_some _ _ [] Hc).
  - split; [exact Hb|]. unfold atom_of. now rewrite (split_colon_none _ [] Hc).
Qed.

Notation ja_ctoks := (sp_toks ja_atom_text).
Lemma pl_cat_ja_sp c : pl_cat_ja c = sp_text ja_atom_text c.
Proof. induction c as [b f | l IHl s r IHr]; [reflexivity|]. cbn [pl_cat_ja sp_text]. now rewrite IHl, IHr. Qed.
Lemma plc_ja_sp c : plc_ja c = sp_val ja_atom_val c.
Proof. induction c as [b f | l IHl s r IHr]; [reflexivity|]. cbn [plc_ja sp_val]. now rewrite IHl, IHr. Qed.
Lemma plcat_okb_ja_sp c : plcat_okb_ja c = sp_ok ja_atom_ok c.
Proof. induction c as [b f | l IHl s r IHr]; [reflexivity|]. cbn [plcat_okb_ja sp_ok]. now rewrite IHl, IHr. Qed.

Lemma ja_cat_cleanD c : plcat_okb_ja c = true -> cleanD (pl_cat_ja c) (ja_ctoks c).
Proof. rewrite plcat_okb_ja_sp, pl_cat_ja_sp. exact (sp_cleanD ja_atom_text ja_atom_val ja_atom_ok ja_atom_spec c). Qed.
Lemma ja_dec_pcat c rest : plcat_okb_ja c = true -> no_slash_hd rest -> dec_pcat (ja_ctoks c ++ rest) = Some (plc_ja c, rest).
Proof. rewrite plcat_okb_ja_sp, plc_ja_sp. exact (dec_pcat_toks ja_atom_text ja_atom_val ja_atom_ok ja_atom_spec c rest). Qed.

(* ---- cons-style lexing steps over right-nested texts ---- *)
Lemma cl_indent d X TX : clean X TX -> clean (pl_indent d ++ X) TX.
Proof. intros H. exact (clean_app _ _ [] _ (clean_indent d) H). Qed.
Lemma cl_nl X TX : clean X TX -> clean ([cNL] ++ X) TX.
Proof. intros H. exact (clean_app _ _ [] _ clean_nl H). Qed.
Lemma cl_sp X TX : clean X TX -> clean ([cSP] ++ X) TX.
Proof. intros H. exact (clean_app _ _ [] _ clean_sp H). Qed.
Lemma cl_comma X TX : clean X TX -> clean ([cCOMMA] ++ X) (PComma :: TX).
Proof. intros H. exact (clean_app _ _ [PComma] _ clean_comma H). Qed.
Lemma cl_cs X TX : clean X TX -> clean (s_cs ++ X) (PComma :: TX).
Proof. intros H. exact (clean_app _ _ [PComma] _ clean_cs H). Qed.
Lemma cl_cnl X TX : clean X TX -> clean (s_cnl ++ X) (PComma :: TX).
Proof. intros H. exact (clean_app _ _ [PComma] _ clean_cnl H). Qed.
Lemma cl_rp X TX : clean X TX -> clean ([cRP] ++ X) (PRP :: TX).
Proof. intros H. exact (clean_app _ _ [PRP] _ clean_rp H). Qed.
Lemma cl_bs X TX : clean X TX -> clean ([cBS] ++ X) (PSlash cBS :: TX).
Proof. intros H. exact (clean_app _ _ [PSlash cBS] _ clean_bs H). Qed.
Lemma cl_open f X TX : name_ok f = true -> clean X TX -> clean (f ++ [cLP] ++ X) (PName f :: PLP :: TX).
Proof.
  intros Hf H. change (PName f :: PLP :: TX) with ([PName f] ++ [PLP] ++ TX).
  apply cleanD_app; [now apply cleanD_name | reflexivity | exact (clean_app _ _ [PLP] _ clean_lp H)].
Qed.
Lemma cl_q s X TX : no_bs s = true -> clean X TX -> clean (quoted s ++ X) (PQ s :: TX).
Proof. intros Hs H. exact (clean_app _ _ [PQ s] _ (clean_quoted s Hs) H). Qed.
Lemma cl_cat_en c X TX : plcat_okb_en c = true -> hd_delim X -> clean X TX -> clean (pl_cat_en c ++ X) (en_ctoks c ++ TX).
Proof. intros Hc Hd H. exact (cleanD_app _ _ _ _ (en_cat_cleanD c Hc) Hd H). Qed.
Lemma cl_cat_ja c X TX : plcat_okb_ja c = true -> hd_delim X -> clean X TX -> clean (pl_cat_ja c ++ X) (ja_ctoks c ++ TX).
Proof. intros Hc Hd H. exact (cleanD_app _ _ _ _ (ja_cat_cleanD c Hc) Hd H). Qed.

(* ---- tables ---- *)
Lemma assoc_forallb (P : text * text -> bool) k v tbl : forallb P tbl = true -> assoc k tbl = Some v -> P (k, v) = true.
Proof.
  induction tbl as [|[k' v'] r IH]; cbn [assoc forallb]; [discriminate|].
  intros H E. apply andb_true_iff in H as [H1 H2]. destruct (text_eqb k k') eqn:Ek.
  - apply text_eqb_eq in Ek. subst k'. inversion E; subst v'. exact H1.
  - now apply IH.
Qed.
Lemma en_table_ok_true : en_table_ok = true. Proof. vm_compute. reflexivity. Qed.
Lemma ja_table_ok_true : ja_table_ok = true. Proof. vm_compute. reflexivity. Qed.

Lemma en_entry ops fv : assoc ops prolog_op_mapping = Some fv ->
  let f := removelast fv in
  fv = f ++ [cLP] /\ name_ok f = true /\
  (if text_eqb ops s_lp then f = s_lx
   else if text_eqb ops s_conj || text_eqb ops s_conj2 then f = s_conj
   else text_eqb f s_t = false /\ text_eqb f s_lx = false /\ text_eqb f s_conj = false /\ text_eqb f s_lp = false).
Proof.
  intros E. pose proof (assoc_forallb en_entry_ok ops fv _ en_table_ok_true E) as H. cbv zeta. unfold en_entry_ok in H.
  apply andb_true_iff in H as [H H3]. apply andb_true_iff in H as [H1 H2]. apply text_eqb_eq in H1.
  split; [exact H1|]. split; [exact H2|].
  destruct (text_eqb ops s_lp); [now apply text_eqb_eq|]. destruct (text_eqb ops s_conj || text_eqb ops s_conj2); [now apply text_eqb_eq|].
  rewrite !andb_true_iff, !negb_true_iff in H3. tauto.
Qed.
Lemma ja_entry sym rule : assoc sym prolog_ja_combinators = Some rule -> name_ok rule = true /\ text_eqb rule s_t = false.
Proof.
  intros E. pose proof (assoc_forallb ja_entry_ok sym rule _ ja_table_ok_true E) as H. unfold ja_entry_ok in H. cbn [snd] in H.
  apply andb_true_iff in H as [H1 H2]. rewrite negb_true_iff in H2. split; assumption.
Qed.

(* ================= Part 3: English terms ================= *)
Fixpoint en_toks (t : tree) : option (list ptok) :=
  match t with
  | Leaf c tok _ _ =>
      match leaf5_en tok with
      | Some x => Some (PName s_t :: PLP :: en_ctoks c ++ PComma :: q5 x [PRP])
      | None => None
      end
  | Un c _ _ t1 =>
      match en_toks t1 with
      | Some a => Some (PName s_lx :: PLP :: en_ctoks c ++ PComma :: en_ctoks (tcat t1) ++ PComma :: a ++ [PRP])
      | None => None
      end
  | Bin c ops _ _ l r =>
      match assoc ops prolog_op_mapping, en_toks l, en_toks r with
      | Some fv, Some a, Some b =>
          let f := removelast fv in
          let cs := en_ctoks (tcat r) in
          let kids := a ++ PComma :: b ++ [PRP] in
          if text_eqb ops s_conj2 then
            Some (PName f :: PLP :: en_ctoks c ++ PComma :: cs ++ PSlash cBS :: cs ++ PComma ::
                  PName s_conj :: PLP :: cs ++ PSlash cBS :: cs ++ PComma :: cs ++ PComma :: kids ++ [PRP])
          else if text_eqb ops s_conj then
            match c with
            | Fun cl _ _ => Some (PName f :: PLP :: en_ctoks c ++ PComma :: en_ctoks cl ++ PComma :: kids)
            | Atom _ _ => None
            end
          else if text_eqb ops s_lp then
            Some (PName f :: PLP :: en_ctoks c ++ PComma :: cs ++ PComma :: PName s_lp :: PLP :: cs ++ PComma :: kids ++ [PRP])
          else Some (PName f :: PLP :: en_ctoks c ++ PComma :: kids)
      | _, _, _ => None
      end
  end.

Lemma pl_okb_en_tcat t : pl_okb_en t = true -> plcat_okb_en (tcat t) = true.
Proof. destruct t; cbn [pl_okb_en tcat]; rewrite ?andb_true_iff; tauto. Qed.

Lemma name_ok_consts : name_ok s_t = true /\ name_ok s_lx = true /\ name_ok s_conj = true /\ name_ok s_lp = true /\ name_ok s_ccg = true.
Proof. vm_compute. repeat split. Qed.

Lemma en_lex t : pl_okb_en t = true -> forall d s, pl_rec_en t d = Some s -> exists ts, en_toks t = Some ts /\ clean s ts.
Proof.
  destruct name_ok_consts as (Nt & Nlx & Nconj & Nlp & _).
  induction t as [c tok o y | c o y t1 IH | c ops y hl l IHl r IHr]; intros Hok d s E; cbn [pl_okb_en pl_rec_en en_toks] in *.
  - apply andb_true_iff in Hok as [Hc Hq]. unfold pl_leaf_en in E. unfold leaf5_en in *.
    destruct (leaf_word tok) as [w|]; [|discriminate]. cbn [option_map] in E. apply Some_inj in E; subst s. eexists. split; [reflexivity|].
    cbn [tok5_no_bs] in Hq. rewrite !andb_true_iff in Hq. destruct Hq as [[[[Q1 Q2] Q3] Q4] Q5]. cbn [q5].
    apply cl_indent, cl_open; [exact Nt|]. apply cl_cat_en; [exact Hc | reflexivity |].
    apply cl_cs, cl_q; [exact Q1|]. apply cl_cs, cl_q; [exact Q2|]. apply cl_cs, cl_q; [exact Q3|]. apply cl_cs, cl_q; [exact Q4|].
    apply cl_cs. rewrite <- (app_nil_r [cRP]). apply cl_q; [exact Q5|]. apply cl_rp, clean_nil.
  - apply andb_true_iff in Hok as [Hc H1]. destruct (pl_rec_en t1 (S d)) as [s1|] eqn:E1; [|discriminate]. apply Some_inj in E; subst s.
    destruct (IH H1 _ _ E1) as (a & Ea & Ca). rewrite Ea. eexists. split; [reflexivity|].
    apply cl_indent, cl_open; [exact Nlx|]. apply cl_cat_en; [exact Hc | reflexivity |]. apply cl_cs.
    apply cl_cat_en; [now apply pl_okb_en_tcat | reflexivity |]. apply cl_cnl. apply clean_app; [exact Ca | apply clean_rp].
  - apply andb_true_iff in Hok as [Hok Hr]. apply andb_true_iff in Hok as [Hc Hl].
    destruct (assoc ops prolog_op_mapping) as [fv|] eqn:Ea; [|discriminate].
    destruct (en_entry ops fv Ea) as (Efv & Nf & _). cbv zeta in E. rewrite Efv in E.
    pose proof (pl_okb_en_tcat r Hr) as Hcr.
    assert (K : forall d' k, match pl_rec_en l d', pl_rec_en r d' with Some a, Some b => Some ([cNL] ++ a ++ s_cnl ++ b ++ [cRP]) | _, _ => None end = Some k ->
                exists a b, en_toks l = Some a /\ en_toks r = Some b /\ clean k (a ++ PComma :: b ++ [PRP])).
    { intros d' k Ek. destruct (pl_rec_en l d') as [sa|] eqn:E1; [|discriminate]. destruct (pl_rec_en r d') as [sb|] eqn:E2; [|discriminate].
      inversion Ek; subst k. destruct (IHl Hl _ _ E1) as (a & Eal & Ca). destruct (IHr Hr _ _ E2) as (b & Ebr & Cb). exists a, b. repeat split; try assumption.
      apply cl_nl. apply clean_app; [exact Ca|]. apply cl_cnl. apply clean_app; [exact Cb | apply clean_rp]. }
    destruct (text_eqb ops s_conj2) eqn:T1; [|destruct (text_eqb ops s_conj) eqn:T2; [|destruct (text_eqb ops s_lp) eqn:T3]].
    + match type of E with option_map _ ?x = _ => destruct x as [k|] eqn:Ek; [|discriminate] end. cbn [option_map] in E. apply Some_inj in E; subst s.
      destruct (K _ _ Ek) as (a & b & Eal & Ebr & Ck). rewrite Eal, Ebr. cbv zeta. set (kt := a ++ PComma :: b ++ [PRP]) in *. eexists. split; [reflexivity|].
      rewrite <- !app_assoc. apply cl_indent, cl_open; [exact Nf|]. apply cl_cat_en; [exact Hc | reflexivity|]. apply cl_comma, cl_sp.
      apply cl_cat_en; [exact Hcr | reflexivity|]. apply cl_bs. apply cl_cat_en; [exact Hcr | reflexivity|]. apply cl_cnl, cl_indent, cl_open; [exact Nconj|].
      apply cl_cat_en; [exact Hcr | reflexivity|]. apply cl_bs. apply cl_cat_en; [exact Hcr | reflexivity|]. apply cl_cs.
      apply cl_cat_en; [exact Hcr | reflexivity|]. apply cl_comma. apply clean_app; [exact Ck | apply clean_rp].
    + destruct c as [cb cf | cl cs cr]; [discriminate|].
      match type of E with option_map _ ?x = _ => destruct x as [k|] eqn:Ek; [|discriminate] end. cbn [option_map] in E. apply Some_inj in E; subst s.
      destruct (K _ _ Ek) as (a & b & Eal & Ebr & Ck). rewrite Eal, Ebr. cbv zeta. set (kt := a ++ PComma :: b ++ [PRP]) in *. eexists. split; [reflexivity|].
      assert (Hcl : plcat_okb_en cl = true) by (cbn [plcat_okb_en] in Hc; rewrite !andb_true_iff in Hc; tauto).
      rewrite <- !app_assoc. apply cl_indent, cl_open; [exact Nf|]. apply cl_cat_en; [exact Hc | reflexivity|]. apply cl_comma, cl_sp.
      apply cl_cat_en; [exact Hcl | reflexivity|]. apply cl_comma. exact Ck.
    + match type of E with option_map _ ?x = _ => destruct x as [k|] eqn:Ek; [|discriminate] end. cbn [option_map] in E. apply Some_inj in E; subst s.
      destruct (K _ _ Ek) as (a & b & Eal & Ebr & Ck). rewrite Eal, Ebr. cbv zeta. set (kt := a ++ PComma :: b ++ [PRP]) in *. eexists. split; [reflexivity|].
      rewrite <- !app_assoc. apply cl_indent, cl_open; [exact Nf|]. apply cl_cat_en; [exact Hc | reflexivity|]. apply cl_comma, cl_sp.
      apply cl_cat_en; [exact Hcr | reflexivity|]. apply cl_cnl, cl_indent, cl_open; [exact Nlp|].
      apply cl_cat_en; [exact Hcr | reflexivity|]. apply cl_comma. apply clean_app; [exact Ck | apply clean_rp].
    + match type of E with option_map _ ?x = _ => destruct x as [k|] eqn:Ek; [|discriminate] end. cbn [option_map] in E. apply Some_inj in E; subst s.
      destruct (K _ _ Ek) as (a & b & Eal & Ebr & Ck). rewrite Eal, Ebr. cbv zeta. set (kt := a ++ PComma :: b ++ [PRP]) in *. eexists. split; [reflexivity|].
      rewrite <- !app_assoc. apply cl_indent, cl_open; [exact Nf|]. apply cl_cat_en; [exact Hc | reflexivity|]. apply cl_comma. exact Ck.
Qed.

(* fuel the reader needs: one level per node, two for a binary node (the wrappers nest one term deeper) *)
Fixpoint fuel_of (t : tree) : nat :=
  match t with
  | Leaf _ _ _ _ => 1%nat
  | Un _ _ _ t1 => S (fuel_of t1)
  | Bin _ _ _ _ l r => S (S (Nat.max (fuel_of l) (fuel_of r)))
  end.

Lemma consts_distinct : text_eqb s_t s_lp = false /\ text_eqb s_lx s_lp = false /\ text_eqb s_conj s_lp = false /\
  text_eqb s_lx s_t = false /\ text_eqb s_conj s_t = false /\ text_eqb s_conj s_lx = false.
Proof. vm_compute. repeat split. Qed.

Lemma en_toks_head t ts : en_toks t = Some ts -> exists g r, ts = PName g :: PLP :: r /\ text_eqb g s_lp = false.
Proof.
  destruct consts_distinct as (D1 & D2 & D3 & _).
  destruct t as [c tok o y | c o y t1 | c ops y hl l r]; cbn [en_toks]; intros E.
  - destruct (leaf5_en tok); [|discriminate]. apply Some_inj in E; subst ts. eauto.
  - destruct (en_toks t1); [|discriminate]. apply Some_inj in E; subst ts. eauto.
  - destruct (assoc ops prolog_op_mapping) as [fv|] eqn:Ea; [|discriminate].
    destruct (en_toks l); [|discriminate]. destruct (en_toks r); [|discriminate]. cbv zeta in E.
    assert (Hf : text_eqb (removelast fv) s_lp = false).
    { destruct (en_entry ops fv Ea) as (_ & _ & Hk). cbv zeta in Hk. destruct (text_eqb ops s_lp); [now rewrite Hk|].
      destruct (text_eqb ops s_conj || text_eqb ops s_conj2); [now rewrite Hk | tauto]. }
    destruct (text_eqb ops s_conj2); [|destruct (text_eqb ops s_conj); [destruct c; [discriminate|]|destruct (text_eqb ops s_lp)]];
      apply Some_inj in E; subst ts; eauto.
Qed.

Lemma en_toks_length t ts : en_toks t = Some ts -> (fuel_of t <= length ts)%nat.
Proof.
  revert ts. induction t as [c tok o y | c o y t1 IH | c ops y hl l IHl r IHr]; intros ts E; cbn [en_toks fuel_of] in *.
  - destruct (leaf5_en tok); [|discriminate]. apply Some_inj in E; subst ts. cbn [length]. lia.
  - destruct (en_toks t1) as [a|]; [|discriminate]. apply Some_inj in E; subst ts. specialize (IH a eq_refl).
    cbn [length]. repeat (rewrite !app_length; cbn [length]). lia.
  - destruct (assoc ops prolog_op_mapping) as [fv|]; [|discriminate].
    destruct (en_toks l) as [a|]; [|discriminate]. destruct (en_toks r) as [b|]; [|discriminate]. cbv zeta in E.
    specialize (IHl a eq_refl). specialize (IHr b eq_refl).
    destruct (text_eqb ops s_conj2); [|destruct (text_eqb ops s_conj); [destruct c; [discriminate|]|destruct (text_eqb ops s_lp)]];
      apply Some_inj in E; subst ts; cbn [length]; repeat (rewrite !app_length; cbn [length]); lia.
Qed.

Lemma view_prolog_en_vcat t v : view_prolog_en t = Some v -> vcat v = plc_en (tcat t).
Proof.
  destruct t as [c tok o y | c o y t1 | c ops y hl l r]; cbn [view_prolog_en tcat]; intros E.
  - destruct (leaf5_en tok); [|discriminate]. apply Some_inj in E; subst v. reflexivity.
  - destruct (view_prolog_en t1); [|discriminate]. apply Some_inj in E; subst v. reflexivity.
  - destruct (assoc ops prolog_op_mapping); [|discriminate]. destruct (view_prolog_en l); [|discriminate]. destruct (view_prolog_en r); [|discriminate].
    apply Some_inj in E; subst v. reflexivity.
Qed.

Lemma dec_en_S n ts : dec_en (S n) ts = dec_en_body (dec_en n) ts.
Proof. reflexivity. Qed.

Ltac norm_app := repeat (cbn [app]; rewrite <- app_assoc); cbn [app].

Lemma en_dec t : pl_okb_en t = true -> forall ts, en_toks t = Some ts ->
  exists v, view_prolog_en t = Some v /\
    forall fuel rest, (fuel_of t <= fuel)%nat -> dec_en fuel (ts ++ rest) = Some (v, rest).
Proof.
  destruct consts_distinct as (D1 & D2 & D3 & D4 & D5 & D6).
  induction t as [c tok o y | c o y t1 IH | c ops y hl l IHl r IHr]; intros Hok ts E; cbn [pl_okb_en en_toks view_prolog_en fuel_of] in *.
  - apply andb_true_iff in Hok as [Hc _]. destruct (leaf5_en tok) as [[[[[w le] po] ch] en]|]; [|discriminate]. apply Some_inj in E; subst ts.
    eexists. split; [reflexivity|]. intros fuel rest Hf. destruct fuel as [|n]; [lia|].
    cbn [q5]. norm_app. rewrite dec_en_S. unfold dec_en_body at 1. rewrite en_dec_pcat; [|exact Hc | exact I]. rewrite text_eqb_refl. reflexivity.
  - apply andb_true_iff in Hok as [Hc H1]. destruct (en_toks t1) as [a|] eqn:Ea; [|discriminate]. apply Some_inj in E; subst ts.
    destruct (IH H1 a eq_refl) as (v1 & Ev1 & Hd1). rewrite Ev1. eexists. split; [reflexivity|].
    intros fuel rest Hf. destruct fuel as [|n]; [lia|].
    destruct (en_toks_head t1 a Ea) as (g & ra & Eg & Hg).
    norm_app. rewrite dec_en_S. unfold dec_en_body at 1.
    rewrite en_dec_pcat; [|exact Hc | exact I]. rewrite D4, text_eqb_refl. rewrite en_dec_pcat; [|exact (pl_okb_en_tcat t1 H1) | exact I].
    rewrite (Hd1 n (PRP :: rest) ltac:(lia)). rewrite Eg. cbn [app]. rewrite Hg. rewrite (view_prolog_en_vcat t1 v1 Ev1), cat_eqb_refl. reflexivity.
  - apply andb_true_iff in Hok as [Hok Hr]. apply andb_true_iff in Hok as [Hc Hl].
    destruct (assoc ops prolog_op_mapping) as [fv|] eqn:Ea; [|discriminate].
    destruct (en_toks l) as [a|] eqn:Eal; [|discriminate]. destruct (en_toks r) as [b|] eqn:Ebr; [|discriminate]. cbv zeta in E.
    destruct (IHl Hl a eq_refl) as (vl & Evl & Hdl). destruct (IHr Hr b eq_refl) as (vr & Evr & Hdr). rewrite Evl, Evr.
    eexists. split; [reflexivity|]. intros fuel rest Hf. destruct fuel as [|[|n]]; [lia|lia|].
    assert (Hnl : (fuel_of l <= n)%nat) by lia. assert (Hnr : (fuel_of r <= n)%nat) by lia.
    destruct (en_entry ops fv Ea) as (_ & Nf & Hk). cbv zeta in Hk. unfold en_label. set (f := removelast fv) in *.
    pose proof (pl_okb_en_tcat r Hr) as Hcr. pose proof (view_prolog_en_vcat r vr Evr) as Vr.
    destruct (text_eqb ops s_conj2) eqn:T1.
    + apply text_eqb_eq in T1. subst ops. assert (Hf2 : f = s_conj) by exact Hk.
      apply Some_inj in E; subst ts. rewrite Hf2. norm_app.
      rewrite dec_en_S. unfold dec_en_body at 1. rewrite en_dec_pcat; [|exact Hc | exact I]. rewrite D5, D6, text_eqb_refl.
      rewrite en_dec_pcat2; [|exact Hcr].
      rewrite dec_en_S. unfold dec_en_body at 1. rewrite en_dec_pcat2; [|exact Hcr]. rewrite D5, D6, text_eqb_refl. rewrite en_dec_pcat; [|exact Hcr | exact I].
      rewrite (Hdl n _ Hnl). rewrite (Hdr n _ Hnr). rewrite !cat_eqb_refl. rewrite Vr, !cat_eqb_refl, text_eqb_refl. reflexivity.
    + destruct (text_eqb ops s_conj) eqn:T2; [|destruct (text_eqb ops s_lp) eqn:T3].
      * apply text_eqb_eq in T2. subst ops. assert (Hf2 : f = s_conj) by exact Hk.
        destruct c as [cb cf | cl cs cr]; [discriminate|]. apply Some_inj in E; subst ts. rewrite Hf2. norm_app.
        assert (Hcl : plcat_okb_en cl = true) by (cbn [plcat_okb_en] in Hc; rewrite !andb_true_iff in Hc; tauto).
        rewrite dec_en_S. unfold dec_en_body at 1. rewrite en_dec_pcat; [|exact Hc | exact I]. rewrite D5, D6, text_eqb_refl.
        rewrite en_dec_pcat; [|exact Hcl | exact I].
        rewrite (Hdl (S n) _ ltac:(lia)). rewrite (Hdr (S n) _ ltac:(lia)). cbn [plc_en]. rewrite cat_eqb_refl. reflexivity.
      * apply text_eqb_eq in T3. subst ops. assert (Hf2 : f = s_lx) by exact Hk.
        apply Some_inj in E; subst ts. rewrite Hf2. norm_app.
        rewrite dec_en_S. unfold dec_en_body at 1. rewrite en_dec_pcat; [|exact Hc | exact I]. rewrite D4, text_eqb_refl.
        rewrite en_dec_pcat; [|exact Hcr | exact I]. rewrite text_eqb_refl. rewrite en_dec_pcat; [|exact Hcr | exact I].
        rewrite (Hdl (S n) _ ltac:(lia)). rewrite (Hdr (S n) _ ltac:(lia)). rewrite Vr, !cat_eqb_refl. reflexivity.
      * cbn [orb] in Hk. destruct Hk as (F1 & F2 & F3 & F4).
        apply Some_inj in E; subst ts. norm_app.
        rewrite dec_en_S. unfold dec_en_body at 1. rewrite en_dec_pcat; [|exact Hc | exact I]. rewrite F1, F2, F3.
        rewrite (Hdl (S n) _ ltac:(lia)). rewrite (Hdr (S n) _ ltac:(lia)). reflexivity.
Qed.

Lemma clean_end_en : clean [cRP; 46; cNL] [PRP; PName [46]].
Proof. intros rest. reflexivity. Qed.
Lemma clean_end_ja : clean [cRP; 46; cNL; cNL] [PRP; PName [46]].
Proof. intros rest. reflexivity. Qed.

Lemma clause_tokens k body tail ts : clean body ts -> hd_delim body -> clean tail [PRP; PName [46]] ->
  pl_tokens (s_ccg ++ [cLP] ++ show_nat k ++ body ++ tail) = PName s_ccg :: PLP :: PName (show_nat k) :: ts ++ [PRP; PName [46]].
Proof.
  intros Cb Hb Ct. destruct name_ok_consts as (_ & _ & _ & _ & Nccg).
  assert (C : clean (s_ccg ++ [cLP] ++ show_nat k ++ body ++ tail) (PName s_ccg :: PLP :: [PName (show_nat k)] ++ ts ++ [PRP; PName [46]])).
  { apply cl_open; [exact Nccg|]. apply cleanD_app; [apply cleanD_name, show_nat_name | | now apply clean_app].
    destruct body as [|x body]; [contradiction | exact Hb]. }
  unfold pl_tokens. rewrite <- (app_nil_r (s_ccg ++ _)). rewrite (C []). cbn [plex flushN app]. now rewrite app_nil_r.
Qed.

Theorem prolog_en_roundtrip k t txt : pl_okb_en t = true -> print_prolog_en k t = Some txt ->
  dec_prolog_en txt = option_map (fun v => (show_nat k, v)) (view_prolog_en t) /\ view_prolog_en t <> None.
Proof.
  intros Hok E. unfold print_prolog_en in E. destruct (pl_rec_en t 1) as [s|] eqn:Es; [|discriminate]. cbn [option_map] in E. apply Some_inj in E. subst txt.
  destruct (en_lex t Hok 1%nat s Es) as (ts & Et & Cs). destruct (en_dec t Hok ts Et) as (v & Ev & Hd).
  rewrite Ev. cbn [option_map]. split; [|discriminate]. unfold dec_prolog_en.
  rewrite (app_assoc s_cnl s).
  rewrite (clause_tokens k (s_cnl ++ s) [cRP; 46; cNL] (PComma :: ts)); [|now apply cl_cnl | reflexivity | apply clean_end_en].
  cbn [dec_clause app]. rewrite text_eqb_refl. rewrite Hd; [reflexivity|]. rewrite app_length. pose proof (en_toks_length t ts Et). lia.
Qed.

(* what the view keeps of the leaves: the Prolog spelling of the lexical categories, word / lemma / pos / chunk / entity with the XX default *)
Lemma view_prolog_en_leaves t v : view_prolog_en t = Some v ->
  map (fun cx => Some (snd cx)) (vleaves v) = map (fun ct => leaf5_en (snd ct)) (leaves t) /\
  map fst (vleaves v) = map (fun ct => plc_en (fst ct)) (leaves t).
Proof.
  revert v. induction t as [c tok o y | c o y t1 IH | c ops y hl l IHl r IHr]; intros v E; cbn [view_prolog_en] in E.
  - destruct (leaf5_en tok) as [x|] eqn:E5; [|discriminate]. apply Some_inj in E; subst v. cbn [vleaves leaves map fst snd]. now rewrite E5.
  - destruct (view_prolog_en t1) as [v1|]; [|discriminate]. apply Some_inj in E; subst v. cbn [vleaves leaves]. now apply IH.
  - destruct (assoc ops prolog_op_mapping); [|discriminate]. destruct (view_prolog_en l) as [v1|]; [|discriminate]. destruct (view_prolog_en r) as [v2|]; [|discriminate].
    apply Some_inj in E; subst v. cbn [vleaves leaves]. rewrite !map_app. destruct (IHl v1 eq_refl) as [A1 B1]. destruct (IHr v2 eq_refl) as [A2 B2].
    now rewrite A1, A2, B1, B2.
Qed.

(* the Prolog view has the derivation's shape, with every category replaced by its Prolog spelling *)
Lemma view_prolog_en_skeleton t v : view_prolog_en t = Some v ->
  exists s, tree_skeleton t = Some s /\ skeleton_of v = vmapc plc_en s.
Proof.
  unfold tree_skeleton. revert v. induction t as [c tok o y | c o y t1 IH | c ops y hl l IHl r IHr]; intros v E; cbn [view_prolog_en project] in *.
  - destruct (leaf5_en tok); [|discriminate]. apply Some_inj in E; subst v. eexists. split; reflexivity.
  - destruct (view_prolog_en t1) as [v1|]; [|discriminate]. apply Some_inj in E; subst v. destruct (IH v1 eq_refl) as (s1 & E1 & S1). rewrite E1.
    eexists. split; [reflexivity|]. cbn [skeleton_of vmapc pick_label]. now rewrite S1.
  - destruct (assoc ops prolog_op_mapping); [|discriminate]. destruct (view_prolog_en l) as [v1|]; [|discriminate]. destruct (view_prolog_en r) as [v2|]; [|discriminate].
    apply Some_inj in E; subst v. destruct (IHl v1 eq_refl) as (s1 & E1 & S1). destruct (IHr v2 eq_refl) as (s2 & E2 & S2). rewrite E1, E2.
    eexists. split; [reflexivity|]. cbn [skeleton_of vmapc pick_label]. now rewrite S1, S2.
Qed.

(* ================= Part 4: Japanese terms ================= *)
Lemma esc_pl_app a b : esc_pl (a ++ b) = esc_pl a ++ esc_pl b.
Proof. unfold esc_pl. apply flat_map_app. Qed.
Lemma esc_join l : esc_pl (join [cSL] l) = join [cSL] (map esc_pl l).
Proof.
  induction l as [|x r IH]; [reflexivity|]. destruct r as [|z r]; [reflexivity|].
  change (join [cSL] (x :: z :: r)) with (x ++ [cSL] ++ join [cSL] (z :: r)).
  change (join [cSL] (map esc_pl (x :: z :: r))) with (esc_pl x ++ [cSL] ++ join [cSL] (map esc_pl (z :: r))).
  rewrite !esc_pl_app, IH. reflexivity.
Qed.
Lemma ja_pos_quoted tok : q_raw (ja_pos tok) = quoted (ja_pos_raw tok).
Proof.
  unfold q_raw, quoted, ja_pos, ja_pos_raw. destruct (forallb (fun x => text_eqb x s_star) (ja_tags tok)); [reflexivity|]. now rewrite esc_join.
Qed.

Fixpoint ja_toks (t : tree) : option (list ptok) :=
  match t with
  | Leaf c tok _ _ =>
      match leaf5_ja tok with
      | Some x => Some (PName s_t :: PLP :: ja_ctoks c ++ PComma :: q5 x [PRP])
      | None => None
      end
  | Un c _ sym t1 =>
      match assoc sym prolog_ja_combinators, ja_toks t1 with
      | Some rule, Some a => Some (PName rule :: PLP :: ja_ctoks c ++ PComma :: a ++ [PRP])
      | _, _ => None
      end
  | Bin c _ sym _ l r =>
      match assoc sym prolog_ja_combinators, ja_toks l, ja_toks r with
      | Some rule, Some a, Some b => Some (PName rule :: PLP :: ja_ctoks c ++ PComma :: a ++ PComma :: b ++ [PRP])
      | _, _, _ => None
      end
  end.

Lemma ja_lex t : pl_okb_ja t = true -> forall d s, pl_rec_ja t d = Some s -> exists ts, ja_toks t = Some ts /\ clean s ts /\ hd_delim s.
Proof.
  destruct name_ok_consts as (Nt & _).
  induction t as [c tok o y | c o y t1 IH | c o y hl l IHl r IHr]; intros Hok d s E; cbn [pl_okb_ja pl_rec_ja ja_toks] in *.
  - apply andb_true_iff in Hok as [Hc Hq]. unfold pl_leaf_ja in E. unfold leaf5_ja in *.
    destruct (leaf_word tok) as [w|]; [|discriminate]. cbn [option_map] in E. apply Some_inj in E; subst s. eexists. split; [reflexivity|]. split; [|reflexivity].
    cbn [tok5_no_bs] in Hq. rewrite !andb_true_iff in Hq. destruct Hq as [[[[Q1 Q2] Q3] Q4] Q5]. cbn [q5]. rewrite ja_pos_quoted.
    apply cl_nl, cl_indent, cl_open; [exact Nt|]. apply cl_cat_ja; [exact Hc | reflexivity |].
    apply cl_cs, cl_q; [exact Q1|]. apply cl_cs, cl_q; [exact Q2|]. apply cl_cs, cl_q; [exact Q3|]. apply cl_cs, cl_q; [exact Q4|].
    apply cl_cs. rewrite <- (app_nil_r [cRP]). apply cl_q; [exact Q5|]. apply cl_rp, clean_nil.
  - apply andb_true_iff in Hok as [Hc H1]. destruct (assoc y prolog_ja_combinators) as [rule|] eqn:Ea; [|discriminate].
    destruct (ja_entry y rule Ea) as [Nr _].
    destruct (pl_rec_ja t1 (S d)) as [s1|] eqn:E1; [|discriminate]. apply Some_inj in E; subst s.
    destruct (IH H1 _ _ E1) as (a & Eta & Ca & _). rewrite Eta. eexists. split; [reflexivity|]. split; [|reflexivity].
    apply cl_nl, cl_indent, cl_open; [exact Nr|]. apply cl_cat_ja; [exact Hc | reflexivity |]. apply cl_comma.
    apply clean_app; [exact Ca | apply clean_rp].
  - apply andb_true_iff in Hok as [Hok Hr]. apply andb_true_iff in Hok as [Hc Hl].
    destruct (assoc y prolog_ja_combinators) as [rule|] eqn:Ea; [|discriminate]. destruct (ja_entry y rule Ea) as [Nr _].
    destruct (pl_rec_ja l (S d)) as [sa|] eqn:E1; [|discriminate]. destruct (pl_rec_ja r (S d)) as [sb|] eqn:E2; [|discriminate].
    apply Some_inj in E; subst s. destruct (IHl Hl _ _ E1) as (a & Eta & Ca & _). destruct (IHr Hr _ _ E2) as (b & Etb & Cb & _). rewrite Eta, Etb.
    eexists. split; [reflexivity|]. split; [|reflexivity].
    apply cl_nl, cl_indent, cl_open; [exact Nr|]. apply cl_cat_ja; [exact Hc | reflexivity |]. apply cl_comma.
    apply clean_app; [exact Ca|]. apply cl_comma. apply clean_app; [exact Cb | apply clean_rp].
Qed.

Fixpoint depth_of (t : tree) : nat :=
  match t with
  | Leaf _ _ _ _ => 1%nat
  | Un _ _ _ t1 => S (depth_of t1)
  | Bin _ _ _ _ l r => S (Nat.max (depth_of l) (depth_of r))
  end.

Lemma ja_toks_length t ts : ja_toks t = Some ts -> (depth_of t <= length ts)%nat.
Proof.
  revert ts. induction t as [c tok o y | c o y t1 IH | c o y hl l IHl r IHr]; intros ts E; cbn [ja_toks depth_of] in *.
  - destruct (leaf5_ja tok); [|discriminate]. apply Some_inj in E; subst ts. cbn [length]. lia.
  - destruct (assoc y prolog_ja_combinators); [|discriminate]. destruct (ja_toks t1) as [a|]; [|discriminate]. apply Some_inj in E; subst ts.
    specialize (IH a eq_refl). cbn [length]. repeat (rewrite !app_length; cbn [length]). lia.
  - destruct (assoc y prolog_ja_combinators); [|discriminate]. destruct (ja_toks l) as [a|]; [|discriminate]. destruct (ja_toks r) as [b|]; [|discriminate].
    apply Some_inj in E; subst ts. specialize (IHl a eq_refl). specialize (IHr b eq_refl). cbn [length]. repeat (rewrite !app_length; cbn [length]). lia.
Qed.

Lemma dec_ja_S n ts : dec_ja (S n) ts = dec_ja_body (dec_ja n) ts.
Proof. reflexivity. Qed.

Lemma ja_dec t : pl_okb_ja t = true -> forall ts, ja_toks t = Some ts ->
  exists v, view_prolog_ja t = Some v /\
    forall fuel rest, (depth_of t <= fuel)%nat -> dec_ja fuel (ts ++ rest) = Some (v, rest).
Proof.
  induction t as [c tok o y | c o y t1 IH | c o y hl l IHl r IHr]; intros Hok ts E; cbn [pl_okb_ja ja_toks view_prolog_ja depth_of] in *.
  - apply andb_true_iff in Hok as [Hc _]. destruct (leaf5_ja tok) as [[[[[w le] po] ch] en]|]; [|discriminate]. apply Some_inj in E; subst ts.
    eexists. split; [reflexivity|]. intros fuel rest Hf. destruct fuel as [|n]; [lia|].
    cbn [q5]. norm_app. rewrite dec_ja_S. unfold dec_ja_body at 1. rewrite ja_dec_pcat; [|exact Hc | exact I]. rewrite text_eqb_refl. reflexivity.
  - apply andb_true_iff in Hok as [Hc H1]. destruct (assoc y prolog_ja_combinators) as [rule|] eqn:Ea; [|discriminate].
    destruct (ja_entry y rule Ea) as [_ Nt]. destruct (ja_toks t1) as [a|] eqn:Eta; [|discriminate]. apply Some_inj in E; subst ts.
    destruct (IH H1 a eq_refl) as (v1 & Ev1 & Hd1). rewrite Ev1. eexists. split; [reflexivity|].
    intros fuel rest Hf. destruct fuel as [|n]; [lia|]. norm_app. rewrite dec_ja_S. unfold dec_ja_body at 1.
    rewrite ja_dec_pcat; [|exact Hc | exact I]. rewrite Nt. rewrite (Hd1 n _ ltac:(lia)). reflexivity.
  - apply andb_true_iff in Hok as [Hok Hr]. apply andb_true_iff in Hok as [Hc Hl].
    destruct (assoc y prolog_ja_combinators) as [rule|] eqn:Ea; [|discriminate]. destruct (ja_entry y rule Ea) as [_ Nt].
    destruct (ja_toks l) as [a|] eqn:Eta; [|discriminate]. destruct (ja_toks r) as [b|] eqn:Etb; [|discriminate]. apply Some_inj in E; subst ts.
    destruct (IHl Hl a eq_refl) as (vl & Evl & Hdl). destruct (IHr Hr b eq_refl) as (vr & Evr & Hdr). rewrite Evl, Evr. eexists. split; [reflexivity|].
    intros fuel rest Hf. destruct fuel as [|n]; [lia|]. norm_app. rewrite dec_ja_S. unfold dec_ja_body at 1.
    rewrite ja_dec_pcat; [|exact Hc | exact I]. rewrite Nt. rewrite (Hdl n _ ltac:(lia)). rewrite (Hdr n _ ltac:(lia)). reflexivity.
Qed.

Theorem prolog_ja_roundtrip k t txt : pl_okb_ja t = true -> print_prolog_ja k t = Some txt ->
  dec_prolog_ja txt = option_map (fun v => (show_nat k, v)) (view_prolog_ja t) /\ view_prolog_ja t <> None.
Proof.
  intros Hok E. unfold print_prolog_ja in E. destruct (pl_rec_ja t 1) as [s|] eqn:Es; [|discriminate]. cbn [option_map] in E. apply Some_inj in E. subst txt.
  destruct (ja_lex t Hok 1%nat s Es) as (ts & Et & Cs & Hs). destruct (ja_dec t Hok ts Et) as (v & Ev & Hd).
  rewrite Ev. cbn [option_map]. split; [|discriminate]. unfold dec_prolog_ja.
  rewrite (app_assoc [cCOMMA] s).
  rewrite (clause_tokens k ([cCOMMA] ++ s) [cRP; 46; cNL; cNL] (PComma :: ts)); [|now apply cl_comma | reflexivity | apply clean_end_ja].
  cbn [dec_clause app]. rewrite text_eqb_refl. rewrite Hd; [reflexivity|]. rewrite app_length. pose proof (ja_toks_length t ts Et). lia.
Qed.

Lemma view_prolog_ja_leaves t v : view_prolog_ja t = Some v ->
  map (fun cx => Some (snd cx)) (vleaves v) = map (fun ct => leaf5_ja (snd ct)) (leaves t) /\
  map fst (vleaves v) = map (fun ct => plc_ja (fst ct)) (leaves t).
Proof.
  revert v. induction t as [c tok o y | c o y t1 IH | c o y hl l IHl r IHr]; intros v E; cbn [view_prolog_ja] in E.
  - destruct (leaf5_ja tok) as [x|] eqn:E5; [|discriminate]. apply Some_inj in E; subst v. cbn [vleaves leaves map fst snd]. now rewrite E5.
  - destruct (assoc y prolog_ja_combinators); [|discriminate]. destruct (view_prolog_ja t1) as [v1|]; [|discriminate]. apply Some_inj in E; subst v. cbn [vleaves leaves]. now apply IH.
  - destruct (assoc y prolog_ja_combinators); [|discriminate]. destruct (view_prolog_ja l) as [v1|]; [|discriminate]. destruct (view_prolog_ja r) as [v2|]; [|discriminate].
    apply Some_inj in E; subst v. cbn [vleaves leaves]. rewrite !map_app. destruct (IHl v1 eq_refl) as [A1 B1]. destruct (IHr v2 eq_refl) as [A2 B2].
    now rewrite A1, A2, B1, B2.
Qed.

Lemma view_prolog_ja_skeleton t v : view_prolog_ja t = Some v ->
  exists s, tree_skeleton t = Some s /\ skeleton_of v = vmapc plc_ja s.
Proof.
  unfold tree_skeleton. revert v. induction t as [c tok o y | c o y t1 IH | c o y hl l IHl r IHr]; intros v E; cbn [view_prolog_ja project] in *.
  - destruct (leaf5_ja tok); [|discriminate]. apply Some_inj in E; subst v. eexists. split; reflexivity.
  - destruct (assoc y prolog_ja_combinators); [|discriminate]. destruct (view_prolog_ja t1) as [v1|]; [|discriminate]. apply Some_inj in E; subst v.
    destruct (IH v1 eq_refl) as (s1 & E1 & S1). rewrite E1. eexists. split; [reflexivity|]. cbn [skeleton_of vmapc pick_label]. now rewrite S1.
  - destruct (assoc y prolog_ja_combinators); [|discriminate]. destruct (view_prolog_ja l) as [v1|]; [|discriminate]. destruct (view_prolog_ja r) as [v2|]; [|discriminate].
    apply Some_inj in E; subst v. destruct (IHl v1 eq_refl) as (s1 & E1 & S1). destruct (IHr v2 eq_refl) as (s2 & E2 & S2). rewrite E1, E2.
    eexists. split; [reflexivity|]. cbn [skeleton_of vmapc pick_label]. now rewrite S1, S2.
Qed.

(* the Prolog labels are functions of the rule labels: op_string through _op_mapping (English), op_symbol through _ja_combinators *)
Lemma view_prolog_en_labels c ops sym hl l r v : view_prolog_en (Bin c ops sym hl l r) = Some v ->
  exists fv a b, assoc ops prolog_op_mapping = Some fv /\ v = VBin (plc_en c) (en_label ops fv) true a b.
Proof.
  cbn [view_prolog_en]. destruct (assoc ops prolog_op_mapping) as [fv|]; [|discriminate].
  destruct (view_prolog_en l) as [a|]; [|discriminate]. destruct (view_prolog_en r) as [b|]; [|discriminate]. intros E. apply Some_inj in E. eauto.
Qed.

(* ================= Part 5: whole documents ================= *)
Lemma pl_strip_prefix_app p x : pl_strip_prefix p (p ++ x) = Some x.
Proof. induction p as [|c p IH]; cbn [app pl_strip_prefix]; [reflexivity|]. now rewrite N.eqb_refl. Qed.

Definition clause_toks (k : nat) (ts : list ptok) : list ptok := PName s_ccg :: PLP :: PName (show_nat k) :: PComma :: ts ++ [PRP; PName [46]].

Lemma clause_clean k body tail ts : clean body ts -> hd_delim body -> clean tail [PRP; PName [46]] ->
  clean (s_ccg ++ [cLP] ++ show_nat k ++ body ++ tail) (PName s_ccg :: PLP :: [PName (show_nat k)] ++ ts ++ [PRP; PName [46]]).
Proof.
  intros Cb Hb Ct. destruct name_ok_consts as (_ & _ & _ & _ & Nccg).
  apply cl_open; [exact Nccg|]. apply cleanD_app; [apply cleanD_name, show_nat_name | | now apply clean_app].
  destruct body as [|x body]; [contradiction | exact Hb].
Qed.

Lemma en_clause_clean k t txt : pl_okb_en t = true -> print_prolog_en k t = Some txt ->
  exists ts, en_toks t = Some ts /\ clean txt (clause_toks k ts).
Proof.
  intros Hok E. unfold print_prolog_en in E. destruct (pl_rec_en t 1) as [s|] eqn:Es; [|discriminate]. cbn [option_map] in E. apply Some_inj in E. subst txt.
  destruct (en_lex t Hok 1%nat s Es) as (ts & Et & Cs). exists ts. split; [exact Et|].
  rewrite (app_assoc s_cnl s). exact (clause_clean k (s_cnl ++ s) [cRP; 46; cNL] (PComma :: ts) (cl_cnl _ _ Cs) eq_refl clean_end_en).
Qed.

Lemma ja_clause_clean k t txt : pl_okb_ja t = true -> print_prolog_ja k t = Some txt ->
  exists ts, ja_toks t = Some ts /\ clean txt (clause_toks k ts).
Proof.
  intros Hok E. unfold print_prolog_ja in E. destruct (pl_rec_ja t 1) as [s|] eqn:Es; [|discriminate]. cbn [option_map] in E. apply Some_inj in E. subst txt.
  destruct (ja_lex t Hok 1%nat s Es) as (ts & Et & Cs & _). exists ts. split; [exact Et|].
  rewrite (app_assoc [cCOMMA] s). exact (clause_clean k ([cCOMMA] ++ s) [cRP; 46; cNL; cNL] (PComma :: ts) (cl_comma _ _ Cs) eq_refl clean_end_ja).
Qed.

(* the records of a document, generically: printer, token form, view, reader *)
Section Docs.
Variable pr : nat -> tree -> option text.
Variable toks : tree -> option (list ptok).
Variable vw : tree -> option (view tok5).
Variable dec : nat -> list ptok -> option (view tok5 * list ptok).
Variable okb : tree -> bool.
Variable need : tree -> nat.
Hypothesis pr_clean : forall k t txt, okb t = true -> pr k t = Some txt -> exists ts, toks t = Some ts /\ clean txt (clause_toks k ts).
Hypothesis toks_dec : forall t, okb t = true -> forall ts, toks t = Some ts ->
  exists v, vw t = Some v /\ forall fuel rest, (need t <= fuel)%nat -> dec fuel (ts ++ rest) = Some (v, rest).
Hypothesis toks_len : forall t ts, toks t = Some ts -> (need t <= length ts)%nat.

Definition rec_view (r : nat * nat * tree) : option (text * view tok5) := option_map (fun v => (show_nat (fst (fst r)), v)) (vw (snd r)).

Lemma docs_roundtrip (post : text) (recs : list (nat * nat * tree)) : clean post [] ->
  Forall (fun r => okb (snd r) = true) recs -> forall body,
  concat_opt (map (fun r : nat * nat * tree => option_map (fun s => s ++ post) (pr (fst (fst r)) (snd r))) recs) = Some body ->
  exists tks vs, clean body tks /\ pl_opt_list (map rec_view recs) = Some vs /\ (length recs <= length tks)%nat /\
                 forall n, (length recs <= n)%nat -> dec_clauses dec (S n) tks = Some vs.
Proof.
  intros Cp Hok. induction Hok as [|[[k i] t] recs Ht Hr IH]; intros body E; cbn [map concat_opt] in E.
  - apply Some_inj in E; subst body. exists [], []. split; [apply clean_nil|]. split; [reflexivity|]. split; [cbn [length]; lia|]. intros n _. reflexivity.
  - cbn [fst snd] in *. destruct (pr k t) as [s|] eqn:Ep; [|discriminate]. cbn [option_map] in E.
    match type of E with match ?x with _ => _ end = _ => destruct x as [body'|] eqn:Eb; [|discriminate] end. apply Some_inj in E; subst body.
    destruct (IH body' eq_refl) as (tks & vs & Cb & Ev & Hl & Hd).
    destruct (pr_clean k t s Ht Ep) as (ts & Et & Cs). destruct (toks_dec t Ht ts Et) as (v & Evw & Hdec).
    exists (clause_toks k ts ++ tks), ((show_nat k, v) :: vs). split; [|split; [|split]].
    + apply clean_app; [|exact Cb]. rewrite <- (app_nil_r (clause_toks k ts)). now apply clean_app.
    + cbn [map pl_opt_list]. unfold rec_view at 1. cbn [fst snd]. rewrite Evw. cbn [option_map]. now rewrite Ev.
    + rewrite app_length. unfold clause_toks. cbn [length]. lia.
    + intros n Hn. cbn [length] in Hn.
      unfold clause_toks. cbn [app]. rewrite <- app_assoc. cbn [app dec_clauses]. rewrite text_eqb_refl.
      rewrite Hdec; [|rewrite app_length; pose proof (toks_len t ts Et); lia]. destruct n as [|n]; [lia|]. rewrite (Hd n ltac:(lia)). reflexivity.
Qed.
End Docs.

Lemma Forall_records (P : tree -> Prop) (b : list (list tree)) :
  Forall (Forall P) b -> Forall (fun r : nat * nat * tree => P (snd r)) (number_batch b).
Proof.
  intros H. apply Forall_map. unfold number_batch. rewrite FmtProofs.number_from_snd. now apply Forall_concat.
Qed.

Lemma doc_tokens body tks : clean body tks -> pl_tokens body = tks.
Proof. intros C. unfold pl_tokens. rewrite <- (app_nil_r body), (C []). cbn [plex flushN]. apply app_nil_r. Qed.

Theorem prolog_en_doc_roundtrip b txt : Forall (Forall (fun t => pl_okb_en t = true)) b -> prolog_en_doc b = Some txt ->
  dec_prolog_doc dec_en txt = doc_views view_prolog_en b /\ dec_prolog_doc dec_en txt <> None.
Proof.
  change (doc_views view_prolog_en b) with (pl_opt_list (map (rec_view view_prolog_en) (number_batch b))).
  intros Hok E. pose proof (Forall_records _ b Hok) as Hr. unfold prolog_en_doc in E.
  assert (E' : option_map (fun body => prolog_header ++ [cNL] ++ body)
                 (concat_opt (map (fun rec : nat * nat * tree => option_map (fun s => s ++ [cNL]) (print_prolog_en (fst (fst rec)) (snd rec))) (number_batch b))) = Some txt).
  { destruct b as [|[|t0 ts0] b']; [discriminate | discriminate | exact E]. }
  clear E. destruct (concat_opt _) as [body|] eqn:Eb; [|discriminate]. cbn [option_map] in E'. apply Some_inj in E'. subst txt.
  destruct (docs_roundtrip print_prolog_en en_toks view_prolog_en dec_en pl_okb_en fuel_of en_clause_clean en_dec en_toks_length [cNL] (number_batch b) clean_nl Hr body Eb)
    as (tks & vs & Cb & Ev & Hl & Hd).
  unfold dec_prolog_doc. rewrite (app_assoc prolog_header), pl_strip_prefix_app. cbv zeta. rewrite (doc_tokens body tks Cb), Ev.
  rewrite (Hd (length tks) Hl). split; [reflexivity | discriminate].
Qed.

Theorem prolog_ja_doc_roundtrip b txt : Forall (Forall (fun t => pl_okb_ja t = true)) b -> prolog_ja_doc b = Some txt ->
  dec_prolog_doc dec_ja txt = doc_views view_prolog_ja b /\ dec_prolog_doc dec_ja txt <> None.
Proof.
  change (doc_views view_prolog_ja b) with (pl_opt_list (map (rec_view view_prolog_ja) (number_batch b))).
  intros Hok E. pose proof (Forall_records _ b Hok) as Hr. unfold prolog_ja_doc in E.
  assert (E' : option_map (fun body => prolog_header ++ [cNL] ++ body)
                 (concat_opt (map (fun rec : nat * nat * tree => print_prolog_ja (fst (fst rec)) (snd rec)) (number_batch b))) = Some txt).
  { destruct b as [|[|t0 ts0] b']; [discriminate | discriminate | exact E]. }
  clear E. destruct (concat_opt _) as [body|] eqn:Eb; [|discriminate]. cbn [option_map] in E'. apply Some_inj in E'. subst txt.
  assert (Eb' : concat_opt (map (fun r : nat * nat * tree => option_map (fun s => s ++ []) (print_prolog_ja (fst (fst r)) (snd r))) (number_batch b)) = Some body).
  { rewrite <- Eb. f_equal. apply map_ext. intros r. destruct (print_prolog_ja _ _); cbn [option_map]; [now rewrite app_nil_r | reflexivity]. }
  destruct (docs_roundtrip print_prolog_ja ja_toks view_prolog_ja dec_ja pl_okb_ja depth_of ja_clause_clean ja_dec ja_toks_length [] (number_batch b) clean_nil Hr body Eb')
    as (tks & vs & Cb & Ev & Hl & Hd).
  unfold dec_prolog_doc. rewrite (app_assoc prolog_header), pl_strip_prefix_app. cbv zeta. rewrite (doc_tokens body tks Cb), Ev.
  rewrite (Hd (length tks) Hl). split; [reflexivity | discriminate].
Qed.
