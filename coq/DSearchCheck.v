(* Running the deterministic twin (DSearch.v) on concrete problems (AStarCheck.problem, C = nat category ids) inside coqc,
   and the comparison with what the real parse_sentence did.  MODEL ONLY (used by the correspondence cases).
   The model receives ONLY the problem; its pop trace, status, goal derivations and scores are compared for equality with
   the recorded ones. *)
From Coq Require Import List ZArith Bool Arith.
Import ListNotations.
Require Import AStar AStarImpl AStarCheck Heap DSearch.
Open Scope Z_scope.

(* the admitted tags of token i in push order and best_tag_scores[i], both read off the tag heap of the row *)
Definition d_adm (p : problem) (i : nat) : list nat := dbeam (p_use_beta p) (p_theta p) (p_pruning p) (nth i (p_tag p) []).
Definition d_besttag (p : problem) (i : nat) : Z := dbest (nth i (p_tag p) []).

Definition d_init (p : problem) : @dstate nat := dinit (p_n p) (p_tagf p) (d_adm p) (d_besttag p) (p_bestdep p).
Definition d_step (p : problem) : @dstate nat -> @dstate nat :=
  dstep Nat.eqb (p_n p) (p_depf p) (d_besttag p) (p_bestdep p) (lookup2 (p_bin p)) (lookup1 (p_un p)) (p_isroot p) (p_pen p) (p_dedup p).
Definition d_final (p : problem) : @dstate nat :=
  dfinal Nat.eqb (p_n p) (p_tagf p) (p_depf p) (d_adm p) (d_besttag p) (p_bestdep p) (lookup2 (p_bin p)) (lookup1 (p_un p))
         (p_isroot p) (p_pen p) (p_dedup p) (p_max_step p) (p_nbest p).

(* equality of hook records *)
Definition tpop_eqb (a b : @tpop nat) : bool :=
  match a, b with
  | TLeaf i c, TLeaf j d => (i =? j)%nat && (c =? d)%nat
  | TUn k c x, TUn k' c' x' => (k =? k')%nat && (c =? c')%nat && (x =? x')%nat
  | TBin k c h l r, TBin k' c' h' l' r' => (k =? k')%nat && (c =? c')%nat && Bool.eqb h h' && (l =? l')%nat && (r =? r')%nat
  | TFin x, TFin x' => (x =? x')%nat
  | _, _ => false
  end.
Definition trec_eqb (a b : @trec nat) : bool :=
  tpop_eqb (t_pop a) (t_pop b) && (t_in a =? t_in b) && (t_out a =? t_out b) && (t_start a =? t_start b)%nat &&
  (t_len a =? t_len b)%nat && (t_head a =? t_head b)%nat && Bool.eqb (t_stored a) (t_stored b).
Definition trecs_eqb (a b : list (@trec nat)) : bool :=
  (length a =? length b)%nat && forallb (fun xy => trec_eqb (fst xy) (snd xy)) (combine a b).

(* the prediction of the model equals the recorded run: every pop (in order), the status, the goal derivations and scores in
   finalizer order *)
Definition dsearch_ok (p : problem) (tr : list (@trec nat)) (status : nat) (goals : list (@deriv nat)) (scores : list Z) : bool :=
  let st := d_final p in
  trecs_eqb (dpops st) tr && (dstatus st =? status)%nat &&
  derivs_eqb (map (@jder nat) (dresult st)) goals && zs_eqb (map (@jprio nat) (dresult st)) scores.

(* diagnostics: (position of the first differing pop or the common length, model trace length, recorded length, model status) *)
Fixpoint first_diff (a b : list (@trec nat)) (k : nat) : nat :=
  match a, b with
  | x :: a', y :: b' => if trec_eqb x y then first_diff a' b' (S k) else k
  | _, _ => k
  end.
Definition dsearch_diag (p : problem) (tr : list (@trec nat)) : nat * nat * nat * nat :=
  let st := d_final p in (first_diff (dpops st) tr 0, length (dpops st), length tr, dstatus st).

(* did a pop choose among several agenda entries of the same (maximal) score?  (statistics of the correspondence) *)
Fixpoint count_tie_pops (p : problem) (fuel : nat) (st : @dstate nat) (acc : nat) : nat :=
  match fuel with
  | O => acc
  | S f =>
      if drunning_b (p_max_step p) (p_nbest p) st then
        let tie := match dheap st with
                   | x :: r => existsb (fun y => jprio (d_item y) =? jprio (d_item x)) r
                   | [] => false
                   end in
        count_tie_pops p f (d_step p st) (if tie then S acc else acc)
      else acc
  end.
Definition d_tie_pops (p : problem) : nat := count_tie_pops p (p_max_step p) (d_init p) 0.
