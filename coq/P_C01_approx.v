(* C01, robustness against rounded priority comparisons.  Property theorems only.
   The heap of parsing.h compares float32 priorities.  If the item it pops has an EXACT (real-number) priority within
   [delta] of the best exact priority on the agenda (AStarApprox.valid_pop_d; this holds with delta = twice the largest
   absolute rounding error of a stored priority), then in 1-best mode the first parse is within
       delta * approxB d   =   delta * (number of nodes of d + 1)
   of EVERY complete derivation d (each first-pop-wins decision along d and the goal pop lose at most delta each), in
   n-best mode within delta, and a failure still means that no parse exists.  delta = 0 gives back the exact theorems of
   P_C01.v; the bound is attained (Examples).  [p_accepts_s p tr = Some (st, delta)] is what the real-valued stream of the
   harness evaluates (vm_compute) on the pop order of the real search: the slack delta is MEASURED by the replay. *)
From Coq Require Import List ZArith Bool Arith.
Import ListNotations.
Require Import AStar AStarLoss AStarOpt AStarImpl AStarRefine AStarThms AStarReplay AStarCheck AStarProblem AStarApprox AStarApproxProofs.
Open Scope Z_scope.

(* ---------------------------------------------------------------- abstract search (AStar.v), every grammar / sentence *)

(* slack 0 is the exact search *)
Theorem C01_approx_zero_slack_is_exact :
  forall (C : Type) (ceqb : C -> C -> bool) n tag dep adm besttag bestdep bin un isroot pen dedup plus remove_one max_step nbest (st : @state C),
  reach_d ceqb n tag dep adm besttag bestdep bin un isroot pen dedup plus remove_one max_step nbest 0 st <->
  reach ceqb n tag dep adm besttag bestdep bin un isroot pen dedup plus remove_one max_step nbest st.
Proof. exact (@reach_d_zero). Qed.

(* a larger slack admits more runs *)
Theorem C01_approx_slack_monotone :
  forall (C : Type) (ceqb : C -> C -> bool) n tag dep adm besttag bestdep bin un isroot pen dedup plus remove_one max_step nbest d1 d2 (st : @state C),
  d1 <= d2 ->
  reach_d ceqb n tag dep adm besttag bestdep bin un isroot pen dedup plus remove_one max_step nbest d1 st ->
  reach_d ceqb n tag dep adm besttag bestdep bin un isroot pen dedup plus remove_one max_step nbest d2 st.
Proof. exact (@reach_d_mono). Qed.

(* 1-best, head-uniform grammar, penalty >= 0, cyclic or acyclic unary rules: the first parse is a complete derivation
   whose score is within delta * (nodes d + 1) of every complete derivation d *)
Theorem C01_approx_first_goal_near_optimal :
  forall (C : Type) (ceqb : C -> C -> bool), (forall a b, ceqb a b = true <-> a = b) ->
  forall n tag dep adm besttag bestdep bin un isroot pen (remove_one : @item C -> list (@item C) -> list (@item C)),
  (forall a l x, In x (remove_one a l) -> In x l) -> (forall a l x, In x l -> x = a \/ In x (remove_one a l)) ->
  forall max_step nbest,
  0 <= pen -> (forall i c, (i < n)%nat -> In c (adm i) -> tag i c <= besttag i) -> (forall i j, dep i j <= bestdep i) ->
  forall hdir, (forall x y c hl, In (c, hl) (bin x y) -> hl = hdir) ->
  forall delta, 0 <= delta ->
  forall st, reach_d ceqb n tag dep adm besttag bestdep bin un isroot pen true true remove_one max_step nbest delta st ->
  forall g rest, goal st = g :: rest ->
    complete n adm bin un isroot g /\
    forall d, complete n adm bin un isroot d -> score tag dep pen d - delta * approxB d <= score tag dep pen g.
Proof. exact (@first_goal_in_state_d). Qed.

(* the same at the moment of the pop *)
Theorem C01_approx_first_goal_pop_near_optimal :
  forall (C : Type) (ceqb : C -> C -> bool), (forall a b, ceqb a b = true <-> a = b) ->
  forall n tag dep adm besttag bestdep bin un isroot pen (remove_one : @item C -> list (@item C) -> list (@item C)),
  (forall a l x, In x (remove_one a l) -> In x l) -> (forall a l x, In x l -> x = a \/ In x (remove_one a l)) ->
  forall max_step nbest,
  0 <= pen -> (forall i c, (i < n)%nat -> In c (adm i) -> tag i c <= besttag i) -> (forall i j, dep i j <= bestdep i) ->
  forall hdir, (forall x y c hl, In (c, hl) (bin x y) -> hl = hdir) ->
  forall delta, 0 <= delta ->
  forall st a, reach_d ceqb n tag dep adm besttag bestdep bin un isroot pen true true remove_one max_step nbest delta st ->
  goal st = [] -> valid_pop_d n tag dep besttag bestdep pen true delta a st -> ifin a = true ->
  forall d, complete n adm bin un isroot d -> score tag dep pen d - delta * approxB d <= score tag dep pen (ider a).
Proof. exact (@first_goal_near_optimal). Qed.

(* corollary delta = 0: exact optimality of the first parse of the exact search *)
Theorem C01_approx_exact_optimality_from_zero_slack :
  forall (C : Type) (ceqb : C -> C -> bool), (forall a b, ceqb a b = true <-> a = b) ->
  forall n tag dep adm besttag bestdep bin un isroot pen (remove_one : @item C -> list (@item C) -> list (@item C)),
  (forall a l x, In x (remove_one a l) -> In x l) -> (forall a l x, In x l -> x = a \/ In x (remove_one a l)) ->
  forall max_step nbest,
  0 <= pen -> (forall i c, (i < n)%nat -> In c (adm i) -> tag i c <= besttag i) -> (forall i j, dep i j <= bestdep i) ->
  forall hdir, (forall x y c hl, In (c, hl) (bin x y) -> hl = hdir) ->
  forall st, reach ceqb n tag dep adm besttag bestdep bin un isroot pen true true remove_one max_step nbest st ->
  forall g rest, goal st = g :: rest ->
    complete n adm bin un isroot g /\ forall d, complete n adm bin un isroot d -> score tag dep pen d <= score tag dep pen g.
Proof. exact (@exact_from_approx). Qed.

(* whatever the slack (no sign condition): an exhausted agenda with an empty goal cell means that no parse exists *)
Theorem C01_approx_failure_only_if_no_parse :
  forall (C : Type) (ceqb : C -> C -> bool), (forall a b, ceqb a b = true <-> a = b) ->
  forall n tag dep adm besttag bestdep bin un isroot pen (remove_one : @item C -> list (@item C) -> list (@item C)),
  (forall a l x, In x (remove_one a l) -> In x l) -> (forall a l x, In x l -> x = a \/ In x (remove_one a l)) ->
  forall max_step nbest,
  0 <= pen -> (forall i c, (i < n)%nat -> In c (adm i) -> tag i c <= besttag i) -> (forall i j, dep i j <= bestdep i) ->
  forall hdir, (forall x y c hl, In (c, hl) (bin x y) -> hl = hdir) ->
  forall delta st, reach_d ceqb n tag dep adm besttag bestdep bin un isroot pen true true remove_one max_step nbest delta st ->
  agenda st = [] -> goal st = [] -> forall d, ~ complete n adm bin un isroot d.
Proof. exact (@fail_only_if_none_any). Qed.

(* priorities of successive pops rise by at most delta *)
Theorem C01_approx_pops_rise_at_most_delta :
  forall (C : Type) (ceqb : C -> C -> bool), (forall a b, ceqb a b = true <-> a = b) ->
  forall n tag dep adm besttag bestdep bin un isroot pen (remove_one : @item C -> list (@item C) -> list (@item C)),
  (forall a l x, In x (remove_one a l) -> In x l) -> (forall a l x, In x l -> x = a \/ In x (remove_one a l)) ->
  forall max_step nbest,
  0 <= pen -> (forall i c, (i < n)%nat -> In c (adm i) -> tag i c <= besttag i) -> (forall i j, dep i j <= bestdep i) ->
  forall hdir, (forall x y c hl, In (c, hl) (bin x y) -> hl = hdir) ->
  forall delta, 0 <= delta ->
  forall st a a', reach_d ceqb n tag dep adm besttag bestdep bin un isroot pen true true remove_one max_step nbest delta st ->
  valid_pop_d n tag dep besttag bestdep pen true delta a st ->
  valid_pop_d n tag dep besttag bestdep pen true delta a' (step ceqb n bin un isroot true remove_one a st) ->
  prio n tag dep besttag bestdep pen true a' <= prio n tag dep besttag bestdep pen true a + delta.
Proof. exact (@pops_monotone_d). Qed.

(* n-best (no dedup; any grammar, any delta): a complete derivation that was not returned scores at most delta more than
   any returned one *)
Theorem C01_approx_nbest_near_best_remaining :
  forall (C : Type) (ceqb : C -> C -> bool), (forall a b, ceqb a b = true <-> a = b) ->
  forall n tag dep adm besttag bestdep bin un isroot pen (remove_one : @item C -> list (@item C) -> list (@item C)),
  (forall a l x, In x (remove_one a l) -> In x l) -> (forall a l x, In x l -> x = a \/ In x (remove_one a l)) ->
  forall max_step nbest,
  0 <= pen -> (forall i c, (i < n)%nat -> In c (adm i) -> tag i c <= besttag i) -> (forall i j, dep i j <= bestdep i) ->
  forall delta st, reach_d ceqb n tag dep adm besttag bestdep bin un isroot pen false true remove_one max_step nbest delta st ->
  forall d, complete n adm bin un isroot d -> ~ In d (goal st) ->
  forall g, In g (goal st) -> score tag dep pen d - delta <= score tag dep pen g.
Proof. exact (@nbest_in_state_d). Qed.

(* ---------------------------------------------------------------- implementation-level model (AStarImpl.v) *)

(* a run of the implementation-level model with slack delta is a run of the abstract search with slack delta *)
Theorem C01_approx_impl_refines_abstract :
  forall (C : Type) (ceqb : C -> C -> bool) n tag dep adm besttag bestdep bin un isroot pen max_step nbest dd delta (st : @jstate C),
  jreach_d ceqb n tag dep adm besttag bestdep bin un isroot pen dd max_step nbest delta st ->
  reach_d ceqb n tag dep adm besttag bestdep bin un isroot pen dd true (remove_spec ceqb) max_step nbest delta (abs_state st) /\
  JOK n tag dep besttag bestdep pen st.
Proof. exact (@refinement_d). Qed.

Theorem C01_approx_impl_zero_slack_is_exact : forall p st, p_reach_d p 0 st <-> p_reach p st.
Proof. exact p_reach_d_zero. Qed.

(* the slack-measuring replay is sound: an accepted trace is a run with the measured slack, which is >= 0 *)
Theorem C01_approx_impl_measured_run_is_run : forall p tr st delta,
  p_accepts_s p tr = Some (st, delta) -> p_reach_d p delta st /\ 0 <= delta /\ p_running_b p st = false.
Proof. exact p_accepts_s_reach. Qed.

Theorem C01_approx_impl_first_parse_near_optimal : forall p hdir delta st,
  0 <= p_pen p -> uniformb hdir (p_bin p) = true -> p_dedup p = true -> 0 <= delta -> p_reach_d p delta st ->
  forall g rest, jgoal st = g :: rest ->
    p_complete p (jder g) /\ jprio g = p_score p (jder g) /\ forall d, p_complete p d -> p_score p d - delta * approxB d <= jprio g.
Proof. exact p_first_parse_near_optimal. Qed.

(* the form evaluated on every run of the real-valued stream *)
Theorem C01_approx_impl_measured_run_near_optimal : forall p hdir tr st delta,
  0 <= p_pen p -> uniformb hdir (p_bin p) = true -> p_dedup p = true -> p_accepts_s p tr = Some (st, delta) ->
  forall g rest, jgoal st = g :: rest ->
    p_complete p (jder g) /\ jprio g = p_score p (jder g) /\ forall d, p_complete p d -> p_score p d - delta * approxB d <= jprio g.
Proof. exact p_measured_run_near_optimal. Qed.

Theorem C01_approx_impl_failure_only_if_no_parse : forall p hdir tr st delta,
  0 <= p_pen p -> uniformb hdir (p_bin p) = true -> p_dedup p = true -> p_accepts_s p tr = Some (st, delta) -> jgoal st = [] ->
  (forall d, ~ p_complete p d) \/ (p_max_step p <= jsteps st)%nat \/ p_nbest p = 0%nat.
Proof. exact p_measured_failure_means_none_or_budget. Qed.

Theorem C01_approx_impl_nbest_near_best_remaining : forall p delta st,
  0 <= p_pen p -> p_dedup p = false -> p_reach_d p delta st ->
  forall d, p_complete p d -> ~ In d (map (@jder nat) (jgoal st)) -> forall g, In g (jgoal st) -> p_score p d - delta <= jprio g.
Proof. exact p_nbest_near_best. Qed.

(* ---------------------------------------------------------------- the bound is attained; hypotheses are satisfiable *)

(* one token: a run with slack 4 returns a parse that is worse than the optimum (1 node) by exactly 4 * (1 + 1) = 8 > 0 *)
Example ex_approx_bound_attained_1 : exists st,
  ax_final = Some st /\
  reach_d Nat.eqb 1 ax_tag ax_dep ax_adm ax_best ax_best ax_bin ax_un ax_isroot 0 true true (remove_spec Nat.eqb) 100 1 ax_delta st /\
  goal st = [ax_got] /\ complete 1 ax_adm ax_bin ax_un ax_isroot ax_opt /\
  0 < score ax_tag ax_dep 0 ax_opt - score ax_tag ax_dep 0 ax_got /\
  score ax_tag ax_dep 0 ax_opt - score ax_tag ax_dep 0 ax_got = ax_delta * approxB ax_opt.
Proof.
  eexists. split; [vm_compute; reflexivity|]. split.
  { apply (run_d_reach Nat.eqb 1 ax_tag ax_dep ax_adm ax_best ax_best ax_bin ax_un ax_isroot 0 true true (remove_spec Nat.eqb) 100 1
             ax_delta ax_run (init 1 ax_adm)); [constructor|vm_compute; reflexivity]. }
  split; [reflexivity|]. split; [|split; vm_compute; reflexivity].
  split; [constructor; [repeat constructor|left; reflexivity]|repeat split].
Qed.

(* two tokens: the optimum has 3 nodes; a run with slack 4 returns a parse that is worse by exactly 4 * (3 + 1) = 16 *)
Example ex_approx_bound_attained_3 : exists st,
  bx_final = Some st /\
  reach_d Nat.eqb 2 bx_tag ax_dep bx_adm ax_best ax_best bx_bin ax_un bx_isroot 0 true true (remove_spec Nat.eqb) 100 1 ax_delta st /\
  goal st = [bx_got] /\ complete 2 bx_adm bx_bin ax_un bx_isroot bx_opt /\
  0 < score bx_tag ax_dep 0 bx_opt - score bx_tag ax_dep 0 bx_got /\
  score bx_tag ax_dep 0 bx_opt - score bx_tag ax_dep 0 bx_got = ax_delta * approxB bx_opt.
Proof.
  eexists. split; [vm_compute; reflexivity|]. split.
  { apply (run_d_reach Nat.eqb 2 bx_tag ax_dep bx_adm ax_best ax_best bx_bin ax_un bx_isroot 0 true true (remove_spec Nat.eqb) 100 1
             ax_delta bx_run (init 2 bx_adm)); [constructor|vm_compute; reflexivity]. }
  split; [reflexivity|]. split; [|split; vm_compute; reflexivity].
  split; [|repeat split].
  apply (LBin 2 bx_adm bx_bin ax_un 0%nat 6%nat true (DLeaf 0 0%nat) (DLeaf 1 0%nat)); try reflexivity;
    constructor; solve [repeat constructor | left; reflexivity].
Qed.

(* the hypotheses of the theorems hold for the two examples (so the theorems apply to these runs) *)
Example ex_approx_hyps_1 :
  (forall i c, (i < 1)%nat -> In c (ax_adm i) -> ax_tag i c <= ax_best i) /\ (forall i j, ax_dep i j <= ax_best i) /\
  (forall x y c hl, In (c, hl) (ax_bin x y) -> hl = true).
Proof. exact ax_hyps. Qed.
Example ex_approx_hyps_3 :
  (forall i c, (i < 2)%nat -> In c (bx_adm i) -> bx_tag i c <= ax_best i) /\ (forall x y c hl, In (c, hl) (bx_bin x y) -> hl = true).
Proof. exact bx_hyps. Qed.
