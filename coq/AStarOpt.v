From Coq Require Import List ZArith Lia Bool Arith.
Import ListNotations.
Require Import AStar AStarLoss.
Open Scope Z_scope.

Section Opt.
Context {C : Type}.
Variable ceqb : C -> C -> bool.
Hypothesis ceqb_eq : forall a b, ceqb a b = true <-> a = b.
Variable n : nat.
Variable tag : nat -> C -> Z.
Variable dep : nat -> nat -> Z.
Variable adm : nat -> list C.
Variable besttag bestdep : nat -> Z.
Variable bin : C -> C -> list (C * bool).
Variable un : C -> list C.
Variable isroot : C -> bool.
Variable pen : Z.
Variable remove_one : @item C -> list (@item C) -> list (@item C).
Hypothesis remove_one_sub : forall a l x, In x (remove_one a l) -> In x l.
Hypothesis remove_one_keep : forall a l x, In x l -> x = a \/ In x (remove_one a l).
Variable max_step nbest : nat.

Hypothesis pen_nonneg : 0 <= pen.
Hypothesis tag_le : forall i c, (i < n)%nat -> In c (adm i) -> tag i c <= besttag i.
Hypothesis dep_le : forall i j, dep i j <= bestdep i.
Variable hdir : bool.
Hypothesis uniform : forall x y c hl, In (c, hl) (bin x y) -> hl = hdir.

Notation deriv := (@deriv C).
Notation item := (@item C).
Notation state := (@state C).
Notation licensed := (licensed n adm bin un).
Notation loss := (loss tag dep besttag bestdep pen).
Notation prio := (prio n tag dep besttag bestdep pen true).
Notation step := (step ceqb n bin un isroot true remove_one).
Notation init := (init n adm).
Notation reach := (reach ceqb n tag dep adm besttag bestdep bin un isroot pen true true remove_one max_step nbest).
Notation valid_pop := (valid_pop n tag dep besttag bestdep pen true).
Notation pushes := (pushes n bin un isroot).
Notation Kc := (K n besttag bestdep).
Notation root_loss := (root_loss dep bestdep).

Definition key (d : deriv) := (dstart d, dlen d, dcat d).
Lemma key_eqb_iff a b : key_eqb ceqb a b = true <-> key a = key b.
Proof.
  unfold key_eqb, key. rewrite !andb_true_iff, !Nat.eqb_eq, ceqb_eq. split.
  - intros [[-> ->] ->]. reflexivity.
  - intros E. inversion E. auto.
Qed.

Lemma head_uniform d : licensed d -> dhead d = if hdir then dstart d else (dstart d + dlen d - 1)%nat.
Proof.
  induction 1 as [i c Hi Hc | k c d Hd IH Hn Hs | k c hl l r Hl IHl Hr IHr Hadj Hn]; simpl.
  - destruct hdir; lia.
  - exact IH.
  - apply nth_error_In in Hn. apply uniform in Hn. subst hl.
    pose proof (span_ok n adm bin un l Hl). pose proof (span_ok n adm bin un r Hr).
    destruct hdir; [exact IHl|]. rewrite IHr. lia.
Qed.

Lemma key_head a b : licensed a -> licensed b -> key a = key b -> dhead a = dhead b.
Proof. intros Ha Hb E. rewrite (head_uniform a Ha), (head_uniform b Hb). inversion E. now rewrite H0, H1. Qed.

(* characterisation of pushes *)
Lemma in_push_un d x : In x (push_un n un d) <->
  (n = 1%nat \/ dlen d <> n) /\ exists k c, nth_error (un (dcat d)) k = Some c /\ x = nf (DUn k c d).
Proof.
  unfold push_un. destruct ((n =? 1)%nat || negb (dlen d =? n)%nat) eqn:G.
  - rewrite in_map_iff. split.
    + intros [[k c] [E Hin]]. apply In_enum in Hin. split.
      * apply orb_true_iff in G as [G|G]; [left; now apply Nat.eqb_eq|right; apply negb_true_iff in G; now apply Nat.eqb_neq].
      * exists k, c. split; [assumption|]. now rewrite <- E.
    + intros [_ [k [c [Hn ->]]]]. exists (k, c). split; [reflexivity|]. now apply In_enum.
  - split; [intros []|]. intros [[G1|G1] _]; apply orb_false_iff in G as [Ga Gb].
    + apply Nat.eqb_neq in Ga. congruence.
    + apply negb_false_iff in Gb. apply Nat.eqb_eq in Gb. congruence.
Qed.

Lemma in_push_right d ch x : In x (push_right bin d ch) <->
  exists o, In o ch /\ dstart o = (dstart d + dlen d)%nat /\
    exists k c hl, nth_error (bin (dcat d) (dcat o)) k = Some (c, hl) /\ x = nf (DBin k c hl d o).
Proof.
  unfold push_right. rewrite in_flat_map. split.
  - intros [o [Ho Hx]]. destruct (dstart o =? dstart d + dlen d)%nat eqn:E; [|destruct Hx].
    apply Nat.eqb_eq in E. apply in_map_iff in Hx as [[k [c hl]] [Ex Hin]]. apply In_enum in Hin.
    exists o. repeat split; try assumption. exists k, c, hl. split; [assumption|]. now rewrite <- Ex.
  - intros [o [Ho [E [k [c [hl [Hn ->]]]]]]]. exists o. split; [assumption|].
    apply Nat.eqb_eq in E. rewrite E. apply in_map_iff. exists (k, (c, hl)). split; [reflexivity|]. now apply In_enum.
Qed.

Lemma in_push_left d ch x : In x (push_left bin d ch) <->
  exists o, In o ch /\ (dstart o + dlen o)%nat = dstart d /\
    exists k c hl, nth_error (bin (dcat o) (dcat d)) k = Some (c, hl) /\ x = nf (DBin k c hl o d).
Proof.
  unfold push_left. rewrite in_flat_map. split.
  - intros [o [Ho Hx]]. destruct (dstart o + dlen o =? dstart d)%nat eqn:E; [|destruct Hx].
    apply Nat.eqb_eq in E. apply in_map_iff in Hx as [[k [c hl]] [Ex Hin]]. apply In_enum in Hin.
    exists o. repeat split; try assumption. exists k, c, hl. split; [assumption|]. now rewrite <- Ex.
  - intros [o [Ho [E [k [c [hl [Hn ->]]]]]]]. exists o. split; [assumption|].
    apply Nat.eqb_eq in E. rewrite E. apply in_map_iff. exists (k, (c, hl)). split; [reflexivity|]. now apply In_enum.
Qed.

Lemma in_push_fin d x : In x (push_fin n isroot d) <-> dlen d = n /\ isroot (dcat d) = true /\ x = fi d.
Proof.
  unfold push_fin. destruct ((dlen d =? n)%nat && isroot (dcat d)) eqn:G.
  - apply andb_true_iff in G as [G1 G2]. apply Nat.eqb_eq in G1. simpl. split.
    + intros [<-|[]]. auto.
    + intros (_ & _ & ->). now left.
  - split; [intros []|]. intros (G1 & G2 & _). apply Nat.eqb_eq in G1. rewrite G1, G2 in G. discriminate.
Qed.

(* well-formedness of items: non-final items are licensed; final ones are licensed, complete and rooted *)
Definition item_ok (a : item) : Prop :=
  licensed (ider a) /\ (ifin a = true -> dstart (ider a) = 0%nat /\ dlen (ider a) = n /\ isroot (dcat (ider a)) = true).

Definition Wf (st : state) : Prop :=
  (forall a, In a (agenda st) -> item_ok a) /\ (forall e, In e (chart st) -> licensed e) /\
  (forall g, In g (goal st) -> licensed g).

Lemma pushes_ok d ch : licensed d -> (forall e, In e ch -> licensed e) -> forall x, In x (pushes d ch) -> item_ok x.
Proof.
  intros Hd Hch x Hx. unfold pushes, AStar.pushes in Hx. rewrite !in_app_iff in Hx.
  destruct Hx as [Hx|[Hx|[Hx|Hx]]].
  - apply in_push_fin in Hx as (Hl & Hr & ->). split; [exact Hd|]. intros _. simpl.
    pose proof (span_ok n adm bin un d Hd). repeat split; try assumption. lia.
  - apply in_push_un in Hx as (G & k & c & Hn & ->). split; [|discriminate]. simpl. now constructor.
  - apply in_push_right in Hx as (o & Ho & E & k & c & hl & Hn & ->). split; [|discriminate]. simpl.
    constructor; [exact Hd|exact (Hch o Ho)|exact E|exact Hn].
  - apply in_push_left in Hx as (o & Ho & E & k & c & hl & Hn & ->). split; [|discriminate]. simpl.
    constructor; [exact (Hch o Ho)|exact Hd|symmetry; exact E|exact Hn].
Qed.

Lemma init_ok : Wf init.
Proof.
  split; [|split]; simpl; try tauto.
  intros a Ha. apply in_flat_map in Ha as [i [Hi Ha]]. apply in_map_iff in Ha as [c [<- Hc]].
  apply in_seq in Hi. split; [|discriminate]. simpl. constructor; [lia|assumption].
Qed.

Lemma step_ok a st : Wf st -> In a (agenda st) -> Wf (step a st).
Proof.
  intros (Hag & Hch & Hgo) Ha. unfold step, AStar.step.
  pose proof (Hag a Ha) as [Hl Hf].
  destruct (ifin a) eqn:Ef.
  - split; [|split]; simpl; auto.
    + intros b Hb. apply remove_one_sub in Hb. auto.
    + intros g Hg. apply in_app_iff in Hg as [Hg|[<-|[]]]; auto.
  - destruct (true && existsb (key_eqb ceqb (ider a)) (chart st)) eqn:Ed.
    + split; [|split]; simpl; auto. intros b Hb. apply remove_one_sub in Hb. auto.
    + split; [|split]; simpl; auto.
      * intros b Hb. apply in_app_iff in Hb as [Hb|Hb].
        -- exact (pushes_ok (ider a) (chart st) Hl Hch b Hb).
        -- apply remove_one_sub in Hb. auto.
      * intros e [<-|He]; auto.
Qed.

(* priority as constant minus loss *)
Lemma prio_item a : item_ok a ->
  prio a = Kc - (loss (ider a) + if ifin a then root_loss (ider a) else 0).
Proof.
  intros [Hl Hf]. destruct a as [f d]. simpl in *. destruct f.
  - destruct (Hf eq_refl) as (Hs & Hlen & _).
    change {| ifin := true; ider := d |} with (fi d). rewrite (prio_fi n tag dep adm besttag bestdep bin un pen d Hl Hs Hlen). reflexivity.
  - change {| ifin := false; ider := d |} with (nf d). rewrite (prio_nf n tag dep adm besttag bestdep bin un pen d Hl). lia.
Qed.

Definition iloss (a : item) : Z := loss (ider a) + if ifin a then root_loss (ider a) else 0.

(* consistency: everything pushed when d is popped has at least d's loss *)
Lemma pushes_loss d ch : licensed d -> (forall e, In e ch -> licensed e) ->
  forall x, In x (pushes d ch) -> loss d <= iloss x.
Proof.
  intros Hd Hch x Hx. unfold pushes, AStar.pushes in Hx. rewrite !in_app_iff in Hx. unfold iloss.
  destruct Hx as [Hx|[Hx|[Hx|Hx]]].
  - apply in_push_fin in Hx as (_ & _ & ->). simpl. pose proof (root_loss_nonneg dep bestdep dep_le d). lia.
  - apply in_push_un in Hx as (_ & k & c & _ & ->). simpl. lia.
  - apply in_push_right in Hx as (o & Ho & _ & k & c & hl & _ & ->). simpl.
    pose proof (loss_nonneg n tag dep adm besttag bestdep bin un pen pen_nonneg tag_le dep_le o (Hch o Ho)).
    pose proof (attach_loss_nonneg dep bestdep dep_le hl d o). lia.
  - apply in_push_left in Hx as (o & Ho & _ & k & c & hl & _ & ->). simpl.
    pose proof (loss_nonneg n tag dep adm besttag bestdep bin un pen pen_nonneg tag_le dep_le o (Hch o Ho)).
    pose proof (attach_loss_nonneg dep bestdep dep_le hl o d). lia.
Qed.

(* M: every chart item was popped at a loss no larger than anything still on the agenda *)
Definition Mono (st : state) : Prop := forall e b, In e (chart st) -> In b (agenda st) -> loss e <= iloss b.

Lemma valid_pop_loss a st : Wf st -> valid_pop a st -> forall b, In b (agenda st) -> iloss a <= iloss b.
Proof.
  intros (Hag & _ & _) [Ha Hmax] b Hb. specialize (Hmax b Hb).
  rewrite (prio_item a (Hag a Ha)), (prio_item b (Hag b Hb)) in Hmax. unfold iloss. lia.
Qed.

Lemma step_mono a st : Wf st -> Mono st -> valid_pop a st -> Mono (step a st).
Proof.
  intros Hwf HM Hv. pose proof Hwf as (Hag & Hch & _). pose proof Hv as [Ha _].
  pose proof (valid_pop_loss a st Hwf Hv) as Hmin.
  unfold step, AStar.step. destruct (ifin a) eqn:Ef.
  - intros e b He Hb. simpl in *. apply remove_one_sub in Hb. auto.
  - destruct (true && existsb (key_eqb ceqb (ider a)) (chart st)) eqn:Ed.
    + intros e b He Hb. simpl in *. apply remove_one_sub in Hb. auto.
    + assert (Hla : iloss a = loss (ider a)) by (unfold iloss; rewrite Ef; lia).
      intros e b He Hb. simpl in *. apply in_app_iff in Hb. destruct He as [<-|He].
      * destruct Hb as [Hb|Hb].
        -- eapply pushes_loss; eauto. exact (proj1 (Hag a Ha)).
        -- apply remove_one_sub in Hb. rewrite <- Hla. auto.
      * destruct Hb as [Hb|Hb].
        -- pose proof (pushes_loss (ider a) (chart st) (proj1 (Hag a Ha)) Hch b Hb). specialize (HM e a He Ha). lia.
        -- apply remove_one_sub in Hb. auto.
Qed.

(* frontier invariant *)
Definition children (d : deriv) : list deriv :=
  match d with DLeaf _ _ => [] | DUn _ _ c => [c] | DBin _ _ _ l r => [l; r] end.
Definition Done (st : state) (d : deriv) : Prop := exists e, In e (chart st) /\ key e = key d /\ loss e <= loss d.
Definition Rep (st : state) (d : deriv) : Prop :=
  exists a, In a (agenda st) /\ ifin a = false /\ key (ider a) = key d /\ loss (ider a) <= loss d.
Definition Inv (st : state) : Prop :=
  forall d, licensed d -> (forall c, In c (children d) -> Done st c) -> Done st d \/ Rep st d.

Lemma done_dec st d : Done st d \/ ~ Done st d.
Proof.
  unfold Done. induction (chart st) as [|e ch IH].
  - right. intros [e [[] _]].
  - destruct IH as [[e' [He' R]]|IH]; [left; exists e'; split; [right; exact He'|exact R]|].
    destruct (key_eqb ceqb e d) eqn:Ek.
    + apply key_eqb_iff in Ek. destruct (Z_le_dec (loss e) (loss d)) as [Hl|Hl].
      * left. exists e. split; [left; reflexivity|auto].
      * right. intros [e' [[<-|He'] [Hk Hl']]]; [contradiction|]. apply IH. exists e'. auto.
    + right. intros [e' [[<-|He'] [Hk Hl']]].
      * apply key_eqb_iff in Hk. congruence.
      * apply IH. exists e'. auto.
Qed.

Lemma init_inv : Inv init.
Proof.
  intros d Hd Hc. right. destruct Hd as [i c Hi Hin | k c d Hd Hn Hs | k c hl l r Hl Hr Hadj Hn].
  - exists (nf (DLeaf i c)). repeat split; try reflexivity; try lia. simpl.
    apply in_flat_map. exists i. split; [apply in_seq; lia|]. apply in_map_iff. exists c. auto.
  - destruct (Hc d (or_introl eq_refl)) as [e [[] _]].
  - destruct (Hc l (or_introl eq_refl)) as [e [[] _]].
Qed.

Lemma done_mono_chart st st' d : (forall e, In e (chart st) -> In e (chart st')) -> Done st d -> Done st' d.
Proof. intros H [e [He R]]. exists e. auto. Qed.

Lemma key_dlen a b : key a = key b -> dlen a = dlen b. Proof. intros E; now inversion E. Qed.
Lemma key_dstart a b : key a = key b -> dstart a = dstart b. Proof. intros E; now inversion E. Qed.
Lemma key_dcat a b : key a = key b -> dcat a = dcat b. Proof. intros E; now inversion E. Qed.

Lemma step_inv a st : Wf st -> Mono st -> Inv st -> valid_pop a st -> Inv (step a st).
Proof.
  intros Hwf HM HI Hv. pose proof Hwf as (Hag & Hch & _). pose proof Hv as [Ha _].
  pose proof (Hag a Ha) as [Hla _].
  unfold step, AStar.step. destruct (ifin a) eqn:Ef.
  - (* final item popped: chart unchanged, only a (final) leaves the agenda *)
    intros d Hd Hc. simpl in *. destruct (HI d Hd Hc) as [HD|[b (Hb & Hbf & Hk & Hl)]]; [left; exact HD|].
    right. exists b. repeat split; try assumption. simpl.
    destruct (remove_one_keep a _ b Hb) as [->|Hin]; [congruence|exact Hin].
  - destruct (true && existsb (key_eqb ceqb (ider a)) (chart st)) eqn:Ed.
    + (* duplicate key: dropped *)
      simpl in Ed. apply existsb_exists in Ed as [e [He Hke]]. apply key_eqb_iff in Hke.
      intros d Hd Hc. simpl in *. destruct (HI d Hd Hc) as [HD|[b (Hb & Hbf & Hk & Hl)]]; [left; exact HD|].
      destruct (remove_one_keep a _ b Hb) as [->|Hin].
      * left. exists e. repeat split; try assumption; try congruence.
        specialize (HM e a He Ha). unfold iloss in HM. rewrite Ef in HM. lia.
      * right. exists b. repeat split; assumption.
    + (* a enters the chart *)
      set (da := ider a) in *.
      set (st' := {| agenda := pushes da (chart st) ++ remove_one a (agenda st); chart := da :: chart st; goal := goal st; nsteps := S (nsteps st) |}).
      assert (Hsub : forall e, In e (chart st) -> In e (chart st')) by (intros e He; right; exact He).
      intros d Hd Hc.
      (* were all children already done before? *)
      assert (Hcase : (forall c, In c (children d) -> Done st c) \/ exists c, In c (children d) /\ ~ Done st c /\ key da = key c /\ loss da <= loss c).
      { assert (Hnew : forall c, Done st' c -> Done st c \/ (key da = key c /\ loss da <= loss c)).
        { intros c [e [[<-|He] [Hk Hl]]]; [right; auto|left; exists e; auto]. }
        destruct d as [i c | k c d1 | k c hl l r]; simpl in *.
        - left. intros c0 [].
        - destruct (Hnew d1 (Hc d1 (or_introl eq_refl))) as [H|[H1 H2]].
          + left. intros c0 [<-|[]]. exact H.
          + destruct (done_dec st d1) as [H|H]; [left; intros c0 [<-|[]]; exact H|].
            right. exists d1. auto.
        - destruct (done_dec st l) as [HL|HL]; destruct (done_dec st r) as [HR|HR].
          + left. intros c0 [<-|[<-|[]]]; assumption.
          + right. exists r. destruct (Hnew r (Hc r (or_intror (or_introl eq_refl)))) as [H|[H1 H2]]; [contradiction|auto].
          + right. exists l. destruct (Hnew l (Hc l (or_introl eq_refl))) as [H|[H1 H2]]; [contradiction|auto].
          + right. exists l. destruct (Hnew l (Hc l (or_introl eq_refl))) as [H|[H1 H2]]; [contradiction|auto]. }
      assert (Hda_in : In da (chart st')) by (left; reflexivity).
      assert (Hpush : forall x, In x (pushes da (chart st)) -> In x (agenda st')) by (intros x Hx; simpl; apply in_app_iff; left; exact Hx).
      destruct Hcase as [Hall|[c (Hcin & Hnd & Hkc & Hlc)]].
      { (* nothing new below d *)
        destruct (HI d Hd Hall) as [HD|[b (Hb & Hbf & Hk & Hl)]].
        + left. eapply done_mono_chart; eauto.
        + destruct (remove_one_keep a _ b Hb) as [->|Hin].
          * left. exists da. repeat split; try assumption. 
          * right. exists b. repeat split; try assumption. simpl. apply in_app_iff. right. exact Hin. }
      { (* the child c has just become done through da: the parent is pushed *)
        right.
        assert (Hother : forall c', In c' (children d) -> key c' <> key da -> exists e, In e (chart st) /\ key e = key c' /\ loss e <= loss c').
        { intros c' Hc' Hne. destruct (Hc c' Hc') as [e [[<-|He] [Hk Hl]]]; [congruence|]. exists e. auto. }
        inversion Hd as [i c0 Hi Hin | k c0 d1 Hd1 Hn Hs | k c0 hl l r Hl Hr Hadj Hn]; subst d; simpl in Hcin.
        + destruct Hcin.
        + destruct Hcin as [<-|[]].
          exists (nf (DUn k c0 da)). repeat split.
          * apply Hpush. unfold pushes, AStar.pushes. rewrite !in_app_iff. right; left.
            apply in_push_un. split.
            -- rewrite (key_dlen _ _ Hkc). exact Hs.
            -- exists k, c0. split; [|reflexivity]. rewrite (key_dcat _ _ Hkc). exact Hn.
          * unfold key. simpl. rewrite (key_dstart _ _ Hkc), (key_dlen _ _ Hkc). reflexivity.
          * simpl. lia.
        + pose proof (span_ok n adm bin un l Hl) as Sl. pose proof (span_ok n adm bin un r Hr) as Sr.
          destruct Hcin as [<-|[<-|[]]].
          * (* c = l *)
            destruct (Hother r (or_intror (or_introl eq_refl))) as [e (He & Hke & Hle)].
            { intros E. rewrite Hkc in E. apply key_dstart in E. lia. }
            exists (nf (DBin k c0 hl da e)). repeat split.
            -- apply Hpush. unfold pushes, AStar.pushes. rewrite !in_app_iff. right; right; left.
               apply in_push_right. exists e. split; [exact He|]. split.
               ++ rewrite (key_dstart _ _ Hke), (key_dstart _ _ Hkc), (key_dlen _ _ Hkc). exact Hadj.
               ++ exists k, c0, hl. split; [|reflexivity]. rewrite (key_dcat _ _ Hkc), (key_dcat _ _ Hke). exact Hn.
            -- unfold key. simpl. rewrite (key_dstart _ _ Hkc), (key_dlen _ _ Hkc), (key_dlen _ _ Hke). reflexivity.
            -- simpl. assert (Ea : attach_loss dep bestdep hl da e = attach_loss dep bestdep hl l r).
               { unfold attach_loss. rewrite (key_head da l Hla Hl Hkc), (key_head e r (Hch e He) Hr Hke). reflexivity. }
               rewrite Ea. lia.
          * (* c = r *)
            destruct (Hother l (or_introl eq_refl)) as [e (He & Hke & Hle)].
            { intros E. rewrite Hkc in E. apply key_dstart in E. lia. }
            exists (nf (DBin k c0 hl e da)). repeat split.
            -- apply Hpush. unfold pushes, AStar.pushes. rewrite !in_app_iff. right; right; right.
               apply in_push_left. exists e. split; [exact He|]. split.
               ++ rewrite (key_dstart _ _ Hke), (key_dlen _ _ Hke), (key_dstart _ _ Hkc). symmetry. exact Hadj.
               ++ exists k, c0, hl. split; [|reflexivity]. rewrite (key_dcat _ _ Hkc), (key_dcat _ _ Hke). exact Hn.
            -- unfold key. simpl. rewrite (key_dstart _ _ Hke), (key_dlen _ _ Hkc), (key_dlen _ _ Hke). reflexivity.
            -- simpl. assert (Ea : attach_loss dep bestdep hl e da = attach_loss dep bestdep hl l r).
               { unfold attach_loss. rewrite (key_head da r Hla Hr Hkc), (key_head e l (Hch e He) Hl Hke). reflexivity. }
               rewrite Ea. lia. }
Qed.


Variable deriv_eq_dec : forall a b : deriv, {a = b} + {a <> b}.
Lemma in_dec_children (st : state) d :
  (forall c, In c (children d) -> In c (chart st)) \/ exists c, In c (children d) /\ ~ In c (chart st).
Proof.
  induction (children d) as [|c cs IH].
  - left. intros c [].
  - destruct (in_dec deriv_eq_dec c (chart st)) as [Hc|Hc].
    + destruct IH as [IH|[c' [H1 H2]]].
      * left. intros c' [<-|H]; auto.
      * right. exists c'. split; [right; exact H1|exact H2].
    + right. exists c. split; [left; reflexivity|exact Hc].
Qed.

(* every complete rooted chart item has its goal item on the agenda or already in the goal cell *)
Definition FinInv (st : state) : Prop :=
  forall e, In e (chart st) -> dlen e = n -> isroot (dcat e) = true -> In (fi e) (agenda st) \/ In e (goal st).

Lemma init_fin : FinInv init. Proof. intros e []. Qed.

Lemma step_fin a st : FinInv st -> In a (agenda st) -> FinInv (step a st).
Proof.
  intros HF Ha. unfold step, AStar.step. destruct (ifin a) eqn:Ef.
  - intros e He Hl Hr. simpl in *. destruct (HF e He Hl Hr) as [H|H].
    + destruct (remove_one_keep a _ _ H) as [E|Hin]; [|left; exact Hin].
      right. apply in_app_iff. right. left. rewrite <- E. reflexivity.
    + right. apply in_app_iff. left. exact H.
  - destruct (true && existsb (key_eqb ceqb (ider a)) (chart st)) eqn:Ed.
    + intros e He Hl Hr. simpl in *. destruct (HF e He Hl Hr) as [H|H]; [|right; exact H].
      destruct (remove_one_keep a _ _ H) as [E|Hin]; [|left; exact Hin]. rewrite <- E in Ef. discriminate.
    + intros e He Hl Hr. simpl in *. destruct He as [<-|He].
      * left. apply in_app_iff. left. unfold pushes, AStar.pushes. apply in_app_iff. left.
        apply in_push_fin. auto.
      * destruct (HF e He Hl Hr) as [H|H]; [|right; exact H].
        destruct (remove_one_keep a _ _ H) as [E|Hin]; [rewrite <- E in Ef; discriminate|].
        left. apply in_app_iff. right. exact Hin.
Qed.

Definition AllInv (st : state) : Prop := Wf st /\ Mono st /\ Inv st /\ FinInv st.

Theorem reach_inv st : reach st -> AllInv st.
Proof.
  induction 1 as [|st a Hr IH Hrun Hv].
  - split; [apply init_ok|split; [intros e b []|split; [apply init_inv|apply init_fin]]].
  - destruct IH as (Hwf & HM & HI & HF). pose proof Hv as [Ha _].
    split; [apply step_ok; assumption|split; [apply step_mono; assumption|split; [apply step_inv; assumption|apply step_fin; assumption]]].
Qed.

Lemma child_loss_le d c : licensed d -> In c (children d) -> loss c <= loss d.
Proof.
  intros Hd Hc. inversion Hd as [i c0 Hi Hin | k c0 d1 Hd1 Hn Hs | k c0 hl l r Hl Hr Hadj Hn]; subst d; simpl in *.
  - destruct Hc.
  - destruct Hc as [<-|[]]. lia.
  - pose proof (loss_nonneg n tag dep adm besttag bestdep bin un pen pen_nonneg tag_le dep_le l Hl).
    pose proof (loss_nonneg n tag dep adm besttag bestdep bin un pen pen_nonneg tag_le dep_le r Hr).
    pose proof (attach_loss_nonneg dep bestdep dep_le hl l r).
    destruct Hc as [<-|[<-|[]]]; lia.
Qed.

Lemma child_licensed d c : licensed d -> In c (children d) -> licensed c.
Proof.
  intros Hd Hc. inversion Hd; subst d; simpl in *; [destruct Hc| |]; intuition (subst; assumption).
Qed.

(* whatever is not yet done has a representative on the agenda that is at least as good *)
Lemma cover st : Inv st -> forall d, licensed d -> Done st d \/ exists b, In b (agenda st) /\ iloss b <= loss d.
Proof.
  intros HI d. induction d as [i c | k c d1 IH | k c hl l IHl r IHr]; intros Hd.
  - destruct (HI _ Hd) as [H|[b (Hb & Hf & Hk & Hl)]]; [intros c0 []|left; exact H|].
    right. exists b. split; [exact Hb|]. unfold iloss. rewrite Hf. lia.
  - assert (Hd1 : licensed d1) by (apply (child_licensed _ d1 Hd); left; reflexivity).
    destruct (IH Hd1) as [HD|[b (Hb & Hl)]].
    + destruct (HI _ Hd) as [H|[b (Hb & Hf & Hk & Hl)]]; [intros c0 [<-|[]]; exact HD|left; exact H|].
      right. exists b. split; [exact Hb|]. unfold iloss. rewrite Hf. lia.
    + right. exists b. split; [exact Hb|]. pose proof (child_loss_le _ d1 Hd (or_introl eq_refl)). lia.
  - assert (Hl : licensed l) by (apply (child_licensed _ l Hd); left; reflexivity).
    assert (Hr : licensed r) by (apply (child_licensed _ r Hd); right; left; reflexivity).
    destruct (IHl Hl) as [HDl|[b (Hb & Hlb)]].
    + destruct (IHr Hr) as [HDr|[b (Hb & Hlb)]].
      * destruct (HI _ Hd) as [H|[b (Hb & Hf & Hk & Hlb)]]; [intros c0 [<-|[<-|[]]]; assumption|left; exact H|].
        right. exists b. split; [exact Hb|]. unfold iloss. rewrite Hf. lia.
      * right. exists b. split; [exact Hb|]. pose proof (child_loss_le _ r Hd (or_intror (or_introl eq_refl))). lia.
    + right. exists b. split; [exact Hb|]. pose proof (child_loss_le _ l Hd (or_introl eq_refl)). lia.
Qed.

Definition score (d : deriv) : Z := dins tag dep pen d + dep (dhead d) 0.
Definition complete (d : deriv) : Prop := licensed d /\ dstart d = 0%nat /\ dlen d = n /\ isroot (dcat d) = true.

Lemma score_loss d : complete d -> score d = Kc - (loss d + root_loss d).
Proof. intros (Hl & Hs & Hn & _). exact (prio_fi n tag dep adm besttag bestdep bin un pen d Hl Hs Hn). Qed.

(* C01, first half: the first goal item popped is a best derivation *)
Theorem first_goal_optimal st a :
  reach st -> goal st = [] -> valid_pop a st -> ifin a = true ->
  forall d, complete d -> score d <= score (ider a).
Proof.
  intros Hr Hg Hv Hf d Hc. destruct (reach_inv st Hr) as (Hwf & HM & HI & HF).
  pose proof Hwf as (Hag & Hch & _). pose proof Hv as [Ha _].
  pose proof (Hag a Ha) as [Hla Hfa]. destruct (Hfa Hf) as (Hsa & Hna & Hra).
  rewrite (score_loss d Hc). rewrite (score_loss (ider a)) by (repeat split; assumption).
  pose proof (valid_pop_loss a st Hwf Hv) as Hmin. unfold iloss at 1 in Hmin. rewrite Hf in Hmin.
  destruct Hc as (Hl & Hs & Hn & Hroot).
  pose proof (root_loss_nonneg dep bestdep dep_le d).
  destruct (cover st HI d Hl) as [[e (He & Hk & Hle)]|[b (Hb & Hlb)]].
  - destruct (HF e He) as [Hin|Hin]; [rewrite (key_dlen _ _ Hk); exact Hn|rewrite (key_dcat _ _ Hk); exact Hroot| |rewrite Hg in Hin; destruct Hin].
    specialize (Hmin _ Hin). unfold iloss in Hmin. simpl in Hmin.
    assert (root_loss e = root_loss d) by (unfold root_loss, AStarLoss.root_loss; rewrite (key_head e d (Hch e He) Hl Hk); reflexivity).
    lia.
  - specialize (Hmin _ Hb). lia.
Qed.

(* C01, second half: an exhausted agenda with an empty goal cell means there is no parse *)
Theorem fail_only_if_none st : reach st -> agenda st = [] -> goal st = [] -> forall d, ~ complete d.
Proof.
  intros Hr Hag Hg d (Hl & Hs & Hn & Hroot). destruct (reach_inv st Hr) as (Hwf & HM & HI & HF).
  destruct (cover st HI d Hl) as [[e (He & Hk & Hle)]|[b (Hb & _)]].
  - destruct (HF e He) as [Hin|Hin]; [rewrite (key_dlen _ _ Hk); exact Hn|rewrite (key_dcat _ _ Hk); exact Hroot| |].
    + rewrite Hag in Hin. destruct Hin.
    + rewrite Hg in Hin. destruct Hin.
  - rewrite Hag in Hb. destruct Hb.
Qed.

(* C01, observable order: priorities of successive pops never increase *)
Theorem pops_monotone st a a' :
  reach st -> valid_pop a st -> valid_pop a' (step a st) -> prio a' <= prio a.
Proof.
  intros Hr Hv Hv'. destruct (reach_inv st Hr) as (Hwf & HM & HI & HF).
  pose proof Hwf as (Hag & Hch & _). pose proof Hv as [Ha Hmax]. pose proof Hv' as [Ha' _].
  assert (Hwf' : Wf (step a st)) by (apply step_ok; assumption).
  destruct (Hag a Ha) as [Hla _].
  revert Ha'. unfold step, AStar.step. destruct (ifin a) eqn:Ef.
  - simpl. intros H. apply remove_one_sub in H. auto.
  - destruct (true && existsb (key_eqb ceqb (ider a)) (chart st)) eqn:Ed.
    + simpl. intros H. apply remove_one_sub in H. auto.
    + simpl. intros H. apply in_app_iff in H as [H|H]; [|apply remove_one_sub in H; auto].
      pose proof (pushes_loss (ider a) (chart st) Hla Hch a' H) as Hl.
      rewrite (prio_item a (Hag a Ha)). rewrite (prio_item a' (pushes_ok (ider a) (chart st) Hla Hch a' H)).
      unfold iloss in Hl. rewrite Ef. lia.
Qed.


(* ------------------------------------------------------------------ n-best mode (no dedup) *)
Notation stepN := (AStar.step ceqb n bin un isroot false remove_one).
Notation reachN := (AStar.reach ceqb n tag dep adm besttag bestdep bin un isroot pen false true remove_one max_step nbest).

Lemma stepN_ok a st : Wf st -> In a (agenda st) -> Wf (stepN a st).
Proof.
  intros (Hag & Hch & Hgo) Ha. unfold AStar.step.
  pose proof (Hag a Ha) as [Hl Hf].
  destruct (ifin a) eqn:Ef.
  - split; [|split]; simpl; auto.
    + intros b Hb. apply remove_one_sub in Hb. auto.
    + intros g Hg. apply in_app_iff in Hg as [Hg|[<-|[]]]; auto.
  - simpl. split; [|split]; simpl; auto.
    + intros b Hb. apply in_app_iff in Hb as [Hb|Hb].
      * exact (pushes_ok (ider a) (chart st) Hl Hch b Hb).
      * apply remove_one_sub in Hb. auto.
    + intros e [<-|He]; auto.
Qed.

(* exact-derivation frontier invariant *)
Definition InvN (st : state) : Prop :=
  forall d, licensed d -> (forall c, In c (children d) -> In c (chart st)) -> In d (chart st) \/ In (nf d) (agenda st).
Definition FinInvN (st : state) : Prop :=
  forall d, In d (chart st) -> dlen d = n -> isroot (dcat d) = true -> In (fi d) (agenda st) \/ In d (goal st).

Lemma initN_inv : InvN init.
Proof.
  intros d Hd Hc. right. destruct Hd as [i c Hi Hin | k c d Hd Hn Hs | k c hl l r Hl Hr Hadj Hn].
  - simpl. apply in_flat_map. exists i. split; [apply in_seq; lia|]. apply in_map_iff. exists c. auto.
  - destruct (Hc d (or_introl eq_refl)).
  - destruct (Hc l (or_introl eq_refl)).
Qed.

Lemma nf_inj (d d2 : deriv) : nf d = nf d2 -> d = d2. Proof. intros E; now inversion E. Qed.

Lemma stepN_inv a st : Wf st -> InvN st -> In a (agenda st) -> InvN (stepN a st).
Proof.
  intros Hwf HI Ha. pose proof Hwf as (Hag & Hch & _). pose proof (Hag a Ha) as [Hla _].
  unfold AStar.step. destruct (ifin a) eqn:Ef.
  - intros d Hd Hc. simpl in *. destruct (HI d Hd Hc) as [H|H]; [left; exact H|].
    right. destruct (remove_one_keep a _ _ H) as [E|Hin]; [rewrite <- E in Ef; discriminate|exact Hin].
  - simpl. set (da := ider a).
    assert (Ea : a = nf da) by (destruct a as [f d0]; simpl in *; subst f; reflexivity).
    intros d Hd Hc. simpl in *.
    destruct (in_dec_children st d) as [Hall|[c (Hcin & Hnot)]].
    + destruct (HI d Hd Hall) as [H|H]; [left; right; exact H|].
      destruct (remove_one_keep a _ _ H) as [E|Hin].
      * left. left. rewrite Ea in E. apply nf_inj in E. symmetry. exact E.
      * right. apply in_app_iff. right. exact Hin.
    + (* the child c is exactly da *)
      assert (Hc_da : c = da) by (destruct (Hc c Hcin) as [E|E]; [symmetry; exact E|contradiction]).
      subst c. right. apply in_app_iff. left. unfold pushes, AStar.pushes. rewrite !in_app_iff.
      assert (Hold : forall c', In c' (children d) -> c' <> da -> In c' (chart st)).
      { intros c' Hc' Hne. destruct (Hc c' Hc') as [E|E]; [congruence|exact E]. }
      inversion Hd as [i c0 Hi Hin | k c0 d1 Hd1 Hn Hs | k c0 hl l r Hl Hr Hadj Hn]; subst d; simpl in Hcin.
      * destruct Hcin.
      * destruct Hcin as [<-|[]]. right; left. apply in_push_un. split; [exact Hs|]. exists k, c0. auto.
      * pose proof (span_ok n adm bin un l Hl) as Sl. pose proof (span_ok n adm bin un r Hr) as Sr.
        destruct Hcin as [<-|[<-|[]]].
        -- right; right; left. apply in_push_right. exists r. split.
           ++ apply Hold; [right; left; reflexivity|]. intros E. rewrite E in Hadj. lia.
           ++ split; [exact Hadj|]. exists k, c0, hl. auto.
        -- right; right; right. apply in_push_left. exists l. split.
           ++ apply Hold; [left; reflexivity|]. intros E. rewrite <- E in Hadj. lia.
           ++ split; [symmetry; exact Hadj|]. exists k, c0, hl. auto.
Qed.

Lemma initN_fin : FinInvN init. Proof. intros e []. Qed.

Lemma stepN_fin a st : FinInvN st -> In a (agenda st) -> FinInvN (stepN a st).
Proof.
  intros HF Ha. unfold AStar.step. destruct (ifin a) eqn:Ef.
  - intros e He Hl Hr. simpl in *. destruct (HF e He Hl Hr) as [H|H].
    + destruct (remove_one_keep a _ _ H) as [E|Hin]; [|left; exact Hin].
      right. apply in_app_iff. right. left. rewrite <- E. reflexivity.
    + right. apply in_app_iff. left. exact H.
  - simpl. intros e He Hl Hr. simpl in *. destruct He as [<-|He].
    + left. apply in_app_iff. left. unfold pushes, AStar.pushes. apply in_app_iff. left. apply in_push_fin. auto.
    + destruct (HF e He Hl Hr) as [H|H]; [|right; exact H].
      destruct (remove_one_keep a _ _ H) as [E|Hin]; [rewrite <- E in Ef; discriminate|].
      left. apply in_app_iff. right. exact Hin.
Qed.

Theorem reachN_inv st : reachN st -> Wf st /\ InvN st /\ FinInvN st.
Proof.
  induction 1 as [|st a Hr IH Hrun Hv].
  - split; [apply init_ok|split; [apply initN_inv|apply initN_fin]].
  - destruct IH as (Hwf & HI & HF). pose proof Hv as [Ha _].
    split; [apply stepN_ok; assumption|split; [apply stepN_inv; assumption|apply stepN_fin; assumption]].
Qed.

Lemma coverN st : InvN st -> forall d, licensed d -> In d (chart st) \/ exists b, In b (agenda st) /\ iloss b <= loss d.
Proof.
  intros HI d. induction d as [i c | k c d1 IH | k c hl l IHl r IHr]; intros Hd.
  - destruct (HI _ Hd) as [H|H]; [intros c0 []|left; exact H|].
    right. exists (nf (DLeaf i c)). split; [exact H|]. unfold iloss. simpl. lia.
  - assert (Hd1 : licensed d1) by (apply (child_licensed _ d1 Hd); left; reflexivity).
    destruct (IH Hd1) as [HD|[b (Hb & Hl)]].
    + destruct (HI _ Hd) as [H|H]; [intros c0 [<-|[]]; exact HD|left; exact H|].
      right. exists (nf (DUn k c d1)). split; [exact H|]. unfold iloss. simpl. lia.
    + right. exists b. split; [exact Hb|]. pose proof (child_loss_le _ d1 Hd (or_introl eq_refl)). lia.
  - assert (Hl : licensed l) by (apply (child_licensed _ l Hd); left; reflexivity).
    assert (Hr : licensed r) by (apply (child_licensed _ r Hd); right; left; reflexivity).
    destruct (IHl Hl) as [HDl|[b (Hb & Hlb)]].
    + destruct (IHr Hr) as [HDr|[b (Hb & Hlb)]].
      * destruct (HI _ Hd) as [H|H]; [intros c0 [<-|[<-|[]]]; assumption|left; exact H|].
        right. exists (nf (DBin k c hl l r)). split; [exact H|]. unfold iloss. simpl. lia.
      * right. exists b. split; [exact Hb|]. pose proof (child_loss_le _ r Hd (or_intror (or_introl eq_refl))). lia.
    + right. exists b. split; [exact Hb|]. pose proof (child_loss_le _ l Hd (or_introl eq_refl)). lia.
Qed.

(* C10 core: each goal item popped is a best derivation among those not yet returned *)
Theorem goal_best_remaining st a :
  reachN st -> valid_pop a st -> ifin a = true ->
  forall d, complete d -> ~ In d (goal st) -> score d <= score (ider a).
Proof.
  intros Hr Hv Hf d Hc Hng. destruct (reachN_inv st Hr) as (Hwf & HI & HF).
  pose proof Hwf as (Hag & Hch & _). pose proof Hv as [Ha _].
  pose proof (Hag a Ha) as [Hla Hfa]. destruct (Hfa Hf) as (Hsa & Hna & Hra).
  rewrite (score_loss d Hc). rewrite (score_loss (ider a)) by (repeat split; assumption).
  pose proof (valid_pop_loss a st Hwf Hv) as Hmin. unfold iloss at 1 in Hmin. rewrite Hf in Hmin.
  destruct Hc as (Hl & Hs & Hn & Hroot).
  pose proof (root_loss_nonneg dep bestdep dep_le d).
  destruct (coverN st HI d Hl) as [Hin|[b (Hb & Hlb)]].
  - destruct (HF d Hin Hn Hroot) as [H1|H1]; [|contradiction].
    specialize (Hmin _ H1). unfold iloss in Hmin. simpl in Hmin. lia.
  - specialize (Hmin _ Hb). lia.
Qed.

End Opt.

