(* C14 (English half) - rule application is total, the seen-rule gate only removes, 'nb' marks do not matter,
   the unary rules return exactly the configured targets.  Over the GENERATED GenEn.v. *)
From Coq Require Import List NArith Bool Lia.
Import ListNotations.
Require Import Cat CatFacts Unify GramPrims GenTables GenEn EnSpec EnLemmas EnSound.
Open Scope N_scope.

Notation kc := (clear_features key_clear).
Notation sc := (clear_features seen_clear).

(* ---------- binary rules ---------- *)
Theorem en_total x y seen : wf puncts x -> wf puncts y -> one_system x y -> exists rs, apply_binary_rules x y seen = Ok_ rs.
Proof.
  intros Wx Wy [Ux Uy]. unfold apply_binary_rules, apply_binary.
  assert (H : exists rs, collect combinators (kc x) (kc y) = Ok_ rs)
    by (apply collect_ok; try (now apply clear_wf); now apply clear_unary).
  destruct seen as [s|]; [|exact H]. destruct (seen_mem _ s); [exact H | now eexists].
Qed.

Theorem en_seen_filter x y S :
  apply_binary_rules x y (Some S) = if seen_mem (sc x, sc y) S then apply_binary_rules x y None else Ok_ [].
Proof. reflexivity. Qed.

Theorem en_nb_invariant x y : apply_binary_rules x y None = apply_binary_rules (kc x) (kc y) None.
Proof. unfold apply_binary_rules, apply_binary. now rewrite !clear_idem. Qed.

(* the filter only removes: with a seen-rule set the result is the unrestricted result or nothing *)
Theorem en_filter_only_removes x y S rs r : apply_binary_rules x y (Some S) = Ok_ rs -> In r rs ->
  exists rs', apply_binary_rules x y None = Ok_ rs' /\ rs' = rs.
Proof.
  rewrite en_seen_filter. destruct (seen_mem _ S); intros H Hin.
  - now exists rs.
  - inversion H; subst. contradiction.
Qed.

(* ---------- unary rules ---------- *)
Definition l_tr : text := [116;114].
Definition l_lex : text := [108;101;120].
Definition y_un : text := [60;117;110;62].
Definition n_PP : text := [80;80].
(* 'tr' exactly when x is an atomic NP or PP and the target is type-raised *)
Definition tr_case (x target : cat) : Prop := (exists f, x = Atom n_NP f \/ x = Atom n_PP f) /\ type_raised target.
Definition unary_result (x : cat) (r : cres) : Prop :=
  ((tr_case x (rcat r) /\ op_string r = l_tr) \/ (~ tr_case x (rcat r) /\ op_string r = l_lex)) /\
  op_symbol r = y_un /\ head_is_left r = true.

Definition tr_caseb (x target : cat) : bool :=
  match x with Atom b _ => text_in b [n_NP; n_PP] && type_raisedb target | Fun _ _ _ => false end.
Lemma tr_caseb_ok x t : tr_caseb x t = true <-> tr_case x t.
Proof.
  unfold tr_case. split.
  - destruct x as [b f|]; cbn [tr_caseb]; [|discriminate]. intros H. apply andb_true_iff in H as [H1 H2].
    apply type_raisedb_ok in H2. split; [|exact H2]. apply text_in_In in H1. exists f.
    destruct H1 as [<-|[<-|[]]]; [now left | now right].
  - intros [[f [->| ->]] H]; cbn [tr_caseb]; apply type_raisedb_ok in H; rewrite H; reflexivity.
Qed.

Lemma unary_body_char x t :
  unary_body x t = Ok_ {| rcat := t; op_string := if tr_caseb x t then l_tr else l_lex; op_symbol := y_un; head_is_left := true |}.
Proof.
  unfold unary_body, n_NP, n_PP.
  destruct x as [b f | l s r]; destruct t as [tb tf | tl ts [tb tf | trl ts' trr]]; cbn [tr_caseb type_raisedb]; crunch.
Qed.

Lemma mapM_unary x ts :
  mapM (unary_body x) ts = Ok_ (map (fun t => {| rcat := t; op_string := if tr_caseb x t then l_tr else l_lex; op_symbol := y_un; head_is_left := true |}) ts).
Proof. induction ts as [|t ts IH]; cbn [mapM map]; [reflexivity|]. rewrite unary_body_char. cbn [bind]. rewrite IH. reflexivity. Qed.

Definition targets (x : cat) (t : unary_table) : list cat := match table_get x t with Some l => l | None => [] end.

Theorem en_unary_exact x t :
  exists rs, apply_unary_rules x t = Ok_ rs /\ map rcat rs = targets x t /\ Forall (unary_result x) rs.
Proof.
  unfold apply_unary_rules, apply_unary, targets. destruct (table_get x t) as [ts|].
  - rewrite mapM_unary. eexists. split; [reflexivity|]. split.
    + rewrite map_map. cbn [rcat]. apply map_id.
    + apply Forall_forall. intros r Hr. apply in_map_iff in Hr as (c & <- & _). unfold unary_result. cbn [rcat op_string op_symbol head_is_left].
      split; [|split; reflexivity]. destruct (tr_caseb x c) eqn:E.
      * left. split; [now apply tr_caseb_ok | reflexivity].
      * right. split; [|reflexivity]. intros H. apply tr_caseb_ok in H. congruence.
  - exists []. split; [reflexivity|]. split; [reflexivity | constructor].
Qed.

Theorem en_unary_total x t : exists rs, apply_unary_rules x t = Ok_ rs.
Proof. destruct (en_unary_exact x t) as (rs & H & _). now exists rs. Qed.
