(* C14 (English half) - lemmas; being written *)
Require Import GenEn.
