(* C11 (continued) - the CONCRETE tie-breaking of parse_sentence threaded through the incremental memo.  Property theorems only.

   P_C11.v (g') proves that the loop of depccg._parsing.run is a function of the batch under a hypothesis: the pops follow one
   category-blind policy (GlueMemoSearch.policy_t).  P_DSearch.v proves that the deterministic twin of parse_sentence (DSearch.v:
   a literal model of libstdc++'s binary heap as agenda, chart cells in first-use order, the push order of the C++) is
   category-blind for FIXED rule functions related by a bi-unique renaming.  Here the two are joined, without any policy
   hypothesis: the twin reads the rule cache / category table incrementally (DSearchMemo.dmstep: the lookups of an iteration in
   the order parse_sentence makes them, each miss interning its new categories - which id a category gets DOES depend on the
   history), and from ANY two admissible memo states (any two histories) the same sentence yields position-wise related pop
   traces (R i j := T1[i] = T2[j]), equal status, equal scores and the SAME decoded outcome, namely the outcome of the twin over
   the categories themselves; the loop of run driven by the twin returns the same list from any two admissible states. *)
From Coq Require Import List ZArith Bool Arith.
Import ListNotations.
Require Import Cat CatFacts Tree GramPrims AStar AStarImpl AStarEquiv AStarEquivOn AStarEquivTables Glue GlueProofs GlueMemo GlueMemoProofs
               GlueMemoSearch GlueMemoSearchProofs Heap HeapProofs DSearch DSearchBlind DSearchProofs DSearchMemo DSearchMemoProofs.

(* ---------- (1) the simulation of the twin, restricted to the keys an iteration really uses ---------- *)
(* dneeded st = the rule lookups of the next loop iteration in the order of parsing.h (unary key of the popped item, then
   (item, other) for the cells starting at its end in first-use order, then (other, item) for the cells ending at its start).
   One iteration keeps the states related (heap vectors, ordered cells, goal cell, counters, hook trace: DSearchBlind.dsrel)
   provided the rule functions OF THIS ITERATION agree up to R on the keys THIS iteration looks up (UB / UU); the two sides may
   use other rule functions at every iteration - under the memo the rule function of an iteration is "the cache after it" *)
Theorem C11_d_step_simulation_on_used_keys : forall (C C' : Type) (ceqb : C -> C -> bool) (ceqb' : C' -> C' -> bool) n dep besttag bestdep
    (isroot : C -> bool) (isroot' : C' -> bool) pen dedup (R : C -> C' -> Prop),
  (forall a a' b b', R a a' -> R b b' -> ceqb a b = ceqb' a' b') ->
  (forall a a', R a a' -> isroot a = isroot' a') ->
  forall (bin : C -> C -> list (C * bool)) (bin' : C' -> C' -> list (C' * bool)) (un : C -> list C) (un' : C' -> list C')
         (UB : C -> C -> Prop) (UU : C -> Prop),
  (forall a a' b b', R a a' -> R b b' -> UB a b -> res_rel R (bin a b) (bin' a' b')) ->
  (forall a a', R a a' -> UU a -> Forall2 R (un a) (un' a')) ->
  forall st st', dsrel R st st' -> dstep_within ceqb n dedup UB UU st ->
  dsrel R (dstep ceqb n dep besttag bestdep bin un isroot pen dedup st) (dstep ceqb' n dep besttag bestdep bin' un' isroot' pen dedup st').
Proof. exact @dstep_rel_on. Qed.

(* the state relation is monotone in R: a larger relation (the table grew) still relates the states *)
Theorem C11_d_state_relation_monotone : forall (C C' : Type) (R R' : C -> C' -> Prop), (forall x y, R x y -> R' x y) ->
  forall st st', dsrel R st st' -> dsrel R' st st'.
Proof. exact @dsrel_mono. Qed.

(* two systems related to a common third one (ids under T1 / ids under T2, both to the categories) are related to each other *)
Theorem C11_d_state_relation_composes : forall (A B D : Type) (R1 : A -> D -> Prop) (R2 : B -> D -> Prop) (S : A -> B -> Prop),
  (forall a b d, R1 a d -> R2 b d -> S a b) ->
  forall st1 stc st2, dsrel R1 st1 stc -> dsrel R2 st2 stc -> dsrel S st1 st2.
Proof. exact @dsrel_compose. Qed.

(* related states look up related keys, in the same order *)
Theorem C11_d_related_states_look_up_related_keys : forall (C C' : Type) (ceqb : C -> C -> bool) (ceqb' : C' -> C' -> bool) n dedup (R : C -> C' -> Prop),
  (forall a a' b b', R a a' -> R b b' -> ceqb a b = ceqb' a' b') ->
  forall st st', dsrel R st st' -> Forall2 (krel R) (dneeded ceqb n dedup st) (dneeded ceqb' n dedup st').
Proof. exact @dneeded_rel. Qed.

(* an iteration depends on the rule functions only through the keys it looks up *)
Theorem C11_d_step_depends_on_used_keys_only : forall (C : Type) (ceqb : C -> C -> bool) n dep besttag bestdep
    (bin1 bin2 : C -> C -> list (C * bool)) (un1 un2 : C -> list C) isroot pen dedup st,
  dstep_within ceqb n dedup (fun x y => bin1 x y = bin2 x y) (fun x => un1 x = un2 x) st ->
  dstep ceqb n dep besttag bestdep bin1 un1 isroot pen dedup st = dstep ceqb n dep besttag bestdep bin2 un2 isroot pen dedup st.
Proof. exact @dstep_ext_on. Qed.

(* whole runs with fixed rule functions: like P_DSearch.C11_d_search_is_category_blind_generic, but the rule-result hypotheses
   are needed only on a domain UB / UU of keys, for a run all of whose iterations stay in that domain (drun_within) *)
Theorem C11_d_search_is_category_blind_on_used_keys : forall (C C' : Type) (ceqb : C -> C -> bool) (ceqb' : C' -> C' -> bool) n dep besttag bestdep
    (isroot : C -> bool) (isroot' : C' -> bool) pen dedup (R : C -> C' -> Prop),
  (forall a a' b b', R a a' -> R b b' -> ceqb a b = ceqb' a' b') ->
  (forall a a', R a a' -> isroot a = isroot' a') ->
  forall (tag : nat -> C -> Z) (tag' : nat -> C' -> Z) (adm : nat -> list C) (adm' : nat -> list C')
         (bin : C -> C -> list (C * bool)) (bin' : C' -> C' -> list (C' * bool)) (un : C -> list C) (un' : C' -> list C')
         max_step nbest (UB : C -> C -> Prop) (UU : C -> Prop),
  (forall a a' b b', R a a' -> R b b' -> UB a b -> res_rel R (bin a b) (bin' a' b')) ->
  (forall a a', R a a' -> UU a -> Forall2 R (un a) (un' a')) ->
  (forall i, Forall2 (fun c c' => R c c' /\ tag i c = tag' i c') (adm i) (adm' i)) ->
  let st := dfinal ceqb n tag dep adm besttag bestdep bin un isroot pen dedup max_step nbest in
  let st' := dfinal ceqb' n tag' dep adm' besttag bestdep bin' un' isroot' pen dedup max_step nbest in
  drun_within ceqb n dep besttag bestdep bin un isroot pen dedup max_step nbest UB UU max_step (dinit n tag adm besttag bestdep) ->
  dsrel R st st' /\ Forall2 (trel R) (dpops st) (dpops st') /\ dstatus st = dstatus st' /\
  Forall2 (irel R) (dresult st) (dresult st') /\ map (@jprio C) (dresult st) = map (@jprio C') (dresult st').
Proof. exact @dsearch_is_category_blind_on. Qed.

(* instance: the pure twins over the ids of two duplicate-free tables with the table-induced grammars, for a run that only
   combines keys whose results both tables contain (the deterministic counterpart of P_C11.C11_table_runs_correspond) *)
Theorem C11_d_table_twins_correspond : forall gbin gun T1 T2, NoDup T1 -> NoDup T2 ->
  forall cats roots rids1 rids2 pen dedup max_step nbest (s : sent),
  (exists u, T1 = cats ++ u) -> (exists u, T2 = cats ++ u) -> lex_ok cats s ->
  Forall2 (names T1) rids1 roots -> Forall2 (names T2) rids2 roots ->
  let st := dtfinal gbin gun rids1 pen dedup max_step nbest s T1 in
  let st' := dtfinal gbin gun rids2 pen dedup max_step nbest s T2 in
  drun_within Nat.eqb (s_n s) (s_dep s) (s_besttag s) (s_bestdep s) (bin_T gbin T1) (un_T gun T1) (isroot_ids rids1) pen dedup max_step nbest
              (both_closed_bin gbin T1 T2) (both_closed_un gun T1 T2) max_step (dminit s) ->
  dsrel (same_cat T1 T2) st st' /\ Forall2 (trel (same_cat T1 T2)) (dpops st) (dpops st') /\ dstatus st = dstatus st' /\
  Forall2 (irel (same_cat T1 T2)) (dresult st) (dresult st') /\ map (@jprio nat) (dresult st) = map (@jprio nat) (dresult st').
Proof. exact d_table_runs_correspond. Qed.

(* ---------- (2) the twin under the incremental memo ---------- *)
(* one iteration from ANY admissible memo state (GlueMemoSearchProofs.start_ok: coherent, the input category list is a prefix
   of the table, the root ids name the roots) with the twin's state related to a state of the category-level twin: the lookups
   succeed (no IndexError), the memo state stays admissible, the table only grows, and the new states are related through the
   table after the iteration *)
Theorem C11_d_memo_twin_step : forall gbin gun cats roots rids pen dedup (s : sent) m ds dc,
  start_ok gbin gun cats roots rids m -> dsrel (names (mtable m)) ds dc ->
  exists m', dmstep gbin gun rids pen dedup s ds m = Some (dmstep_ds rids pen dedup s m' ds, m') /\
             start_ok gbin gun cats roots rids m' /\ (exists u, mtable m' = mtable m ++ u) /\
             dsrel (names (mtable m')) (dmstep_ds rids pen dedup s m' ds) (dcstep gbin gun roots pen dedup s dc).
Proof. exact dmstep_rel. Qed.

(* THE run of the twin from ANY admissible memo state terminates normally, leaves an admissible memo state whose table
   extends the old one, and ends in lock step with the twin over the categories themselves (no table, no cache, no ids) *)
Theorem C11_d_memo_twin_is_the_category_twin : forall gbin gun cats roots rids pen dedup max_step nbest (s : sent), lex_ok cats s ->
  forall m, start_ok gbin gun cats roots rids m ->
  exists ds' m', dmfinal gbin gun rids pen dedup max_step nbest s m = Some (ds', m') /\
                 start_ok gbin gun cats roots rids m' /\ (exists u, mtable m' = mtable m ++ u) /\
                 dsrel (names (mtable m')) ds' (dcfinal gbin gun cats roots pen dedup max_step nbest s).
Proof. exact dmfinal_rel. Qed.

(* ... and it IS the pure twin DSearch.dfinal over the ids of any later duplicate-free table T - e.g. the table the call ends
   with - with the grammar T induces (bin_T T, un_T T): the twin "over the table-induced grammar" of that history *)
Theorem C11_d_memo_twin_is_the_table_twin : forall gbin gun rids pen dedup max_step nbest (s : sent) m ds' m',
  coherent gbin gun m -> dmfinal gbin gun rids pen dedup max_step nbest s m = Some (ds', m') ->
  coherent gbin gun m' /\ (exists u, mtable m' = mtable m ++ u) /\
  forall T, NoDup T -> (exists u, T = mtable m' ++ u) -> ds' = dtfinal gbin gun rids pen dedup max_step nbest s T.
Proof. exact dmfinal_is_table_twin. Qed.

(* THE SAME SENTENCE AFTER TWO HISTORIES, no policy hypothesis - the policy is the concrete heap.  m1, m2: any two admissible
   memo states (cold start vs. after other sentences: different tables, different ids for the same categories).  The two runs
   of the twin are related by R i j := T1'[i] = T2'[j] (T1', T2' the tables they leave): heap vectors, ordered chart cells, goal
   cells position by position; the hook traces record by record (same kinds, rule indices, head flags, chart slots, spans,
   heads, all scores; related category ids); equal status; related results with equal scores; the category-erased heap vectors
   are EQUAL; and both results decode - each through its own table - to the same category-level outcome, the outcome of the
   twin over the categories *)
Theorem C11_d_same_sentence_same_outcome_under_any_history : forall gbin gun cats roots rids pen dedup max_step nbest (s : sent),
  lex_ok cats s -> forall m1 m2 d1 m1' d2 m2',
  start_ok gbin gun cats roots rids m1 -> start_ok gbin gun cats roots rids m2 ->
  dmfinal gbin gun rids pen dedup max_step nbest s m1 = Some (d1, m1') ->
  dmfinal gbin gun rids pen dedup max_step nbest s m2 = Some (d2, m2') ->
  dsrel (same_cat (mtable m1') (mtable m2')) d1 d2 /\
  Forall2 (trel (same_cat (mtable m1') (mtable m2'))) (dpops d1) (dpops d2) /\
  dstatus d1 = dstatus d2 /\
  Forall2 (irel (same_cat (mtable m1') (mtable m2'))) (dresult d1) (dresult d2) /\
  map (@jprio nat) (dresult d1) = map (@jprio nat) (dresult d2) /\
  dview d1 = dview d2 /\
  d_outcome d1 (mtable m1') = Some (dc_outcome (dcfinal gbin gun cats roots pen dedup max_step nbest s)) /\
  d_outcome d2 (mtable m2') = Some (dc_outcome (dcfinal gbin gun cats roots pen dedup max_step nbest s)).
Proof. exact d_same_sentence_any_history. Qed.

(* the same statement for the pure twins over the two table-induced grammars: T1, T2 = the tables the two histories end with; the
   run under the memo from m_i IS the twin over (bin_T T_i, un_T T_i), so the twins over the table-induced grammars of any two
   histories have related traces, equal status and scores, and decode to the same category-level outcome *)
Theorem C11_d_same_sentence_same_outcome_under_any_history_table_form : forall gbin gun cats roots rids pen dedup max_step nbest (s : sent)
    m1 m2 d1 m1' d2 m2', lex_ok cats s -> start_ok gbin gun cats roots rids m1 -> start_ok gbin gun cats roots rids m2 ->
  dmfinal gbin gun rids pen dedup max_step nbest s m1 = Some (d1, m1') ->
  dmfinal gbin gun rids pen dedup max_step nbest s m2 = Some (d2, m2') ->
  let T1 := mtable m1' in let T2 := mtable m2' in
  let t1 := dtfinal gbin gun rids pen dedup max_step nbest s T1 in
  let t2 := dtfinal gbin gun rids pen dedup max_step nbest s T2 in
  d1 = t1 /\ d2 = t2 /\
  dsrel (same_cat T1 T2) t1 t2 /\ Forall2 (trel (same_cat T1 T2)) (dpops t1) (dpops t2) /\ dstatus t1 = dstatus t2 /\
  Forall2 (irel (same_cat T1 T2)) (dresult t1) (dresult t2) /\ map (@jprio nat) (dresult t1) = map (@jprio nat) (dresult t2) /\
  d_outcome t1 T1 = d_outcome t2 T2 /\
  d_outcome t1 T1 = Some (dc_outcome (dcfinal gbin gun cats roots pen dedup max_step nbest s)).
Proof. exact d_same_sentence_any_history_tables. Qed.

(* that common outcome is an outcome of the category-level search in the sense of P_C11 (GlueMemoSearch.cat_outcome: a finished
   run of creach, every pop maximal); twin_outcome s = None if s is longer than max_length, else dc_outcome (dcfinal s) *)
Theorem C11_d_twin_outcome_is_a_category_level_outcome : forall gbin gun cats roots pen dedup max_step nbest max_length,
  (dedup = true -> nbest <= 1) ->
  forall s, cat_outcome gbin gun cats roots pen dedup max_step nbest max_length s
                        (twin_outcome gbin gun cats roots pen dedup max_step nbest max_length s).
Proof. exact twin_outcome_is_cat_outcome. Qed.

(* the loop of depccg._parsing.run driven by the twin (DSearchMemo.dbrun, a function): from ANY admissible memo state it
   terminates normally and returns, sentence by sentence, twin_outcome s = the outcome of the category-level twin of that sentence
   ALONE (None for a sentence longer than max_length): no table, no cache, no position, no other sentence on the right *)
Theorem C11_d_batch_results_are_the_alone_outcomes : forall gbin gun cats roots rids pen dedup max_step nbest max_length ss m,
  Forall (lex_ok cats) ss -> start_ok gbin gun cats roots rids m ->
  exists m', dbrun gbin gun rids pen dedup max_step nbest max_length ss m =
               Some (map (twin_outcome gbin gun cats roots pen dedup max_step nbest max_length) ss, m') /\
             start_ok gbin gun cats roots rids m'.
Proof. exact dbrun_spec. Qed.

(* THE BATCH IS A FUNCTION OF THE BATCH: two executions of the loop - from any two admissible memo states - return the same list
   (the counterpart of P_C11.C11_batch_deterministic_under_category_blind_policy with NO policy hypothesis) *)
Theorem C11_d_batch_is_a_function_of_the_batch : forall gbin gun cats roots rids pen dedup max_step nbest max_length ss ma mb rsa rsb ma' mb',
  Forall (lex_ok cats) ss -> start_ok gbin gun cats roots rids ma -> start_ok gbin gun cats roots rids mb ->
  dbrun gbin gun rids pen dedup max_step nbest max_length ss ma = Some (rsa, ma') ->
  dbrun gbin gun rids pen dedup max_step nbest max_length ss mb = Some (rsb, mb') ->
  rsa = rsb /\ rsa = map (twin_outcome gbin gun cats roots pen dedup max_step nbest max_length) ss.
Proof. exact dbrun_deterministic. Qed.

(* ---------- (3) the relation to GlueMemoSearch.policy_t ---------- *)
(* The heap-driven choice is NOT exhibited as a value of policy_t = list (list (jitem unit)) -> nat.  Why the types do not
   fit as they stand: mreach_p hands the policy the agenda of AStarImpl.jstate, a LIST kept by jstep as
   jpushes a chart ++ jremove a agenda, whose pushes are listed in the order of jchart (one global list, newest stored item
   first).  The heap's choice among equal scores is a function of the heap VECTOR, i.e. of the whole sequence of sift
   operations, i.e. of the pushes in the order parse_sentence makes them: cells in first-use order, each cell newest first
   (DSearch.dpush_right / dpush_left).  The two orders differ (ex_c11_d_push_order_differs below; DSearchProofs.pushes_perm
   only gives a permutation), so a policy_t would have to (a) re-derive the cell first-use order from the spans in the erased
   derivations of the popped items, (b) re-sort each iteration's pushes into that order, (c) replay the heap on position tags
   and (d) maintain the map from heap slots to positions of jagenda across jremove - a second simulation that is not done here.
   What is proved instead - the closest true statements:
   (i)   the erased heap vector (what a category-blind observer of the REAL agenda sees: DSearchMemo.dview, index 0 = the
         next pop) is the same after any two histories (C11_d_same_sentence_... above), for every pair of related states:    *)
Theorem C11_d_erased_heap_is_history_independent : forall (C C' : Type) (R : C -> C' -> Prop) st st', dsrel R st st' -> dview st = dview st'.
Proof. exact @dview_rel. Qed.
(* (ii)  agenda.push / top / pop commute with erasing the categories: the erased vector after an operation is a function of
         the erased vector before and the erased argument, so "pop index 0" IS a category-blind policy on the interface that
         presents the pushes in the order of the C++ *)
Theorem C11_d_heap_push_commutes_with_erasure : forall (C : Type) (l h : list (@ditem C)),
  map dblind (push_all l h) = push_all (map dblind l) (map dblind h).
Proof. exact @push_all_dblind. Qed.
Theorem C11_d_heap_pop_commutes_with_erasure : forall (C : Type) (v : list (@ditem C)),
  pop dlt (map dblind v) = match pop dlt v with Some (x, w) => Some (dblind x, map dblind w) | None => None end.
Proof. exact @pop_dblind. Qed.
(* (iii) the twin under the memo is an INSTANCE of the nondeterministic model of P_C11 (e)-(g): every iteration pops a maximal
         agenda item (the top of the heap), looks up exactly the keys GlueMemoSearch.needed lists, and performs mstep_js on the
         abstraction of its state; so THE run of the twin from a coherent memo state is a finished mreach run ending in the same
         memo state, with the same status, result list and decoded outcome, and an execution of the loop driven by the twin is -
         with the memo state it ends in - an execution of GlueMemoSearch.brun.  Every theorem of P_C11 (e)-(g) applies to it;
         together with C11_d_batch_is_a_function_of_the_batch this is what C11_policy_batch_is_a_batch +
         C11_batch_deterministic_under_category_blind_policy give for an abstract policy.
         (dedup = true -> nbest <= 1 is the `nbest_` flag of the charts.) *)
Theorem C11_d_every_step_pops_the_heap_top : forall (C : Type) (ceqb : C -> C -> bool), (forall a b, ceqb a b = true <-> a = b) ->
  forall n tag dep adm besttag bestdep bin un isroot pen dedup max_step nbest, (dedup = true -> nbest <= 1) ->
  forall ds js x h, jreach ceqb n tag dep adm besttag bestdep bin un isroot pen dedup max_step nbest js ->
    dinv ds -> sim ds js -> drunning_b max_step nbest ds = true -> pop dlt (dheap ds) = Some (x, h) ->
    jrunning max_step nbest js /\ jvalid_pop (d_item x) js /\ AStarRefine.fields_ok n tag dep besttag bestdep pen (d_item x) /\
    sim (dstep ceqb n dep besttag bestdep bin un isroot pen dedup ds) (jstep ceqb n dep besttag bestdep bin un isroot pen dedup (d_item x) js) /\
    dinv (dstep ceqb n dep besttag bestdep bin un isroot pen dedup ds).
Proof. exact @dstep_sim_top. Qed.

Theorem C11_d_twin_lookups_are_the_needed_keys : forall dedup (s : sent) ds js x h,
  dinv ds -> sim ds js -> pop dlt (dheap ds) = Some (x, h) -> 1 <= jlen (d_item x) ->
  forall k, In k (dmkeys dedup s ds) <-> In k (needed dedup s (d_item x) js).
Proof. exact dmkeys_needed. Qed.

Theorem C11_d_memo_twin_run_is_a_memo_search_run : forall gbin gun rids pen dedup max_step nbest (s : sent), (dedup = true -> nbest <= 1) ->
  forall m ds' m', coherent gbin gun m -> dmfinal gbin gun rids pen dedup max_step nbest s m = Some (ds', m') ->
  exists js, mreach gbin gun rids pen dedup max_step nbest s m (js, m') /\ ~ jrunning max_step nbest js /\
             jstatus js = dstatus ds' /\ jresult js = dresult ds' /\
             sentence_outcome js (mtable m') = d_outcome ds' (mtable m').
Proof. exact dmfinal_is_mreach. Qed.

Theorem C11_d_twin_batch_is_a_batch : forall gbin gun rids pen dedup max_step nbest max_length, (dedup = true -> nbest <= 1) ->
  forall ss m rs m', coherent gbin gun m -> dbrun gbin gun rids pen dedup max_step nbest max_length ss m = Some (rs, m') ->
  brun gbin gun rids pen dedup max_step nbest max_length ss m rs m'.
Proof. exact dbrun_is_brun_exact. Qed.

(* ... and each result is an outcome of the category-level search in the sense of P_C11 (GlueMemoSearch.cat_outcome) *)
Theorem C11_d_twin_batch_results_are_category_level_outcomes : forall gbin gun cats roots rids pen dedup max_step nbest max_length,
  (dedup = true -> nbest <= 1) ->
  forall ss m rs m', Forall (lex_ok cats) ss -> start_ok gbin gun cats roots rids m ->
  dbrun gbin gun rids pen dedup max_step nbest max_length ss m = Some (rs, m') ->
  Forall2 (cat_outcome gbin gun cats roots pen dedup max_step nbest max_length) ss rs /\
  exists st', brun gbin gun rids pen dedup max_step nbest max_length ss m rs st'.
Proof. exact dbrun_is_brun. Qed.

(* What remains outside (named precisely):
   (1) item (3) above: no VALUE of policy_t is exhibited (the run of the twin is an mreach run, not an mreach_p run);
   (2) the tie of DSearchMemo.dmstep to the C++ is the composition of existing ties: DSearch.dstep <- pop-trace prediction
       (harness/dsearch_cases.py, exact equality, ties included), Heap.v <- differential runs against libstdc++,
       GlueMemo.memo_step <- replay of the recorded rule-function invocations (props/c11.py); there is no separate differential
       run of dmstep;
   (3) the per-word tag heaps (DSearch.dbeam) are not part of `sent`: s_adm is the list of admitted lexical ids in push order;
       lexical ids are positions of the input category list and do not depend on the history (P_C11.C11_lexical_ids_are_positions);
   (4) float32 rounding: scores are Z, as everywhere in the A* theorems. *)

(* ---------- the hypotheses are satisfiable by non-trivial values ---------- *)
(* the three-sentence example of P_C11.v (same definitions): A B -> S | A/B ; A/B B -> S ; B B -> B/B.  Input list [A; B], root S.
   "B B" has no parse but puts B/B into the table; in "A B B" the ids of A/B and B/B are then 4 and 3, after a cold start 3 and 4 *)
Definition exd_A := Atom [65%N] FNone.
Definition exd_B := Atom [66%N] FNone.
Definition exd_S := Atom [83%N] FNone.
Definition exd_AB := Fun exd_A [47%N] exd_B.
Definition exd_BB := Fun exd_B [47%N] exd_B.
Definition exd_mk c h := {| rcat := c; op_string := [102%N]; op_symbol := [62%N]; head_is_left := h |}.
Definition exd_gbin (x y : cat) : list cres :=
  if cat_eqb x exd_A && cat_eqb y exd_B then [exd_mk exd_S true; exd_mk exd_AB false]
  else if cat_eqb x exd_AB && cat_eqb y exd_B then [exd_mk exd_S true]
  else if cat_eqb x exd_B && cat_eqb y exd_B then [exd_mk exd_BB true] else [].
Definition exd_gun (x : cat) : list cres := [].
Definition exd_cats := [exd_A; exd_B].
Definition exd_roots := [exd_S].
Definition exd_sent (n : nat) (tag : nat -> nat -> Z) (adm : nat -> list nat) : sent :=
  {| s_n := n; s_tag := tag; s_dep := fun _ _ => 0%Z; s_adm := adm; s_besttag := fun _ => 0%Z; s_bestdep := fun _ => 0%Z |}.
Definition exd_tag (i j : nat) : Z := (- Z.of_nat (i + j))%Z.
Definition exd_s_BB := exd_sent 2 exd_tag (fun _ => [1]).
Definition exd_s_ABB := exd_sent 3 exd_tag (fun i => match i with 0 => [0] | _ => [1] end).
Definition exd_s_long := exd_sent 300 exd_tag (fun _ => [0; 1]).
(* the same words with all scores equal: every pop is a choice of the heap among ties *)
Definition exd_s_ABB_tie := exd_sent 3 (fun _ _ => 0%Z) (fun i => match i with 0 => [0] | _ => [1] end).
Definition exd_rids := root_ids exd_cats exd_roots.
Definition exd_init := init_state exd_cats exd_roots.
Definition exd_run (ss : list sent) := dbrun exd_gbin exd_gun exd_rids 1%Z true 1000 1 250 ss exd_init.
Definition exd_final (s : sent) (m : mstate) := dmfinal exd_gbin exd_gun exd_rids 1%Z true 1000 1 s m.

(* warmed vs. cold call, computed with the twin: the failing sentences yield the placeholder only, "A B B" (with and without
   ties) has the same outcome in both calls although the tables - and the ids inside the returned derivations - differ *)
Example ex_c11_d_history :
  match exd_run [exd_s_BB; exd_s_long; exd_s_ABB; exd_s_ABB_tie], exd_run [exd_s_ABB; exd_s_ABB_tie] with
  | Some ([r0; r1; r2; r3], m), Some ([r2'; r3'], m') =>
      r0 = None /\ r1 = None /\ r2 = r2' /\ r2 <> None /\ r3 = r3' /\ r3 <> None /\
      mtable m = [exd_A; exd_B; exd_S; exd_BB; exd_AB] /\ mtable m' = [exd_A; exd_B; exd_S; exd_AB; exd_BB]
  | _, _ => False
  end.
Proof.
  vm_compute. split; [reflexivity|]. split; [reflexivity|]. split; [reflexivity|]. split; [intros H; discriminate H|].
  split; [reflexivity|]. split; [intros H; discriminate H|]. split; reflexivity.
Qed.

(* the two searches of "A B B" themselves: from the memo state "B B" left and from the cold state.  Same number of pops (8), the
   traces differ (the id of A/B is 4 in one and 3 in the other), the erased heaps are equal, status 0 in both, equal outcomes *)
Definition exd_warm : mstate := match exd_run [exd_s_BB] with Some (_, m) => m | None => exd_init end.
Definition exd_get (r : option (@dstate nat * mstate)) : @dstate nat * mstate :=
  match r with Some p => p | None => (dminit exd_s_ABB, exd_init) end.
Example ex_c11_d_two_histories :
  let w := exd_get (exd_final exd_s_ABB exd_warm) in
  let c := exd_get (exd_final exd_s_ABB exd_init) in
  exd_run [exd_s_BB] = Some ([None], exd_warm) /\
  exd_final exd_s_ABB exd_warm = Some w /\ exd_final exd_s_ABB exd_init = Some c /\
  mtable exd_warm = [exd_A; exd_B; exd_S; exd_BB] /\
  mtable (snd w) = [exd_A; exd_B; exd_S; exd_BB; exd_AB] /\ mtable (snd c) = [exd_A; exd_B; exd_S; exd_AB; exd_BB] /\
  length (dpops (fst w)) = 8 /\ length (dpops (fst c)) = 8 /\ dpops (fst w) <> dpops (fst c) /\
  dview (fst w) = dview (fst c) /\ dstatus (fst w) = 0 /\ dstatus (fst c) = 0 /\
  d_outcome (fst w) (mtable (snd w)) = d_outcome (fst c) (mtable (snd c)) /\
  d_outcome (fst w) (mtable (snd w)) = Some (twin_outcome exd_gbin exd_gun exd_cats exd_roots 1%Z true 1000 1 250 exd_s_ABB).
Proof.
  vm_compute. repeat (split; [reflexivity|]). split; [intros H; discriminate H|]. repeat (split; [reflexivity|]). reflexivity.
Qed.

(* ... and the theorems apply to these values: both start states are admissible, every sentence is well-formed *)
Example ex_c11_d_nodup : NoDup exd_cats.
Proof. repeat constructor; simpl; intuition discriminate. Qed.
Example ex_c11_d_lex_ok : Forall (lex_ok exd_cats) [exd_s_BB; exd_s_long; exd_s_ABB; exd_s_ABB_tie].
Proof.
  repeat (apply Forall_cons; [|]); [| | | |apply Forall_nil]; intros i j Hin; simpl in Hin.
  - destruct Hin as [<-|[]]. simpl. repeat constructor.
  - destruct Hin as [<-|[<-|[]]]; simpl; repeat constructor.
  - destruct i; destruct Hin as [<-|[]]; simpl; repeat constructor.
  - destruct i; destruct Hin as [<-|[]]; simpl; repeat constructor.
Qed.
Example ex_c11_d_start_ok : start_ok exd_gbin exd_gun exd_cats exd_roots exd_rids exd_init /\
                            start_ok exd_gbin exd_gun exd_cats exd_roots exd_rids exd_warm.
Proof.
  assert (H0 : start_ok exd_gbin exd_gun exd_cats exd_roots exd_rids exd_init) by (apply start_ok_init; exact ex_c11_d_nodup).
  split; [exact H0|].
  assert (Hl : Forall (lex_ok exd_cats) [exd_s_BB]) by (constructor; [exact (Forall_inv ex_c11_d_lex_ok) | constructor]).
  destruct (C11_d_batch_results_are_the_alone_outcomes exd_gbin exd_gun exd_cats exd_roots exd_rids 1%Z true 1000 1 250 [exd_s_BB] exd_init Hl H0)
    as (m' & E & Hm'). unfold exd_warm, exd_run. rewrite E. exact Hm'.
Qed.
Example ex_c11_d_theorem_applies : forall d1 m1 d2 m2,
  dmfinal exd_gbin exd_gun exd_rids 1%Z true 1000 1 exd_s_ABB exd_warm = Some (d1, m1) ->
  dmfinal exd_gbin exd_gun exd_rids 1%Z true 1000 1 exd_s_ABB exd_init = Some (d2, m2) ->
  Forall2 (trel (same_cat (mtable m1) (mtable m2))) (dpops d1) (dpops d2) /\
  map (@jprio nat) (dresult d1) = map (@jprio nat) (dresult d2) /\
  d_outcome d1 (mtable m1) = d_outcome d2 (mtable m2).
Proof.
  intros d1 m1 d2 m2 Ew Ec. destruct ex_c11_d_start_ok as [S0 Sw].
  assert (Hl : lex_ok exd_cats exd_s_ABB) by exact (Forall_inv (Forall_inv_tail (Forall_inv_tail ex_c11_d_lex_ok))).
  destruct (C11_d_same_sentence_same_outcome_under_any_history exd_gbin exd_gun exd_cats exd_roots exd_rids 1%Z true 1000 1 exd_s_ABB Hl
              exd_warm exd_init d1 m1 d2 m2 Sw S0 Ew Ec) as (_ & Ht & _ & _ & Hp & _ & O1 & O2).
  split; [assumption|]. split; [assumption|]. now rewrite O1, O2.
Qed.
(* the mode hypothesis of C11_d_twin_batch_is_a_batch holds for the configuration of the examples (nbest = 1) *)
Example ex_c11_d_mode : true = true -> 1 <= 1.
Proof. intros _. constructor. Qed.

(* the obstacle of (3), concretely: the pushes of ONE iteration as AStarImpl.jstep lists them in jagenda (order of jchart: newest
   stored item first) and as parse_sentence makes them (cells in first-use order) are different lists.  Three tokens A B B,
   B B -> 2, A B -> 3, A 2 -> 4; the twin and jstep run side by side on the twin's pops; at the fourth pop (A) the chart holds the
   cells (1,1), (2,1), (1,2) in first-use order and jchart = [B B; B@2; B@1]: the C++ pushes A B before A (B B), jstep lists
   them the other way round.  (The heap layout - hence the choice among later ties - depends on this order.) *)
Definition exo_bin (x y : nat) : list (nat * bool) :=
  match x, y with 1, 1 => [(2, true)] | 0, 1 => [(3, true)] | 0, 2 => [(4, true)] | _, _ => [] end.
Definition exo_un (x : nat) : list nat := [].
Definition exo_tag (i c : nat) : Z := match i with 0 => (-9)%Z | _ => 0%Z end.
Definition exo_adm (i : nat) : list nat := match i with 0 => [0] | _ => [1] end.
Definition exo_z (_ : nat) : Z := 0%Z.
Definition exo_dep (_ _ : nat) : Z := 0%Z.
Definition exo_root (c : nat) : bool := Nat.eqb c 4.
Fixpoint exo_joint (k : nat) (ds : @dstate nat) (js : @jstate nat) : @dstate nat * @jstate nat :=
  match k with
  | O => (ds, js)
  | S k' => match pop dlt (dheap ds) with
            | Some (x, _) => exo_joint k' (dstep Nat.eqb 3 exo_dep exo_z exo_z exo_bin exo_un exo_root 0%Z true ds)
                                          (jstep Nat.eqb 3 exo_dep exo_z exo_z exo_bin exo_un exo_root 0%Z true (d_item x) js)
            | None => (ds, js)
            end
  end.
Definition exo_pushes (k : nat) : list (@deriv nat) * list (@deriv nat) :=
  let '(ds, js) := exo_joint k (dinit 3 exo_tag exo_adm exo_z exo_z) (jinit 3 exo_tag exo_adm exo_z exo_z) in
  match pop dlt (dheap ds) with
  | Some (x, _) =>
      match chart_update Nat.eqb true (dchart ds) (d_item x) (dstored ds) with
      | Some ch => (map (fun y => jder (d_item y)) (dpushes 3 exo_dep exo_z exo_z exo_bin exo_un exo_root 0%Z (d_item x) (dstored ds) ch),
                    map (@jder nat) (jpushes 3 exo_dep exo_z exo_z exo_bin exo_un exo_root 0%Z (d_item x) (jchart js)))
      | None => ([], [])
      end
  | None => ([], [])
  end.
Example ex_c11_d_push_order_differs :
  exo_pushes 3 = ([DBin 0 3 true (DLeaf 0 0) (DLeaf 1 1); DBin 0 4 true (DLeaf 0 0) (DBin 0 2 true (DLeaf 1 1) (DLeaf 2 1))],
                  [DBin 0 4 true (DLeaf 0 0) (DBin 0 2 true (DLeaf 1 1) (DLeaf 2 1)); DBin 0 3 true (DLeaf 0 0) (DLeaf 1 1)]).
Proof. vm_compute. reflexivity. Qed.
