(* History independence of the search itself, as a simulation ("parametricity by hand", Forall2-based version).
   Two instances of the implementation-level search of AStarImpl.v over two handle types C and C' - think: category
   ids under one category table and ids under another (a cold table vs. one extended by earlier sentences), or ids and
   the categories themselves - are related by a relation R on handles ("name the same category").  If related
   arguments give position-wise related rule results with equal head flags, the admitted tags are related with equal
   tag scores, and root tests and equality tests agree on related handles, then every run of one search is matched step
   by step by a run of the other: related agendas, charts, goals, and the results handed to the finalizer are related
   position-wise, with all numeric fields (scores included) equal.  Nothing else of a handle is ever inspected. *)
From Coq Require Import List ZArith Lia Bool Arith.
Import ListNotations.
Require Import AStar AStarImpl.
Open Scope Z_scope.

(* ---------- Forall2 toolbox ---------- *)
Section F2.
Context {A B : Type}.
Variable P : A -> B -> Prop.

Lemma F2_map {A' B'} (Q : A' -> B' -> Prop) (f : A -> A') (g : B -> B') l l' :
  (forall x y, P x y -> Q (f x) (g y)) -> Forall2 P l l' -> Forall2 Q (map f l) (map g l').
Proof. intros H HF. induction HF as [|x y l l' Hxy _ IH]; simpl; constructor; auto. Qed.

Lemma F2_flat_map {A' B'} (Q : A' -> B' -> Prop) (f : A -> list A') (g : B -> list B') l l' :
  (forall x y, P x y -> Forall2 Q (f x) (g y)) -> Forall2 P l l' -> Forall2 Q (flat_map f l) (flat_map g l').
Proof. intros H HF. induction HF as [|x y l l' Hxy _ IH]; simpl; [constructor|]. apply Forall2_app; auto. Qed.

Lemma F2_length l l' : Forall2 P l l' -> length l = length l'.
Proof. intros HF. induction HF as [|x y l l' _ _ IH]; simpl; congruence. Qed.

Lemma F2_combine_seq l l' : Forall2 P l l' -> forall s,
  Forall2 (fun p q => fst p = fst q /\ P (snd p) (snd q)) (combine (seq s (length l)) l) (combine (seq s (length l')) l').
Proof. intros HF. induction HF as [|x y l l' Hxy _ IH]; intros s; simpl; constructor; [now split | apply IH]. Qed.

Lemma F2_enum l l' : Forall2 P l l' -> Forall2 (fun p q => fst p = fst q /\ P (snd p) (snd q)) (enum l) (enum l').
Proof. intros HF. unfold enum. now apply F2_combine_seq. Qed.

Lemma F2_in_l l l' x : Forall2 P l l' -> In x l -> exists y, In y l' /\ P x y.
Proof.
  intros HF. induction HF as [|a b l l' Hab _ IH]; intros Hin; [destruct Hin|].
  destruct Hin as [<-|Hin]; [exists b; split; [now left | assumption]|].
  destruct (IH Hin) as [y [Hy Hp]]. exists y. split; [now right | assumption].
Qed.

Lemma F2_in_r l l' y : Forall2 P l l' -> In y l' -> exists x, In x l /\ P x y.
Proof.
  intros HF. induction HF as [|a b l l' Hab _ IH]; intros Hin; [destruct Hin|].
  destruct Hin as [<-|Hin]; [exists a; split; [now left | assumption]|].
  destruct (IH Hin) as [x [Hx Hp]]. exists x. split; [now right | assumption].
Qed.

Lemma F2_snoc l l' x y : Forall2 P l l' -> P x y -> Forall2 P (l ++ [x]) (l' ++ [y]).
Proof. intros HF Hxy. apply Forall2_app; [assumption | now constructor]. Qed.

Lemma F2_rev l l' : Forall2 P l l' -> Forall2 P (rev l) (rev l').
Proof. intros HF. induction HF as [|x y l l' Hxy _ IH]; simpl; [constructor | now apply F2_snoc]. Qed.
End F2.

Section Equiv.
Context {C C' : Type}.
Variable ceqb : C -> C -> bool.
Variable ceqb' : C' -> C' -> bool.
Variable n : nat.
Variable tag : nat -> C -> Z.
Variable tag' : nat -> C' -> Z.
Variable dep : nat -> nat -> Z.
Variable adm : nat -> list C.
Variable adm' : nat -> list C'.
Variable besttag bestdep : nat -> Z.
Variable bin : C -> C -> list (C * bool).
Variable bin' : C' -> C' -> list (C' * bool).
Variable un : C -> list C.
Variable un' : C' -> list C'.
Variable isroot : C -> bool.
Variable isroot' : C' -> bool.
Variable pen : Z.
Variable dedup : bool.
Variable max_step nbest : nat.

(* "the two handles name the same category" *)
Variable R : C -> C' -> Prop.
(* the equality tests agree on related handles (this is what bi-uniqueness of R gives when the tests decide equality:
   lemma biunique_eqb below) *)
Hypothesis R_eqb : forall a a' b b', R a a' -> R b b' -> ceqb a b = ceqb' a' b'.
Hypothesis R_bin : forall a a' b b', R a a' -> R b b' ->
  Forall2 (fun p q => R (fst p) (fst q) /\ snd p = snd q) (bin a b) (bin' a' b').
Hypothesis R_un : forall a a', R a a' -> Forall2 R (un a) (un' a').
Hypothesis R_root : forall a a', R a a' -> isroot a = isroot' a'.
Hypothesis R_adm : forall i, Forall2 (fun c c' => R c c' /\ tag i c = tag' i c') (adm i) (adm' i).

Notation jitem1 := (@jitem C).
Notation jitem2 := (@jitem C').
Notation jstate1 := (@jstate C).
Notation jstate2 := (@jstate C').
Notation jstep1 := (jstep ceqb n dep besttag bestdep bin un isroot pen dedup).
Notation jstep2 := (jstep ceqb' n dep besttag bestdep bin' un' isroot' pen dedup).
Notation jinit1 := (jinit n tag adm besttag bestdep).
Notation jinit2 := (jinit n tag' adm' besttag bestdep).
Notation jreach1 := (jreach ceqb n tag dep adm besttag bestdep bin un isroot pen dedup max_step nbest).
Notation jreach2 := (jreach ceqb' n tag' dep adm' besttag bestdep bin' un' isroot' pen dedup max_step nbest).
Notation jpushes1 := (jpushes n dep besttag bestdep bin un isroot pen).
Notation jpushes2 := (jpushes n dep besttag bestdep bin' un' isroot' pen).

(* R lifted to derivations: same shape, same rule indices, same head flags, related categories at every node *)
Inductive drel : @deriv C -> @deriv C' -> Prop :=
| RLeaf i c c' : R c c' -> drel (DLeaf i c) (DLeaf i c')
| RUn k c c' d d' : R c c' -> drel d d' -> drel (DUn k c d) (DUn k c' d')
| RBin k c c' hl l l' r r' : R c c' -> drel l l' -> drel r r' -> drel (DBin k c hl l r) (DBin k c' hl l' r').

(* ... to items: related derivations, every numeric field equal *)
Definition irel (a : jitem1) (a' : jitem2) : Prop :=
  jfin a = jfin a' /\ drel (jder a) (jder a') /\ jin a = jin a' /\ jout a = jout a' /\
  jstart a = jstart a' /\ jlen a = jlen a' /\ jhead a = jhead a'.

(* ... to states *)
Definition srel (st : jstate1) (st' : jstate2) : Prop :=
  Forall2 irel (jagenda st) (jagenda st') /\ Forall2 irel (jchart st) (jchart st') /\
  Forall2 irel (jgoal st) (jgoal st') /\ jsteps st = jsteps st'.

Lemma drel_dcat d d' : drel d d' -> R (dcat d) (dcat d').
Proof. intros H. destruct H; assumption. Qed.

Lemma irel_jcat a a' : irel a a' -> R (jcat a) (jcat a').
Proof. intros (_ & Hd & _). now apply drel_dcat. Qed.

Lemma irel_jprio a a' : irel a a' -> jprio a = jprio a'.
Proof. intros (_ & _ & Hi & Ho & _). unfold jprio. now rewrite Hi, Ho. Qed.

Lemma deriv_eqb_rel a a' : drel a a' -> forall b b', drel b b' -> deriv_eqb ceqb a b = deriv_eqb ceqb' a' b'.
Proof.
  induction 1 as [i c c' Hc | k c c' d d' Hc Hd IH | k c c' hl l l' r r' Hc Hl IHl Hr IHr]; intros b b' Hb;
    destruct Hb as [j e e' He | k2 e e' x x' He Hx | k2 e e' hl2 x x' y y' He Hx Hy]; simpl; try reflexivity.
  - now rewrite (R_eqb _ _ _ _ Hc He).
  - now rewrite (R_eqb _ _ _ _ Hc He), (IH _ _ Hx).
  - now rewrite (R_eqb _ _ _ _ Hc He), (IHl _ _ Hx), (IHr _ _ Hy).
Qed.

Lemma jsame_rel a a' b b' : irel a a' -> irel b b' -> jsame ceqb a b = jsame ceqb' a' b'.
Proof.
  intros (Hf & Hd & _) (Hf2 & Hd2 & _). unfold jsame. now rewrite Hf, Hf2, (deriv_eqb_rel _ _ Hd _ _ Hd2).
Qed.

Lemma jkey_eqb_rel a a' b b' : irel a a' -> irel b b' -> jkey_eqb ceqb a b = jkey_eqb ceqb' a' b'.
Proof.
  intros Ha Hb. unfold jkey_eqb.
  rewrite (R_eqb _ _ _ _ (irel_jcat _ _ Ha) (irel_jcat _ _ Hb)).
  destruct Ha as (_ & _ & _ & _ & Hs & Hl & _), Hb as (_ & _ & _ & _ & Hs2 & Hl2 & _).
  now rewrite Hs, Hl, Hs2, Hl2.
Qed.

Lemma jremove_rel a a' l l' : irel a a' -> Forall2 irel l l' -> Forall2 irel (jremove ceqb a l) (jremove ceqb' a' l').
Proof.
  intros Ha HF. induction HF as [|b b' l l' Hb HF IH]; simpl; [constructor|].
  rewrite (jsame_rel _ _ _ _ Ha Hb). destruct (jsame ceqb' a' b'); [assumption | now constructor].
Qed.

Lemma existsb_key_rel a a' ch ch' : irel a a' -> Forall2 irel ch ch' ->
  existsb (jkey_eqb ceqb a) ch = existsb (jkey_eqb ceqb' a') ch'.
Proof.
  intros Ha HF. induction HF as [|b b' l l' Hb _ IH]; simpl; [reflexivity|].
  now rewrite (jkey_eqb_rel _ _ _ _ Ha Hb), IH.
Qed.

(* the constructors of items respect the relation *)
Lemma jleaf_rel i c c' : R c c' -> tag i c = tag' i c' ->
  irel (jleaf n tag besttag bestdep i c) (jleaf n tag' besttag bestdep i c').
Proof. intros Hc Ht. unfold irel, jleaf; simpl. repeat split; try reflexivity; [now constructor | assumption]. Qed.

Lemma jfinal_rel a a' : irel a a' -> irel (jfinal dep a) (jfinal dep a').
Proof.
  intros (Hf & Hd & Hi & Ho & Hs & Hl & Hh). unfold irel, jfinal; simpl.
  repeat split; try assumption; try reflexivity. now rewrite Hi, Hh.
Qed.

Lemma junary_rel a a' k c c' : irel a a' -> R c c' -> irel (junary pen a k c) (junary pen a' k c').
Proof.
  intros (Hf & Hd & Hi & Ho & Hs & Hl & Hh) Hc. unfold irel, junary; simpl.
  repeat split; try assumption; try reflexivity; [now constructor | now rewrite Hi].
Qed.

Lemma jcombine_rel l l' r r' k c c' hl : irel l l' -> irel r r' -> R c c' ->
  irel (jcombine n dep besttag bestdep l r k c hl) (jcombine n dep besttag bestdep l' r' k c' hl).
Proof.
  intros (Hf & Hd & Hi & Ho & Hs & Hl & Hh) (Hf2 & Hd2 & Hi2 & Ho2 & Hs2 & Hl2 & Hh2) Hc. unfold irel, jcombine; simpl.
  rewrite Hi, Hi2, Hs, Hl, Hl2, Hh, Hh2. repeat split; try reflexivity. now constructor.
Qed.

Lemma jpush_fin_rel a a' : irel a a' -> Forall2 irel (jpush_fin n dep isroot a) (jpush_fin n dep isroot' a').
Proof.
  intros Ha. unfold jpush_fin. rewrite (R_root _ _ (irel_jcat _ _ Ha)).
  destruct Ha as (Hf & Hd & Hi & Ho & Hs & Hl & Hh) eqn:E. rewrite Hl.
  destruct ((jlen a' =? n)%nat && isroot' (jcat a')); [|constructor].
  constructor; [|constructor]. apply jfinal_rel. unfold irel. tauto.
Qed.

Lemma jpush_un_rel a a' : irel a a' -> Forall2 irel (jpush_un n un pen a) (jpush_un n un' pen a').
Proof.
  intros Ha. unfold jpush_un.
  assert (Hl : jlen a = jlen a') by (destruct Ha as (_ & _ & _ & _ & _ & Hl & _); exact Hl). rewrite Hl.
  destruct ((n =? 1)%nat || negb (jlen a' =? n)%nat); [|constructor].
  apply F2_map with (P := fun p q => fst p = fst q /\ R (snd p) (snd q)).
  - intros p q [Hk Hc]. rewrite Hk. now apply junary_rel.
  - apply (F2_enum R). apply R_un. now apply irel_jcat.
Qed.

Lemma bin_results_rel (mk1 : nat -> C -> bool -> jitem1) (mk2 : nat -> C' -> bool -> jitem2) x x' y y' :
  R x x' -> R y y' -> (forall k c c' hl, R c c' -> irel (mk1 k c hl) (mk2 k c' hl)) ->
  Forall2 irel (map (fun kr => mk1 (fst kr) (fst (snd kr)) (snd (snd kr))) (enum (bin x y)))
               (map (fun kr => mk2 (fst kr) (fst (snd kr)) (snd (snd kr))) (enum (bin' x' y'))).
Proof.
  intros Hx Hy Hmk.
  apply F2_map with (P := fun p q => fst p = fst q /\ (R (fst (snd p)) (fst (snd q)) /\ snd (snd p) = snd (snd q))).
  - intros p q [Hk [Hc Hh]]. rewrite Hk, Hh. now apply Hmk.
  - apply (F2_enum (fun p q => R (fst p) (fst q) /\ snd p = snd q)). now apply R_bin.
Qed.

Lemma jpush_right_rel a a' ch ch' : irel a a' -> Forall2 irel ch ch' ->
  Forall2 irel (jpush_right n dep besttag bestdep bin a ch) (jpush_right n dep besttag bestdep bin' a' ch').
Proof.
  intros Ha HF. unfold jpush_right. apply F2_flat_map with (P := irel); [|assumption].
  intros o o' Ho.
  assert (E : (jstart o =? jstart a + jlen a)%nat = (jstart o' =? jstart a' + jlen a')%nat).
  { destruct Ha as (_ & _ & _ & _ & Hs & Hl & _), Ho as (_ & _ & _ & _ & Hs2 & _). now rewrite Hs, Hl, Hs2. }
  rewrite E. destruct (jstart o' =? jstart a' + jlen a')%nat; [|constructor].
  apply bin_results_rel; [now apply irel_jcat | now apply irel_jcat |].
  intros k c c' hl Hc. now apply jcombine_rel.
Qed.

Lemma jpush_left_rel a a' ch ch' : irel a a' -> Forall2 irel ch ch' ->
  Forall2 irel (jpush_left n dep besttag bestdep bin a ch) (jpush_left n dep besttag bestdep bin' a' ch').
Proof.
  intros Ha HF. unfold jpush_left. apply F2_flat_map with (P := irel); [|assumption].
  intros o o' Ho.
  assert (E : (jstart o + jlen o =? jstart a)%nat = (jstart o' + jlen o' =? jstart a')%nat).
  { destruct Ha as (_ & _ & _ & _ & Hs & _), Ho as (_ & _ & _ & _ & Hs2 & Hl2 & _). now rewrite Hs, Hs2, Hl2. }
  rewrite E. destruct (jstart o' + jlen o' =? jstart a')%nat; [|constructor].
  apply bin_results_rel; [now apply irel_jcat | now apply irel_jcat |].
  intros k c c' hl Hc. now apply jcombine_rel.
Qed.

Lemma jpushes_rel a a' ch ch' : irel a a' -> Forall2 irel ch ch' -> Forall2 irel (jpushes1 a ch) (jpushes2 a' ch').
Proof.
  intros Ha HF. unfold jpushes. repeat apply Forall2_app.
  - now apply jpush_fin_rel.
  - now apply jpush_un_rel.
  - now apply jpush_right_rel.
  - now apply jpush_left_rel.
Qed.

Lemma jinit_rel : srel jinit1 jinit2.
Proof.
  unfold srel, jinit; simpl. repeat split; try constructor.
  apply F2_flat_map with (P := @eq nat).
  - intros i j <-. apply F2_map with (P := fun c c' => R c c' /\ tag i c = tag' i c'); [|apply R_adm].
    intros c c' [Hc Ht]. now apply jleaf_rel.
  - induction (seq 0 n) as [|x xs IH]; constructor; [reflexivity | assumption].
Qed.

(* one loop iteration on related popped items keeps the states related *)
Theorem jstep_rel a a' st st' : irel a a' -> srel st st' -> srel (jstep1 a st) (jstep2 a' st').
Proof.
  intros Ha (Hag & Hch & Hgo & Hst). unfold jstep.
  assert (Hf : jfin a = jfin a') by (destruct Ha as (Hf & _); exact Hf). rewrite <- Hf.
  rewrite <- (existsb_key_rel _ _ _ _ Ha Hch).
  pose proof (jremove_rel _ _ _ _ Ha Hag) as Hrm.
  destruct (jfin a).
  - unfold srel; simpl. repeat split; try assumption; [now apply F2_snoc | now rewrite Hst].
  - destruct (dedup && existsb (jkey_eqb ceqb a) (jchart st)).
    + unfold srel; simpl. repeat split; try assumption. now rewrite Hst.
    + unfold srel; simpl. repeat split; try assumption.
      * apply Forall2_app; [now apply jpushes_rel | assumption].
      * now constructor.
      * now rewrite Hst.
Qed.

(* a legal pop of one search is matched by a legal pop of the other: priorities read scores only *)
Theorem jvalid_pop_rel a st st' : srel st st' -> jvalid_pop a st -> exists a', irel a a' /\ jvalid_pop a' st'.
Proof.
  intros (Hag & _) [Hin Hmax]. destruct (F2_in_l _ _ _ _ Hag Hin) as [a' [Hin' Ha]].
  exists a'. split; [assumption|]. split; [assumption|].
  intros b' Hb'. destruct (F2_in_r _ _ _ _ Hag Hb') as [b [Hb Hbb]].
  rewrite <- (irel_jprio _ _ Ha), <- (irel_jprio _ _ Hbb). now apply Hmax.
Qed.

Lemma jrunning_rel st st' : srel st st' -> jrunning max_step nbest st -> jrunning max_step nbest st'.
Proof.
  intros (Hag & _ & Hgo & Hst) (H1 & H2 & H3). unfold jrunning.
  rewrite <- Hst, <- (F2_length _ _ _ Hgo). repeat split; try assumption.
  intros E. rewrite E in Hag. inversion Hag; subst. now apply H3.
Qed.

(* every reachable state of one search has a related reachable state of the other *)
Theorem equiv_reach st : jreach1 st -> exists st', jreach2 st' /\ srel st st'.
Proof.
  induction 1 as [|st a Hr [st' [Hr' Hs]] Hrun Hpop].
  - exists jinit2. split; [constructor | apply jinit_rel].
  - destruct (jvalid_pop_rel _ _ _ Hs Hpop) as [a' [Ha Hpop']].
    exists (jstep2 a' st'). split; [|now apply jstep_rel].
    constructor; [assumption | now apply (jrunning_rel st) | assumption].
Qed.

(* the goal cell as handed to the finalizer: related position-wise, scores equal *)
Lemma insert_desc_rel a a' l l' : irel a a' -> Forall2 irel l l' -> Forall2 irel (insert_desc a l) (insert_desc a' l').
Proof.
  intros Ha HF. induction HF as [|b b' l l' Hb HF IH]; simpl; [constructor; [assumption | constructor]|].
  rewrite (irel_jprio _ _ Ha), (irel_jprio _ _ Hb).
  destruct (jprio b' <=? jprio a'); constructor; try assumption; now constructor.
Qed.

Theorem equiv_result st st' : srel st st' -> Forall2 irel (jresult st) (jresult st').
Proof.
  intros (_ & _ & Hgo & _). unfold jresult, sort_desc.
  apply F2_rev in Hgo. induction Hgo as [|b b' l l' Hb _ IH]; simpl; [constructor | now apply insert_desc_rel].
Qed.

Theorem equiv_status st st' : srel st st' -> jstatus st = jstatus st'.
Proof. intros (_ & _ & Hgo & _). unfold jstatus. destruct Hgo; reflexivity. Qed.

(* whether the loop has ended is the same on both sides *)
Lemma jrunning_rel_conv st st' : srel st st' -> jrunning max_step nbest st' -> jrunning max_step nbest st.
Proof.
  intros (Hag & _ & Hgo & Hst) (H1 & H2 & H3). unfold jrunning.
  rewrite Hst, (F2_length _ _ _ Hgo). repeat split; try assumption.
  intros E. rewrite E in Hag. inversion Hag; subst. now apply H3.
Qed.

(* the whole run: a finished run of one search is matched by a finished run of the other with the same status and
   position-wise related results carrying equal scores *)
Theorem search_simulation st : jreach1 st -> ~ jrunning max_step nbest st ->
  exists st', jreach2 st' /\ ~ jrunning max_step nbest st' /\ jstatus st = jstatus st' /\
              Forall2 irel (jresult st) (jresult st').
Proof.
  intros Hr Hend. destruct (equiv_reach st Hr) as [st' [Hr' Hs]]. exists st'.
  split; [assumption|]. split; [intros H; apply Hend; now apply (jrunning_rel_conv st st')|].
  split; [now apply equiv_status | now apply equiv_result].
Qed.
End Equiv.

(* ---------- when the equality tests decide equality, "equal tests on related handles" is bi-uniqueness ---------- *)
Lemma biunique_eqb {C C'} (ceqb : C -> C -> bool) (ceqb' : C' -> C' -> bool) (R : C -> C' -> Prop) :
  (forall a b, ceqb a b = true <-> a = b) -> (forall a b, ceqb' a b = true <-> a = b) ->
  (forall a a' b', R a a' -> R a b' -> a' = b') -> (forall a b a', R a a' -> R b a' -> a = b) ->
  forall a a' b b', R a a' -> R b b' -> ceqb a b = ceqb' a' b'.
Proof.
  intros He He' Hfun Hinj a a' b b' Ha Hb.
  destruct (ceqb a b) eqn:E.
  - apply He in E. subst b. symmetry. apply He'. now apply (Hfun a).
  - destruct (ceqb' a' b') eqn:E'; [|reflexivity]. apply He' in E'. subst b'.
    assert (a = b) by now apply (Hinj a b a'). subst b. assert (ceqb a a = true) by now apply He. congruence.
Qed.

(* ---------- the function-based reading: decoding ids to categories ---------- *)
Section Decode.
Context {C C' : Type}.
Variable f : C -> C'.
Fixpoint dmap (d : @deriv C) : @deriv C' :=
  match d with
  | DLeaf i c => DLeaf i (f c)
  | DUn k c d' => DUn k (f c) (dmap d')
  | DBin k c hl l r => DBin k (f c) hl (dmap l) (dmap r)
  end.
Definition jmap (a : @jitem C) : @jitem C' :=
  {| jfin := jfin a; jder := dmap (jder a); jin := jin a; jout := jout a; jstart := jstart a; jlen := jlen a; jhead := jhead a |}.

Lemma drel_fun d d' : drel (fun x y => f x = y) d d' <-> d' = dmap d.
Proof.
  split.
  - induction 1 as [i c c' Hc | k c c' d d' Hc Hd IH | k c c' hl l l' r r' Hc Hl IHl Hr IHr]; simpl; congruence.
  - intros ->. induction d as [i c | k c d IH | k c hl l IHl r IHr]; simpl; now constructor.
Qed.

Lemma irel_fun a a' : irel (fun x y => f x = y) a a' <-> a' = jmap a.
Proof.
  unfold irel, jmap. split.
  - intros (Hf & Hd & Hi & Ho & Hs & Hl & Hh). apply drel_fun in Hd. destruct a'; simpl in *. congruence.
  - intros ->. simpl. repeat split; try reflexivity. now apply drel_fun.
Qed.

Lemma F2_irel_fun l l' : Forall2 (irel (fun x y => f x = y)) l l' <-> l' = map jmap l.
Proof.
  split.
  - induction 1 as [|a a' l l' Ha _ IH]; simpl; [reflexivity|]. apply irel_fun in Ha. congruence.
  - intros ->. induction l as [|a l IH]; simpl; constructor; [now apply irel_fun | assumption].
Qed.
End Decode.
