(* Glue for running the implementation-level model on concrete problems (C = nat category ids) inside coqc.
   MODEL ONLY (used by the correspondence cases). *)
From Coq Require Import List ZArith Bool Arith.
Import ListNotations.
Require Import AStar AStarImpl.
Open Scope Z_scope.

Record problem := {
  p_tag : list (list Z);                       (* n rows x num_tags, scores scaled to integers *)
  p_dep : list (list Z);                       (* n rows x (n+1) *)
  p_bin : list (nat * nat * list (nat * bool));
  p_un : list (nat * list nat);
  p_roots : list nat;
  p_pen : Z;
  p_dedup : bool;
  p_pruning : nat;
  p_use_beta : bool;
  p_theta : Z;
  p_max_step : nat;
  p_nbest : nat }.

Definition zmax (l : list Z) : Z := match l with [] => 0 | x :: r => fold_left Z.max r x end.
Definition p_n (p : problem) : nat := length (p_tag p).
Definition p_tagf (p : problem) (i c : nat) : Z := nth c (nth i (p_tag p) []) 0.
(* out-of-range reads (never performed on licensed derivations) return the row maximum, so that dep <= bestdep holds everywhere *)
Definition p_depf (p : problem) (i j : nat) : Z := nth j (nth i (p_dep p) []) (zmax (nth i (p_dep p) [])).
Definition p_besttag (p : problem) (i : nat) : Z := row_best (nth i (p_tag p) []).
Definition p_bestdep (p : problem) (i : nat) : Z := zmax (nth i (p_dep p) []).
Definition p_adm (p : problem) (i : nat) : list nat := beam (p_use_beta p) (p_theta p) (p_pruning p) (nth i (p_tag p) []).
Fixpoint lookup2 (t : list (nat * nat * list (nat * bool))) (x y : nat) : list (nat * bool) :=
  match t with [] => [] | (a, b, r) :: t' => if (a =? x)%nat && (b =? y)%nat then r else lookup2 t' x y end.
Fixpoint lookup1 (t : list (nat * list nat)) (x : nat) : list nat :=
  match t with [] => [] | (a, r) :: t' => if (a =? x)%nat then r else lookup1 t' x end.
Definition p_isroot (p : problem) (c : nat) : bool := existsb (Nat.eqb c) (p_roots p).

Definition p_accepts (p : problem) (tr : list (@trec nat)) : option (@jstate nat) :=
  jaccepts Nat.eqb (p_n p) (p_tagf p) (p_depf p) (p_adm p) (p_besttag p) (p_bestdep p) (lookup2 (p_bin p)) (lookup1 (p_un p))
           (p_isroot p) (p_pen p) (p_dedup p) (p_max_step p) (p_nbest p) tr.

Definition derivs_eqb (a b : list (@deriv nat)) : bool :=
  (length a =? length b)%nat && forallb (fun xy => deriv_eqb Nat.eqb (fst xy) (snd xy)) (combine a b).
Definition zs_eqb (a b : list Z) : bool := (length a =? length b)%nat && forallb (fun xy => Z.eqb (fst xy) (snd xy)) (combine a b).

(* the run reported by the implementation (pop trace, status, goal derivations and scores in finalizer order)
   is a run of the model *)
Definition run_ok (p : problem) (tr : list (@trec nat)) (status : nat) (goals : list (@deriv nat)) (scores : list Z) : bool :=
  match p_accepts p tr with
  | None => false
  | Some st =>
      (jstatus st =? status)%nat &&
      (if (status =? 0)%nat then derivs_eqb (map (@jder nat) (jresult st)) goals && zs_eqb (map (@jprio nat) (jresult st)) scores
       else true)
  end.

(* where the replay stops, for diagnostics *)
Definition run_diag (p : problem) (tr : list (@trec nat)) : nat + (nat * nat) :=
  match jreplay Nat.eqb (p_n p) (p_depf p) (p_besttag p) (p_bestdep p) (lookup2 (p_bin p)) (lookup1 (p_un p))
           (p_isroot p) (p_pen p) (p_dedup p) (p_max_step p) (p_nbest p) tr 0 []
           (jinit (p_n p) (p_tagf p) (p_adm p) (p_besttag p) (p_bestdep p)) with
  | inl st => inr (length (jagenda st), length (jgoal st))
  | inr k => inl k
  end.
