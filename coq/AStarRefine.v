(* Refinement: the implementation-level model (AStarImpl.v: stored in/out scores, heads, spans, computed
   incrementally as parsing.h does) refines the abstract search of AStar.v, whose items are derivations and whose
   scores are functions of the derivation.  Every reachable implementation state abstracts to a reachable abstract
   state, and every stored field equals the function of the derivation it stands for. *)
From Coq Require Import List ZArith Lia Bool Arith.
Import ListNotations.
Require Import AStar AStarLoss AStarImpl.
Open Scope Z_scope.

Section Refine.
Context {C : Type}.
Variable ceqb : C -> C -> bool.
Hypothesis ceqb_eq : forall a b, ceqb a b = true <-> a = b.
Variable n : nat.
Variable tag : nat -> C -> Z.
Variable dep : nat -> nat -> Z.
Variable adm : nat -> list C.
Variable besttag bestdep : nat -> Z.
Variable bin : C -> C -> list (C * bool).
Variable un : C -> list C.
Variable isroot : C -> bool.
Variable pen : Z.
Variable dedup : bool.
Variable max_step nbest : nat.

Notation deriv := (@deriv C).
Notation item := (@item C).
Notation jitem := (@jitem C).
Notation jstate := (@jstate C).
Notation dins := (dins tag dep pen).
Notation out_inh := (out_inh n besttag bestdep true).
Notation jstep := (jstep ceqb n dep besttag bestdep bin un isroot pen dedup).
Notation jinit := (jinit n tag adm besttag bestdep).
Notation jpushes := (jpushes n dep besttag bestdep bin un isroot pen).
Notation jreach := (jreach ceqb n tag dep adm besttag bestdep bin un isroot pen dedup max_step nbest).
Notation jrunning := (jrunning max_step nbest).

Lemma ceqb_refl c : ceqb c c = true. Proof. now apply ceqb_eq. Qed.

Lemma deriv_eqb_eq (a b : deriv) : deriv_eqb ceqb a b = true <-> a = b.
Proof.
  revert b; induction a as [i c | k c x IH | k c h l IHl r IHr]; intros [j d | k' c' x' | k' c' h' l' r']; simpl;
    split; intros H; try discriminate; try congruence.
  - apply andb_true_iff in H as [H1 H2]. apply Nat.eqb_eq in H1. apply ceqb_eq in H2. congruence.
  - inversion H; subst. now rewrite Nat.eqb_refl, ceqb_refl.
  - apply andb_true_iff in H as [H H3]. apply andb_true_iff in H as [H1 H2].
    apply Nat.eqb_eq in H1. apply ceqb_eq in H2. apply IH in H3. congruence.
  - inversion H; subst. rewrite Nat.eqb_refl, ceqb_refl. simpl. now apply IH.
  - apply andb_true_iff in H as [H H5]. apply andb_true_iff in H as [H H4]. apply andb_true_iff in H as [H H3].
    apply andb_true_iff in H as [H1 H2].
    apply Nat.eqb_eq in H1. apply ceqb_eq in H2. apply Bool.eqb_prop in H3. apply IHl in H4. apply IHr in H5. congruence.
  - inversion H; subst. rewrite Nat.eqb_refl, ceqb_refl, Bool.eqb_reflx. simpl.
    assert (deriv_eqb ceqb l' l' = true) as -> by now apply IHl. now apply IHr.
Qed.

Lemma deriv_eq_dec (a b : deriv) : {a = b} + {a <> b}.
Proof. destruct (deriv_eqb ceqb a b) eqn:E; [left; now apply deriv_eqb_eq | right; intros H; apply deriv_eqb_eq in H; congruence]. Qed.

(* ---- abstraction ---- *)
Definition abs_item (j : jitem) : item := {| ifin := jfin j; ider := jder j |}.

Definition item_eqb (a b : item) : bool := Bool.eqb (ifin a) (ifin b) && deriv_eqb ceqb (ider a) (ider b).
Lemma item_eqb_eq a b : item_eqb a b = true <-> a = b.
Proof.
  destruct a as [f d], b as [f' d']. unfold item_eqb. simpl. rewrite andb_true_iff, deriv_eqb_eq. split.
  - intros [H1 H2]. apply Bool.eqb_prop in H1. congruence.
  - intros H. inversion H; subst. split; [apply Bool.eqb_reflx | reflexivity].
Qed.

Fixpoint remove_spec (a : item) (l : list item) : list item :=
  match l with [] => [] | b :: r => if item_eqb a b then r else b :: remove_spec a r end.

Lemma remove_spec_sub a l x : In x (remove_spec a l) -> In x l.
Proof. induction l as [|b r IH]; simpl; [tauto|]. destruct (item_eqb a b); simpl; intuition. Qed.
Lemma remove_spec_keep a l x : In x l -> x = a \/ In x (remove_spec a l).
Proof.
  induction l as [|b r IH]; simpl; [tauto|]. intros [->|H].
  - destruct (item_eqb a x) eqn:E; [left; symmetry; now apply item_eqb_eq | right; now left].
  - destruct (item_eqb a b); [now right|]. destruct (IH H); [now left | right; now right].
Qed.

Lemma jsame_abs a b : jsame ceqb a b = item_eqb (abs_item a) (abs_item b).
Proof. reflexivity. Qed.

Lemma jremove_abs a l : map abs_item (jremove ceqb a l) = remove_spec (abs_item a) (map abs_item l).
Proof. induction l as [|b r IH]; simpl; [reflexivity|]. rewrite jsame_abs. destruct (item_eqb _ _); simpl; congruence. Qed.

Notation step := (AStar.step ceqb n bin un isroot dedup remove_spec).
Notation reach := (AStar.reach ceqb n tag dep adm besttag bestdep bin un isroot pen dedup true remove_spec max_step nbest).
Notation prio := (AStar.prio n tag dep besttag bestdep pen true).
Notation valid_pop := (AStar.valid_pop n tag dep besttag bestdep pen true).
Notation pushes := (AStar.pushes n bin un isroot).

Definition abs_state (st : jstate) : @state C :=
  {| agenda := map abs_item (jagenda st); chart := map (@jder C) (jchart st); goal := map (@jder C) (jgoal st); nsteps := jsteps st |}.

(* every stored field is the function of the derivation it stands for *)
Definition fields_ok (j : jitem) : Prop :=
  let d := jder j in
  jin j = (if jfin j then dins d + dep (dhead d) 0 else dins d) /\
  jout j = (if jfin j then 0 else out_inh d) /\
  jstart j = dstart d /\ jlen j = dlen d /\ jhead j = dhead d.

Definition JOK (st : jstate) : Prop :=
  (forall a, In a (jagenda st) -> fields_ok a) /\
  (forall a, In a (jchart st) -> fields_ok a /\ jfin a = false) /\
  (forall a, In a (jgoal st) -> fields_ok a /\ jfin a = true).

Lemma jprio_prio j : fields_ok j -> jprio j = prio (abs_item j).
Proof. intros (Hi & Ho & _). unfold jprio, AStar.prio. simpl. rewrite Hi, Ho. destruct (jfin j); lia. Qed.

Lemma jkey_key a b : fields_ok a -> fields_ok b -> jkey_eqb ceqb a b = key_eqb ceqb (jder a) (jder b).
Proof. intros (_ & _ & Hs & Hl & _) (_ & _ & Hs' & Hl' & _). unfold jkey_eqb, key_eqb, jcat. now rewrite Hs, Hl, Hs', Hl'. Qed.

Lemma existsb_key a ch : fields_ok a -> (forall b, In b ch -> fields_ok b) ->
  existsb (jkey_eqb ceqb a) ch = existsb (key_eqb ceqb (jder a)) (map (@jder C) ch).
Proof.
  intros Ha. induction ch as [|b r IH]; intros Hch; simpl; [reflexivity|].
  rewrite jkey_key by (try assumption; apply Hch; now left). rewrite IH by (intros x Hx; apply Hch; now right). reflexivity.
Qed.

(* fields of pushed items *)
Lemma fields_final a : fields_ok a -> jfin a = false -> fields_ok (jfinal dep a).
Proof. intros (Hi & Ho & Hs & Hl & Hh) Hf. rewrite Hf in Hi. unfold fields_ok, jfinal. simpl. rewrite Hi, Hh. repeat split; assumption. Qed.

Lemma fields_unary a k c : fields_ok a -> jfin a = false -> fields_ok (junary pen a k c).
Proof.
  intros (Hi & Ho & Hs & Hl & Hh) Hf. rewrite Hf in Hi, Ho. unfold fields_ok, junary. simpl. rewrite Hi.
  repeat split; assumption.
Qed.

Lemma fields_combine l r k c hl : fields_ok l -> jfin l = false -> fields_ok r -> jfin r = false ->
  fields_ok (jcombine n dep besttag bestdep l r k c hl).
Proof.
  intros (Hi & Ho & Hs & Hl & Hh) Hf (Hi' & Ho' & Hs' & Hl' & Hh') Hf'. rewrite Hf in Hi. rewrite Hf' in Hi'.
  unfold fields_ok, jcombine. cbn [jfin jder jin jout jstart jlen jhead dstart dlen dhead AStar.dins AStar.out_inh AStar.out_score].
  rewrite Hi, Hi', Hs, Hl, Hl', Hh, Hh'. unfold attach.
  repeat split; destruct hl; reflexivity.
Qed.

Lemma fields_leaf i c : fields_ok (jleaf n tag besttag bestdep i c).
Proof. unfold fields_ok, jleaf. simpl. repeat split. Qed.

Lemma map_flat_map {A B D} (f : B -> D) (g : A -> list B) l : map f (flat_map g l) = flat_map (fun x => map f (g x)) l.
Proof. induction l as [|x l IH]; simpl; [reflexivity|]. now rewrite map_app, IH. Qed.

Lemma flat_map_map {A B D} (f : A -> B) (g : B -> list D) l : flat_map g (map f l) = flat_map (fun x => g (f x)) l.
Proof. induction l as [|x l IH]; simpl; [reflexivity|]. now rewrite IH. Qed.

Lemma flat_map_ext_in {A B} (f g : A -> list B) l : (forall x, In x l -> f x = g x) -> flat_map f l = flat_map g l.
Proof. induction l as [|x l IH]; intros H; simpl; [reflexivity|]. rewrite H by now left. rewrite IH; [reflexivity|]. intros y Hy. apply H. now right. Qed.

Lemma pushes_abs a ch : fields_ok a -> jfin a = false -> (forall b, In b ch -> fields_ok b /\ jfin b = false) ->
  map abs_item (jpushes a ch) = pushes (jder a) (map (@jder C) ch).
Proof.
  intros Ha Hf Hch. pose proof Ha as (_ & _ & Hs & Hl & _).
  unfold AStarImpl.jpushes, AStar.pushes. rewrite !map_app. f_equal; [|f_equal; [|f_equal]].
  - unfold jpush_fin, push_fin, jcat. rewrite Hl. destruct (_ && _); [|reflexivity]. simpl. unfold abs_item. simpl. reflexivity.
  - unfold jpush_un, push_un, jcat. rewrite Hl. destruct (_ || _); [|reflexivity]. rewrite map_map. reflexivity.
  - unfold jpush_right, push_right. rewrite map_flat_map, flat_map_map. apply flat_map_ext_in. intros o Ho.
    destruct (Hch o Ho) as [(_ & _ & Hso & Hlo & _) _]. rewrite Hso, Hs, Hl. unfold jcat.
    destruct (_ =? _)%nat; [|reflexivity]. rewrite map_map. reflexivity.
  - unfold jpush_left, push_left. rewrite map_flat_map, flat_map_map. apply flat_map_ext_in. intros o Ho.
    destruct (Hch o Ho) as [(_ & _ & Hso & Hlo & _) _]. rewrite Hso, Hlo, Hs. unfold jcat.
    destruct (_ =? _)%nat; [|reflexivity]. rewrite map_map. reflexivity.
Qed.

Lemma pushes_fields a ch : fields_ok a -> jfin a = false -> (forall b, In b ch -> fields_ok b /\ jfin b = false) ->
  forall x, In x (jpushes a ch) -> fields_ok x.
Proof.
  intros Ha Hf Hch x Hx. unfold AStarImpl.jpushes in Hx. rewrite !in_app_iff in Hx. destruct Hx as [Hx|[Hx|[Hx|Hx]]].
  - unfold jpush_fin in Hx. destruct (_ && _); [|destruct Hx]. destruct Hx as [<-|[]]. now apply fields_final.
  - unfold jpush_un in Hx. destruct (_ || _); [|destruct Hx]. apply in_map_iff in Hx as [kc [<- _]]. now apply fields_unary.
  - unfold jpush_right in Hx. apply in_flat_map in Hx as [o [Ho Hx]]. destruct (_ =? _)%nat; [|destruct Hx].
    apply in_map_iff in Hx as [kr [<- _]]. destruct (Hch o Ho). now apply fields_combine.
  - unfold jpush_left in Hx. apply in_flat_map in Hx as [o [Ho Hx]]. destruct (_ =? _)%nat; [|destruct Hx].
    apply in_map_iff in Hx as [kr [<- _]]. destruct (Hch o Ho). now apply fields_combine.
Qed.

Lemma jremove_sub a l x : In x (jremove ceqb a l) -> In x l.
Proof. induction l as [|b r IH]; simpl; [tauto|]. destruct (jsame ceqb a b); simpl; intuition. Qed.

Lemma init_jok : JOK jinit.
Proof.
  split; [|split]; simpl; try (intros a []).
  intros a Ha. apply in_flat_map in Ha as [i [_ Ha]]. apply in_map_iff in Ha as [c [<- _]]. apply fields_leaf.
Qed.

Lemma init_abs : abs_state jinit = AStar.init n adm.
Proof.
  unfold abs_state, AStarImpl.jinit, AStar.init. simpl. f_equal.
  rewrite map_flat_map. apply flat_map_ext_in. intros i _. rewrite map_map. reflexivity.
Qed.

Lemma step_jok a st : JOK st -> In a (jagenda st) -> JOK (jstep a st).
Proof.
  intros (Hag & Hch & Hgo) Ha. pose proof (Hag a Ha) as Hfa. unfold AStarImpl.jstep.
  destruct (jfin a) eqn:Ef.
  - split; [|split]; simpl; auto.
    + intros b Hb. apply jremove_sub in Hb. auto.
    + intros b Hb. apply in_app_iff in Hb as [Hb|[<-|[]]]; auto.
  - destruct (dedup && existsb _ _) eqn:Ed.
    + split; [|split]; simpl; auto. intros b Hb. apply jremove_sub in Hb. auto.
    + split; [|split]; simpl; auto.
      * intros b Hb. apply in_app_iff in Hb as [Hb|Hb]; [eapply pushes_fields; eauto | apply jremove_sub in Hb; auto].
      * intros b [<-|Hb]; auto.
Qed.

Lemma step_abs a st : JOK st -> In a (jagenda st) -> abs_state (jstep a st) = step (abs_item a) (abs_state st).
Proof.
  intros (Hag & Hch & Hgo) Ha. pose proof (Hag a Ha) as Hfa. unfold AStarImpl.jstep, AStar.step. simpl.
  destruct (jfin a) eqn:Ef.
  - unfold abs_state. simpl. rewrite jremove_abs, map_app. reflexivity.
  - rewrite (existsb_key a (jchart st) Hfa) by (intros b Hb; now apply Hch).
    destruct (dedup && existsb _ _) eqn:Ed.
    + unfold abs_state. simpl. now rewrite jremove_abs.
    + unfold abs_state. simpl. rewrite map_app, jremove_abs, pushes_abs by assumption. reflexivity.
Qed.

Lemma valid_pop_abs a st : JOK st -> jvalid_pop a st -> valid_pop (abs_item a) (abs_state st).
Proof.
  intros (Hag & _) [Ha Hmax]. split.
  - simpl. now apply in_map.
  - intros b Hb. simpl in Hb. apply in_map_iff in Hb as [b' [<- Hb']].
    rewrite <- !jprio_prio by auto. now apply Hmax.
Qed.

Lemma running_abs st : jrunning st -> running max_step nbest (abs_state st).
Proof.
  intros (H1 & H2 & H3). unfold running. simpl. rewrite map_length. repeat split; try assumption.
  intros E. apply map_eq_nil in E. contradiction.
Qed.

Theorem refinement st : jreach st -> reach (abs_state st) /\ JOK st.
Proof.
  induction 1 as [|st a Hr [IHr IHj] Hrun Hv].
  - rewrite init_abs. split; [constructor | apply init_jok].
  - destruct Hv as [Ha Hmax]. split; [|now apply step_jok].
    rewrite step_abs by assumption. constructor; [assumption | now apply running_abs | now apply valid_pop_abs].
Qed.
End Refine.
