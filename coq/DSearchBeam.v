(* The supertag beam computed through the libstdc++ heap model (DSearch.dbeam: push every (score, id) pair of the row
   into a std::priority_queue, then pop while the tag passes the beta filter, at most `pruning` times) equals the
   sort-based beam of the A* model (AStarImpl.beam), and the best score read off the top of the heap equals row_best.

   Route: the heap built by the pushes is a valid max-heap holding a permutation of the row pairs; pair_ltb is a
   total strict order, so a valid heap and a descending list with the same elements agree on every pop. *)
From Coq Require Import List ZArith Lia Bool Arith Sorted Permutation.
Import ListNotations.
Require Import AStar AStarImpl AStarThms Heap HeapProofs DSearch.

(* ------------------------------------------------------------------------------------------------------------ *)
(* local copies of AStarProblem.insert_pair_perm / sort_pairs_perm (avoids the import of AStarProblem) *)
Lemma insert_pair_perm_l a l : Permutation (insert_pair a l) (a :: l).
Proof.
  induction l as [|b r IH]; cbn [insert_pair]; [reflexivity|].
  destruct (pair_ltb b a); [reflexivity|].
  apply perm_trans with (b :: a :: r); [now constructor | apply perm_swap].
Qed.

Lemma sort_pairs_perm_l l : Permutation (sort_pairs l) l.
Proof.
  induction l as [|a l IH]; [reflexivity|].
  unfold sort_pairs in *. cbn [fold_right].
  apply perm_trans with (a :: fold_right insert_pair [] l); [apply insert_pair_perm_l | now constructor].
Qed.

(* ------------------------------------------------------------------------------------------------------------ *)
(* (1) the heap of the row: invariant and contents *)
Lemma fold_push_ok (l acc : list (Z * nat)) :
  heap_ok pair_ltb acc ->
  heap_ok pair_ltb (fold_left (push pair_ltb) l acc) /\
  Permutation (fold_left (push pair_ltb) l acc) (acc ++ l).
Proof.
  revert acc. induction l as [|a l IH]; intros acc Hacc; cbn [fold_left].
  - split; [exact Hacc|]. rewrite app_nil_r. reflexivity.
  - destruct (IH (push pair_ltb acc a)) as [Hok Hperm].
    + apply push_heap_ok; [exact swo_pair | exact Hacc].
    + split; [exact Hok|].
      apply perm_trans with (push pair_ltb acc a ++ l); [exact Hperm|].
      apply perm_trans with ((a :: acc) ++ l).
      * apply Permutation_app_tail. apply push_perm.
      * cbn [app]. apply Permutation_middle.
Qed.

Lemma tag_heap_ok row : heap_ok pair_ltb (tag_heap row).
Proof. unfold tag_heap. apply (fold_push_ok (row_pairs row) []). apply heap_ok_nil. Qed.

Lemma tag_heap_perm row : Permutation (tag_heap row) (row_pairs row).
Proof. unfold tag_heap. apply (fold_push_ok (row_pairs row) []). apply heap_ok_nil. Qed.

Lemma tag_heap_perm_sorted row : Permutation (tag_heap row) (sort_pairs (row_pairs row)).
Proof.
  apply perm_trans with (row_pairs row); [apply tag_heap_perm|].
  apply Permutation_sym. apply sort_pairs_perm_l.
Qed.

(* ------------------------------------------------------------------------------------------------------------ *)
(* (2) a valid heap and a descending list with the same elements agree on pop *)
Lemma pop_sorted_nil h : Permutation h [] -> pop pair_ltb h = None.
Proof. intros Hp. apply Permutation_sym, Permutation_nil in Hp. subst h. reflexivity. Qed.

Lemma pop_sorted_cons h a l :
  heap_ok pair_ltb h -> Permutation h (a :: l) -> psorted (a :: l) ->
  exists h', pop pair_ltb h = Some (a, h') /\ heap_ok pair_ltb h' /\ Permutation h' l.
Proof.
  intros Hok Hperm Hsorted.
  destruct (pop pair_ltb h) as [[x h']|] eqn:Epop.
  - pose proof (pop_perm pair_ltb h x h' Epop) as Hpp.
    pose proof (pop_max pair_ltb h x h' swo_pair Hok Epop) as Hmax.
    pose proof (pop_heap_ok pair_ltb h x h' swo_pair Hok Epop) as Hok'.
    assert (Hxa : x = a).
    { apply pair_ltb_total.
      - apply Hmax. apply (Permutation_in a (Permutation_sym Hperm)). now left.
      - assert (Hin : In x (a :: l)).
        { apply (Permutation_in x Hperm). apply (Permutation_in x (Permutation_sym Hpp)). now left. }
        destruct Hin as [Hin|Hin].
        + subst x. exact (swo_irrefl _ swo_pair a).
        + apply StronglySorted_inv in Hsorted as [_ Hall].
          rewrite Forall_forall in Hall. apply Hall. exact Hin. }
    subst x. exists h'. split; [reflexivity|]. split; [exact Hok'|].
    apply Permutation_cons_inv with (a := a).
    apply perm_trans with h; [apply Permutation_sym; exact Hpp | exact Hperm].
  - apply pop_none in Epop. subst h. apply Permutation_nil in Hperm. discriminate Hperm.
Qed.

(* ------------------------------------------------------------------------------------------------------------ *)
(* (3) the pop loop against take_while_passing *)
Lemma dbeam_loop_sorted use_beta theta best k :
  forall h l, heap_ok pair_ltb h -> Permutation h l -> psorted l ->
  dbeam_loop use_beta theta k best h = map snd (take_while_passing use_beta theta best k l).
Proof.
  induction k as [|k IH]; intros h l Hok Hperm Hsorted.
  - reflexivity.
  - cbn [dbeam_loop take_while_passing]. destruct l as [|a l].
    + rewrite (pop_sorted_nil h Hperm). reflexivity.
    + destruct (pop_sorted_cons h a l Hok Hperm Hsorted) as (h' & Epop & Hok' & Hperm').
      rewrite Epop. destruct (passes use_beta theta (fst a) best); [|reflexivity].
      cbn [map]. f_equal. apply IH; [exact Hok' | exact Hperm' |].
      apply StronglySorted_inv in Hsorted as [Hs _]. exact Hs.
Qed.

(* ------------------------------------------------------------------------------------------------------------ *)
(* (4) top of the heap = head of the sorted list *)
Lemma top_pop {T} (lt : T -> T -> bool) (h : list T) :
  top h = match pop lt h with Some (x, _) => Some x | None => None end.
Proof. destruct h as [|x r]; reflexivity. Qed.

Lemma tag_heap_top row : top (tag_heap row) = hd_error (sort_pairs (row_pairs row)).
Proof.
  rewrite (top_pop pair_ltb).
  pose proof (tag_heap_ok row) as Hok. pose proof (tag_heap_perm_sorted row) as Hperm.
  pose proof (sort_pairs_sorted (row_pairs row)) as Hsorted.
  destruct (sort_pairs (row_pairs row)) as [|a l].
  - rewrite (pop_sorted_nil _ Hperm). reflexivity.
  - destruct (pop_sorted_cons _ a l Hok Hperm Hsorted) as (h' & Epop & _ & _).
    rewrite Epop. reflexivity.
Qed.

Theorem dbest_eq row : dbest row = row_best row.
Proof.
  unfold dbest, row_best. rewrite tag_heap_top.
  destruct (sort_pairs (row_pairs row)) as [|a l]; reflexivity.
Qed.

Theorem dbeam_eq use_beta theta pruning row : dbeam use_beta theta pruning row = beam use_beta theta pruning row.
Proof.
  unfold dbeam, beam. cbv zeta.
  pose proof (tag_heap_top row) as Htop. unfold row_best.
  pose proof (dbeam_loop_sorted use_beta theta) as Hloop.
  pose proof (tag_heap_ok row) as Hok. pose proof (tag_heap_perm_sorted row) as Hperm.
  pose proof (sort_pairs_sorted (row_pairs row)) as Hsorted.
  destruct (sort_pairs (row_pairs row)) as [|a l] eqn:Es; cbn [hd_error] in Htop; rewrite Htop.
  - destruct pruning; reflexivity.
  - apply Hloop; assumption.
Qed.

(* the top of the heap of the row is a maximal pair of the row *)
Corollary tag_heap_top_is_max row p :
  top (tag_heap row) = Some p -> forall q, In q (row_pairs row) -> pair_ltb p q = false.
Proof.
  intros Htop q Hq. rewrite (top_pop pair_ltb) in Htop.
  destruct (pop pair_ltb (tag_heap row)) as [[x h']|] eqn:Epop; [|discriminate].
  injection Htop as ->.
  apply (pop_max pair_ltb _ _ _ swo_pair (tag_heap_ok row) Epop).
  apply (Permutation_in q (Permutation_sym (tag_heap_perm row))). exact Hq.
Qed.

(* ... and it is a pair of the row *)
Corollary tag_heap_top_in row p : top (tag_heap row) = Some p -> In p (row_pairs row).
Proof.
  intros Htop. apply (Permutation_in p (tag_heap_perm row)).
  destruct (tag_heap row) as [|x r]; [discriminate|]. injection Htop as ->. now left.
Qed.

(* the empty row: both sides are 0 / [] *)
Example dbeam_empty use_beta theta pruning : dbeam use_beta theta pruning [] = [] /\ dbest [] = 0%Z.
Proof. split; reflexivity. Qed.

(* a concrete row with ties: ids come out by descending score, ties by descending id (std::pair operator<) *)
Example dbeam_example :
  dbeam false 0 3 [5; 7; 7; 1; 6]%Z = [2; 1; 4]%nat /\ beam false 0 3 [5; 7; 7; 1; 6]%Z = [2; 1; 4]%nat /\
  dbest [5; 7; 7; 1; 6]%Z = 7%Z.
Proof. vm_compute. repeat split. Qed.

Print Assumptions dbeam_eq.
Print Assumptions dbest_eq.
Print Assumptions tag_heap_top_is_max.
