(* C05 - Category text and category values round-trip.  Property theorems only.
   The tables `puncts` and `specials` are regenerated from depccg/cat.py on every run (GenTables.v). *)
From Coq Require Import List NArith Bool.
Import ListNotations.
Require Import Cat CatFacts CatLex CatRoundTrip GenTables.
Open Scope N_scope.

Definition parse (t : text) : option cat := CatRoundTrip.parse specials puncts t.

Lemma specials_std : forall c, special specials c = special9 c.
Proof. apply existsb_ext_set. vm_compute. reflexivity. Qed.
Lemma puncts_plain : Forall plain puncts.
Proof. apply Forall_plain_of_bool. vm_compute. reflexivity. Qed.

(* (A) printing any well-formed category and reading the text back gives the same value *)
Theorem C05_parse_show : forall c, wf puncts c -> parse (show c) = Some c.
Proof. exact (parse_show specials specials_std puncts puncts_plain). Qed.

(* (B) any well-formed text of c - arbitrary redundant round/angle brackets around operands and around the
   whole, arbitrary blanks between tokens - reads as c, hence prints back as show c *)
Theorem C05_parse_text : forall c ts ws, Text puncts c ts -> parse (render ws ts) = Some c.
Proof. intros c ts ws. exact (parse_text_blanks specials specials_std puncts puncts_plain c ts ws). Qed.

Theorem C05_print_parse_text : forall c ts ws, Text puncts c ts -> option_map show (parse (render ws ts)) = Some (show c).
Proof. intros c ts ws H. now rewrite (C05_parse_text c ts ws H). Qed.

(* the canonical text is itself one of those texts, and distinct values have distinct texts *)
Theorem C05_show_is_text : forall c, wf puncts c -> Text puncts c (toks c) /\ lex specials (show c) = toks c.
Proof. intros c H. split; [now apply toks_text | now apply (lex_show specials specials_std puncts)]. Qed.

Theorem C05_show_injective : forall a b, wf puncts a -> wf puncts b -> show a = show b -> a = b.
Proof. exact (show_injective specials specials_std puncts puncts_plain). Qed.

(* (C) associativity is never guessed *)
Theorem C05_two_slashes_rejected_top : forall a b c ta tb tc s1 s2 ws,
  Op puncts a ta -> Op puncts b tb -> Op puncts c tc -> slashP s1 -> slashP s2 ->
  Forall tok_ok (ta ++ [s1] ++ tb ++ [s2] ++ tc) ->
  parse (render ws (ta ++ [s1] ++ tb ++ [s2] ++ tc)) = None.
Proof.
  intros a b c ta tb tc s1 s2 ws Ha Hb Hc H1 H2 Hok. unfold parse, CatRoundTrip.parse.
  rewrite (lex_render specials specials_std _ Hok). now apply (two_slashes_top puncts puncts_plain a b c).
Qed.

Theorem C05_two_slashes_rejected_bracketed : forall a b c ta tb tc s1 s2 o cl rest st,
  Op puncts a ta -> Op puncts b tb -> Op puncts c tc -> slashP s1 -> slashP s2 -> matching o cl ->
  run puncts ([o] ++ ta ++ [s1] ++ tb ++ [s2] ++ tc ++ [cl] ++ rest) st = None.
Proof. intros. now apply (two_slashes_bracketed puncts puncts_plain a b c). Qed.

(* non-vacuity: a non-trivial value meets the hypotheses, and the statements compute on it *)
Definition ex_cat : cat :=
  Fun (Fun (Atom [83] (FUn [100;99;108])) [cBS] (Atom [78;80] FNone)) [cSL]
      (Atom [78;80] (FTer [99] [110;99] [109] [88;49] [102] [116])).
Example ex_wf : wf puncts ex_cat.
Proof. apply wfb_ok. vm_compute. reflexivity. Qed.
Example ex_roundtrip : parse (show ex_cat) = Some ex_cat.
Proof. vm_compute. reflexivity. Qed.
Example ex_two_slashes : parse [83;47;78;80;47;78;80] = None.   (* "S/NP/NP" *)
Proof. vm_compute. reflexivity. Qed.
Example ex_redundant : parse [60;40;83;41;92;60;78;80;62;62] = Some (Fun (Atom [83] FNone) [cBS] (Atom [78;80] FNone)).  (* "<(S)\<NP>>" *)
Proof. vm_compute. reflexivity. Qed.
