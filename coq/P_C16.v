(* C16 - the supertag beam is honoured.  Property theorems only. *)
From Coq Require Import List ZArith Bool Arith.
Import ListNotations.
Require Import AStar AStarLoss AStarOpt AStarImpl AStarRefine AStarThms AStarReplay AStarCheck AStarProblem AStarExample P_C02.
Open Scope Z_scope.

(* the candidates of a token are a prefix of its tags sorted by (score, id) descending: at most pruning_size of them,
   every one passes the beta test against the best tag (s - best > ln beta; always true with the filter off), and the
   prefix stops early only at the end of the row or at the first tag that fails the test *)
Theorem C16_beam_is_a_thresholded_prefix : forall use_beta theta pruning row,
  exists m, (m <= pruning)%nat /\
    beam use_beta theta pruning row = map snd (firstn m (sort_pairs (row_pairs row))) /\
    (forall q, In q (firstn m (sort_pairs (row_pairs row))) -> passes use_beta theta (fst q) (row_best row) = true) /\
    (m = pruning \/ m = length row \/
     exists q, nth_error (sort_pairs (row_pairs row)) m = Some q /\ passes use_beta theta (fst q) (row_best row) = false).
Proof. exact beam_spec. Qed.

Theorem C16_filter_off_only_pruning_limits : forall theta pruning row,
  beam false theta pruning row = map snd (firstn pruning (sort_pairs (row_pairs row))).
Proof.
  intros theta pruning row. unfold beam. f_equal. generalize (sort_pairs (row_pairs row)). revert pruning.
  induction pruning as [|k IH]; intros [|q l]; simpl; try reflexivity. now rewrite IH.
Qed.

(* every leaf of every returned tree carries a tag of its token's beam; tags outside the beam are not available:
   a derivation using one is not licensed, so it is never returned and cannot make a sentence parse *)
Theorem C16_returned_trees_stay_in_the_beam : forall p hdir tr st g i c,
  (p_dedup p = true -> uniformb hdir (p_bin p) = true /\ 0 <= p_pen p) ->
  p_accepts p tr = Some st -> In g (jgoal st) -> In (i, c) (dleaves (jder g)) ->
  In c (beam (p_use_beta p) (p_theta p) (p_pruning p) (nth i (p_tag p) [])).
Proof.
  intros p hdir tr st g i c Hh Hacc Hg Hin.
  pose proof (P_C02.C02_results_are_licensed p hdir tr st g Hh Hacc Hg) as Hc.
  exact (proj2 (complete_leaves _ _ _ _ _ _ Hc) i c Hin).
Qed.

Theorem C16_excluded_tags_are_unavailable : forall p i c, ~ In c (p_adm p i) -> ~ p_licensed p (DLeaf i c).
Proof. intros p i c Hn H. inversion H; subst. contradiction. Qed.

Example ex_c16 : beam true (-63) 2 [-8; -32; -48] = [0%nat; 1%nat] /\ beam true (-15) 2 [-8; -32; -48] = [0%nat].
Proof. split; vm_compute; reflexivity. Qed.
