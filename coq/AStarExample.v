(* a concrete problem and the pop traces the real search produced on it (used by the Examples of the property files) *)
From Coq Require Import List ZArith Bool Arith.
Import ListNotations.
Require Import AStar AStarImpl AStarCheck.
Open Scope Z_scope.
Definition T (p : @tpop nat) i o s l h st : @trec nat := {| t_pop := p; t_in := i; t_out := o; t_start := s; t_len := l; t_head := h; t_stored := st |}.
Definition ex_problem (dd : bool) (nb : nat) : problem :=
  {| p_tag := [[-8; -32; -48]; [-32; -4; -48]]; p_dep := [[-16; -8; -8]; [-4; -16; -32]];
     p_bin := [(0%nat, 1%nat, [(2%nat, true)]); (1%nat, 0%nat, [(2%nat, true)])]; p_un := [(0%nat, [1%nat])]; p_roots := [2%nat];
     p_pen := 2; p_dedup := dd; p_pruning := 2%nat; p_use_beta := true; p_theta := -63; p_max_step := 1000%nat; p_nbest := nb |}.
Definition ex_trace1 : list (@trec nat) :=
  [(T (TLeaf 0%nat 0%nat) (-8)%Z (-16)%Z 0%nat 1%nat 0%nat true);(T (TLeaf 1%nat 1%nat) (-4)%Z (-20)%Z 1%nat 1%nat 1%nat true);(T (TUn 0%nat 1%nat 0%nat) (-10)%Z (-16)%Z 0%nat 1%nat 0%nat true);(T (TBin 0%nat 2%nat true 0%nat 1%nat) (-28)%Z (-8)%Z 0%nat 2%nat 0%nat true);(T (TFin 3%nat) (-44)%Z 0%Z 0%nat 2%nat 0%nat false)].
Definition ex_trace3 : list (@trec nat) :=
  [(T (TLeaf 0%nat 0%nat) (-8)%Z (-16)%Z 0%nat 1%nat 0%nat true);(T (TLeaf 1%nat 1%nat) (-4)%Z (-20)%Z 1%nat 1%nat 1%nat true);(T (TUn 0%nat 1%nat 0%nat) (-10)%Z (-16)%Z 0%nat 1%nat 0%nat true);(T (TBin 0%nat 2%nat true 0%nat 1%nat) (-28)%Z (-8)%Z 0%nat 2%nat 0%nat true);(T (TFin 3%nat) (-44)%Z 0%Z 0%nat 2%nat 0%nat false);(T (TLeaf 0%nat 1%nat) (-32)%Z (-16)%Z 0%nat 1%nat 0%nat true);(T (TLeaf 1%nat 0%nat) (-32)%Z (-20)%Z 1%nat 1%nat 1%nat true);(T (TUn 0%nat 1%nat 5%nat) (-34)%Z (-20)%Z 1%nat 1%nat 1%nat true);(T (TBin 0%nat 2%nat true 2%nat 5%nat) (-58)%Z (-8)%Z 0%nat 2%nat 0%nat true);(T (TBin 0%nat 2%nat true 0%nat 6%nat) (-58)%Z (-8)%Z 0%nat 2%nat 0%nat true);(T (TFin 7%nat) (-74)%Z 0%Z 0%nat 2%nat 0%nat false);(T (TFin 8%nat) (-74)%Z 0%Z 0%nat 2%nat 0%nat false)].
Definition ex_d1 : @deriv nat := DBin 0%nat 2%nat true (DLeaf 0%nat 0%nat) (DLeaf 1%nat 1%nat).
