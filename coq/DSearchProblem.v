(* The deterministic twin on concrete problems (AStarCheck.problem; DSearchCheck.d_final is exactly what the correspondence
   cases evaluate): its run is a valid run `p_reach` of the implementation-level model with the sort-based beam, so the
   property theorems of C01 / C10 hold for the run the C++ makes; and it is blind to the names of the derived categories. *)
From Coq Require Import List ZArith Lia Bool Arith Permutation Sorted.
Import ListNotations.
Require Import AStar AStarLoss AStarOpt AStarImpl AStarRefine AStarThms AStarReplay AStarDistinct AStarCheck AStarProblem AStarEquiv.
Require Import Heap HeapProofs DSearch DSearchCheck DSearchProofs DSearchBeam DSearchBlind.
Open Scope Z_scope.

(* ---------- the search depends on adm / besttag only pointwise ---------- *)
Section Ext.
Context {C : Type}.
Variable ceqb : C -> C -> bool.
Variable n : nat.
Variable tag : nat -> C -> Z.
Variable dep : nat -> nat -> Z.
Variables adm adm' : nat -> list C.
Variables bt bt' bestdep : nat -> Z.
Variable bin : C -> C -> list (C * bool).
Variable un : C -> list C.
Variable isroot : C -> bool.
Variable pen : Z.
Variable dedup : bool.
Variable max_step nbest : nat.
Hypothesis adm_eq : forall i, adm i = adm' i.
Hypothesis bt_eq : forall i, bt i = bt' i.

Lemma sumf_ext s len : sumf bt s len = sumf bt' s len.
Proof. revert s. induction len as [|l IH]; intros s; simpl; [reflexivity|]. now rewrite bt_eq, IH. Qed.
Lemma outside_ext s e : outside n bt s e = outside n bt' s e.
Proof. unfold outside. now rewrite !sumf_ext. Qed.
Lemma jleaf_ext i c : jleaf n tag bt bestdep i c = jleaf n tag bt' bestdep i c.
Proof. unfold jleaf. now rewrite outside_ext. Qed.
Lemma jcombine_ext (l r : @jitem C) k c hl : jcombine n dep bt bestdep l r k c hl = jcombine n dep bt' bestdep l r k c hl.
Proof. unfold jcombine. now rewrite outside_ext. Qed.
Lemma jinit_ext : jinit n tag adm bt bestdep = jinit n tag adm' bt' bestdep.
Proof.
  unfold jinit. f_equal. apply flat_map_ext. intros i. rewrite adm_eq. apply map_ext. intros c. apply jleaf_ext.
Qed.
Lemma jstep_ext a st : jstep ceqb n dep bt bestdep bin un isroot pen dedup a st = jstep ceqb n dep bt' bestdep bin un isroot pen dedup a st.
Proof.
  unfold jstep. destruct (jfin a); [reflexivity|]. destruct (dedup && existsb (jkey_eqb ceqb a) (jchart st)); [reflexivity|].
  f_equal. f_equal. unfold jpushes. f_equal. f_equal. f_equal.
  - unfold jpush_right. apply flat_map_ext. intros o. destruct (jstart o =? jstart a + jlen a)%nat; [|reflexivity].
    apply map_ext. intros kr. apply jcombine_ext.
  - unfold jpush_left. apply flat_map_ext. intros o. destruct (jstart o + jlen o =? jstart a)%nat; [|reflexivity].
    apply map_ext. intros kr. apply jcombine_ext.
Qed.
Lemma jreach_ext st : jreach ceqb n tag dep adm bt bestdep bin un isroot pen dedup max_step nbest st ->
  jreach ceqb n tag dep adm' bt' bestdep bin un isroot pen dedup max_step nbest st.
Proof.
  induction 1 as [|st a Hr IH Hrun Hv]; [rewrite jinit_ext; constructor|]. rewrite jstep_ext. now constructor.
Qed.
End Ext.

(* ---------- the beam read off the tag heaps is the sort-based beam ---------- *)
Lemma d_adm_eq p i : d_adm p i = p_adm p i.
Proof. apply dbeam_eq. Qed.
Lemma d_besttag_eq p i : d_besttag p i = p_besttag p i.
Proof. apply dbest_eq. Qed.

(* the `nbest_` flag of the charts is nbest > 1: in 1-best mode (dedup) at most one parse is asked for *)
Definition p_mode_ok (p : problem) : bool := implb (p_dedup p) (p_nbest p <=? 1)%nat.
Lemma p_mode_ok_spec p : p_mode_ok p = true -> p_dedup p = true -> (p_nbest p <= 1)%nat.
Proof. unfold p_mode_ok. intros H E. rewrite E in H. simpl in H. now apply Nat.leb_le. Qed.

(* THE run of parse_sentence is A valid run of the implementation-level model *)
Theorem d_run_is_a_valid_run p : p_mode_ok p = true ->
  exists js, p_reach p js /\ p_running_b p js = false /\ jgoal js = rev (dgoal (d_final p)) /\ jsteps js = dsteps (d_final p) /\
             jstatus js = dstatus (d_final p) /\ jresult js = dresult (d_final p).
Proof.
  intros Hm.
  destruct (dsearch_run_is_jreach Nat.eqb nat_eqb_eq (p_n p) (p_tagf p) (p_depf p) (d_adm p) (d_besttag p) (p_bestdep p)
              (lookup2 (p_bin p)) (lookup1 (p_un p)) (p_isroot p) (p_pen p) (p_dedup p) (p_max_step p) (p_nbest p) (p_mode_ok_spec p Hm))
    as (js & Hr & Hrest).
  exists js. split; [|exact Hrest]. unfold p_reach.
  exact (jreach_ext Nat.eqb (p_n p) (p_tagf p) (p_depf p) (d_adm p) (p_adm p) (d_besttag p) (p_besttag p) (p_bestdep p) (lookup2 (p_bin p))
           (lookup1 (p_un p)) (p_isroot p) (p_pen p) (p_dedup p) (p_max_step p) (p_nbest p) (d_adm_eq p) (d_besttag_eq p) js Hr).
Qed.

(* ---------- C01 for the deterministic run ---------- *)
Theorem d_first_parse_is_optimal p hdir :
  0 <= p_pen p -> uniformb hdir (p_bin p) = true -> p_dedup p = true -> (p_nbest p <= 1)%nat ->
  forall g rest, dresult (d_final p) = g :: rest ->
    rest = [] /\ p_complete p (jder g) /\ jprio g = p_score p (jder g) /\ forall d, p_complete p d -> p_score p d <= jprio g.
Proof.
  intros Hpen Hu Hd Hnb g rest Hres.
  assert (Hm : p_mode_ok p = true) by (unfold p_mode_ok; rewrite Hd; simpl; now apply Nat.leb_le).
  destruct (d_run_is_a_valid_run p Hm) as (js & Hr & _ & Hg & _ & _ & Hjr).
  pose proof (jreach_goal_count _ _ _ _ _ _ _ _ _ _ _ _ _ _ js Hr) as Hcnt.
  unfold p_reach in Hr. rewrite Hd in Hr.
  rewrite <- Hjr in Hres. unfold jresult in Hres.
  destruct (jgoal js) as [|g0 [|g1 r]] eqn:Eg; [discriminate | | simpl in Hcnt; lia].
  simpl in Hres. inversion Hres; subst g rest. split; [reflexivity|].
  exact (first_goal_in_state Nat.eqb nat_eqb_eq (p_n p) (p_tagf p) (p_depf p) (p_adm p) (p_besttag p) (p_bestdep p) (lookup2 (p_bin p))
           (lookup1 (p_un p)) (p_isroot p) (p_pen p) (p_max_step p) (p_nbest p) Hpen (p_tag_le p) (p_dep_le p) hdir (p_uniform p hdir Hu) js Hr g0 [] Eg).
Qed.

Theorem d_failure_only_if_no_parse p hdir :
  0 <= p_pen p -> uniformb hdir (p_bin p) = true -> p_dedup p = true -> (p_nbest p <= 1)%nat ->
  dstatus (d_final p) = 1%nat ->
  (forall d, ~ p_complete p d) \/ (p_max_step p <= dsteps (d_final p))%nat \/ p_nbest p = 0%nat.
Proof.
  intros Hpen Hu Hd Hnb Hst.
  assert (Hm : p_mode_ok p = true) by (unfold p_mode_ok; rewrite Hd; simpl; now apply Nat.leb_le).
  destruct (d_run_is_a_valid_run p Hm) as (js & Hr & Hnr & _ & Hs & Hjs & _).
  unfold p_reach in Hr. rewrite Hd in Hr. rewrite <- Hs. rewrite <- Hjs in Hst. unfold jstatus in Hst.
  destruct (jgoal js) eqn:Eg; [|discriminate].
  exact (failed_means_none_or_budget Nat.eqb nat_eqb_eq (p_n p) (p_tagf p) (p_depf p) (p_adm p) (p_besttag p) (p_bestdep p) (lookup2 (p_bin p))
           (lookup1 (p_un p)) (p_isroot p) (p_pen p) (p_max_step p) (p_nbest p) Hpen (p_tag_le p) (p_dep_le p) hdir (p_uniform p hdir Hu) js Hr Hnr Eg).
Qed.

(* ---------- C10 for the deterministic run ---------- *)
Lemma in_sort_desc_rev (l : list (@jitem nat)) x : In x (sort_desc (rev l)) <-> In x l.
Proof.
  rewrite (in_rev l). generalize (rev l). clear l. intros l. unfold sort_desc.
  induction l as [|a l IH]; simpl; [tauto|]. rewrite <- IH. clear IH. generalize (fold_right (@insert_desc nat) [] l). intros s.
  induction s as [|b s IHs]; simpl; [tauto|]. destruct (jprio b <=? jprio a); simpl; [tauto|]. rewrite IHs. tauto.
Qed.

Lemma insert_desc_sorted (a : @jitem nat) l :
  StronglySorted (fun x y => jprio y <= jprio x) l -> StronglySorted (fun x y => jprio y <= jprio x) (insert_desc a l).
Proof.
  induction l as [|b r IH]; intros Hs; simpl; [repeat constructor|].
  inversion Hs as [|b' r' Hr Hall]; subst. destruct (jprio b <=? jprio a) eqn:E.
  - apply Z.leb_le in E. constructor; [exact Hs|]. constructor; [exact E|].
    rewrite Forall_forall in *. intros x Hx. specialize (Hall x Hx). lia.
  - apply Z.leb_gt in E. constructor; [now apply IH|]. rewrite Forall_forall in *. intros x Hx.
    assert (Hin : x = a \/ In x r).
    { clear -Hx. induction r as [|c r IHr]; simpl in Hx; [destruct Hx as [<-|[]]; now left|].
      destruct (jprio c <=? jprio a); simpl in Hx; [destruct Hx as [<-|Hx]; [now left | now right]|].
      destruct Hx as [<-|Hx]; [right; now left|]. destruct (IHr Hx) as [->|H]; [now left | right; now right]. }
    destruct Hin as [->|Hin]; [lia | now apply Hall].
Qed.
Lemma sort_desc_sorted (l : list (@jitem nat)) : StronglySorted (fun x y => jprio y <= jprio x) (sort_desc l).
Proof. unfold sort_desc. induction l as [|a l IH]; simpl; [constructor | now apply insert_desc_sorted]. Qed.

Theorem d_nbest_results p : 0 <= p_pen p -> p_dedup p = false ->
  let res := dresult (d_final p) in
  (forall g, In g res -> p_complete p (jder g) /\ jprio g = p_score p (jder g)) /\
  (forall d, p_complete p d -> ~ In d (map (@jder nat) res) -> forall g, In g res -> p_score p d <= jprio g) /\
  StronglySorted (fun x y => jprio y <= jprio x) res /\
  (length res <= p_nbest p)%nat /\
  Permutation (map (@jder nat) res) (map (@jder nat) (dgoal (d_final p))) /\ NoDup (map (@jder nat) res).
Proof.
  intros Hpen Hd res.
  assert (Hm : p_mode_ok p = true) by (unfold p_mode_ok; now rewrite Hd).
  destruct (d_run_is_a_valid_run p Hm) as (js & Hr & _ & Hg & _ & _ & Hjr).
  pose proof (jreach_goal_count _ _ _ _ _ _ _ _ _ _ _ _ _ _ js Hr) as Hcnt.
  unfold p_reach in Hr. rewrite Hd in Hr.
  assert (Hin : forall x, In x res <-> In x (jgoal js)).
  { intros x. unfold res. rewrite <- Hjr. unfold jresult. apply in_sort_desc_rev. }
  assert (Hperm : forall l : list (@jitem nat), Permutation (sort_desc l) l).
  { unfold sort_desc. induction l as [|a l IH]; simpl; [reflexivity|]. rewrite <- IH at 2.
    generalize (fold_right (@insert_desc nat) [] l). intros s. induction s as [|b s IHs]; simpl; [reflexivity|].
    destruct (jprio b <=? jprio a); [reflexivity|]. rewrite IHs. apply perm_swap. }
  split; [|split; [|split; [|split; [|split]]]].
  - intros g Hgin. apply Hin in Hgin. split.
    + exact (goal_items_complete_N Nat.eqb nat_eqb_eq (p_n p) (p_tagf p) (p_depf p) (p_adm p) (p_besttag p) (p_bestdep p) (lookup2 (p_bin p))
               (lookup1 (p_un p)) (p_isroot p) (p_pen p) (p_max_step p) (p_nbest p) js g Hr Hgin).
    + exact (goal_score Nat.eqb (p_n p) (p_tagf p) (p_depf p) (p_adm p) (p_besttag p) (p_bestdep p) (lookup2 (p_bin p))
               (lookup1 (p_un p)) (p_isroot p) (p_pen p) (p_max_step p) (p_nbest p) false js g Hr Hgin).
  - intros d Hdc Hnin g Hgin. apply Hin in Hgin.
    apply (nbest_in_state Nat.eqb nat_eqb_eq (p_n p) (p_tagf p) (p_depf p) (p_adm p) (p_besttag p) (p_bestdep p) (lookup2 (p_bin p))
             (lookup1 (p_un p)) (p_isroot p) (p_pen p) (p_max_step p) (p_nbest p) Hpen (p_tag_le p) (p_dep_le p) js Hr d Hdc); [|exact Hgin].
    intros H. apply Hnin. apply in_map_iff in H as [x [Hx Hxin]]. apply in_map_iff. exists x. split; [exact Hx | now apply Hin].
  - apply sort_desc_sorted.
  - unfold res, dresult. rewrite (Permutation_length (Hperm _)). rewrite Hg, rev_length in Hcnt. exact Hcnt.
  - unfold res, dresult. apply Permutation_map. apply Hperm.
  - apply (Permutation_NoDup (l := map (@jder nat) (jgoal js))).
    + unfold res, dresult. rewrite Hg. apply Permutation_map. rewrite (Hperm _). symmetry. apply Permutation_rev.
    + exact (impl_goals_distinct Nat.eqb nat_eqb_eq (p_n p) (p_tagf p) (p_depf p) (p_adm p) (p_besttag p) (p_bestdep p) (lookup2 (p_bin p))
               (lookup1 (p_un p)) (p_isroot p) (p_pen p) (p_max_step p) (p_nbest p) (p_adm_nodup p) js Hr).
Qed.

(* ---------- C11: the concrete tie-breaking is category-blind ---------- *)
(* two problems for the same sentence and configuration whose grammars are the same up to a bi-unique renaming R of the
   category ids that fixes the admitted lexical ids (columns of the tag matrix: the tag heaps DO compare them) *)
Record renamed (R : nat -> nat -> Prop) (p p' : problem) : Prop := {
  rn_tag : p_tag p = p_tag p'; rn_dep : p_dep p = p_dep p'; rn_pen : p_pen p = p_pen p'; rn_dedup : p_dedup p = p_dedup p';
  rn_pruning : p_pruning p = p_pruning p'; rn_use_beta : p_use_beta p = p_use_beta p'; rn_theta : p_theta p = p_theta p';
  rn_max_step : p_max_step p = p_max_step p'; rn_nbest : p_nbest p = p_nbest p';
  rn_fun : forall a a' b', R a a' -> R a b' -> a' = b';
  rn_inj : forall a b a', R a a' -> R b a' -> a = b;
  rn_lex : forall i c, In c (d_adm p i) -> R c c;
  rn_bin : forall a a' b b', R a a' -> R b b' ->
    Forall2 (fun x y => R (fst x) (fst y) /\ snd x = snd y) (lookup2 (p_bin p) a b) (lookup2 (p_bin p') a' b');
  rn_un : forall a a', R a a' -> Forall2 R (lookup1 (p_un p) a) (lookup1 (p_un p') a');
  rn_root : forall a a', R a a' -> p_isroot p a = p_isroot p' a' }.

Lemma Forall2_diag {A} (P : A -> A -> Prop) l : (forall x, In x l -> P x x) -> Forall2 P l l.
Proof. induction l as [|x l IH]; intros H; constructor; [apply H; now left | apply IH; intros y Hy; apply H; now right]. Qed.

Theorem d_search_is_category_blind R p p' : renamed R p p' ->
  Forall2 (trel R) (dpops (d_final p)) (dpops (d_final p')) /\
  dstatus (d_final p) = dstatus (d_final p') /\
  Forall2 (irel R) (dresult (d_final p)) (dresult (d_final p')) /\
  map (@jprio nat) (dresult (d_final p)) = map (@jprio nat) (dresult (d_final p')).
Proof.
  intros H. destruct H as [Ht Hdp Hpen Hdd Hpr Hub Hth Hms Hnb Hf Hi Hlex Hb Hu Hroot].
  unfold d_final.
  assert (En : p_n p' = p_n p) by (unfold p_n; now rewrite Ht).
  rewrite En, <- Hpen, <- Hdd, <- Hms, <- Hnb.
  (* the primed side reads the same matrices: replace its score functions by those of p (definitional after rewriting the fields) *)
  assert (E1 : d_besttag p' = d_besttag p) by (unfold d_besttag; now rewrite Ht).
  assert (E2 : p_bestdep p' = p_bestdep p) by (unfold p_bestdep; now rewrite Hdp).
  assert (E3 : p_depf p' = p_depf p) by (unfold p_depf; now rewrite Hdp).
  assert (E4 : p_tagf p' = p_tagf p) by (unfold p_tagf; now rewrite Ht).
  assert (E5 : d_adm p' = d_adm p) by (unfold d_adm; now rewrite Ht, Hpr, Hub, Hth).
  rewrite E1, E2, E3, E5.
  apply (dsearch_is_category_blind_biunique Nat.eqb Nat.eqb (p_n p) (p_tagf p) (p_tagf p') (p_depf p) (d_adm p) (d_adm p)
           (d_besttag p) (p_bestdep p) (lookup2 (p_bin p)) (lookup2 (p_bin p')) (lookup1 (p_un p)) (lookup1 (p_un p'))
           (p_isroot p) (p_isroot p') (p_pen p) (p_dedup p) (p_max_step p) (p_nbest p) R nat_eqb_eq nat_eqb_eq Hf Hi Hb Hu Hroot).
  intros i. apply Forall2_diag. intros c Hc. split; [now apply (Hlex i) | now rewrite E4].
Qed.
