(* C19 - Whatever the parser can return can be rendered in every offered format.  Property theorems only.
   Regenerated from the source on every run (GenRender.v, GenTables.v): the --format choices per language
   (depccg/argparse.py), the label pairs the rule functions of grammar/en.py and grammar/ja.py can put on a node, the
   default leaf label (tree.py), and per format the token keys its printer needs and the tables it looks labels up in.
   The two ccg2lambda formats enter depccg.semantics (needs nltk): `unmodelled_formats`, stated, not claimed. *)
From Coq Require Import List NArith Bool.
Import ListNotations.
Require Import Cat Tree GenTables GenRender Render RenderProofs RenderTotal.
Open Scope N_scope.

(* every op_string the English grammar can put on a binary node is a key of prolog._op_mapping *)
Theorem C19_en_labels_closed : forall ops sym, In (ops, sym) en_binary_labels -> In ops (map fst prolog_op_mapping).
Proof. exact en_labels_closed. Qed.

(* every binary op_symbol and every unary label the Japanese grammar can emit is a key of prolog._ja_combinators *)
Theorem C19_ja_symbols_closed : forall ops sym,
  In (ops, sym) (ja_binary_labels ++ ja_unary_labels) -> In sym (map fst prolog_ja_combinators).
Proof. exact ja_symbols_closed. Qed.

(* ... and those are the lookups the Prolog printers make: op_string of binary nodes (en), op_symbol of every inner node (ja) *)
Theorem C19_prolog_lookups :
  looks_up l_en [112;114;111;108;111;103] (s_binary, s_op_string, map fst prolog_op_mapping)
  /\ looks_up l_ja [112;114;111;108;111;103] (s_nonleaf, s_op_symbol, map fst prolog_ja_combinators).
Proof. exact prolog_lookups. Qed.

(* every tree whose leaf tokens have at least 'word' and whose labels are of the language's grammar renders in every format
   offered for the language; the failure placeholder is such a tree *)
Theorem C19_render_total : forall lang f s, In f (offered_for lang) -> batch_ok lang (trees s) -> fst (render f s) = Ok.
Proof. exact render_total. Qed.

Theorem C19_placeholder_ok : forall lang, tree_ok lang placeholder.
Proof. exact placeholder_ok. Qed.

Theorem C19_failed_sentence_harmless : forall lang f b1 b2 log,
  In f (offered_for lang) -> batch_ok lang b1 -> batch_ok lang b2 ->
  fst (render f {| trees := b1 ++ [[placeholder]] ++ b2; oplog := log |}) = Ok.
Proof. exact failed_sentence_harmless. Qed.

(* a batch renders iff each of its sentences does: one sentence never blocks the others *)
Theorem C19_batch_total : forall f s,
  fst (render f s) = Ok <-> Forall (fun sent => fst (render f (single sent)) = Ok) (trees s).
Proof. exact batch_total. Qed.

(* every --format choice is dispatched by to_string, and is modelled here or is one of the nltk-bound formats *)
Theorem C19_cli_covered :
  (forall name, In name cli_formats_en -> covered_b l_en name = true) /\ (forall name, In name cli_formats_ja -> covered_b l_ja name = true).
Proof. exact cli_covered. Qed.
Theorem C19_all_offered_dispatched : undispatched_formats = [].
Proof. exact all_dispatched. Qed.

(* ---------- non-vacuity ---------- *)
Definition ex_tok (w l p : text) : token := [(k_word, w); (k_lemma, l); (k_pos, p)].
Definition lf (c : cat) (tok : token) : tree := Leaf c tok (fst leaf_label) (snd leaf_label).
Definition ex_en : tree :=
  Bin (Atom [83] (FUn [100;99;108])) [98;97] [60] true
      (Un (Fun (Atom [83] FNone) [cSL] (Fun (Atom [83] FNone) [cBS] (Atom [78;80] FNone))) [116;114] [60;117;110;62]
          (lf (Atom [78;80] FNone) (ex_tok [72;101] [104;101] [80;82;80])))
      (lf (Fun (Atom [83] (FUn [100;99;108])) [cBS] (Atom [78;80] FNone)) [(k_word, [114;117;110;115])]).
Definition ex_ja : tree :=
  Bin (Atom [83] FNone) [98;120] [60;66;50] false
      (Un (Atom [78;80] FNone) [65;68;86;50] [65;68;86;50] (lf (Atom [83] FNone) [(k_word, [29483])]))
      (Un (Atom [78;80] FNone) [79;84;72;69;82] [79;84;72;69;82] (lf (Atom [83] FNone) [(k_word, [12364])])).
Example ex_en_ok : batch_ok l_en [[ex_en; ex_en]; [placeholder]; [ex_en]].
Proof. repeat constructor. Qed.
Example ex_ja_ok : batch_ok l_ja [[ex_ja]; [placeholder]].
Proof. repeat constructor. Qed.
Example ex_offered : forallb (fun lang => negb (Nat.ltb (length (offered_for lang)) 1)) [l_en; l_ja] = true.
Proof. vm_compute. reflexivity. Qed.
Example ex_all_render : forallb (fun f => is_ok (fst (render f {| trees := [[ex_en; ex_en]; [placeholder]; [ex_en]]; oplog := [] |}))) (offered_for l_en)
                        && forallb (fun f => is_ok (fst (render f {| trees := [[ex_ja]; [placeholder]]; oplog := [] |}))) (offered_for l_ja) = true.
Proof. vm_compute. reflexivity. Qed.
(* the hypotheses matter: a label outside the grammar ('unk', what the readers put on unknown rules) stops prolog, a token
   without 'word' stops auto but not json *)
Definition ex_unk : tree := Bin (Atom [83] FNone) [117;110;107] [60;117;110;107;62] true (lf (Atom [78;80] FNone) [(k_word, [72;101])]) (lf (Atom [78;80] FNone) [(k_word, [72;101])]).
Definition ex_noword : tree := lf (Atom [78;80] FNone) [(k_lemma, [72;101])].
Example ex_hypotheses_matter :
  match find_spec l_en [112;114;111;108;111;103], find_spec l_en [97;117;116;111], find_spec l_en [106;115;111;110] with
  | Some fp, Some fa, Some fj =>
      fst (render fp (single [ex_unk])) = LabelErr [117;110;107] /\ fst (render fa (single [ex_unk])) = Ok
      /\ fst (render fa (single [ex_noword])) = KeyErr k_word /\ fst (render fj (single [ex_noword])) = Ok
      /\ fst (render fa {| trees := [[ex_en]; [ex_noword]; [ex_en]]; oplog := [] |}) = KeyErr k_word
  | _, _, _ => False
  end.
Proof. vm_compute. repeat split. Qed.
