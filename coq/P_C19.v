(* C19 - Whatever the parser can return can be rendered in every offered format.  Property theorems only.
   Regenerated from the source on every run (GenRender.v, GenTables.v): the --format choices per language
   (depccg/argparse.py), the label pairs the rule functions of grammar/en.py and grammar/ja.py can put on a node, the
   default leaf label (tree.py), and per format the token keys its printer needs and the tables it looks labels up in.
   The two ccg2lambda formats enter depccg.semantics (needs nltk): `unmodelled_formats`, stated, not claimed. *)
From Coq Require Import List NArith Bool.
Import ListNotations.
Require Import Cat Tree GenTables GenRender Render RenderProofs RenderTotal.
Open Scope N_scope.

(* every op_string the English grammar can put on a binary node is a key of prolog._op_mapping *)
Theorem C19_en_labels_closed : forall ops sym, In (ops, sym) en_binary_labels -> In ops (map fst prolog_op_mapping).
Proof. exact en_labels_closed. Qed.

(* every binary op_symbol and every unary label the Japanese grammar can emit is a key of prolog._ja_combinators *)
Theorem C19_ja_symbols_closed : forall ops sym,
  In (ops, sym) (ja_binary_labels ++ ja_unary_labels) -> In sym (map fst prolog_ja_combinators).
Proof. exact ja_symbols_closed. Qed.

(* ... and those are the lookups the Prolog printers make: op_string of binary nodes (en), op_symbol of every inner node (ja) *)
Theorem C19_prolog_lookups :
  looks_up l_en [112;114;111;108;111;103] (s_binary, s_op_string, map fst prolog_op_mapping)
  /\ looks_up l_ja [112;114;111;108;111;103] (s_nonleaf, s_op_symbol, map fst prolog_ja_combinators).
Proof. exact prolog_lookups. Qed.

(* every tree whose leaf tokens have at least 'word' and whose labels are of the language's grammar renders in every format
   offered for the language; the failure placeholder is such a tree *)
Theorem C19_render_total : forall lang f s, In f (offered_for lang) -> batch_ok lang (trees s) -> fst (render f s) = Ok.
Proof. exact render_total. Qed.

Theorem C19_placeholder_ok : forall lang, tree_ok lang placeholder.
Proof. exact placeholder_ok. Qed.

Theorem C19_failed_sentence_harmless : forall lang f b1 b2 log,
  In f (offered_for lang) -> batch_ok lang b1 -> batch_ok lang b2 ->
  fst (render f {| trees := b1 ++ [[placeholder]] ++ b2; oplog := log |}) = Ok.
Proof. exact failed_sentence_harmless. Qed.

(* a batch renders iff each of its sentences does: one sentence never blocks the others *)
Theorem C19_batch_total : forall f s,
  fst (render f s) = Ok <-> Forall (fun sent => fst (render f (single sent)) = Ok) (trees s).
Proof. exact batch_total. Qed.

(* every --format choice is dispatched by to_string, and is modelled here or is one of the nltk-bound formats *)
Theorem C19_cli_covered :
  (forall name, In name cli_formats_en -> covered_b l_en name = true) /\ (forall name, In name cli_formats_ja -> covered_b l_ja name = true).
Proof. exact cli_covered. Qed.
Theorem C19_all_offered_dispatched : undispatched_formats = [].
Proof. exact all_dispatched. Qed.

(* ---------- non-vacuity ---------- *)
Definition ex_tok (w l p : text) : token := [(k_word, w); (k_lemma, l); (k_pos, p)].
Definition lf (c : cat) (tok : token) : tree := Leaf c tok (fst leaf_label) (snd leaf_label).
(* a derivation with a binary and a unary node, labelled from the regenerated vocabulary of the language (first binary pair,
   last unary pair), one full and one bare token *)
Definition ex_tree (lang : text) : option tree :=
  match vocab_bin lang, rev (vocab_un lang) with
  | (bo, bs) :: _, (uo, us) :: _ =>
      Some (Bin (Atom [83] (FUn [100;99;108])) bo bs true
                (Un (Fun (Atom [83] FNone) [cSL] (Fun (Atom [83] FNone) [cBS] (Atom [78;80] FNone))) uo us
                    (lf (Atom [78;80] FNone) (ex_tok [72;101] [104;101] [80;82;80])))
                (lf (Fun (Atom [83] (FUn [100;99;108])) [cBS] (Atom [78;80] FNone)) [(k_word, [114;117;110;115])]))
  | _, _ => None
  end.
Definition ex_batch (lang : text) : list sentence :=
  match ex_tree lang with Some t => [[t; t]; [placeholder]; [t]] | None => [] end.
Example ex_domain_inhabited :
  forallb (fun lang => match ex_tree lang with Some t => tree_okb lang t | None => false end) [l_en; l_ja] = true.
Proof. vm_compute. reflexivity. Qed.
Example ex_batch_ok : batch_ok l_en (ex_batch l_en) /\ batch_ok l_ja (ex_batch l_ja).
Proof. split; repeat constructor. Qed.
Example ex_offered : forallb (fun lang => negb (Nat.ltb (length (offered_for lang)) 1)) [l_en; l_ja] = true.
Proof. vm_compute. reflexivity. Qed.
Example ex_all_render :
  forallb (fun lang => negb (Nat.ltb (length (ex_batch lang)) 3)
                       && forallb (fun f => is_ok (fst (render f {| trees := ex_batch lang; oplog := [] |}))) (offered_for lang)) [l_en; l_ja] = true.
Proof. vm_compute. reflexivity. Qed.
(* the hypotheses matter (fixed format descriptions, independent of the generated tables): a label outside the table stops a
   printer that looks labels up, a token without 'word' stops a printer that needs it but not one that does not, and only
   the sentence concerned is to blame *)
Definition prolog_like : spec := {| f_lang := l_en; f_name := []; f_strict := [k_word]; f_muts := []; f_labels := [(s_binary, s_op_string, [[102;97]; [98;97]])] |}.
Definition auto_like : spec := {| f_lang := l_en; f_name := []; f_strict := [k_word]; f_muts := []; f_labels := [] |}.
Definition json_like : spec := {| f_lang := l_en; f_name := []; f_strict := []; f_muts := []; f_labels := [] |}.
Definition ex_good : tree := Bin (Atom [83] FNone) [102;97] [62] true (lf (Atom [78;80] FNone) [(k_word, [72;101])]) (lf (Atom [78;80] FNone) [(k_word, [72;101])]).
Definition ex_unk : tree := Bin (Atom [83] FNone) [117;110;107] [60;117;110;107;62] true (lf (Atom [78;80] FNone) [(k_word, [72;101])]) (lf (Atom [78;80] FNone) [(k_word, [72;101])]).
Definition ex_noword : tree := lf (Atom [78;80] FNone) [(k_lemma, [72;101])].
Example ex_hypotheses_matter :
  fst (render prolog_like (single [ex_unk])) = LabelErr [117;110;107] /\ fst (render auto_like (single [ex_unk])) = Ok
  /\ fst (render prolog_like (single [ex_good])) = Ok
  /\ fst (render auto_like (single [ex_noword])) = KeyErr k_word /\ fst (render json_like (single [ex_noword])) = Ok
  /\ fst (render auto_like {| trees := [[ex_good]; [ex_noword]; [ex_good]]; oplog := [] |}) = KeyErr k_word.
Proof. vm_compute. repeat split. Qed.
