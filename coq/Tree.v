(* Derivation trees as depccg.tree.Tree builds them (make_terminal / make_unary / make_binary), with tokens.
   MODEL ONLY. *)
From Coq Require Import List NArith Bool.
Import ListNotations.
Require Import Cat.
Open Scope N_scope.

(* a Token is a dict: ordered key -> value association (Python dicts keep insertion order) *)
Definition token := list (text * text).
Fixpoint tok_get (k : text) (t : token) : option text :=
  match t with [] => None | (k', v) :: r => if text_eqb k k' then Some v else tok_get k r end.
Definition tok_get_default (k : text) (d : text) (t : token) : text :=
  match tok_get k t with Some v => v | None => d end.

Inductive tree :=
| Leaf (c : cat) (tok : token) (ops sym : text)
| Un (c : cat) (ops sym : text) (t : tree)
| Bin (c : cat) (ops sym : text) (hl : bool) (l r : tree).

Definition tcat (t : tree) : cat := match t with Leaf c _ _ _ => c | Un c _ _ _ => c | Bin c _ _ _ _ _ => c end.
Definition tops (t : tree) : text := match t with Leaf _ _ o _ => o | Un _ o _ _ => o | Bin _ o _ _ _ _ => o end.
Definition tsym (t : tree) : text := match t with Leaf _ _ _ s => s | Un _ _ s _ => s | Bin _ _ s _ _ _ => s end.
Fixpoint leaves (t : tree) : list (cat * token) :=
  match t with Leaf c tok _ _ => [(c, tok)] | Un _ _ _ t => leaves t | Bin _ _ _ _ l r => leaves l ++ leaves r end.
Definition tokens (t : tree) : list token := map snd (leaves t).
Fixpoint nleaves (t : tree) : nat :=
  match t with Leaf _ _ _ _ => 1%nat | Un _ _ _ t => nleaves t | Bin _ _ _ _ l r => (nleaves l + nleaves r)%nat end.

(* key names *)
Definition k_word : text := [119;111;114;100].
Definition k_lemma : text := [108;101;109;109;97].
Definition k_pos : text := [112;111;115].
Definition k_entity : text := [101;110;116;105;116;121].
Definition k_chunk : text := [99;104;117;110;107].
Definition s_lex : text := [108;101;120].               (* 'lex' *)
Definition s_lexsym : text := [60;108;101;120;62].      (* '<lex>' *)
Definition s_unsym : text := [60;117;110;62].           (* '<un>' *)
Definition s_XX : text := [88;88].

(* Tree.word of a leaf: token['word']  (KeyError if absent -> None) *)
Definition leaf_word (tok : token) : option text := tok_get k_word tok.

(* head word index (0-based, left to right) as the head flags determine it *)
Fixpoint head_index (t : tree) : nat :=
  match t with
  | Leaf _ _ _ _ => 0%nat
  | Un _ _ _ t => head_index t
  | Bin _ _ _ hl l r => if hl then head_index l else (nleaves l + head_index r)%nat
  end.
