(* C20 - PTB and Japanese-bank text written by depccg reads back to the same tree.  Property theorems only.
   The tables (punctuations, cat_split class, normalize table, the reader's `combinators`, the rule symbols of grammar/ja.py)
   are regenerated from the source on every run (GenTables.v, GenC20.v).

   Reading the statements:  None = the Python code raises, or returns a value that is not a well-typed tree.
   read_ptb  = _parse_ptb(line)            (file iteration / strip / "ID" lines of read_ptb are outside the model)
   read_ja   = _JaCCGLineReader(line).parse() -> (tree, tokens)
   guess     = guess_combinator_by_triplet on (node category, left category, right category): PTB text carries no rule labels. *)
From Coq Require Import List NArith Bool.
Import ListNotations.
Require Import Cat CatFacts CatRoundTrip Tree GenTables GenC20 P_C05 Ptb PtbEscape PtbProofs PtbReject JaBank JaBankFacts JaBankProofs.
Open Scope N_scope.

(* the models instantiated with Category.parse of C05 and the generated tables *)
Definition read_ptb (guess : cat -> cat -> cat -> text * text * bool) (line : text) : option tree :=
  Ptb.read_line P_C05.parse guess line.
Definition print_ja (t : tree) : option text := JaBank.print_ja normalize_table t.
Definition read_ja (line : text) : option (tree * list token) :=
  JaBank.read_ja ja_reader_combinators P_C05.parse line.
Definition canon_ja (t : tree) : tree := JaBank.canon_ja normalize_table t.
Definition tokens_ja (t : tree) : list token := JaBank.tokens_ja normalize_table t.

(* the domains.
   wf_ptb: every category is a category value (C05 wf); every leaf has a word that is non-empty, has no blank, and is
           representable under the -LRB-/-RRB- convention (esc_safe: no x LRB y / x RRB y with x, y among '-', '(', ')').
   wf_ja : categories wf, their text has no '{' (leaf: also no '_', and is not a rule symbol); inner-node symbols are in the
           reader's `combinators`; the normalize'd word, the joined pos field and the joined inflection field have no '/' and
           no '}', and the inflection field is not empty. *)
Definition wf_ptb : tree -> Prop := PtbProofs.wf_ptb puncts.
Definition wf_ja : tree -> Prop := JaBankProofs.wf_ja puncts normalize_table ja_reader_combinators.
(* boolean versions (wf_ptbb t = true -> wf_ptb t, wf_jab t = true -> wf_ja t); the harness evaluates them on every generated tree *)
Definition wf_ptbb : tree -> bool := PtbProofs.wf_ptbb puncts.
Definition wf_jab : tree -> bool := JaBankProofs.wf_jab puncts normalize_table ja_reader_combinators.
Definition JaText : tree -> text -> Prop := JaBankProofs.JaText normalize_table.
Definition same_ja : tree -> tree -> Prop := JaBankProofs.same_ja normalize_table.

Lemma comb_ok : Forall (fun s => has cSP s = false /\ has cLC s = false /\ has cUS s = false) ja_reader_combinators.
Proof.
  assert (H : forallb (fun s => negb (has cSP s) && negb (has cLC s) && negb (has cUS s)) ja_reader_combinators = true) by (vm_compute; reflexivity).
  apply Forall_forall. intros s Hs. rewrite forallb_forall in H. specialize (H s Hs).
  rewrite !andb_true_iff, !negb_true_iff in H. tauto.
Qed.

Theorem C20_wf_ptb_decidable : forall t, wf_ptbb t = true -> wf_ptb t.
Proof. exact (wf_ptbb_ok puncts). Qed.
Theorem C20_wf_ja_decidable : forall t, wf_jab t = true -> wf_ja t.
Proof. exact (wf_jab_ok puncts normalize_table ja_reader_combinators). Qed.

(* ================================= PTB ================================= *)

(* (1) a printed line reads back: same categories, shape and words, unary and binary nodes, bracket tokens included *)
Theorem C20_read_ptb_print : forall guess t, wf_ptb t ->
  exists line, print_ptb t = Some line /\ read_ptb guess line = Some (canon_ptb guess t).
Proof. intros guess t. exact (read_print_ptb puncts P_C05.parse C05_parse_show guess t). Qed.

Theorem C20_ptb_same_tree : forall guess t, wf_ptb t -> same_csw t (canon_ptb guess t).
Proof. intros guess t. exact (canon_same puncts guess t). Qed.

(* (2) every proper prefix - character granularity - of a printed line is rejected *)
Theorem C20_ptb_incomplete_rejected : forall guess t line, wf_ptb t -> print_ptb t = Some line ->
  forall p q, line = p ++ q -> q <> [] -> read_ptb guess p = None.
Proof. intros guess t line. exact (print_prefix_rejected puncts P_C05.parse guess t line). Qed.

(* (3) whatever is accepted is balanced: as many opening items '(cat' as closing brackets on word items; an unbalanced line gives None *)
Theorem C20_ptb_unbalanced_rejected : forall guess line, opens (line_items line) <> closers (line_items line) -> read_ptb guess line = None.
Proof.
  intros guess line H. destruct (read_ptb guess line) eqn:E; [|reflexivity].
  apply (read_line_balanced P_C05.parse guess) in E. congruence.
Qed.

(* (4) the escape of brackets in words is undone by the reader on esc_safe words ... *)
Theorem C20_ptb_word_escape : forall w, esc_safe w = true -> unesc_word (esc_word w) = w.
Proof. exact unesc_esc. Qed.

(* ... but not on all words that avoid the two spellings: "-LRB(" (no "-LRB-", no "-RRB-", no blank, no backslash) is printed
   "-LRB-LRB-" and read back as "(LRB-".  The statement of (1) with "does not contain -LRB-/-RRB-" instead of esc_safe is false. *)
Definition collision_leaf : tree := Leaf (Atom [78] FNone) [([119;111;114;100],[45;76;82;66;40])] [108;101;120] [60;108;101;120;62].
Theorem C20_ptb_escape_collision_refuted : forall guess,
  exists w line, leaf_word [(k_word, w)] = Some w /\ has_sub t_LRB w = false /\ has_sub t_RRB w = false /\ has cSP w = false /\ has cBS w = false /\ w <> [] /\
    print_ptb collision_leaf = Some line /\ tokens collision_leaf = [[(k_word, w)]] /\
    read_ptb guess line <> Some (canon_ptb guess collision_leaf).
Proof.
  intros guess. exists [45;76;82;66;40]. eexists. repeat split; try reflexivity; try discriminate.
Qed.

(* ================================= Japanese bank ================================= *)

(* (5) a printed line reads back: categories, shape, normalize'd words, rule symbols; tokens as the reader builds them *)
Theorem C20_read_ja_print : forall t, wf_ja t ->
  exists line, print_ja t = Some line /\ read_ja line = Some (canon_ja t, tokens_ja t).
Proof. exact (read_print_ja puncts normalize_table ja_reader_combinators P_C05.parse C05_parse_show comb_ok). Qed.

(* (6) the same for every bank text of t: {..} blocks inserted anywhere in the category texts, '_suffix' after a leaf
   category, anything after the closing brace of the root *)
Theorem C20_read_ja_annotated : forall t s post, JaText t s -> wf_ja t -> read_ja (s ++ post) = Some (canon_ja t, tokens_ja t).
Proof. exact (read_ja_text puncts normalize_table ja_reader_combinators P_C05.parse C05_parse_show comb_ok). Qed.

Theorem C20_print_ja_is_text : forall t, wf_ja t -> exists s, print_ja t = Some s /\ JaText t s.
Proof. exact (print_ja_text puncts normalize_table ja_reader_combinators). Qed.

Theorem C20_ja_same_tree : forall t, wf_ja t -> same_ja t (canon_ja t).
Proof. exact (canon_same_ja puncts normalize_table ja_reader_combinators). Qed.

(* (7) which rule symbols of grammar/ja.py the reader knows: all binary ones, and every unary one except OTHER *)
Definition t_OTHER : text := [79;84;72;69;82].
Theorem C20_ja_reader_knows_symbols : forall s, In s (ja_grammar_binary_symbols ++ ja_grammar_unary_symbols) -> s <> t_OTHER ->
  text_in s ja_reader_combinators = true.
Proof.
  assert (H : forallb (fun s => text_eqb s t_OTHER || text_in s ja_reader_combinators) (ja_grammar_binary_symbols ++ ja_grammar_unary_symbols) = true)
    by (vm_compute; reflexivity).
  intros s Hs Hne. rewrite forallb_forall in H. specialize (H s Hs). apply orb_true_iff in H as [H|H]; [|exact H].
  apply text_eqb_eq in H. congruence.
Qed.

(* a unary node labelled OTHER (emitted by _unary_rule_symbol for a rule whose argument is neither mod=adn nor mod=adv) is
   printed but read back as a LEAF of category OTHER whose word is the rest of the line up to the first '}' *)
Definition ja_cat : cat := Atom [78;80] (FTer [99;97;115;101] [110;99] [109;111;100] [110;109] [102;105;110] [102]).   (* NP[case=nc,mod=nm,fin=f] *)
Definition other_tree : tree := Un ja_cat t_OTHER t_OTHER (Leaf ja_cat [(k_word, [97])] s_lex s_lexsym).
Theorem C20_ja_symbol_OTHER_refuted :
  In t_OTHER ja_grammar_unary_symbols /\
  exists line r, print_ja other_tree = Some line /\ read_ja line = Some r /\ fst r <> canon_ja other_tree /\
                 tcat (fst r) = Atom t_OTHER FNone /\ nleaves (fst r) = 1%nat /\ match fst r with Leaf _ _ _ _ => True | _ => False end.
Proof. split; [vm_compute; tauto|]. eexists. eexists. split; [reflexivity|]. vm_compute. repeat split; try discriminate. Qed.

(* the word "-RCB-" contains none of '/', '{', '}', blank, backslash, but normalize prints it as '}' which ends the leaf:
   the printed line is rejected.  The statement of (5) with the domain "word without / { }" instead of "normalize(word) without / }" is false. *)
Definition rcb_leaf : tree := Leaf ja_cat [(k_word, [45;82;67;66;45])] s_lex s_lexsym.
Theorem C20_ja_word_RCB_refuted :
  exists w line, tokens rcb_leaf = [[(k_word, w)]] /\ has cSL w = false /\ has cLC w = false /\ has cRC w = false /\ has cSP w = false /\ has cBS w = false /\
    print_ja rcb_leaf = Some line /\ read_ja line = None.
Proof. eexists. eexists. repeat split; vm_compute; reflexivity. Qed.

(* ================================= non-vacuity ================================= *)
(* (ROOT (S[dcl] (NP (N f-LRB-x-RRB-)) (S[dcl]\NP ((S[dcl]\NP)/NP -LRB-) (NP -RRB--RRB-)))) : unary + binary nodes, bracket tokens *)
Definition ex_ptb : tree :=
  (Bin (Atom [83] (FUn [100;99;108])) [98;97] [60] false (Un (Atom [78;80] FNone) [108;101;120] [60;117;110;62] (Leaf (Atom [78] FNone) [([119;111;114;100],[102;40;120;41])] [108;101;120] [60;108;101;120;62])) (Bin (Fun (Atom [83] (FUn [100;99;108])) [92] (Atom [78;80] FNone)) [102;97] [62] true (Leaf (Fun (Fun (Atom [83] (FUn [100;99;108])) [92] (Atom [78;80] FNone)) [47] (Atom [78;80] FNone)) [([119;111;114;100],[40]);([108;101;109;109;97],[40]);([112;111;115],[45;76;82;66;45])] [108;101;120] [60;108;101;120;62]) (Leaf (Atom [78;80] FNone) [([119;111;114;100],[41;41])] [108;101;120] [60;108;101;120;62]))).
Definition ex_ptb_line : text :=
  [40;82;79;79;84;32;40;83;91;100;99;108;93;32;40;78;80;32;40;78;32;102;45;76;82;66;45;120;45;82;82;66;45;41;41;32;40;83;91;100;99;108;93;92;78;80;32;40;40;83;91;100;99;108;93;92;78;80;41;47;78;80;32;45;76;82;66;45;41;32;40;78;80;32;45;82;82;66;45;45;82;82;66;45;41;41;41;41].
Definition ex_guess (c l r : cat) : text * text * bool := (t_unk, t_unksym, true).
Example ex_ptb_wf : wf_ptb ex_ptb.
Proof. apply wf_ptbb_ok. vm_compute. reflexivity. Qed.
Example ex_ptb_print : print_ptb ex_ptb = Some ex_ptb_line.
Proof. vm_compute. reflexivity. Qed.
Example ex_ptb_read : read_ptb ex_guess ex_ptb_line = Some (canon_ptb ex_guess ex_ptb).
Proof. vm_compute. reflexivity. Qed.
Example ex_ptb_truncated : forallb (fun k => match read_ptb ex_guess (firstn k ex_ptb_line) with None => true | Some _ => false end) (seq 0 (length ex_ptb_line)) = true.
Proof. vm_compute. reflexivity. Qed.
Example ex_ptb_unbalanced : opens (line_items (ex_ptb_line ++ [cRP])) <> closers (line_items (ex_ptb_line ++ [cRP])).
Proof. vm_compute. discriminate. Qed.

(* {ADNext NP[..]/NP[..] {< S[..] {NP[..] 猫/猫/名詞-一般/_} {S[..]\NP[..] (/(/動詞-自立/基本形-五段・ラ行}}} : the second word is -LRB-, normalize'd to ( *)
Definition ex_ja : tree :=
  (Un (Fun (Atom [78;80] (FTer [99;97;115;101] [110;99] [109;111;100] [110;109] [102;105;110] [102])) [47] (Atom [78;80] (FTer [99;97;115;101] [110;99] [109;111;100] [110;109] [102;105;110] [102]))) [65;68;78;101;120;116] [65;68;78;101;120;116] (Bin (Atom [83] (FTer [109;111;100] [110;109] [102;111;114;109] [98;97;115;101] [102;105;110] [116])) [98;97] [60] true (Leaf (Atom [78;80] (FTer [99;97;115;101] [110;99] [109;111;100] [110;109] [102;105;110] [102])) [([119;111;114;100],[29483]);([112;111;115],[21517;35422]);([112;111;115;49],[19968;33324]);([112;111;115;50],[42]);([112;111;115;51],[42]);([105;110;102;108;101;99;116;105;111;110;70;111;114;109],[42]);([105;110;102;108;101;99;116;105;111;110;84;121;112;101],[42]);([98;97;115;101],[29483])] [108;101;120] [60;108;101;120;62]) (Leaf (Fun (Atom [83] (FTer [109;111;100] [110;109] [102;111;114;109] [98;97;115;101] [102;105;110] [116])) [92] (Atom [78;80] (FTer [99;97;115;101] [110;99] [109;111;100] [110;109] [102;105;110] [102]))) [([119;111;114;100],[45;76;82;66;45]);([112;111;115],[21205;35422]);([112;111;115;49],[33258;31435]);([105;110;102;108;101;99;116;105;111;110;70;111;114;109],[22522;26412;24418]);([105;110;102;108;101;99;116;105;111;110;84;121;112;101],[20116;27573;12539;12521;34892])] [108;101;120] [60;108;101;120;62]))).
Definition ex_ja_line : text :=
  [123;65;68;78;101;120;116;32;78;80;91;99;97;115;101;61;110;99;44;109;111;100;61;110;109;44;102;105;110;61;102;93;47;78;80;91;99;97;115;101;61;110;99;44;109;111;100;61;110;109;44;102;105;110;61;102;93;32;123;60;32;83;91;109;111;100;61;110;109;44;102;111;114;109;61;98;97;115;101;44;102;105;110;61;116;93;32;123;78;80;91;99;97;115;101;61;110;99;44;109;111;100;61;110;109;44;102;105;110;61;102;93;32;29483;47;29483;47;21517;35422;45;19968;33324;47;95;125;32;123;83;91;109;111;100;61;110;109;44;102;111;114;109;61;98;97;115;101;44;102;105;110;61;116;93;92;78;80;91;99;97;115;101;61;110;99;44;109;111;100;61;110;109;44;102;105;110;61;102;93;32;40;47;40;47;21205;35422;45;33258;31435;47;22522;26412;24418;45;20116;27573;12539;12521;34892;125;125;125].
(* the same line with the bank's annotations: NP[..]{I1}/NP[..]{I1}, S[..]{I2}, NP[..]{I3}_none, S[..]{I2}\NP[..]{I3}_I2(I3) *)
Definition ex_ja_annotated : text :=
  [123;65;68;78;101;120;116;32;78;80;91;99;97;115;101;61;110;99;44;109;111;100;61;110;109;44;102;105;110;61;102;93;123;73;49;125;47;78;80;91;99;97;115;101;61;110;99;44;109;111;100;61;110;109;44;102;105;110;61;102;93;123;73;49;125;32;123;60;32;83;91;109;111;100;61;110;109;44;102;111;114;109;61;98;97;115;101;44;102;105;110;61;116;93;123;73;50;125;32;123;78;80;91;99;97;115;101;61;110;99;44;109;111;100;61;110;109;44;102;105;110;61;102;93;123;73;51;125;95;110;111;110;101;32;29483;47;29483;47;21517;35422;45;19968;33324;47;95;125;32;123;83;91;109;111;100;61;110;109;44;102;111;114;109;61;98;97;115;101;44;102;105;110;61;116;93;123;73;50;125;92;78;80;91;99;97;115;101;61;110;99;44;109;111;100;61;110;109;44;102;105;110;61;102;93;123;73;51;125;95;73;50;40;73;51;41;32;40;47;40;47;21205;35422;45;33258;31435;47;22522;26412;24418;45;20116;27573;12539;12521;34892;125;125;125].
Example ex_ja_wf : wf_ja ex_ja.
Proof. apply wf_jab_ok. vm_compute. reflexivity. Qed.
Example ex_ja_print : print_ja ex_ja = Some ex_ja_line.
Proof. vm_compute. reflexivity. Qed.
Example ex_ja_read : read_ja ex_ja_line = Some (canon_ja ex_ja, tokens_ja ex_ja).
Proof. vm_compute. reflexivity. Qed.
Example ex_ja_read_annotated : read_ja ex_ja_annotated = Some (canon_ja ex_ja, tokens_ja ex_ja).
Proof. vm_compute. reflexivity. Qed.

(* the annotated line is a bank text of ex_ja in the sense of (6) *)
Ltac annot_tac :=
  vm_compute;
  repeat first [ apply AN_nil | apply AN_char
               | apply (AN_block [73;49]); [repeat split; (reflexivity || discriminate)|]
               | apply (AN_block [73;50]); [repeat split; (reflexivity || discriminate)|]
               | apply (AN_block [73;51]); [repeat split; (reflexivity || discriminate)|] ].
Definition ann_root : text := [78;80;91;99;97;115;101;61;110;99;44;109;111;100;61;110;109;44;102;105;110;61;102;93;123;73;49;125;47;78;80;91;99;97;115;101;61;110;99;44;109;111;100;61;110;109;44;102;105;110;61;102;93;123;73;49;125].
Definition ann_s : text := [83;91;109;111;100;61;110;109;44;102;111;114;109;61;98;97;115;101;44;102;105;110;61;116;93;123;73;50;125].
Definition ann_np : text := [78;80;91;99;97;115;101;61;110;99;44;109;111;100;61;110;109;44;102;105;110;61;102;93;123;73;51;125].
Definition ann_vp : text := [83;91;109;111;100;61;110;109;44;102;111;114;109;61;98;97;115;101;44;102;105;110;61;116;93;123;73;50;125;92;78;80;91;99;97;115;101;61;110;99;44;109;111;100;61;110;109;44;102;105;110;61;102;93;123;73;51;125].
Definition sfx_none : text := [95;110;111;110;101].
Definition sfx_dep : text := [95;73;50;40;73;51;41].
Example ex_ja_text : JaText ex_ja ex_ja_annotated.
Proof.
  eassert (HU : JaText ex_ja _).
  { unfold ex_ja, JaText.
    eapply (JT_un normalize_table _ _ _ _ ann_root); [annot_tac|].
    eapply (JT_bin normalize_table _ _ _ _ _ _ ann_s); [annot_tac | |].
    - eapply (JT_leaf normalize_table _ _ _ _ [29483] ann_np sfx_none); [reflexivity | annot_tac | right; eexists; split; reflexivity].
    - eapply (JT_leaf normalize_table _ _ _ _ [45;76;82;66;45] ann_vp sfx_dep); [reflexivity | annot_tac | right; eexists; split; reflexivity]. }
  exact HU.
Qed.
