(* Lemmas about the rendering model (Render.v) that do not depend on the generated tables. *)
From Coq Require Import List NArith Bool.
Import ListNotations.
Require Import Cat CatFacts Tree GenRender Render.
Open Scope N_scope.

(* ---------- an empty mutation list is the identity on the store ---------- *)
Lemma map_tokens_fix g : (forall x, g x = x) -> forall t, map_tokens g t = t.
Proof.
  intros Hg t. induction t as [c tok o s | c o s t IH | c o s h l IHl r IHr]; cbn [map_tokens].
  - now rewrite Hg.
  - now rewrite IH.
  - now rewrite IHl, IHr.
Qed.

Lemma map_fix {A : Type} (g : A -> A) : (forall x, g x = x) -> forall l, map g l = l.
Proof. intros Hg l. induction l as [|x l IH]; cbn [map]; [reflexivity | now rewrite Hg, IH]. Qed.

Lemma mutate_nil s : mutate [] s = s.
Proof.
  destruct s as [b log]. unfold mutate. cbn [trees oplog filter]. rewrite app_nil_r. f_equal.
  apply map_fix. intros sent. apply map_fix. intros t. apply map_tokens_fix. intros tok. reflexivity.
Qed.

Lemma no_muts_nil f : no_muts_b f = true -> f_muts f = [].
Proof. unfold no_muts_b. destruct (f_muts f) as [|m ms]; [reflexivity | discriminate]. Qed.

Lemma render_with_frame (O : Type) (enc : spec -> store -> O) f s : no_muts_b f = true -> snd (render_with O enc f s) = s.
Proof. intros H. unfold render_with. cbn [snd]. rewrite (no_muts_nil f H). apply mutate_nil. Qed.

Lemma run_seq_with_pure (O : Type) (enc : spec -> store -> O) fs s :
  Forall (fun f => no_muts_b f = true) fs -> run_seq_with O enc fs s = (map (fun f => enc f s) fs, s).
Proof.
  intros H. induction H as [|f fs Hf Hfs IH]; cbn [run_seq_with map]; [reflexivity|].
  unfold render_with. rewrite (no_muts_nil f Hf), mutate_nil, IH. reflexivity.
Qed.

(* ---------- outcomes ---------- *)
Lemma seq_ok a b : seq a b = Ok <-> a = Ok /\ b = Ok.
Proof.
  destruct a as [|k|l]; cbn [seq]; split.
  - intros H. now split.
  - intros [_ H]. exact H.
  - discriminate.
  - intros [H _]. discriminate.
  - discriminate.
  - intros [H _]. discriminate.
Qed.
Lemma seq_ok_r a : seq a Ok = a.
Proof. now destruct a. Qed.
Lemma is_ok_eq o : is_ok o = true -> o = Ok.
Proof. destruct o; [reflexivity | discriminate | discriminate]. Qed.

Lemma first_err_ok_iff {A : Type} (chk : A -> outcome) (l : list A) : first_err chk l = Ok <-> Forall (fun x => chk x = Ok) l.
Proof.
  induction l as [|x l IH]; cbn [first_err].
  - split; [constructor | reflexivity].
  - rewrite seq_ok, IH. split.
    + intros [H1 H2]. now constructor.
    + intros H. inversion H; subst. now split.
Qed.

Lemma check_leaf_ok strict tok :
  forallb (fun k => text_eqb k k_word) strict = true -> has_key k_word tok = true -> check_leaf strict tok = Ok.
Proof.
  intros Hs Hw. unfold check_leaf. destruct (find (fun k => negb (has_key k tok)) strict) as [k|] eqn:E; [|reflexivity].
  apply find_some in E as [Hin Hk]. rewrite forallb_forall in Hs. specialize (Hs k Hin). apply text_eqb_eq in Hs. subst k.
  rewrite Hw in Hk. discriminate.
Qed.

Lemma pair_in_In ops sym l : pair_in ops sym l = true -> In (ops, sym) l.
Proof.
  unfold pair_in. rewrite existsb_exists. intros [[o s] [Hin H]]. cbn [fst snd] in H.
  apply andb_true_iff in H as [H1 H2]. apply text_eqb_eq in H1. apply text_eqb_eq in H2. now subst.
Qed.

Lemma check_tree_total f t :
  strict_word_only_b f = true -> labels_closed_b f = true -> tree_okb (f_lang f) t = true -> check_tree f t = Ok.
Proof.
  intros Hs Hl. unfold labels_closed_b in Hl. apply andb_true_iff in Hl as [Hl Hleaf]. apply andb_true_iff in Hl as [Hbin Hun].
  rewrite forallb_forall in Hbin. rewrite forallb_forall in Hun.
  induction t as [c tok o s | c o s t IH | c o s h l IHl r IHr]; cbn [tree_okb check_tree]; intros Hok.
  - apply andb_true_iff in Hok as [Hw Hlab]. apply andb_true_iff in Hlab as [Ho Hsy].
    apply text_eqb_eq in Ho. apply text_eqb_eq in Hsy. subst o s.
    rewrite (is_ok_eq _ Hleaf). cbn [seq]. now apply check_leaf_ok.
  - apply andb_true_iff in Hok as [Hp Ht]. apply pair_in_In in Hp.
    pose proof (is_ok_eq _ (Hun (o, s) Hp)) as Hq. cbn [fst snd] in Hq. rewrite Hq. cbn [seq]. now apply IH.
  - apply andb_true_iff in Hok as [Hp Ht]. apply andb_true_iff in Ht as [Htl Htr]. apply pair_in_In in Hp.
    pose proof (is_ok_eq _ (Hbin (o, s) Hp)) as Hq. cbn [fst snd] in Hq. rewrite Hq. cbn [seq]. rewrite (IHl Htl), (IHr Htr). reflexivity.
Qed.

(* ---------- batches ---------- *)
Lemma offered_for_In lang f : In f (offered_for lang) -> In f offered_formats /\ f_lang f = lang.
Proof. unfold offered_for. rewrite filter_In. intros [H1 H2]. apply text_eqb_eq in H2. now split. Qed.

Lemma placeholder_ok lang : tree_ok lang placeholder.
Proof. unfold tree_ok, placeholder. cbn [tree_okb]. rewrite !text_eqb_refl. reflexivity. Qed.

Lemma batch_ok_app lang b1 b2 : batch_ok lang b1 -> batch_ok lang b2 -> batch_ok lang (b1 ++ b2).
Proof. unfold batch_ok. intros H1 H2. apply Forall_app. now split. Qed.

Lemma batch_total f s : fst (render f s) = Ok <-> Forall (fun sent => fst (render f (single sent)) = Ok) (trees s).
Proof.
  unfold render, render_with, single. cbn [fst trees]. unfold check_batch at 1. rewrite first_err_ok_iff.
  split; intros H; induction H as [|sent b Hs Hb IH]; constructor; try exact IH.
  - unfold check_batch. cbn [first_err]. now rewrite seq_ok_r.
  - unfold check_batch in Hs. cbn [first_err] in Hs. now rewrite seq_ok_r in Hs.
Qed.
