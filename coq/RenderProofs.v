(* Lemmas about the rendering model (Render.v) and the computed facts about the generated tables (GenRender.v, GenTables.v). *)
From Coq Require Import List NArith Bool.
Import ListNotations.
Require Import Cat CatFacts Tree GenTables GenRender Render.
Open Scope N_scope.

(* ---------- an empty mutation list is the identity on the store ---------- *)
Lemma map_tokens_fix g : (forall x, g x = x) -> forall t, map_tokens g t = t.
Proof.
  intros Hg t. induction t as [c tok o s | c o s t IH | c o s h l IHl r IHr]; cbn [map_tokens].
  - now rewrite Hg.
  - now rewrite IH.
  - now rewrite IHl, IHr.
Qed.

Lemma map_fix {A : Type} (g : A -> A) : (forall x, g x = x) -> forall l, map g l = l.
Proof. intros Hg l. induction l as [|x l IH]; cbn [map]; [reflexivity | now rewrite Hg, IH]. Qed.

Lemma mutate_nil s : mutate [] s = s.
Proof.
  destruct s as [b log]. unfold mutate. cbn [trees oplog filter]. rewrite app_nil_r. f_equal.
  apply map_fix. intros sent. apply map_fix. intros t. apply map_tokens_fix. intros tok. reflexivity.
Qed.

Lemma no_muts_nil f : no_muts_b f = true -> f_muts f = [].
Proof. unfold no_muts_b. destruct (f_muts f) as [|m ms]; [reflexivity | discriminate]. Qed.

Lemma render_with_frame (O : Type) (enc : spec -> store -> O) f s : no_muts_b f = true -> snd (render_with O enc f s) = s.
Proof. intros H. unfold render_with. cbn [snd]. rewrite (no_muts_nil f H). apply mutate_nil. Qed.

Lemma run_seq_with_pure (O : Type) (enc : spec -> store -> O) fs s :
  Forall (fun f => no_muts_b f = true) fs -> run_seq_with O enc fs s = (map (fun f => enc f s) fs, s).
Proof.
  intros H. induction H as [|f fs Hf Hfs IH]; cbn [run_seq_with map]; [reflexivity|].
  unfold render_with. rewrite (no_muts_nil f Hf), mutate_nil, IH. reflexivity.
Qed.

(* ---------- the generated mutation lists are empty (recomputed against the current source on every build) ---------- *)
Lemma all_offered_no_muts : forallb no_muts_b offered_formats = true.
Proof. vm_compute. reflexivity. Qed.

Lemma offered_no_muts f : In f offered_formats -> no_muts_b f = true.
Proof. intros H. exact (proj1 (forallb_forall no_muts_b offered_formats) all_offered_no_muts f H). Qed.

Lemma Forall_offered_no_muts fs : Forall (fun f => In f offered_formats) fs -> Forall (fun f => no_muts_b f = true) fs.
Proof. intros H. induction H as [|f fs Hf Hfs IH]; constructor; [now apply offered_no_muts | exact IH]. Qed.

Lemma render_frame f s : In f offered_formats -> snd (render f s) = s.
Proof. intros H. unfold render. apply render_with_frame. now apply offered_no_muts. Qed.

Lemma render_seq_pure_any (O : Type) (enc : spec -> store -> O) fs s :
  Forall (fun f => In f offered_formats) fs -> run_seq_with O enc fs s = (map (fun f => enc f s) fs, s).
Proof. intros H. apply run_seq_with_pure. now apply Forall_offered_no_muts. Qed.

Lemma render_seq_pure fs s :
  Forall (fun f => In f offered_formats) fs -> run_seq fs s = (map (fun f => fst (render f s)) fs, s).
Proof. intros H. unfold run_seq. rewrite (render_seq_pure_any _ _ fs s H). reflexivity. Qed.

Lemma render_after_history fs f s :
  Forall (fun f => In f offered_formats) fs -> fst (render f (snd (run_seq fs s))) = fst (render f s).
Proof. intros H. rewrite (render_seq_pure fs s H). reflexivity. Qed.

(* ---------- outcomes ---------- *)
Lemma seq_ok a b : seq a b = Ok <-> a = Ok /\ b = Ok.
Proof.
  destruct a as [|k|l]; cbn [seq]; split.
  - intros H. now split.
  - intros [_ H]. exact H.
  - discriminate.
  - intros [H _]. discriminate.
  - discriminate.
  - intros [H _]. discriminate.
Qed.
Lemma seq_ok_r a : seq a Ok = a.
Proof. now destruct a. Qed.
Lemma is_ok_eq o : is_ok o = true -> o = Ok.
Proof. destruct o; [reflexivity | discriminate | discriminate]. Qed.

Lemma first_err_ok_iff {A : Type} (chk : A -> outcome) (l : list A) : first_err chk l = Ok <-> Forall (fun x => chk x = Ok) l.
Proof.
  induction l as [|x l IH]; cbn [first_err].
  - split; [constructor | reflexivity].
  - rewrite seq_ok, IH. split.
    + intros [H1 H2]. now constructor.
    + intros H. inversion H; subst. now split.
Qed.

Lemma check_leaf_ok strict tok :
  forallb (fun k => text_eqb k k_word) strict = true -> has_key k_word tok = true -> check_leaf strict tok = Ok.
Proof.
  intros Hs Hw. unfold check_leaf. destruct (find (fun k => negb (has_key k tok)) strict) as [k|] eqn:E; [|reflexivity].
  apply find_some in E as [Hin Hk]. rewrite forallb_forall in Hs. specialize (Hs k Hin). apply text_eqb_eq in Hs. subst k.
  rewrite Hw in Hk. discriminate.
Qed.

Lemma pair_in_In ops sym l : pair_in ops sym l = true -> In (ops, sym) l.
Proof.
  unfold pair_in. rewrite existsb_exists. intros [[o s] [Hin H]]. cbn [fst snd] in H.
  apply andb_true_iff in H as [H1 H2]. apply text_eqb_eq in H1. apply text_eqb_eq in H2. now subst.
Qed.

Lemma check_tree_total f t :
  strict_word_only_b f = true -> labels_closed_b f = true -> tree_okb (f_lang f) t = true -> check_tree f t = Ok.
Proof.
  intros Hs Hl. unfold labels_closed_b in Hl. apply andb_true_iff in Hl as [Hl Hleaf]. apply andb_true_iff in Hl as [Hbin Hun].
  rewrite forallb_forall in Hbin. rewrite forallb_forall in Hun.
  induction t as [c tok o s | c o s t IH | c o s h l IHl r IHr]; cbn [tree_okb check_tree]; intros Hok.
  - apply andb_true_iff in Hok as [Hw Hlab]. apply andb_true_iff in Hlab as [Ho Hsy].
    apply text_eqb_eq in Ho. apply text_eqb_eq in Hsy. subst o s.
    rewrite (is_ok_eq _ Hleaf). cbn [seq]. now apply check_leaf_ok.
  - apply andb_true_iff in Hok as [Hp Ht]. apply pair_in_In in Hp.
    pose proof (is_ok_eq _ (Hun (o, s) Hp)) as Hq. cbn [fst snd] in Hq. rewrite Hq. cbn [seq]. now apply IH.
  - apply andb_true_iff in Hok as [Hp Ht]. apply andb_true_iff in Ht as [Htl Htr]. apply pair_in_In in Hp.
    pose proof (is_ok_eq _ (Hbin (o, s) Hp)) as Hq. cbn [fst snd] in Hq. rewrite Hq. cbn [seq]. rewrite (IHl Htl), (IHr Htr). reflexivity.
Qed.

(* ---------- closure of the generated tables (recomputed against the current source on every build) ---------- *)
Lemma all_offered_total : forallb (fun f => strict_word_only_b f && labels_closed_b f) offered_formats = true.
Proof. vm_compute. reflexivity. Qed.

Lemma offered_for_In lang f : In f (offered_for lang) -> In f offered_formats /\ f_lang f = lang.
Proof. unfold offered_for. rewrite filter_In. intros [H1 H2]. apply text_eqb_eq in H2. now split. Qed.

Lemma check_batch_total lang f b : In f (offered_for lang) -> batch_ok lang b -> check_batch f b = Ok.
Proof.
  intros Hf Hb. apply offered_for_In in Hf as [Hin Hlang]. subst lang.
  pose proof (proj1 (forallb_forall _ offered_formats) all_offered_total f Hin) as H. apply andb_true_iff in H as [Hs Hl].
  unfold check_batch. apply first_err_ok_iff. unfold batch_ok in Hb.
  induction Hb as [|sent b Hsent Hb IH]; constructor; [|exact IH].
  unfold check_sentence. apply first_err_ok_iff.
  induction Hsent as [|t sent Ht Hsent IHs]; constructor; [|exact IHs].
  now apply check_tree_total.
Qed.

Lemma render_total lang f s : In f (offered_for lang) -> batch_ok lang (trees s) -> fst (render f s) = Ok.
Proof. intros Hf Hb. unfold render, render_with. cbn [fst]. now apply (check_batch_total lang). Qed.

Lemma placeholder_ok lang : tree_ok lang placeholder.
Proof. unfold tree_ok, placeholder. cbn [tree_okb]. rewrite !text_eqb_refl. reflexivity. Qed.

Lemma batch_ok_app lang b1 b2 : batch_ok lang b1 -> batch_ok lang b2 -> batch_ok lang (b1 ++ b2).
Proof. unfold batch_ok. intros H1 H2. apply Forall_app. now split. Qed.

Lemma failed_sentence_harmless lang f b1 b2 log :
  In f (offered_for lang) -> batch_ok lang b1 -> batch_ok lang b2 ->
  fst (render f {| trees := b1 ++ [[placeholder]] ++ b2; oplog := log |}) = Ok.
Proof.
  intros Hf H1 H2. apply (render_total lang); [exact Hf|]. cbn [trees]. apply batch_ok_app; [exact H1|]. apply batch_ok_app; [|exact H2].
  constructor; [|constructor]. constructor; [apply placeholder_ok | constructor].
Qed.

Lemma batch_total f s : fst (render f s) = Ok <-> Forall (fun sent => fst (render f (single sent)) = Ok) (trees s).
Proof.
  unfold render, render_with, single. cbn [fst trees]. unfold check_batch at 1. rewrite first_err_ok_iff.
  split; intros H; induction H as [|sent b Hs Hb IH]; constructor; try exact IH.
  - unfold check_batch. cbn [first_err]. now rewrite seq_ok_r.
  - unfold check_batch in Hs. cbn [first_err] in Hs. now rewrite seq_ok_r in Hs.
Qed.

(* ---------- label vocabularies of the grammars vs the Prolog tables ---------- *)
Lemma en_labels_closed_b : forallb (fun p => text_in (fst p) (map fst prolog_op_mapping)) en_binary_labels = true.
Proof. vm_compute. reflexivity. Qed.
Lemma ja_symbols_closed_b : forallb (fun p => text_in (snd p) (map fst prolog_ja_combinators)) (ja_binary_labels ++ ja_unary_labels) = true.
Proof. vm_compute. reflexivity. Qed.

Lemma en_labels_closed ops sym : In (ops, sym) en_binary_labels -> In ops (map fst prolog_op_mapping).
Proof. intros H. apply text_in_In. exact (proj1 (forallb_forall _ _) en_labels_closed_b (ops, sym) H). Qed.
Lemma ja_symbols_closed ops sym : In (ops, sym) (ja_binary_labels ++ ja_unary_labels) -> In sym (map fst prolog_ja_combinators).
Proof. intros H. apply text_in_In. exact (proj1 (forallb_forall _ _) ja_symbols_closed_b (ops, sym) H). Qed.

(* the two translators agree: the tables the Prolog printers look labels up in are the tables of GenTables.v, on binary
   nodes by op_string (en) and on every inner node by op_symbol (ja) *)
Lemma prolog_lookups :
  option_map f_labels (find_spec l_en [112;114;111;108;111;103]) = Some [(s_binary, s_op_string, map fst prolog_op_mapping)]
  /\ option_map f_labels (find_spec l_ja [112;114;111;108;111;103]) = Some [(s_nonleaf, s_op_symbol, map fst prolog_ja_combinators)].
Proof. split; vm_compute; reflexivity. Qed.

(* every format of the two CLI lists is modelled, or is one of the formats that need depccg.semantics (nltk) *)
Definition covered_b (lang : text) (name : text) : bool :=
  match find_spec lang name with Some _ => true | None => existsb (fun p => text_eqb (fst p) lang && text_eqb (snd p) name) unmodelled_formats end.
Lemma cli_covered_b : forallb (covered_b l_en) cli_formats_en && forallb (covered_b l_ja) cli_formats_ja = true.
Proof. vm_compute. reflexivity. Qed.
Lemma cli_covered :
  (forall name, In name cli_formats_en -> covered_b l_en name = true) /\ (forall name, In name cli_formats_ja -> covered_b l_ja name = true).
Proof.
  pose proof cli_covered_b as H. apply andb_true_iff in H as [H1 H2]. rewrite forallb_forall in H1. rewrite forallb_forall in H2. now split.
Qed.
Lemma all_dispatched : undispatched_formats = [].
Proof. reflexivity. Qed.
