(* C15 - proofs about the XML model (Xml.v). *)
From Coq Require Import List NArith Bool Lia Arith.
From Coq Require DecimalNat.
Import ListNotations.
Require Import Cat CatFacts CatRoundTrip Tree Xml.
Open Scope N_scope.

(* ================= generic list / dictionary facts ================= *)
Definition keys (a : attrs) : list text := map fst a.

Lemma attr_get_app k a b : attr_get k (a ++ b) = match attr_get k a with Some v => Some v | None => attr_get k b end.
Proof.
  induction a as [|[k' v'] a IH]; simpl; [reflexivity|].
  destruct (text_eqb k k'); [reflexivity | exact IH].
Qed.

Lemma attr_get_none_notin k a : ~ In k (keys a) -> attr_get k a = None.
Proof.
  induction a as [|[k' v'] a IH]; simpl; intros H; [reflexivity|].
  destruct (text_eqb k k') eqn:E.
  - apply text_eqb_eq in E. subst. exfalso. apply H. now left.
  - apply IH. intros Hin. apply H. now right.
Qed.

Lemma attr_get_in k a : In k (keys a) -> exists v, attr_get k a = Some v.
Proof.
  induction a as [|[k' v'] a IH]; simpl; intros H; [contradiction|].
  destruct (text_eqb k k') eqn:E; [eauto|].
  destruct H as [H|H]; [subst; rewrite text_eqb_refl in E; discriminate | now apply IH].
Qed.

Lemma attr_get_some_in k a v : attr_get k a = Some v -> In (k, v) a.
Proof.
  induction a as [|[k' v'] a IH]; simpl; intros H; [discriminate|].
  destruct (text_eqb k k') eqn:E.
  - apply text_eqb_eq in E. inversion H; subst. now left.
  - right. now apply IH.
Qed.

Lemma attr_set_fresh k v a : ~ In k (keys a) -> attr_set k v a = a ++ [(k, v)].
Proof.
  induction a as [|[k' v'] a IH]; simpl; intros H; [reflexivity|].
  destruct (text_eqb k k') eqn:E.
  - apply text_eqb_eq in E. subst. exfalso. apply H. now left.
  - f_equal. apply IH. intros Hin. apply H. now right.
Qed.

Lemma attr_set_all_fresh tok : forall a, NoDup (keys a ++ keys tok) -> attr_set_all tok a = a ++ tok.
Proof.
  induction tok as [|[k v] tok IH]; intros a H; unfold attr_set_all in *; simpl.
  - now rewrite app_nil_r.
  - simpl in H. assert (Hk : ~ In k (keys a)).
    { apply NoDup_remove_2 in H. intros Hin. apply H. apply in_or_app. now left. }
    rewrite (attr_set_fresh k v a Hk). rewrite IH.
    + now rewrite <- app_assoc.
    + unfold keys in *. rewrite map_app. simpl. rewrite <- app_assoc. exact H.
Qed.

Lemma sequence_map_some {A B} (f : A -> option B) (g : A -> B) l :
  (forall x, In x l -> f x = Some (g x)) -> sequence (map f l) = Some (map g l).
Proof.
  induction l as [|x l IH]; simpl; intros H; [reflexivity|].
  rewrite (H x (or_introl eq_refl)). rewrite IH; [reflexivity|]. intros y Hy. apply H. now right.
Qed.

Lemma filter_all {A} (p : A -> bool) l : (forall x, In x l -> p x = true) -> filter p l = l.
Proof.
  induction l as [|x l IH]; simpl; intros H; [reflexivity|].
  rewrite (H x (or_introl eq_refl)). f_equal. apply IH. intros y Hy. apply H. now right.
Qed.

Lemma filter_none {A} (p : A -> bool) l : (forall x, In x l -> p x = false) -> filter p l = [].
Proof.
  induction l as [|x l IH]; simpl; intros H; [reflexivity|].
  rewrite (H x (or_introl eq_refl)). apply IH. intros y Hy. apply H. now right.
Qed.

Lemma mapi_map {A B C} (f : nat -> A -> B) (g : B -> C) l : forall s, map g (mapi f s l) = mapi (fun i x => g (f i x)) s l.
Proof. induction l as [|x l IH]; intros s; simpl; [reflexivity | now rewrite IH]. Qed.

Lemma mapi_length {A B} (f : nat -> A -> B) l : forall s, length (mapi f s l) = length l.
Proof. induction l as [|x l IH]; intros s; simpl; [reflexivity | now rewrite IH]. Qed.

Lemma mapi_in {A B} (f : nat -> A -> B) l : forall s y, In y (mapi f s l) -> exists i x, In x l /\ y = f i x.
Proof.
  induction l as [|x l IH]; intros s y H; simpl in H; [contradiction|].
  destruct H as [H|H]; [exists s, x; split; [now left | now symmetry] |].
  destruct (IH _ _ H) as (i & x' & Hin & ->). exists i, x'. split; [now right | reflexivity].
Qed.

Lemma mapi_ext {A B} (f g : nat -> A -> B) l : forall s, (forall i x, In x l -> f i x = g i x) -> mapi f s l = mapi g s l.
Proof.
  induction l as [|x l IH]; intros s H; simpl; [reflexivity|].
  rewrite (H s x (or_introl eq_refl)). f_equal. apply IH. intros i y Hy. apply H. now right.
Qed.

(* ================= normalize_token ================= *)
Lemma has_app c a b : has c (a ++ b) = has c a || has c b.
Proof. unfold has. apply existsb_app. Qed.

Lemma has_replace_self c rep t : has c rep = false -> has c (replace_char c rep t) = false.
Proof.
  intros Hr. induction t as [|x t IH]; simpl; [reflexivity|].
  rewrite has_app, IH, orb_false_r. destruct (N.eqb_spec x c) as [->|Hne]; [exact Hr|].
  simpl. rewrite orb_false_r. apply N.eqb_neq. congruence.
Qed.

Lemma has_replace_other d c rep t : has d rep = false -> has d t = false -> has d (replace_char c rep t) = false.
Proof.
  intros Hr. induction t as [|x t IH]; simpl; intros Ht; [reflexivity|].
  apply orb_false_iff in Ht as [Hx Ht]. rewrite has_app, (IH Ht), orb_false_r.
  destruct (N.eqb x c); [exact Hr|]. simpl. now rewrite Hx.
Qed.

Lemma has_replace_whole d c rep t : has d rep = false -> has d t = false -> has d (replace_whole c rep t) = false.
Proof.
  intros Hr Ht. unfold replace_whole. destruct (text_eqb t [c]); [exact Hr|].
  destruct (text_eqb t [c; cNL]) eqn:E; [|exact Ht].
  apply text_eqb_eq in E. subst t. rewrite has_app, Hr. simpl in *.
  apply orb_false_iff in Ht as [_ Ht]. exact Ht.
Qed.

(* the hyphen is special: the whole-token rule rewrites "-" before the general rule sees it *)
Definition stripped : list N := [46; 44; 40; 41; 33; 45].     (* . , ( ) ! - *)

Lemma normalize_token_starts t : starts_us (normalize_token t) = true.
Proof. unfold normalize_token. match goal with |- context [if starts_us ?x then _ else _] => destruct (starts_us x) eqn:E end; [exact E | reflexivity]. Qed.

Lemma has_cons_us d t : d <> cUS -> has d (if starts_us t then t else cUS :: t) = has d t.
Proof.
  intros Hd. destruct (starts_us t); [reflexivity|]. simpl. destruct (N.eqb_spec d cUS); [contradiction | reflexivity].
Qed.

Lemma normalize_token_clean t : forall d, In d stripped -> has d (normalize_token t) = false.
Proof.
  intros d Hd. unfold normalize_token.
  set (t1 := replace_char 46 r_DOT t). set (t2 := replace_char 44 r_COMMA t1). set (t3 := replace_char 40 r_LEFTB t2).
  set (t4 := replace_char 41 r_RIGHTB t3). set (t5 := replace_whole 45 r_HYPHEN t4). set (t6 := replace_whole 38 r_AMPERSAND t5).
  set (t7 := replace_char 33 r_EXCLAMATION t6). set (t8 := replace_char 45 r_dash t7).
  assert (H1 : has 46 t1 = false) by (apply has_replace_self; reflexivity).
  assert (H2 : has 46 t2 = false /\ has 44 t2 = false).
  { split; [apply has_replace_other; [reflexivity | exact H1] | apply has_replace_self; reflexivity]. }
  assert (H3 : has 46 t3 = false /\ has 44 t3 = false /\ has 40 t3 = false).
  { destruct H2 as [A B]. repeat split; [apply has_replace_other; [reflexivity | assumption] .. | apply has_replace_self; reflexivity]. }
  assert (H4 : has 46 t4 = false /\ has 44 t4 = false /\ has 40 t4 = false /\ has 41 t4 = false).
  { destruct H3 as (A & B & C). repeat split; [apply has_replace_other; [reflexivity | assumption] .. | apply has_replace_self; reflexivity]. }
  assert (H5 : has 46 t5 = false /\ has 44 t5 = false /\ has 40 t5 = false /\ has 41 t5 = false).
  { destruct H4 as (A & B & C & D). repeat split; (apply has_replace_whole; [reflexivity | assumption]). }
  assert (H6 : has 46 t6 = false /\ has 44 t6 = false /\ has 40 t6 = false /\ has 41 t6 = false).
  { destruct H5 as (A & B & C & D). repeat split; (apply has_replace_whole; [reflexivity | assumption]). }
  assert (H7 : has 46 t7 = false /\ has 44 t7 = false /\ has 40 t7 = false /\ has 41 t7 = false /\ has 33 t7 = false).
  { destruct H6 as (A & B & C & D). repeat split; [apply has_replace_other; [reflexivity | assumption] .. | apply has_replace_self; reflexivity]. }
  assert (H8 : has 46 t8 = false /\ has 44 t8 = false /\ has 40 t8 = false /\ has 41 t8 = false /\ has 33 t8 = false /\ has 45 t8 = false).
  { destruct H7 as (A & B & C & D & E). repeat split; [apply has_replace_other; [reflexivity | assumption] .. | apply has_replace_self; reflexivity]. }
  destruct H8 as (A & B & C & D & E & F).
  simpl in Hd. destruct Hd as [<-|[<-|[<-|[<-|[<-|[<-|[]]]]]]]; (rewrite has_cons_us; [assumption | discriminate]).
Qed.

(* ================= C&C XML: read_xml (enc_xml nb) ================= *)
Definition five_keys : list text := [k_word; k_pos; k_entity; k_lemma; k_chunk].
Definition xml_reserved : list text := [a_start; a_span; a_cat].
(* a token that xml_of writes faithfully and read_xml can read: a dict (distinct keys) with the five C&C attributes whose
   keys do not overwrite the attributes the printer sets itself *)
Definition tok_xml_ok (tok : token) : Prop :=
  NoDup (keys tok) /\ (forall k, In k five_keys -> In k (keys tok)) /\ (forall k, In k xml_reserved -> ~ In k (keys tok)).
Definition five (tok : token) : token := map (fun k => (k, tok_get_default k [] tok)) five_keys.

Section XmlRT.
Variable puncts : list text.
Variable parse : text -> option cat.
Hypothesis parse_show : forall c, wf puncts c -> parse (show c) = Some c.
Variable guess : cat -> cat -> cat -> text * text * bool.

Fixpoint wf_xml (t : tree) : Prop :=
  match t with
  | Leaf c tok _ _ => wf puncts c /\ tok_xml_ok tok
  | Un c _ _ t1 => wf puncts c /\ wf_xml t1
  | Bin c _ _ _ l r => wf puncts c /\ wf_xml l /\ wf_xml r
  end.

(* what read_xml returns for a tree written by xml_of *)
Fixpoint xml_image (t : tree) : tree :=
  match t with
  | Leaf c tok _ _ => Leaf c (five tok) s_lex s_lexsym
  | Un c ops _ t1 => Un c ops s_unsym (xml_image t1)
  | Bin c ops _ _ l r =>
      let l' := xml_image l in let r' := xml_image r in
      let '(_, sym, hl) := guess c (tcat l') (tcat r') in
      Bin c ops sym hl l' r'
  end.

Lemma tcat_xml_image t : tcat (xml_image t) = tcat t.
Proof. destruct t as [c tok o s | c o s t1 | c o s h l r]; simpl; try reflexivity. destruct (guess c _ _) as [[? ?] ?]. reflexivity. Qed.

Lemma leaf_attrs c tok start : tok_xml_ok tok ->
  attr_set_all tok [(a_start, dec start); (a_span, v_one); (a_cat, show c)] = [(a_start, dec start); (a_span, v_one); (a_cat, show c)] ++ tok.
Proof.
  intros (Hnd & _ & Hres). apply attr_set_all_fresh. simpl.
  assert (H1 : ~ In a_start (keys tok)) by (apply Hres; simpl; tauto).
  assert (H2 : ~ In a_span (keys tok)) by (apply Hres; simpl; tauto).
  assert (H3 : ~ In a_cat (keys tok)) by (apply Hres; simpl; tauto).
  constructor; [simpl; intros [E|[E|E]]; try discriminate E; contradiction|].
  constructor; [simpl; intros [E|E]; try discriminate E; contradiction|].
  constructor; [exact H3 | exact Hnd].
Qed.

Lemma rx_leaf c tok o s start : wf puncts c -> tok_xml_ok tok ->
  rx_node parse guess (xml_node (Leaf c tok o s) start) = Some (Leaf c (five tok) s_lex s_lexsym).
Proof.
  intros Hc Htok. cbn [xml_node]. rewrite (leaf_attrs c tok start Htok).
  destruct Htok as (Hnd & Hfive & Hres).
  assert (G : forall k, In k five_keys -> exists v, tok_get k tok = Some v) by (intros k Hk; apply attr_get_in; now apply Hfive).
  destruct (G k_word) as [w Hw]; [simpl; tauto|]. destruct (G k_pos) as [p Hp]; [simpl; tauto|].
  destruct (G k_entity) as [e He]; [simpl; tauto|]. destruct (G k_lemma) as [le Hle]; [simpl; tauto|].
  destruct (G k_chunk) as [ch Hch]; [simpl; tauto|].
  unfold rx_node. change (text_eqb g_lf g_rule) with false. change (text_eqb g_lf g_lf) with true. cbv iota.
  unfold attr_get. cbn [app tok_get]. change (text_eqb a_cat a_start) with false. change (text_eqb a_cat a_span) with false.
  change (text_eqb a_cat a_cat) with true. cbv iota. rewrite (parse_show c Hc).
  change (text_eqb k_word a_start) with false. change (text_eqb k_word a_span) with false. change (text_eqb k_word a_cat) with false.
  change (text_eqb k_pos a_start) with false. change (text_eqb k_pos a_span) with false. change (text_eqb k_pos a_cat) with false.
  change (text_eqb k_entity a_start) with false. change (text_eqb k_entity a_span) with false. change (text_eqb k_entity a_cat) with false.
  change (text_eqb k_lemma a_start) with false. change (text_eqb k_lemma a_span) with false. change (text_eqb k_lemma a_cat) with false.
  change (text_eqb k_chunk a_start) with false. change (text_eqb k_chunk a_span) with false. change (text_eqb k_chunk a_cat) with false.
  cbv iota. rewrite Hw, Hp, He, Hle, Hch. unfold five, five_keys, tok_get_default. cbn [map]. now rewrite Hw, Hp, He, Hle, Hch.
Qed.

Lemma rx_xml_node t : wf_xml t -> forall start, rx_node parse guess (xml_node t start) = Some (xml_image t).
Proof.
  induction t as [c tok o s | c o s t1 IH | c o s h l IHl r IHr]; intros Hwf start.
  - destruct Hwf as [Hc Htok]. now apply rx_leaf.
  - destruct Hwf as [Hc H1]. cbn [xml_node xml_image]. cbn [rx_node]. fold (rx_node parse guess).
    change (text_eqb g_rule g_rule) with true. cbv iota.
    unfold attr_get. cbn [tok_get]. change (text_eqb a_cat a_type) with false. change (text_eqb a_cat a_cat) with true. cbv iota.
    rewrite (parse_show c Hc). cbn [map]. rewrite (IH H1 start). cbn [sequence].
    unfold tok_get_default. cbn [tok_get]. change (text_eqb a_type a_type) with true. reflexivity.
  - destruct Hwf as (Hc & Hl & Hr). cbn [xml_node xml_image]. cbn [rx_node]. fold (rx_node parse guess).
    change (text_eqb g_rule g_rule) with true. cbv iota.
    unfold attr_get. cbn [tok_get]. change (text_eqb a_cat a_type) with false. change (text_eqb a_cat a_cat) with true. cbv iota.
    rewrite (parse_show c Hc). cbn [map]. rewrite (IHl Hl start), (IHr Hr (start + nleaves l)%nat). cbn [sequence].
    destruct (guess c (tcat (xml_image l)) (tcat (xml_image r))) as [[ops sym] hl].
    unfold tok_get_default. cbn [tok_get]. change (text_eqb a_type a_type) with true. reflexivity.
Qed.

(* the trees of an n-best document with the sentence / tree numbers xml_of gives them *)
Definition numbered (nb : list (list tree)) : list (nat * nat * tree) :=
  concat (mapi (fun si trees => mapi (fun ti t => (si, ti, t)) 1%nat trees) 1%nat nb).
Definition xml_name (si ti : nat) : text := name_of [(a_sentence, dec si); (a_id, dec ti)].     (* "sentence=<si>_id=<ti>" *)
Definition xml_result (it : nat * nat * tree) : reader_result :=
  let '(si, ti, t) := it in (xml_name si ti, tokens (xml_image t), xml_image t).

Lemma numbered_trees nb : map snd (numbered nb) = concat nb.
Proof.
  unfold numbered. generalize 1%nat at 2 as s. induction nb as [|trees nb IH]; intros s; simpl; [reflexivity|].
  rewrite map_app, IH. f_equal. generalize 1%nat as k. induction trees as [|t trees IHt]; intros k; simpl; [reflexivity | now rewrite IHt].
Qed.

Lemma enc_xml_kids nb : ekids (enc_xml nb) = map (fun it => let '(si, ti, t) := it in xml_ccg si ti t) (numbered nb).
Proof.
  unfold enc_xml, numbered. cbn [ekids]. generalize 1%nat at 2 4 as s. induction nb as [|trees nb IH]; intros s; simpl; [reflexivity|].
  rewrite map_app, IH. f_equal. generalize 1%nat as k. induction trees as [|t trees IHt]; intros k; simpl; [reflexivity | now rewrite IHt].
Qed.

Lemma numbered_in nb it : In it (numbered nb) -> exists trees, In trees nb /\ In (snd it) trees.
Proof.
  unfold numbered. generalize 1%nat at 2 as s. induction nb as [|trees nb IH]; intros s H; simpl in H; [contradiction|].
  apply in_app_or in H as [H|H].
  - exists trees. split; [now left|]. apply mapi_in in H as (i & x & Hx & ->). exact Hx.
  - destruct (IH _ H) as (tr & Hin & Hs). exists tr. split; [now right | exact Hs].
Qed.

Theorem read_xml_enc nb : Forall (Forall wf_xml) nb ->
  read_xml parse guess (enc_xml nb) = Some (map xml_result (numbered nb)).
Proof.
  intros Hwf. unfold read_xml. rewrite enc_xml_kids. rewrite filter_all.
  - rewrite map_map. apply sequence_map_some. intros [[si ti] t] Hin. cbn [xml_ccg ekids eattrs].
    rewrite rx_xml_node; [reflexivity|].
    destruct (numbered_in nb _ Hin) as (trees & Htr & Ht). rewrite Forall_forall in Hwf. specialize (Hwf trees Htr).
    rewrite Forall_forall in Hwf. now apply Hwf.
  - intros x Hx. apply in_map_iff in Hx as ([[si ti] t] & <- & _). reflexivity.
Qed.

(* ---- what "the same tree" means for the C&C format ---- *)
Inductive xml_same : tree -> tree -> Prop :=
| xs_leaf c tok o s tok' o' s' : (forall k, In k five_keys -> tok_get k tok' = tok_get k tok) -> keys tok' = five_keys ->
    xml_same (Leaf c tok o s) (Leaf c tok' o' s')
| xs_un c ops s s' t t' : xml_same t t' -> xml_same (Un c ops s t) (Un c ops s' t')
| xs_bin c ops s s' h h' l l' r r' : xml_same l l' -> xml_same r r' -> xml_same (Bin c ops s h l r) (Bin c ops s' h' l' r').

Lemma five_get tok k : tok_xml_ok tok -> In k five_keys -> tok_get k (five tok) = tok_get k tok.
Proof.
  intros (_ & Hfive & _) Hk. destruct (attr_get_in k tok (Hfive k Hk)) as [v Hv]. unfold attr_get in Hv.
  assert (G : forall k', In k' five_keys -> exists v', tok_get k' tok = Some v') by (intros k' Hk'; apply attr_get_in; now apply Hfive).
  unfold five, five_keys, tok_get_default. cbn [map].
  simpl in Hk. destruct Hk as [<-|[<-|[<-|[<-|[<-|[]]]]]]; rewrite Hv; reflexivity.
Qed.

Lemma xml_image_same t : wf_xml t -> xml_same t (xml_image t).
Proof.
  induction t as [c tok o s | c o s t1 IH | c o s h l IHl r IHr]; intros Hwf; cbn [xml_image].
  - destruct Hwf as [_ Htok]. constructor; [intros k Hk; now apply five_get | reflexivity].
  - destruct Hwf as [_ H1]. constructor. now apply IH.
  - destruct Hwf as (_ & Hl & Hr). destruct (guess c _ _) as [[? ?] ?]. constructor; [now apply IHl | now apply IHr].
Qed.

Theorem read_xml_enc_same nb : Forall (Forall wf_xml) nb ->
  exists rs, read_xml parse guess (enc_xml nb) = Some rs /\
             Forall2 (fun t r => xml_same t (snd r) /\ snd (fst r) = tokens (snd r)) (concat nb) rs.
Proof.
  intros Hwf. exists (map xml_result (numbered nb)). split; [now apply read_xml_enc|].
  rewrite <- numbered_trees.
  assert (H : forall it, In it (numbered nb) -> wf_xml (snd it)).
  { intros it Hin. destruct (numbered_in nb _ Hin) as (trees & Htr & Ht). rewrite Forall_forall in Hwf. specialize (Hwf trees Htr).
    rewrite Forall_forall in Hwf. now apply Hwf. }
  induction (numbered nb) as [|[[si ti] t] l IH]; simpl; constructor.
  - split; [apply xml_image_same; apply (H (si, ti, t)); now left | reflexivity].
  - apply IH. intros it Hin. apply H. now right.
Qed.
End XmlRT.

(* ================= decimal numerals and ids ================= *)
Lemma uint_text_inj u : forall v, uint_text u = uint_text v -> u = v.
Proof.
  induction u as [|u IH|u IH|u IH|u IH|u IH|u IH|u IH|u IH|u IH|u IH]; intros v H; destruct v; simpl in H;
    try discriminate H; try reflexivity; inversion H as [H']; f_equal; now apply IH.
Qed.

Lemma dec_inj n m : dec n = dec m -> n = m.
Proof.
  unfold dec. intros H. apply uint_text_inj in H.
  rewrite <- (DecimalNat.Unsigned.of_to n), <- (DecimalNat.Unsigned.of_to m). now rewrite H.
Qed.

Definition digits : list N := [48; 49; 50; 51; 52; 53; 54; 55; 56; 57].
Lemma uint_text_forallb (P : N -> bool) u : forallb P digits = true -> forallb P (uint_text u) = true.
Proof.
  intros H. simpl in H. repeat (apply andb_true_iff in H as [? H]).
  induction u; simpl; try reflexivity; apply andb_true_iff; split; assumption.
Qed.
Lemma dec_forallb (P : N -> bool) n : forallb P digits = true -> forallb P (dec n) = true.
Proof. apply uint_text_forallb. Qed.

(* characters that are neither blanks (for str.split / split(' ')) nor the double quote *)
Definition idc (c : N) : bool := negb (py_space c) && negb (N.eqb c cDQ).
Lemma forallb_app_true {A} (P : A -> bool) a b : forallb P a = true -> forallb P b = true -> forallb P (a ++ b) = true.
Proof. intros Ha Hb. rewrite forallb_app, Ha, Hb. reflexivity. Qed.

Lemma span_id_idc sid n : forallb idc (span_id sid n) = true.
Proof.
  unfold span_id. repeat apply forallb_app_true; try reflexivity; apply dec_forallb; reflexivity.
Qed.
Lemma tok_id_idc sid n : forallb idc (tok_id sid n) = true.
Proof.
  unfold tok_id. repeat apply forallb_app_true; try reflexivity; apply dec_forallb; reflexivity.
Qed.

Lemma idc_has c t : idc c = false -> forallb idc t = true -> has c t = false.
Proof.
  intros Hc. induction t as [|x t IH]; simpl; intros H; [reflexivity|].
  apply andb_true_iff in H as [Hx Ht]. rewrite (IH Ht), orb_false_r.
  destruct (N.eqb_spec c x) as [->|]; [congruence | reflexivity].
Qed.

Lemma span_id_inj sid n m : span_id sid n = span_id sid m -> n = m.
Proof.
  unfold span_id. intros H. apply app_inv_head in H. apply app_inv_head in H. apply app_inv_head in H. now apply dec_inj.
Qed.
Lemma tok_id_inj sid n m : tok_id sid n = tok_id sid m -> n = m.
Proof.
  unfold tok_id. intros H. apply app_inv_head in H. apply app_inv_head in H. apply app_inv_head in H. now apply dec_inj.
Qed.
Lemma ccg_id_inj sid n m : ccg_id sid n = ccg_id sid m -> n = m.
Proof.
  unfold ccg_id. intros H. apply app_inv_head in H. apply app_inv_head in H. apply app_inv_head in H. now apply dec_inj.
Qed.
Lemma span_id_not_ccg_id sid n j : span_id sid n <> ccg_id sid j.
Proof.
  unfold span_id, ccg_id. intros H. apply app_inv_head in H. apply app_inv_head in H. discriminate H.
Qed.

Lemma NoDup_map_inj {A B} (f : A -> B) l : (forall x y, f x = f y -> x = y) -> NoDup l -> NoDup (map f l).
Proof.
  intros Hinj H. induction H as [|x l Hx Hl IH]; simpl; constructor; [|exact IH].
  intros Hin. apply in_map_iff in Hin as (y & Hy & Hyl). apply Hinj in Hy. now subst.
Qed.

(* dict(...)[k] on a list of bindings with distinct keys *)
Lemma dict_last_none {A} k (l : list (text * A)) : ~ In k (map fst l) -> dict_last k l = None.
Proof.
  induction l as [|[k' v] l IH]; simpl; intros H; [reflexivity|].
  rewrite IH by tauto. destruct (text_eqb k k') eqn:E; [|reflexivity].
  apply text_eqb_eq in E. subst. exfalso. apply H. now left.
Qed.
Lemma dict_last_in {A} k (v : A) l : NoDup (map fst l) -> In (k, v) l -> dict_last k l = Some v.
Proof.
  induction l as [|[k' v'] l IH]; simpl; intros Hnd Hin; [contradiction|].
  inversion Hnd as [|? ? Hk' Hnd']; subst. destruct Hin as [E|Hin].
  - inversion E; subst. rewrite dict_last_none by assumption. now rewrite text_eqb_refl.
  - now rewrite (IH Hnd' Hin).
Qed.

(* ---- attribute-list algebra ---- *)
Lemma attr_get_set_same k v a : attr_get k (attr_set k v a) = Some v.
Proof.
  induction a as [|[k' v'] a IH]; simpl; [now rewrite text_eqb_refl|].
  destruct (text_eqb k k') eqn:E; simpl; [now rewrite text_eqb_refl | now rewrite E].
Qed.
Lemma attr_get_set_other k k' v a : k <> k' -> attr_get k (attr_set k' v a) = attr_get k a.
Proof.
  intros Hne. induction a as [|[k2 v2] a IH]; simpl.
  - apply text_eqb_neq in Hne. now rewrite Hne.
  - destruct (text_eqb k' k2) eqn:E; simpl.
    + apply text_eqb_eq in E. subst k2. apply text_eqb_neq in Hne. now rewrite Hne.
    + now rewrite IH.
Qed.
Lemma attr_get_del_other k k' a : k <> k' -> attr_get k (attr_del k' a) = attr_get k a.
Proof.
  intros Hne. induction a as [|[k2 v2] a IH]; simpl; [reflexivity|].
  destruct (text_eqb k' k2) eqn:E; simpl.
  - apply text_eqb_eq in E. subst k2. apply text_eqb_neq in Hne. now rewrite Hne.
  - now rewrite IH.
Qed.
Lemma keys_del_incl k a x : In x (keys (attr_del k a)) -> In x (keys a).
Proof.
  induction a as [|[k2 v2] a IH]; simpl; [tauto|].
  destruct (text_eqb k k2); simpl; [tauto|]. intros [H|H]; [now left | right; now apply IH].
Qed.
Lemma keys_del_nodup k a : NoDup (keys a) -> NoDup (keys (attr_del k a)).
Proof.
  induction a as [|[k2 v2] a IH]; simpl; intros H; [constructor|].
  inversion H as [|? ? Hk Hnd]; subst. destruct (text_eqb k k2); [exact Hnd|].
  simpl. constructor; [|now apply IH]. intros Hin. apply Hk. now apply (keys_del_incl k).
Qed.
Lemma attr_get_del_same k a : NoDup (keys a) -> attr_get k (attr_del k a) = None.
Proof.
  induction a as [|[k2 v2] a IH]; simpl; intros H; [reflexivity|].
  inversion H as [|? ? Hk Hnd]; subst. destruct (text_eqb k k2) eqn:E.
  - apply text_eqb_eq in E. subst k2. now apply attr_get_none_notin.
  - simpl. rewrite E. now apply IH.
Qed.
Lemma keys_set_in k v a x : In x (keys (attr_set k v a)) -> x = k \/ In x (keys a).
Proof.
  induction a as [|[k2 v2] a IH]; simpl; [intros [H|[]]; left; now symmetry|].
  destruct (text_eqb k k2) eqn:E; simpl.
  - apply text_eqb_eq in E. subst. tauto.
  - intros [H|H]; [tauto|]. destruct (IH H); tauto.
Qed.
Lemma keys_set_nodup k v a : NoDup (keys a) -> NoDup (keys (attr_set k v a)).
Proof.
  induction a as [|[k2 v2] a IH]; simpl; intros H; [repeat constructor; simpl; tauto|].
  inversion H as [|? ? Hk Hnd]; subst. destruct (text_eqb k k2) eqn:E; simpl.
  - apply text_eqb_eq in E. subst. now constructor.
  - constructor; [|now apply IH]. intros Hin. apply keys_set_in in Hin as [->|Hin]; [|contradiction].
    rewrite text_eqb_refl in E. discriminate.
Qed.

(* ================= Jigg XML ================= *)
(* categories whose Jigg spelling is str(cat): no unary feature value (Japanese categories carry triples or nothing) *)
Fixpoint nofun (c : cat) : Prop :=
  match c with
  | Atom _ (FUn _) => False
  | Atom _ _ => True
  | Fun l _ r => nofun l /\ nofun r
  end.
Fixpoint nofunb (c : cat) : bool :=
  match c with
  | Atom _ (FUn _) => false
  | Atom _ _ => true
  | Fun l _ r => nofunb l && nofunb r
  end.
Lemma nofunb_ok c : nofunb c = true <-> nofun c.
Proof.
  induction c as [b f | l IHl s r IHr]; simpl.
  - destruct f; split; intros H; try reflexivity; try exact I; try discriminate; contradiction.
  - rewrite andb_true_iff, IHl, IHr. tauto.
Qed.

Lemma cmv_show c : nofun c -> cmv c = show c.
Proof.
  induction c as [b f | l IHl s r IHr]; intros H.
  - destruct f; [reflexivity | contradiction | reflexivity].
  - destruct H as [Hl Hr]. specialize (IHl Hl). specialize (IHr Hr).
    change (cmv (Fun l s r)) with
      ((match l with Atom b f => cmv_atom b f | Fun _ _ _ => [cLP] ++ cmv l ++ [cRP] end) ++ s ++
       (match r with Atom b f => cmv_atom b f | Fun _ _ _ => [cLP] ++ cmv r ++ [cRP] end)).
    change (show (Fun l s r)) with
      ((match l with Fun _ _ _ => [cLP] ++ show l ++ [cRP] | _ => show l end) ++ s ++
       (match r with Fun _ _ _ => [cLP] ++ show r ++ [cRP] | _ => show r end)).
    f_equal; [|f_equal].
    + destruct l; [exact IHl | now rewrite IHl].
    + destruct r; [exact IHr | now rewrite IHr].
Qed.

Fixpoint height (t : tree) : nat :=
  match t with Leaf _ _ _ _ => 1%nat | Un _ _ _ t1 => S (height t1) | Bin _ _ _ _ l r => S (Nat.max (height l) (height r)) end.
Lemma height_le_nnodes t : (height t <= nnodes t)%nat.
Proof. induction t; simpl; lia. Qed.
Lemma nleaves_length t : length (leaves t) = nleaves t.
Proof. induction t; simpl; try rewrite app_length; lia. Qed.
Lemma nnodes_pos t : (1 <= nnodes t)%nat.
Proof. destruct t; simpl; lia. Qed.

Definition idof (e : elem) : text := match attr a_id e with Some k => k | None => [] end.
Definition word_of (tok : token) : text := tok_get_default k_word [] tok.

Lemma split_two a b : forallb idc a = true -> forallb idc b = true -> split_on cSP (a ++ [cSP] ++ b) [] = [a; b].
Proof.
  intros Ha Hb. simpl. rewrite CatRoundTrip.split_on_app by (apply idc_has; [reflexivity | exact Ha]).
  rewrite CatRoundTrip.split_on_nochar by (apply idc_has; [reflexivity | exact Hb]). reflexivity.
Qed.

Section JiggRT.
Variable puncts : list text.
Variable parse : text -> option cat.
Hypothesis parse_show : forall c, wf puncts c -> parse (show c) = Some c.
Variable guess : cat -> cat -> cat -> text * text * bool.
Variable us : bool.

Definition jcat_ok (c : cat) : Prop := wf puncts c /\ nofun c.
Lemma parse_cmv c : jcat_ok c -> parse (cmv c) = Some c.
Proof. intros [Hw Hn]. rewrite cmv_show by exact Hn. now apply parse_show. Qed.

(* what read_jigg_xml returns for a tree written by to_jigg_xml *)
Fixpoint jigg_image (t : tree) : tree :=
  match t with
  | Leaf c tok _ _ => Leaf c [(k_word, word_of tok)] s_lex s_lexsym
  | Un c _ _ t1 => Un c s_lex s_unsym (jigg_image t1)
  | Bin c _ _ _ l r =>
      let l' := jigg_image l in let r' := jigg_image r in
      let '(ops, sym, hl) := guess c (tcat l') (tcat r') in
      Bin c ops sym hl l' r'
  end.

Fixpoint cats_ok (t : tree) : Prop :=
  match t with
  | Leaf c _ _ _ => jcat_ok c
  | Un c _ _ t1 => jcat_ok c /\ cats_ok t1
  | Bin c _ _ _ l r => jcat_ok c /\ cats_ok l /\ cats_ok r
  end.

Section OneSentence.
Variable sid : nat.
Notation jspan := (jspan us sid).
Notation jspans := (jspans us sid).
Variable D : list (text * elem).          (* the spans dictionary of the <ccg> *)
Variable toks : list (text * token).      (* the tokens dictionary of the <sentence> *)

Definition Res (t : tree) (n b : nat) : Prop := dict_last (span_id sid n) D = Some (jspan t n b).
Fixpoint resolves (t : tree) (n b : nat) : Prop :=
  match t with
  | Leaf _ _ _ _ => True
  | Un _ _ _ t1 => Res t1 (S n) b /\ resolves t1 (S n) b
  | Bin _ _ _ _ l r =>
      Res l (S n) b /\ resolves l (S n) b /\
      Res r (S n + nnodes l)%nat (b + nleaves l)%nat /\ resolves r (S n + nnodes l)%nat (b + nleaves l)%nat
  end.
Fixpoint tokres (t : tree) (b : nat) : Prop :=
  match t with
  | Leaf _ tok _ _ => exists tk, dict_last (tok_id sid b) toks = Some tk /\ surface tk = Some (word_of tok)
  | Un _ _ _ t1 => tokres t1 b
  | Bin _ _ _ _ l r => tokres l b /\ tokres r (b + nleaves l)%nat
  end.

Lemma rj_node_S f e :
  rj_node parse guess (S f) D toks e =
  let a := eattrs e in
  match attr_get a_terminal a with
  | None =>
      match attr_get a_category a with
      | None => None
      | Some ct =>
          match parse ct with
          | None => None
          | Some c =>
              match attr_get a_child a with
              | None => None
              | Some ch =>
                  match sequence (map (fun cid => match dict_last cid D with
                                                  | Some s => rj_node parse guess f D toks s
                                                  | None => None end) (split_on cSP ch [])) with
                  | Some [t1] => Some (Un c s_lex s_unsym t1)
                  | Some [l; r] =>
                      let '(ops, sym, hl) := guess c (tcat l) (tcat r) in Some (Bin c ops sym hl l r)
                  | _ => None
                  end
              end
          end
      end
  | Some term =>
      match attr_get a_category a with
      | None => None
      | Some ct =>
          match parse ct with
          | None => None
          | Some c =>
              match dict_last term toks with
              | None => None
              | Some tk => match surface tk with Some w => Some (Leaf c [(k_word, w)] s_lex s_lexsym) | None => None end
              end
          end
      end
  end.
Proof. reflexivity. Qed.

Lemma rj_jspan t : forall n b f, cats_ok t -> resolves t n b -> tokres t b -> (height t <= f)%nat ->
  rj_node parse guess f D toks (jspan t n b) = Some (jigg_image t).
Proof.
  induction t as [c tok o s | c o s t1 IH | c o s h l IHl r IHr]; intros n b f Hc Hr Ht Hf;
    (destruct f as [|f]; [simpl in Hf; lia|]); rewrite rj_node_S; cbv zeta.
  - destruct Ht as (tk & Htk & Hs).
    change (attr_get a_terminal (eattrs (jspan (Leaf c tok o s) n b))) with (Some (tok_id sid b)).
    change (attr_get a_category (eattrs (jspan (Leaf c tok o s) n b))) with (Some (cmv c)).
    cbv iota beta. rewrite (parse_cmv c Hc), Htk, Hs. reflexivity.
  - destruct Hc as [Hc Hc1]. destruct Hr as [R1 Hr1]. simpl in Hf.
    change (attr_get a_terminal (eattrs (jspan (Un c o s t1) n b))) with (@None text).
    change (attr_get a_category (eattrs (jspan (Un c o s t1) n b))) with (Some (cmv c)).
    change (attr_get a_child (eattrs (jspan (Un c o s t1) n b))) with (Some (span_id sid (S n))).
    cbv iota beta. rewrite (parse_cmv c Hc).
    rewrite CatRoundTrip.split_on_nochar by (apply idc_has; [reflexivity | apply span_id_idc]).
    cbn [rev app map]. unfold Res in R1. rewrite R1. rewrite (IH (S n) b f Hc1 Hr1 Ht) by lia. reflexivity.
  - destruct Hc as (Hc & Hcl & Hcr). destruct Hr as (Rl & Hrl & Rr & Hrr). destruct Ht as [Htl Htr]. simpl in Hf.
    change (attr_get a_terminal (eattrs (jspan (Bin c o s h l r) n b))) with (@None text).
    change (attr_get a_category (eattrs (jspan (Bin c o s h l r) n b))) with (Some (cmv c)).
    change (attr_get a_child (eattrs (jspan (Bin c o s h l r) n b))) with (Some (span_id sid (S n) ++ [cSP] ++ span_id sid (S n + nnodes l))).
    cbv iota beta. rewrite (parse_cmv c Hc).
    rewrite split_two by apply span_id_idc. cbn [map]. unfold Res in Rl, Rr. rewrite Rl, Rr.
    rewrite (IHl (S n) b f Hcl Hrl Htl) by lia. rewrite (IHr _ _ f Hcr Hrr Htr) by lia. cbn [sequence jigg_image].
    destruct (guess c (tcat (jigg_image l)) (tcat (jigg_image r))) as [[ops sym] hl]. reflexivity.
Qed.
End OneSentence.
End JiggRT.

(* ---- the span list of one tree as a dictionary ---- *)
Section JiggDict.
Variable us : bool.
Variable sid : nat.
Notation jspan := (jspan us sid).
Notation jspans := (jspans us sid).

Definition jkids (t : tree) (n b : nat) : list elem := tl (jspans t n b).
Lemma jspans_cons t n b : jspans t n b = jspan t n b :: jkids t n b.
Proof. destruct t; reflexivity. Qed.
Lemma jkids_un c o s t1 n b : jkids (Un c o s t1) n b = jspans t1 (S n) b.
Proof. reflexivity. Qed.
Lemma jkids_bin c o s h l r n b : jkids (Bin c o s h l r) n b = jspans l (S n) b ++ jspans r (S n + nnodes l)%nat (b + nleaves l)%nat.
Proof. reflexivity. Qed.

Lemma attr_id_jspan t n b : attr a_id (jspan t n b) = Some (span_id sid n).
Proof. destruct t; reflexivity. Qed.
Lemma idof_jspan t n b : idof (jspan t n b) = span_id sid n.
Proof. unfold idof. now rewrite attr_id_jspan. Qed.
Lemma etag_jspan t n b : etag (jspan t n b) = g_span.
Proof. destruct t; reflexivity. Qed.
Lemma ekids_jspan t n b : ekids (jspan t n b) = [].
Proof. destruct t; reflexivity. Qed.

Lemma jspans_in t : forall n b e, In e (jspans t n b) -> exists t' n' b', e = jspan t' n' b'.
Proof.
  induction t as [c tok o s | c o s t1 IH | c o s h l IHl r IHr]; intros n b e H; rewrite jspans_cons in H; destruct H as [<-|H]; eauto.
  - destruct H.
  - rewrite jkids_un in H. now apply IH in H.
  - rewrite jkids_bin in H. apply in_app_or in H as [H|H]; [now apply IHl in H | now apply IHr in H].
Qed.

Lemma jspans_length t : forall n b, length (jspans t n b) = nnodes t.
Proof.
  induction t as [c tok o s | c o s t1 IH | c o s h l IHl r IHr]; intros n b; rewrite jspans_cons; simpl length.
  - reflexivity.
  - rewrite jkids_un, IH. reflexivity.
  - rewrite jkids_bin, app_length, IHl, IHr. reflexivity.
Qed.

Lemma jspans_ids t : forall n b, map idof (jspans t n b) = map (span_id sid) (seq n (nnodes t)).
Proof.
  induction t as [c tok o s | c o s t1 IH | c o s h l IHl r IHr]; intros n b; rewrite jspans_cons; cbn [map nnodes seq]; rewrite idof_jspan; f_equal.
  - rewrite jkids_un. apply IH.
  - rewrite jkids_bin, map_app, IHl, IHr, seq_app, map_app. reflexivity.
Qed.

Lemma jspans_ids_nodup t n b : NoDup (map idof (jspans t n b)).
Proof. rewrite jspans_ids. apply NoDup_map_inj; [apply span_id_inj | apply seq_NoDup]. Qed.

Definition bind (e : elem) : text * elem := (idof e, e).

Lemma resolves_incl D t : forall n b, NoDup (map fst D) -> incl (map bind (jkids t n b)) D -> resolves us sid D t n b.
Proof.
  induction t as [c tok o s | c o s t1 IH | c o s h l IHl r IHr]; intros n b Hnd Hin; cbn [resolves].
  - exact I.
  - rewrite jkids_un, jspans_cons in Hin. split.
    + unfold Res. apply dict_last_in; [exact Hnd|]. apply Hin. left. unfold bind. now rewrite idof_jspan.
    + apply IH; [exact Hnd|]. intros x Hx. apply Hin. now right.
  - rewrite jkids_bin in Hin. repeat split.
    + unfold Res. apply dict_last_in; [exact Hnd|]. apply Hin. rewrite map_app. apply in_or_app. left. rewrite jspans_cons. left.
      unfold bind. now rewrite idof_jspan.
    + apply IHl; [exact Hnd|]. intros x Hx. apply Hin. rewrite map_app. apply in_or_app. left. rewrite jspans_cons. now right.
    + unfold Res. apply dict_last_in; [exact Hnd|]. apply Hin. rewrite map_app. apply in_or_app. right. rewrite jspans_cons. left.
      unfold bind. now rewrite idof_jspan.
    + apply IHr; [exact Hnd|]. intros x Hx. apply Hin. rewrite map_app. apply in_or_app. right. rewrite jspans_cons. now right.
Qed.

Lemma keyed_ok l : (forall e, In e l -> attr a_id e <> None) -> keyed l = Some (map bind l).
Proof.
  intros H. unfold keyed. apply sequence_map_some. intros e He. specialize (H e He). unfold bind, idof.
  destruct (attr a_id e); [reflexivity | congruence].
Qed.

Lemma attr_eset_other k k' v e : k <> k' -> attr k (eset k' v e) = attr k e.
Proof. intros H. destruct e as [t a ks]. unfold attr. simpl. now apply attr_get_set_other. Qed.
Lemma etag_eset k v e : etag (eset k v e) = etag e.
Proof. now destruct e. Qed.
Lemma ekids_eset k v e : ekids (eset k v e) = ekids e.
Proof. now destruct e. Qed.
End JiggDict.

Section JiggRT2.
Variable puncts : list text.
Variable parse : text -> option cat.
Hypothesis parse_show : forall c, wf puncts c -> parse (show c) = Some c.
Variable guess : cat -> cat -> cat -> text * text * bool.
Variable us : bool.

Lemma rj_node_eset f D toks v e : rj_node parse guess f D toks (eset a_root v e) = rj_node parse guess f D toks e.
Proof.
  destruct f as [|f]; [reflexivity|]. rewrite !rj_node_S. cbv zeta. destruct e as [t a ks]. cbn [eset eattrs].
  rewrite !attr_get_set_other by discriminate. reflexivity.
Qed.

Lemma rj_ccg_jccg sid toks t sc n j : cats_ok puncts t -> tokres sid toks t 0 ->
  rj_ccg parse guess toks (jccg us sid t sc n j) = Some (jigg_image guess t).
Proof.
  intros Hc Ht. unfold rj_ccg, jccg. cbn [ekids]. rewrite jspans_cons. cbn [mark_root].
  set (e0 := eset a_root v_true (jspan us sid t n 0)).
  rewrite filter_all.
  2:{ intros x [<-|Hx]; unfold tag_is.
      - unfold e0. rewrite etag_eset, etag_jspan. reflexivity.
      - assert (Hx' : In x (jspans us sid t n 0)) by (rewrite jspans_cons; now right).
        apply jspans_in in Hx' as (t' & n' & b' & ->). rewrite etag_jspan. reflexivity. }
  rewrite keyed_ok.
  2:{ intros x [<-|Hx].
      - unfold e0. rewrite attr_eset_other by discriminate. rewrite attr_id_jspan. discriminate.
      - assert (Hx' : In x (jspans us sid t n 0)) by (rewrite jspans_cons; now right).
        apply jspans_in in Hx' as (t' & n' & b' & ->). rewrite attr_id_jspan. discriminate. }
  set (D := map bind (e0 :: jkids us sid t n 0)).
  assert (Hid0 : idof e0 = span_id sid n).
  { unfold idof, e0. rewrite attr_eset_other by discriminate. now rewrite attr_id_jspan. }
  assert (Hnd : NoDup (map fst D)).
  { unfold D. rewrite map_map. cbn [map bind fst]. rewrite Hid0. rewrite <- (idof_jspan us sid t n 0).
    change (NoDup (map idof (jspan us sid t n 0 :: jkids us sid t n 0))). rewrite <- jspans_cons. apply jspans_ids_nodup. }
  change (attr a_root (El g_ccg ([(a_id, ccg_id sid j); (a_root, span_id sid n)] ++ match sc with Some s => [(a_score, s)] | None => [] end) (e0 :: jkids us sid t n 0)))
    with (Some (span_id sid n)).
  cbv iota beta.
  rewrite (dict_last_in (span_id sid n) e0 D Hnd) by (left; unfold bind; now rewrite Hid0).
  unfold e0. rewrite rj_node_eset. apply (rj_jspan puncts parse parse_show guess us sid D toks t n 0 (S (length D)) Hc).
  - apply resolves_incl; [exact Hnd|]. unfold D. intros x Hx. now right.
  - exact Ht.
  - unfold D. rewrite map_length. cbn [length]. change (S (length (jkids us sid t n 0))) with (length (jspan us sid t n 0 :: jkids us sid t n 0)).
    rewrite <- jspans_cons, jspans_length. pose proof (height_le_nnodes t). lia.
Qed.

End JiggRT2.

(* ---- tokens ---- *)
Definition jigg_reserved : list text := [a_id; a_start; a_cat].
(* a token that to_jigg_xml writes faithfully: a dict with a 'word' whose keys do not overwrite id / start / cat *)
Definition tok_jigg_ok (tok : token) : Prop :=
  NoDup (keys tok) /\ In k_word (keys tok) /\ (forall k, In k jigg_reserved -> ~ In k (keys tok)).

Lemma jr_nodup tok : NoDup (keys tok) -> NoDup (keys (jigg_rename tok)).
Proof.
  intros H. unfold jigg_rename.
  assert (H1 : NoDup (keys (match tok_get k_word tok with Some v => attr_set a_surf v (attr_del k_word tok) | None => tok end))).
  { destruct (tok_get k_word tok); [apply keys_set_nodup; now apply keys_del_nodup | exact H]. }
  destruct (tok_get k_lemma _); [apply keys_set_nodup; now apply keys_del_nodup | exact H1].
Qed.
Lemma jr_keys tok x : In x (keys (jigg_rename tok)) -> x = a_surf \/ x = a_base \/ In x (keys tok).
Proof.
  unfold jigg_rename. set (t1 := match tok_get k_word tok with Some v => attr_set a_surf v (attr_del k_word tok) | None => tok end).
  assert (H1 : In x (keys t1) -> x = a_surf \/ In x (keys tok)).
  { unfold t1. destruct (tok_get k_word tok); [|tauto]. intros H. apply keys_set_in in H as [H|H]; [tauto|]. right. now apply keys_del_incl in H. }
  destruct (tok_get k_lemma t1); intros H.
  - apply keys_set_in in H as [H|H]; [tauto|]. apply keys_del_incl in H. tauto.
  - tauto.
Qed.
Lemma jr_surface tok : NoDup (keys tok) -> In k_word (keys tok) -> surface (jigg_rename tok) = Some (word_of tok).
Proof.
  intros Hnd Hw. destruct (attr_get_in _ _ Hw) as [w Hgw]. unfold word_of, tok_get_default. unfold attr_get in Hgw. rewrite Hgw.
  unfold jigg_rename. rewrite Hgw. set (t1 := attr_set a_surf w (attr_del k_word tok)).
  assert (A1 : attr_get k_word t1 = None).
  { unfold t1. rewrite attr_get_set_other by discriminate. now apply attr_get_del_same. }
  assert (B1 : attr_get a_surf t1 = Some w) by apply attr_get_set_same.
  unfold surface. destruct (tok_get k_lemma t1) as [v|].
  - change tok_get with attr_get. rewrite attr_get_set_other by discriminate. rewrite attr_get_del_other by discriminate. rewrite A1.
    rewrite attr_get_set_other by discriminate. rewrite attr_get_del_other by discriminate. exact B1.
  - change tok_get with attr_get. now rewrite A1.
Qed.

Lemma rj_token_jtoken sid i c tok : tok_jigg_ok tok -> rj_token (jtoken sid i (c, tok)) = Some (tok_id sid i, jigg_rename tok).
Proof.
  intros (Hnd & Hw & Hres). unfold jtoken. cbn [fst snd].
  rewrite attr_set_all_fresh.
  - reflexivity.
  - assert (R : forall k, In k jigg_reserved -> ~ In k (keys (jigg_rename tok))).
    { intros k Hk Hin. apply jr_keys in Hin as [->|[->|Hin]].
      - simpl in Hk. destruct Hk as [E|[E|[E|[]]]]; discriminate E.
      - simpl in Hk. destruct Hk as [E|[E|[E|[]]]]; discriminate E.
      - now apply (Hres k). }
    simpl. constructor; [simpl; intros [E|[E|E]]; try discriminate E; revert E; apply R; simpl; tauto|].
    constructor; [simpl; intros [E|E]; try discriminate E; revert E; apply R; simpl; tauto|].
    constructor; [apply R; simpl; tauto | now apply jr_nodup].
Qed.

Lemma mapi_nth {A B} (f : nat -> A -> B) l : forall s i, nth_error (mapi f s l) i = option_map (f (s + i)%nat) (nth_error l i).
Proof.
  induction l as [|x l IH]; intros s i; destruct i; simpl; try reflexivity.
  - now rewrite Nat.add_0_r.
  - rewrite IH. now rewrite Nat.add_succ_r.
Qed.
Lemma mapi_fst_seq {A B} (g : nat -> text) (h : A -> B) l : forall s, map fst (mapi (fun i x => (g i, h x)) s l) = map g (seq s (length l)).
Proof. induction l as [|x l IH]; intros s; simpl; [reflexivity | now rewrite IH]. Qed.

Definition tokdict (sid : nat) (lv : list (cat * token)) : list (text * token) := mapi (fun i ct => (tok_id sid i, jigg_rename (snd ct))) 0 lv.

Lemma tokres_of_list sid toksD t : forall b,
  (forall i tok, nth_error (tokens t) i = Some tok ->
     exists tk, dict_last (tok_id sid (b + i)) toksD = Some tk /\ surface tk = Some (word_of tok)) ->
  tokres sid toksD t b.
Proof.
  unfold tokens. induction t as [c tok o s | c o s t1 IH | c o s h l IHl r IHr]; intros b H; cbn [tokres].
  - specialize (H 0%nat tok eq_refl). now rewrite Nat.add_0_r in H.
  - apply IH. exact H.
  - cbn [leaves] in H. rewrite map_app in H. split.
    + apply IHl. intros i tok Hi. apply H. rewrite nth_error_app1; [exact Hi|]. apply nth_error_Some. congruence.
    + apply IHr. intros i tok Hi. replace (b + nleaves l + i)%nat with (b + (nleaves l + i))%nat by lia. apply H.
      rewrite nth_error_app2 by (rewrite map_length, nleaves_length; lia).
      rewrite map_length, nleaves_length. now replace (nleaves l + i - nleaves l)%nat with i by lia.
Qed.

Lemma tokres_tokdict sid t0 t : Forall tok_jigg_ok (tokens t0) -> tokens t = tokens t0 -> tokres sid (tokdict sid (leaves t0)) t 0.
Proof.
  intros Hok Hsame. apply tokres_of_list. intros i tok Hi. rewrite Hsame in Hi. cbn [Nat.add].
  exists (jigg_rename tok). unfold tokens in Hi. rewrite nth_error_map in Hi.
  destruct (nth_error (leaves t0) i) as [[c tk]|] eqn:E; [|discriminate]. simpl in Hi. inversion Hi; subst tk.
  assert (Htok : tok_jigg_ok tok).
  { rewrite Forall_forall in Hok. apply Hok. unfold tokens. apply in_map_iff. exists (c, tok). split; [reflexivity|]. now apply nth_error_In in E. }
  split.
  - apply dict_last_in.
    + unfold tokdict. rewrite (mapi_fst_seq (tok_id sid) (fun ct => jigg_rename (snd ct))). apply NoDup_map_inj; [apply tok_id_inj | apply seq_NoDup].
    + apply (nth_error_In _ i). unfold tokdict. rewrite mapi_nth, E. reflexivity.
  - destruct Htok as (Hnd & Hw & _). now apply jr_surface.
Qed.

(* ---- sentences and documents ---- *)
Lemma descendants_El t a ks : descendants (El t a ks) = flat_map (fun k => k :: descendants k) ks.
Proof. reflexivity. Qed.

Lemma flat_leafs l : (forall e, In e l -> ekids e = []) -> flat_map (fun k => k :: descendants k) l = l.
Proof.
  induction l as [|x l IH]; intros H; simpl; [reflexivity|].
  assert (Hx : descendants x = []).
  { specialize (H x (or_introl eq_refl)). destruct x as [t a ks]. simpl in H. subst ks. reflexivity. }
  rewrite Hx. simpl. f_equal. apply IH. intros e He. apply H. now right.
Qed.

Lemma sequence_mapi {A B C} (f : B -> option C) (g : nat -> A -> B) (h : nat -> A -> C) l :
  forall s, (forall i x, In x l -> f (g i x) = Some (h i x)) -> sequence (map f (mapi g s l)) = Some (mapi h s l).
Proof.
  induction l as [|x l IH]; intros s H; simpl; [reflexivity|].
  rewrite (H s x (or_introl eq_refl)). rewrite IH; [reflexivity|]. intros i y Hy. apply H. now right.
Qed.

Section JiggRT3.
Variable puncts : list text.
Variable parse : text -> option cat.
Hypothesis parse_show : forall c, wf puncts c -> parse (show c) = Some c.
Variable guess : cat -> cat -> cat -> text * text * bool.
Variable us : bool.

Definition nbest_ok (nb : list (tree * option text)) : Prop :=
  match nb with
  | [] => False
  | (t0, _) :: _ => Forall tok_jigg_ok (tokens t0) /\ Forall (fun ts => cats_ok puncts (fst ts) /\ tokens (fst ts) = tokens t0) nb
  end.
Definition jigg_results (sid : nat) (nb : list (tree * option text)) : list reader_result :=
  match nb with
  | [] => []
  | (t0, _) :: _ => mapi (fun j ts => (ccg_id sid j, map jigg_rename (tokens t0), jigg_image guess (fst ts))) 0 nb
  end.

Definition span_leaf (e : elem) : Prop := etag e = g_span /\ ekids e = [].
Lemma mark_root_jspans_leaf sid t n b x : In x (mark_root (jspans us sid t n b)) -> span_leaf x.
Proof.
  rewrite jspans_cons. cbn [mark_root]. intros [<-|H].
  - split; [now rewrite etag_eset, etag_jspan | now rewrite ekids_eset, ekids_jspan].
  - assert (H' : In x (jspans us sid t n b)) by (rewrite jspans_cons; now right).
    apply jspans_in in H' as (t' & n' & b' & ->). split; [apply etag_jspan | apply ekids_jspan].
Qed.

Lemma jccgs_in sid ts : forall n j e, In e (jccgs us sid ts n j) -> exists t sc n' j', e = jccg us sid t sc n' j'.
Proof.
  induction ts as [|[t sc] ts IH]; intros n j e H; simpl in H; [contradiction|].
  destruct H as [<-|H]; [eauto | now apply IH in H].
Qed.

Lemma jccg_desc_not_token sid t sc n j x : In x (jccg us sid t sc n j :: descendants (jccg us sid t sc n j)) -> tag_is g_token x = false.
Proof.
  intros [<-|H]; [reflexivity|]. unfold jccg in H. cbn [descendants] in H.
  rewrite flat_leafs in H by (intros e He; now apply mark_root_jspans_leaf in He as [_ ?]).
  apply mark_root_jspans_leaf in H as [Ht _]. unfold tag_is. rewrite Ht. reflexivity.
Qed.

Lemma tokdict_tokens sid lv : map snd (tokdict sid lv) = map jigg_rename (map snd lv).
Proof. unfold tokdict. generalize 0%nat. induction lv as [|x lv IH]; intros s; simpl; [reflexivity | now rewrite IH]. Qed.

Lemma jccgs_read sid tids ts : forall n j,
  Forall (fun x => cats_ok puncts (fst x) /\ tokres sid tids (fst x) 0) ts ->
  sequence (map (fun ccg => match rj_ccg parse guess tids ccg, attr a_id ccg with
                            | Some t, Some name => Some (name, map snd tids, t)
                            | _, _ => None end) (jccgs us sid ts n j))
  = Some (mapi (fun j x => (ccg_id sid j, map snd tids, jigg_image guess (fst x))) j ts).
Proof.
  induction ts as [|[t sc] ts IH]; intros n j H; simpl; [reflexivity|].
  inversion H as [|? ? [Hc Ht] Hrest]; subst. cbn [fst] in *.
  rewrite (rj_ccg_jccg puncts parse parse_show guess us sid tids t sc n j Hc Ht).
  change (attr a_id (jccg us sid t sc n j)) with (Some (ccg_id sid j)). cbv iota beta.
  now rewrite (IH _ _ Hrest).
Qed.

Lemma rj_sentence_jsentence sid nb : nbest_ok nb ->
  exists s, jsentence us sid nb = Some s /\ etag s = g_sentence /\ rj_sentence parse guess s = Some (jigg_results sid nb).
Proof.
  destruct nb as [|[t0 sc0] rest]; [intros []|]. intros [Htok Hall].
  set (nb := (t0, sc0) :: rest) in *. unfold jsentence. fold nb.
  eexists. split; [reflexivity|]. split; [reflexivity|].
  unfold rj_sentence.
  set (tks := mapi (jtoken sid) 0 (leaves t0)).
  assert (Hdesc : filter (tag_is g_token) (descendants (El g_sentence [] (El g_tokens [] tks :: jccgs us sid nb 0 0))) = tks).
  { rewrite descendants_El. cbn [flat_map]. rewrite <- app_comm_cons. cbn [filter].
    change (tag_is g_token (El g_tokens [] tks)) with false. cbv iota.
    rewrite filter_app. rewrite (filter_none _ (flat_map _ (jccgs us sid nb 0 0))).
    - rewrite app_nil_r. rewrite descendants_El. rewrite flat_leafs.
      + apply filter_all. intros x Hx. unfold tks in Hx. apply mapi_in in Hx as (i & ct & _ & ->). reflexivity.
      + intros x Hx. unfold tks in Hx. apply mapi_in in Hx as (i & ct & _ & ->). reflexivity.
    - intros x Hx. apply in_flat_map in Hx as (k & Hk & Hx). apply jccgs_in in Hk as (t & sc & n' & j' & ->).
      now apply jccg_desc_not_token in Hx. }
  rewrite Hdesc. unfold tks.
  rewrite (sequence_mapi rj_token (jtoken sid) (fun i ct => (tok_id sid i, jigg_rename (snd ct)))).
  2:{ intros i [c tok] Hin. apply rj_token_jtoken. rewrite Forall_forall in Htok. apply Htok. unfold tokens. apply in_map_iff.
      exists (c, tok). split; [reflexivity | exact Hin]. }
  fold (tokdict sid (leaves t0)). cbn [ekids filter]. change (tag_is g_ccg (El g_tokens [] (mapi (jtoken sid) 0 (leaves t0)))) with false. cbv iota.
  rewrite filter_all.
  2:{ intros x Hx. apply jccgs_in in Hx as (t & sc & n' & j' & ->). reflexivity. }
  rewrite (jccgs_read sid (tokdict sid (leaves t0)) nb 0 0).
  - unfold jigg_results, nb. rewrite tokdict_tokens. reflexivity.
  - apply Forall_forall. intros [t sc] Hin. rewrite Forall_forall in Hall. destruct (Hall _ Hin) as [Hc Hs]. cbn [fst] in *.
    split; [exact Hc | now apply tokres_tokdict].
Qed.

Lemma jsentences_read doc : forall s, Forall nbest_ok doc ->
  exists ss, sequence (mapi (jsentence us) s doc) = Some ss /\ (forall e, In e ss -> tag_is g_sentence e = true) /\
             sequence (map (rj_sentence parse guess) ss) = Some (mapi jigg_results s doc).
Proof.
  induction doc as [|nb doc IH]; intros s H; simpl.
  - exists []. split; [reflexivity|]. split; [intros e []|reflexivity].
  - inversion H as [|? ? Hnb Hdoc]; subst. destruct (rj_sentence_jsentence s nb Hnb) as (e & He & Htag & Hr).
    destruct (IH (S s) Hdoc) as (ss & Hss & Htags & Hrs). exists (e :: ss). rewrite He, Hss. split; [reflexivity|]. split.
    + intros x [<-|Hx]; [unfold tag_is; rewrite Htag; reflexivity | now apply Htags].
    + simpl. now rewrite Hr, Hrs.
Qed.

Theorem read_jigg_enc doc : Forall nbest_ok doc ->
  exists root, enc_jigg us doc = Some root /\ read_jigg parse guess root = Some (concat (mapi jigg_results 0 doc)).
Proof.
  intros H. destruct (jsentences_read doc 0 H) as (ss & Hss & Htags & Hrs). unfold enc_jigg. rewrite Hss.
  eexists. split; [reflexivity|]. unfold read_jigg. cbn [ekids]. rewrite (filter_all _ ss Htags). now rewrite Hrs.
Qed.

(* ---- what "the same categories, shape and words" means ---- *)
Inductive jigg_same : tree -> tree -> Prop :=
| js_leaf c tok o s w o' s' : tok_get k_word tok = Some w -> jigg_same (Leaf c tok o s) (Leaf c [(k_word, w)] o' s')
| js_un c o s o' s' t t' : jigg_same t t' -> jigg_same (Un c o s t) (Un c o' s' t')
| js_bin c o s h o' s' h' l l' r r' : jigg_same l l' -> jigg_same r r' -> jigg_same (Bin c o s h l r) (Bin c o' s' h' l' r').

Lemma jigg_image_same t : Forall tok_jigg_ok (tokens t) -> jigg_same t (jigg_image guess t).
Proof.
  unfold tokens. induction t as [c tok o s | c o s t1 IH | c o s h l IHl r IHr]; intros H; cbn [jigg_image].
  - constructor. cbn [leaves map] in H. inversion H as [|? ? (Hnd & Hw & _) _]; subst. cbn [snd] in Hw.
    destruct (attr_get_in _ _ Hw) as [w Hgw]. unfold word_of, tok_get_default. unfold attr_get in Hgw. now rewrite Hgw.
  - constructor. now apply IH.
  - cbn [leaves] in H. rewrite map_app in H. apply Forall_app in H as [Hl Hr]. destruct (guess c _ _) as [[? ?] ?].
    constructor; [now apply IHl | now apply IHr].
Qed.

Definition doc_trees (doc : list (list (tree * option text))) : list tree := map fst (concat doc).

Lemma jigg_results_same sid nb : nbest_ok nb -> Forall2 (fun t r => jigg_same t (snd r)) (map fst nb) (jigg_results sid nb).
Proof.
  destruct nb as [|[t0 sc0] rest]; [intros []|]. intros [Htok Hall]. unfold jigg_results.
  generalize 0%nat as j. revert Hall. generalize ((t0, sc0) :: rest) as l.
  induction l as [|[t sc] l IHl]; intros Hall j; simpl; constructor.
  - cbn [snd fst]. inversion Hall as [|? ? [_ Hs] _]; subst. cbn [fst] in Hs. apply jigg_image_same. now rewrite Hs.
  - apply IHl. now inversion Hall.
Qed.

Theorem read_jigg_enc_same doc : Forall nbest_ok doc ->
  exists root rs, enc_jigg us doc = Some root /\ read_jigg parse guess root = Some rs /\
                  Forall2 (fun t r => jigg_same t (snd r)) (doc_trees doc) rs.
Proof.
  intros H. destruct (read_jigg_enc doc H) as (root & He & Hr). exists root, (concat (mapi jigg_results 0 doc)).
  split; [exact He|]. split; [exact Hr|]. clear He Hr root. unfold doc_trees. generalize 0%nat as s.
  induction H as [|nb doc Hnb Hdoc IH]; intros s; simpl; [constructor|].
  rewrite map_app. apply Forall2_app; [now apply jigg_results_same | apply IH].
Qed.
End JiggRT3.

(* ================= ccg2lambda: build_ccg_tree on a <ccg> written by to_jigg_xml ================= *)
Definition add_kids (e : elem) (ks : list elem) : elem := match e with El t a k => El t a (k ++ ks) end.

Lemma bct_go_S f ccg i :
  bct_go (S f) ccg i =
  match find_by_id i ccg with
  | None => None
  | Some e =>
      match attr_get a_child (eattrs e) with
      | None => Some e
      | Some ch => match sequence (map (bct_go f ccg) (py_split ch)) with Some ks => Some (add_kids e ks) | None => None end
      end
  end.
Proof. simpl. destruct (find_by_id i ccg) as [[tag a kids]|]; reflexivity. Qed.

Lemma idc_not_space x : idc x = true -> py_space x = false.
Proof. unfold idc. intros H. apply andb_true_iff in H as [H _]. now apply negb_true_iff in H. Qed.

Lemma py_split_go_idc a : forall r acc, forallb idc a = true -> py_split_go (a ++ r) acc = py_split_go r (rev a ++ acc).
Proof.
  induction a as [|x a IH]; intros r acc H; simpl; [reflexivity|].
  simpl in H. apply andb_true_iff in H as [Hx Ha]. rewrite (idc_not_space x Hx). rewrite IH by exact Ha. now rewrite <- app_assoc.
Qed.
Lemma flush_rev a : a <> [] -> flush (rev a ++ []) = [a].
Proof.
  intros H. rewrite app_nil_r. unfold flush. destruct (rev a) eqn:E.
  - exfalso. apply H. rewrite <- (rev_involutive a), E. reflexivity.
  - rewrite <- E, rev_involutive. reflexivity.
Qed.
Lemma py_split_one a : a <> [] -> forallb idc a = true -> py_split a = [a].
Proof.
  intros Hne H. unfold py_split. rewrite <- (app_nil_r a) at 1. rewrite py_split_go_idc by exact H. simpl. now apply flush_rev.
Qed.
Lemma py_split_two a b : a <> [] -> b <> [] -> forallb idc a = true -> forallb idc b = true -> py_split (a ++ [cSP] ++ b) = [a; b].
Proof.
  intros Ha Hb Hia Hib. unfold py_split. rewrite py_split_go_idc by exact Hia. cbn [app py_split_go].
  change (py_space cSP) with true. cbv iota. rewrite flush_rev by exact Ha. cbn [app]. f_equal.
  rewrite <- (app_nil_r b) at 1. rewrite py_split_go_idc by exact Hib. simpl. now apply flush_rev.
Qed.
Lemma span_id_nonnil sid n : span_id sid n <> [].
Proof. discriminate. Qed.

Lemma NoDup_map_in_inj {A B} (f : A -> B) l x y : NoDup (map f l) -> In x l -> In y l -> f x = f y -> x = y.
Proof.
  induction l as [|z l IH]; simpl; intros Hnd Hx Hy E; [contradiction|].
  inversion Hnd as [|? ? Hz Hnd']; subst. destruct Hx as [->|Hx], Hy as [->|Hy]; try reflexivity.
  - exfalso. apply Hz. rewrite E. now apply in_map.
  - exfalso. apply Hz. rewrite <- E. now apply in_map.
  - now apply IH.
Qed.
Lemma find_unique {A} (p : A -> bool) l x : In x l -> p x = true -> (forall y, In y l -> p y = true -> y = x) -> find p l = Some x.
Proof.
  induction l as [|z l IH]; simpl; intros Hx Hp Hu; [contradiction|].
  destruct (p z) eqn:E.
  - f_equal. apply Hu; [now left | exact E].
  - destruct Hx as [->|Hx]; [congruence|]. apply IH; [exact Hx | exact Hp|]. intros y Hy. apply Hu. now right.
Qed.

Section Bct.
Variable us : bool.
Variable sid : nat.
Notation jspan := (jspan us sid).

Definition mark (root : bool) (e : elem) : elem := if root then eset a_root v_true e else e.
(* the nested element ccg2lambda works on *)
Fixpoint nest (root : bool) (t : tree) (n b : nat) : elem :=
  match t with
  | Leaf _ _ _ _ => mark root (jspan t n b)
  | Un _ _ _ t1 => add_kids (mark root (jspan t n b)) [nest false t1 (S n) b]
  | Bin _ _ _ _ l r =>
      add_kids (mark root (jspan t n b)) [nest false l (S n) b; nest false r (S n + nnodes l)%nat (b + nleaves l)%nat]
  end.

Variable ccg : elem.
Definition BRes (root : bool) (t : tree) (n b : nat) : Prop := find_by_id (span_id sid n) ccg = Some (mark root (jspan t n b)).
Fixpoint bresolves (t : tree) (n b : nat) : Prop :=
  match t with
  | Leaf _ _ _ _ => True
  | Un _ _ _ t1 => BRes false t1 (S n) b /\ bresolves t1 (S n) b
  | Bin _ _ _ _ l r =>
      BRes false l (S n) b /\ bresolves l (S n) b /\
      BRes false r (S n + nnodes l)%nat (b + nleaves l)%nat /\ bresolves r (S n + nnodes l)%nat (b + nleaves l)%nat
  end.

Lemma attr_child_mark root e : attr_get a_child (eattrs (mark root e)) = attr_get a_child (eattrs e).
Proof. destruct root; [|reflexivity]. destruct e as [t a ks]. cbn [mark eset eattrs]. apply attr_get_set_other. discriminate. Qed.

Lemma bct_nest t : forall root n b f, BRes root t n b -> bresolves t n b -> (height t <= f)%nat ->
  bct_go f ccg (span_id sid n) = Some (nest root t n b).
Proof.
  induction t as [c tok o s | c o s t1 IH | c o s h l IHl r IHr]; intros root n b f HR Hr Hf;
    (destruct f as [|f]; [simpl in Hf; lia|]); rewrite bct_go_S; unfold BRes in HR; rewrite HR; rewrite attr_child_mark.
  - reflexivity.
  - destruct Hr as [R1 Hr1]. simpl in Hf.
    change (attr_get a_child (eattrs (jspan (Un c o s t1) n b))) with (Some (span_id sid (S n))). cbv iota beta.
    rewrite py_split_one by (apply span_id_nonnil || apply span_id_idc). cbn [map].
    rewrite (IH false (S n) b f R1 Hr1) by lia. reflexivity.
  - destruct Hr as (Rl & Hrl & Rr & Hrr). simpl in Hf.
    change (attr_get a_child (eattrs (jspan (Bin c o s h l r) n b))) with (Some (span_id sid (S n) ++ [cSP] ++ span_id sid (S n + nnodes l))).
    cbv iota beta. rewrite py_split_two by (apply span_id_nonnil || apply span_id_idc). cbn [map].
    rewrite (IHl false (S n) b f Rl Hrl) by lia. rewrite (IHr false _ _ f Rr Hrr) by lia. reflexivity.
Qed.
End Bct.

Section Bct2.
Variable us : bool.
Variable sid : nat.

Lemma desc_jccg t sc n j : descendants (jccg us sid t sc n j) = mark_root (jspans us sid t n 0).
Proof.
  unfold jccg. rewrite descendants_El. apply flat_leafs. intros e He.
  apply (mark_root_jspans_leaf us sid t n 0) in He as [_ ?]. assumption.
Qed.

Lemma mark_root_ids t n b : map idof (mark_root (jspans us sid t n b)) = map idof (jspans us sid t n b).
Proof.
  rewrite jspans_cons. cbn [mark_root map]. f_equal. unfold idof. rewrite attr_eset_other by discriminate. reflexivity.
Qed.

Lemma find_in_jccg t sc n j e : In e (mark_root (jspans us sid t n 0)) -> attr a_id e = Some (idof e) ->
  find_by_id (idof e) (jccg us sid t sc n j) = Some e.
Proof.
  intros Hin Hid. unfold find_by_id.
  assert (Hm : exists m, idof e = span_id sid m).
  { assert (H : In (idof e) (map idof (mark_root (jspans us sid t n 0)))) by now apply in_map.
    rewrite mark_root_ids, jspans_ids in H. apply in_map_iff in H as (m & <- & _). eauto. }
  destruct Hm as [m Hm]. rewrite Hm.
  rewrite (idc_has cDQ (span_id sid m)) by (reflexivity || apply span_id_idc).
  unfold desc_or_self. rewrite desc_jccg. cbn [find].
  change (attr a_id (jccg us sid t sc n j)) with (Some (ccg_id sid j)). cbv iota beta.
  destruct (text_eqb (ccg_id sid j) (span_id sid m)) eqn:E.
  { apply text_eqb_eq in E. symmetry in E. now apply span_id_not_ccg_id in E. }
  apply find_unique; [exact Hin | rewrite Hid, Hm; apply text_eqb_refl |].
  intros y Hy Hp. destruct (attr a_id y) as [k|] eqn:Ek; [|discriminate]. apply text_eqb_eq in Hp.
  apply (NoDup_map_in_inj idof (mark_root (jspans us sid t n 0))); [rewrite mark_root_ids; apply jspans_ids_nodup | exact Hy | exact Hin |].
  unfold idof at 1. rewrite Ek, Hp. now symmetry.
Qed.

Lemma bresolves_jccg t0 sc n0 j t : forall n b, incl (jkids us sid t n b) (mark_root (jspans us sid t0 n0 0)) ->
  bresolves us sid (jccg us sid t0 sc n0 j) t n b.
Proof.
  induction t as [c tok o s | c o s t1 IH | c o s h l IHl r IHr]; intros n b Hin; cbn [bresolves].
  - exact I.
  - rewrite jkids_un, jspans_cons in Hin. split.
    + unfold BRes, mark. rewrite <- (idof_jspan us sid t1 (S n) b). apply find_in_jccg; [apply Hin; now left|].
      rewrite attr_id_jspan, idof_jspan. reflexivity.
    + apply IH. intros x Hx. apply Hin. now right.
  - rewrite jkids_bin in Hin. repeat split.
    + unfold BRes, mark. rewrite <- (idof_jspan us sid l (S n) b). apply find_in_jccg.
      * apply Hin. apply in_or_app. left. rewrite jspans_cons. now left.
      * rewrite attr_id_jspan, idof_jspan. reflexivity.
    + apply IHl. intros x Hx. apply Hin. apply in_or_app. left. rewrite jspans_cons. now right.
    + unfold BRes, mark. rewrite <- (idof_jspan us sid r (S n + nnodes l) (b + nleaves l)). apply find_in_jccg.
      * apply Hin. apply in_or_app. right. rewrite jspans_cons. now left.
      * rewrite attr_id_jspan, idof_jspan. reflexivity.
    + apply IHr. intros x Hx. apply Hin. apply in_or_app. right. rewrite jspans_cons. now right.
Qed.

Theorem build_ccg_tree_jccg t sc n j : build_ccg_tree (jccg us sid t sc n j) = Some (Some (nest us sid true t n 0)).
Proof.
  unfold build_ccg_tree. unfold jccg at 1. cbn [ekids]. rewrite jspans_cons. cbn [mark_root].
  change (attr a_root (jccg us sid t sc n j)) with (Some (span_id sid n)). cbv iota beta.
  rewrite (bct_nest us sid (jccg us sid t sc n j) t true n 0).
  - reflexivity.
  - unfold BRes, mark. set (e0 := eset a_root v_true (jspan us sid t n 0)).
    assert (Hid : idof e0 = span_id sid n) by (unfold idof, e0; rewrite attr_eset_other by discriminate; now rewrite attr_id_jspan).
    rewrite <- Hid. apply find_in_jccg.
    + rewrite jspans_cons. now left.
    + unfold e0 at 1. rewrite attr_eset_other by discriminate. rewrite attr_id_jspan, Hid. reflexivity.
  - apply bresolves_jccg. intros x Hx. rewrite jspans_cons. now right.
  - unfold desc_or_self. rewrite desc_jccg. cbn [length]. rewrite jspans_cons. cbn [mark_root length].
    change (S (length (jkids us sid t n 0))) with (length (jspan us sid t n 0 :: jkids us sid t n 0)).
    rewrite <- jspans_cons, jspans_length. pose proof (height_le_nnodes t). lia.
Qed.

(* ---- the built tree is the derivation ---- *)
Inductive ccg_iso : tree -> nat -> elem -> Prop :=
| iso_leaf c tok o s b e : etag e = g_span -> attr a_category e = Some (cmv c) -> attr a_child e = None ->
    attr a_terminal e = Some (tok_id sid b) -> ekids e = [] -> ccg_iso (Leaf c tok o s) b e
| iso_un c o s t1 b e k : etag e = g_span -> attr a_category e = Some (cmv c) -> attr a_rule e = Some (if us then s else o) ->
    ekids e = [k] -> ccg_iso t1 b k -> ccg_iso (Un c o s t1) b e
| iso_bin c o s h l r b e kl kr : etag e = g_span -> attr a_category e = Some (cmv c) -> attr a_rule e = Some (if us then s else o) ->
    ekids e = [kl; kr] -> ccg_iso l b kl -> ccg_iso r (b + nleaves l)%nat kr -> ccg_iso (Bin c o s h l r) b e.

Lemma attr_mark k root e : k <> a_root -> attr k (mark root e) = attr k e.
Proof. intros H. destruct root; [now apply attr_eset_other | reflexivity]. Qed.
Lemma etag_mark root e : etag (mark root e) = etag e.
Proof. destruct root; [apply etag_eset | reflexivity]. Qed.
Lemma ekids_mark root e : ekids (mark root e) = ekids e.
Proof. destruct root; [apply ekids_eset | reflexivity]. Qed.
Lemma attr_add_kids k e ks : attr k (add_kids e ks) = attr k e.
Proof. now destruct e. Qed.
Lemma etag_add_kids e ks : etag (add_kids e ks) = etag e.
Proof. now destruct e. Qed.
Lemma ekids_add_kids e ks : ekids (add_kids e ks) = ekids e ++ ks.
Proof. now destruct e. Qed.

Lemma nest_iso t : forall root n b, ccg_iso t b (nest us sid root t n b).
Proof.
  induction t as [c tok o s | c o s t1 IH | c o s h l IHl r IHr]; intros root n b; cbn [nest].
  - constructor; rewrite ?etag_mark, ?ekids_mark, ?attr_mark by discriminate; reflexivity.
  - econstructor; rewrite ?etag_add_kids, ?attr_add_kids, ?ekids_add_kids, ?etag_mark, ?ekids_mark, ?attr_mark by discriminate;
      try reflexivity. apply IH.
  - econstructor; rewrite ?etag_add_kids, ?attr_add_kids, ?ekids_add_kids, ?etag_mark, ?ekids_mark, ?attr_mark by discriminate;
      try reflexivity; [apply IHl | apply IHr].
Qed.
End Bct2.

(* ================= a Jigg <sentence> is self-contained ================= *)
Definition has_terminal (e : elem) : bool := match attr a_terminal e with Some _ => true | None => false end.
Definition is_root (e : elem) : bool := match attr a_root e with Some v => text_eqb v v_true | None => false end.
Definition ccg_spans (ccg : elem) : list elem := filter (tag_is g_span) (ekids ccg).
Definition sent_ccgs (s : elem) : list elem := filter (tag_is g_ccg) (ekids s).
Definition sent_tokens (s : elem) : list elem := filter (tag_is g_token) (descendants s).

(* a span is a leaf over token i with offsets [i, i+1), or its children resolve among the spans of its <ccg> and their offsets tile it *)
Inductive span_ok (tokids : list text) (spans : list elem) (s : elem) : Prop :=
| so_leaf i tid : attr a_child s = None -> attr a_terminal s = Some tid -> nth_error tokids i = Some tid ->
    attr a_begin s = Some (dec i) -> attr a_end s = Some (dec (S i)) -> span_ok tokids spans s
| so_un cid k bg en : attr a_terminal s = None -> attr a_child s = Some cid -> has cSP cid = false ->
    In k spans -> attr a_id k = Some cid ->
    attr a_begin s = Some bg -> attr a_begin k = Some bg -> attr a_end s = Some en -> attr a_end k = Some en -> span_ok tokids spans s
| so_bin lid rid kl kr bg mid en : attr a_terminal s = None -> attr a_child s = Some (lid ++ [cSP] ++ rid) ->
    has cSP lid = false -> has cSP rid = false ->
    In kl spans -> In kr spans -> attr a_id kl = Some lid -> attr a_id kr = Some rid ->
    attr a_begin s = Some bg -> attr a_begin kl = Some bg -> attr a_end kl = Some mid -> attr a_begin kr = Some mid ->
    attr a_end kr = Some en -> attr a_end s = Some en -> span_ok tokids spans s.

Definition ccg_wf (tokids : list text) (ccg : elem) : Prop :=
  let spans := ccg_spans ccg in
  Forall (span_ok tokids spans) spans /\
  (* the terminal spans, in document order, enumerate the tokens of the sentence *)
  map (attr a_terminal) (filter has_terminal spans) = map Some tokids /\
  (* exactly one span carries root="true", and it is the one @root names *)
  exists r, filter is_root spans = [r] /\ attr a_root ccg <> None /\ attr a_id r = attr a_root ccg.

Definition sentence_wf (s : elem) : Prop :=
  exists tokids spanids,
    map (attr a_id) (sent_tokens s) = map Some tokids /\ NoDup tokids /\
    map (attr a_id) (concat (map ccg_spans (sent_ccgs s))) = map Some spanids /\ NoDup spanids /\
    Forall (ccg_wf tokids) (sent_ccgs s).

Section JiggWf.
Variable us : bool.
Variable sid : nat.
Notation jspan := (jspan us sid).
Notation jspans := (jspans us sid).

Lemma attr_begin_jspan t n b : attr a_begin (jspan t n b) = Some (dec b).
Proof. destruct t; reflexivity. Qed.
Lemma attr_end_jspan t n b : attr a_end (jspan t n b) = Some (dec (b + nleaves t)).
Proof. destruct t; reflexivity. Qed.
Lemma attr_root_jspan t n b : attr a_root (jspan t n b) = None.
Proof. destruct t; reflexivity. Qed.

Lemma span_ok_eset tokids spans v e : span_ok tokids spans e -> span_ok tokids spans (eset a_root v e).
Proof.
  intros H. destruct H as [i tid | cid k bg en | lid rid kl kr bg mid en].
  - apply (so_leaf _ _ _ i tid); rewrite ?attr_eset_other by discriminate; assumption.
  - apply (so_un _ _ _ cid k bg en); rewrite ?attr_eset_other by discriminate; assumption.
  - apply (so_bin _ _ _ lid rid kl kr bg mid en); rewrite ?attr_eset_other by discriminate; assumption.
Qed.

Definition toks_from (tokids : list text) (b k : nat) : Prop :=
  forall i, (i < k)%nat -> nth_error tokids (b + i) = Some (tok_id sid (b + i)).

Lemma jspan_ok tokids spans t n b : incl (jkids us sid t n b) spans -> toks_from tokids b (nleaves t) ->
  span_ok tokids spans (jspan t n b).
Proof.
  intros Hin Htok. destruct t as [c tok o s | c o s t1 | c o s h l r].
  - apply (so_leaf _ _ _ b (tok_id sid b)); try reflexivity.
    + specialize (Htok 0%nat). rewrite Nat.add_0_r in Htok. apply Htok. simpl. lia.
    + cbn. now rewrite Nat.add_1_r.
  - apply (so_un _ _ _ (span_id sid (S n)) (jspan t1 (S n) b) (dec b) (dec (b + nleaves t1))); try reflexivity.
    + apply idc_has; [reflexivity | apply span_id_idc].
    + apply Hin. rewrite jkids_un, jspans_cons. now left.
    + apply attr_id_jspan.
    + apply attr_begin_jspan.
    + apply attr_end_jspan.
  - apply (so_bin _ _ _ (span_id sid (S n)) (span_id sid (S n + nnodes l)) (jspan l (S n) b) (jspan r (S n + nnodes l) (b + nleaves l))
             (dec b) (dec (b + nleaves l)) (dec (b + (nleaves l + nleaves r)))); try reflexivity.
    + apply idc_has; [reflexivity | apply span_id_idc].
    + apply idc_has; [reflexivity | apply span_id_idc].
    + apply Hin. rewrite jkids_bin. apply in_or_app. left. rewrite jspans_cons. now left.
    + apply Hin. rewrite jkids_bin. apply in_or_app. right. rewrite jspans_cons. now left.
    + apply attr_id_jspan.
    + apply attr_id_jspan.
    + apply attr_begin_jspan.
    + apply attr_end_jspan.
    + apply attr_begin_jspan.
    + rewrite attr_end_jspan. now rewrite Nat.add_assoc.
Qed.

Lemma toks_from_left tokids b k1 k2 : toks_from tokids b (k1 + k2) -> toks_from tokids b k1.
Proof. intros H i Hi. apply H. lia. Qed.
Lemma toks_from_right tokids b k1 k2 : toks_from tokids b (k1 + k2) -> toks_from tokids (b + k1) k2.
Proof. intros H i Hi. rewrite <- Nat.add_assoc. apply H. lia. Qed.

Lemma jspans_ok tokids spans t : forall n b, incl (jkids us sid t n b) spans -> toks_from tokids b (nleaves t) ->
  Forall (span_ok tokids spans) (jkids us sid t n b).
Proof.
  induction t as [c tok o s | c o s t1 IH | c o s h l IHl r IHr]; intros n b Hin Htok.
  - constructor.
  - rewrite jkids_un in *. rewrite jspans_cons in *. constructor.
    + apply jspan_ok; [|exact Htok]. intros x Hx. apply Hin. now right.
    + apply IH; [|exact Htok]. intros x Hx. apply Hin. now right.
  - rewrite jkids_bin in *. cbn [nleaves] in Htok. apply Forall_app. split; rewrite jspans_cons; constructor.
    + apply jspan_ok; [|now apply toks_from_left in Htok]. intros x Hx. apply Hin. apply in_or_app. left. rewrite jspans_cons. now right.
    + apply IHl; [|now apply toks_from_left in Htok]. intros x Hx. apply Hin. apply in_or_app. left. rewrite jspans_cons. now right.
    + apply jspan_ok; [|now apply toks_from_right in Htok]. intros x Hx. apply Hin. apply in_or_app. right. rewrite jspans_cons. now right.
    + apply IHr; [|now apply toks_from_right in Htok]. intros x Hx. apply Hin. apply in_or_app. right. rewrite jspans_cons. now right.
Qed.

Lemma terminals_jspans t : forall n b,
  map (attr a_terminal) (filter has_terminal (jspans t n b)) = map (fun i => Some (tok_id sid i)) (seq b (nleaves t)).
Proof.
  induction t as [c tok o s | c o s t1 IH | c o s h l IHl r IHr]; intros n b; rewrite jspans_cons.
  - reflexivity.
  - cbn [filter]. change (has_terminal (jspan (Un c o s t1) n b)) with false. cbv iota. rewrite jkids_un. apply IH.
  - cbn [filter]. change (has_terminal (jspan (Bin c o s h l r) n b)) with false. cbv iota. rewrite jkids_bin.
    rewrite filter_app, map_app, IHl, IHr. cbn [nleaves]. now rewrite seq_app, map_app.
Qed.

Lemma roots_jspans t : forall n b, filter is_root (jspans t n b) = [].
Proof.
  intros n b. apply filter_none. intros x Hx. apply jspans_in in Hx as (t' & n' & b' & ->). unfold is_root. now rewrite attr_root_jspan.
Qed.

Lemma ccg_spans_jccg t sc n j : ccg_spans (jccg us sid t sc n j) = mark_root (jspans t n 0).
Proof.
  unfold ccg_spans, jccg. cbn [ekids]. apply filter_all. intros x Hx. apply mark_root_jspans_leaf in Hx as [Ht _]. unfold tag_is. now rewrite Ht.
Qed.

Lemma ccg_wf_jccg tokids t sc n j : tokids = map (tok_id sid) (seq 0 (nleaves t)) -> ccg_wf tokids (jccg us sid t sc n j).
Proof.
  intros Htok. unfold ccg_wf. cbv zeta. rewrite ccg_spans_jccg.
  assert (Hfrom : toks_from tokids 0 (nleaves t)).
  { intros i Hi. subst tokids. cbn [Nat.add]. rewrite nth_error_map. rewrite (nth_error_nth' _ 0%nat) by (rewrite seq_length; exact Hi).
    rewrite seq_nth by exact Hi. reflexivity. }
  rewrite jspans_cons. cbn [mark_root]. set (e0 := eset a_root v_true (jspan t n 0)). repeat split.
  - constructor.
    + unfold e0. apply span_ok_eset. apply jspan_ok; [|exact Hfrom]. intros x Hx. now right.
    + apply jspans_ok; [|exact Hfrom]. intros x Hx. now right.
  - assert (E : map (attr a_terminal) (filter has_terminal (e0 :: jkids us sid t n 0)) =
                map (attr a_terminal) (filter has_terminal (jspan t n 0 :: jkids us sid t n 0))).
    { assert (Ha : attr a_terminal e0 = attr a_terminal (jspan t n 0)) by (unfold e0; now rewrite attr_eset_other by discriminate).
      assert (Hh : has_terminal e0 = has_terminal (jspan t n 0)) by (unfold has_terminal; now rewrite Ha).
      cbn [filter]. rewrite Hh. destruct (has_terminal (jspan t n 0)); cbn [map]; [rewrite Ha|]; reflexivity. }
    rewrite E, <- jspans_cons, terminals_jspans. subst tokids. now rewrite map_map.
  - exists e0. split; [|split].
    + cbn [filter]. assert (R : is_root e0 = true).
      { unfold is_root, e0, attr. destruct (jspan t n 0) as [tg a ks]. cbn [eset eattrs]. rewrite attr_get_set_same. reflexivity. }
      rewrite R. f_equal. pose proof (roots_jspans t n 0) as Hr. rewrite jspans_cons in Hr. cbn [filter] in Hr.
      destruct (is_root (jspan t n 0)); [discriminate Hr | exact Hr].
    + discriminate.
    + unfold e0. rewrite attr_eset_other by discriminate. rewrite attr_id_jspan. reflexivity.
Qed.

Fixpoint total_nodes (ts : list (tree * option text)) : nat :=
  match ts with [] => 0%nat | (t, _) :: r => (nnodes t + total_nodes r)%nat end.

Lemma mark_root_attr_id l : map (attr a_id) (mark_root l) = map (attr a_id) l.
Proof. destruct l as [|e l]; [reflexivity|]. cbn [mark_root map]. now rewrite attr_eset_other by discriminate. Qed.

Lemma jspans_attr_ids t n b : map (attr a_id) (jspans t n b) = map Some (map (span_id sid) (seq n (nnodes t))).
Proof.
  rewrite <- (jspans_ids us sid t n b). rewrite map_map. apply map_ext_in. intros e He. apply jspans_in in He as (t' & n' & b' & ->).
  now rewrite attr_id_jspan, idof_jspan.
Qed.

Lemma jccgs_span_ids ts : forall n j,
  map (attr a_id) (concat (map ccg_spans (jccgs us sid ts n j))) = map Some (map (span_id sid) (seq n (total_nodes ts))).
Proof.
  induction ts as [|[t sc] ts IH]; intros n j; [reflexivity|].
  cbn [jccgs map concat total_nodes]. rewrite map_app, ccg_spans_jccg, mark_root_attr_id, jspans_attr_ids, IH.
  now rewrite seq_app, !map_app.
Qed.
End JiggWf.

Section JiggWf2.
Variable us : bool.

Definition nbest_tok_ok (nb : list (tree * option text)) : Prop :=
  match nb with
  | [] => False
  | (t0, _) :: _ => Forall tok_jigg_ok (tokens t0) /\ Forall (fun ts => tokens (fst ts) = tokens t0) nb
  end.

Lemma sent_ccgs_jsentence tks ccgs :
  (forall x, In x ccgs -> tag_is g_ccg x = true) -> sent_ccgs (El g_sentence [] (El g_tokens [] tks :: ccgs)) = ccgs.
Proof. intros H. unfold sent_ccgs. cbn [ekids filter]. change (tag_is g_ccg (El g_tokens [] tks)) with false. cbv iota. now apply filter_all. Qed.

Lemma sent_tokens_jsentence sid nb t0 :
  sent_tokens (El g_sentence [] (El g_tokens [] (mapi (jtoken sid) 0 (leaves t0)) :: jccgs us sid nb 0 0)) = mapi (jtoken sid) 0 (leaves t0).
Proof.
  unfold sent_tokens. set (tks := mapi (jtoken sid) 0 (leaves t0)).
  rewrite descendants_El. cbn [flat_map]. rewrite <- app_comm_cons. cbn [filter].
  change (tag_is g_token (El g_tokens [] tks)) with false. cbv iota.
  rewrite filter_app. rewrite (filter_none _ (flat_map _ (jccgs us sid nb 0 0))).
  - rewrite app_nil_r. rewrite descendants_El. rewrite flat_leafs.
    + apply filter_all. intros x Hx. unfold tks in Hx. apply mapi_in in Hx as (i & ct & _ & ->). reflexivity.
    + intros x Hx. unfold tks in Hx. apply mapi_in in Hx as (i & ct & _ & ->). reflexivity.
  - intros x Hx. apply in_flat_map in Hx as (k & Hk & Hx). apply jccgs_in in Hk as (t & sc & n' & j' & ->).
    now apply jccg_desc_not_token in Hx.
Qed.

Lemma attr_id_jtoken sid i c tok : tok_jigg_ok tok -> attr a_id (jtoken sid i (c, tok)) = Some (tok_id sid i).
Proof.
  intros H. pose proof (rj_token_jtoken sid i c tok H) as R. unfold rj_token in R.
  destruct (attr a_id (jtoken sid i (c, tok))); [|discriminate]. now inversion R.
Qed.

Theorem jsentence_wf sid nb : nbest_tok_ok nb -> exists s, jsentence us sid nb = Some s /\ sentence_wf s.
Proof.
  destruct nb as [|[t0 sc0] rest]; [intros []|]. intros [Htok Hall]. set (nb := (t0, sc0) :: rest) in *.
  unfold jsentence. fold nb. eexists. split; [reflexivity|].
  exists (map (tok_id sid) (seq 0 (nleaves t0))), (map (span_id sid) (seq 0 (total_nodes nb))).
  rewrite sent_tokens_jsentence.
  rewrite sent_ccgs_jsentence by (intros x Hx; apply jccgs_in in Hx as (t & sc & n' & j' & ->); reflexivity).
  split; [|split; [|split; [|split]]].
  - assert (G : forall lv s, (forall ct, In ct lv -> tok_jigg_ok (snd ct)) ->
                mapi (fun i x => attr a_id (jtoken sid i x)) s lv = map Some (map (tok_id sid) (seq s (length lv)))).
    { clear. induction lv as [|[c tok] lv IH]; intros s H; simpl; [reflexivity|].
      rewrite attr_id_jtoken by (apply (H (c, tok)); now left). f_equal. apply IH. intros ct Hct. apply H. now right. }
    rewrite mapi_map, <- nleaves_length. apply G. intros [c tok] Hin. rewrite Forall_forall in Htok. apply Htok. unfold tokens.
    apply in_map_iff. exists (c, tok). now split.
  - apply NoDup_map_inj; [apply tok_id_inj | apply seq_NoDup].
  - apply jccgs_span_ids.
  - apply NoDup_map_inj; [apply span_id_inj | apply seq_NoDup].
  - assert (G : forall ts n j, Forall (fun x => tokens (fst x) = tokens t0) ts ->
                Forall (ccg_wf (map (tok_id sid) (seq 0 (nleaves t0)))) (jccgs us sid ts n j)).
    { induction ts as [|[t sc] ts IH]; intros n j H; simpl; constructor.
      - apply ccg_wf_jccg. inversion H as [|? ? Hs _]; subst. cbn [fst] in Hs.
        rewrite <- !nleaves_length. unfold tokens in Hs. rewrite <- (map_length snd (leaves t)), Hs, map_length. reflexivity.
      - apply IH. now inversion H. }
    now apply G.
Qed.

Lemma jsentences_wf doc : forall s, Forall nbest_tok_ok doc ->
  exists ss, sequence (mapi (jsentence us) s doc) = Some ss /\ Forall sentence_wf ss.
Proof.
  induction doc as [|nb doc IH]; intros s H; simpl.
  - exists []. split; [reflexivity | constructor].
  - inversion H as [|? ? Hnb Hdoc]; subst. destruct (jsentence_wf s nb Hnb) as (e & He & Hw).
    destruct (IH (S s) Hdoc) as (ss & Hss & Hws). exists (e :: ss). rewrite He, Hss. split; [reflexivity | now constructor].
Qed.

(* the <sentence> elements of a document *)
Definition doc_sentences (root : elem) : list elem :=
  match ekids root with
  | d :: _ => match ekids d with ss :: _ => filter (tag_is g_sentence) (ekids ss) | [] => [] end
  | [] => []
  end.

Lemma jsentence_tag sid nb s : jsentence us sid nb = Some s -> tag_is g_sentence s = true.
Proof. unfold jsentence. destruct nb as [|[t0 sc0] rest]; [discriminate|]. intros H. inversion H. reflexivity. Qed.

Lemma sequence_mapi_in {A B} (f : nat -> A -> option B) l : forall s ys y, sequence (mapi f s l) = Some ys -> In y ys ->
  exists i x, f i x = Some y.
Proof.
  induction l as [|x l IH]; intros s ys y H Hy; simpl in H.
  - inversion H; subst. destruct Hy.
  - destruct (f s x) as [z|] eqn:E; [|discriminate]. destruct (sequence (mapi f (S s) l)) as [zs|] eqn:E2; [|discriminate].
    inversion H; subst. destruct Hy as [<-|Hy]; [eauto | now apply (IH _ _ _ E2)].
Qed.

Theorem enc_jigg_wf doc : Forall nbest_tok_ok doc ->
  exists root, enc_jigg us doc = Some root /\ length (doc_sentences root) = length doc /\ Forall sentence_wf (doc_sentences root).
Proof.
  intros H. destruct (jsentences_wf doc 0 H) as (ss & Hss & Hw). unfold enc_jigg. rewrite Hss.
  eexists. split; [reflexivity|]. unfold doc_sentences. cbn [ekids].
  rewrite filter_all.
  - split; [|exact Hw]. clear Hw H. revert ss Hss. generalize 0%nat. induction doc as [|nb doc IH]; intros s ss Hss; simpl in Hss.
    + now inversion Hss.
    + destruct (jsentence us s nb); [|discriminate]. destruct (sequence (mapi (jsentence us) (S s) doc)) eqn:E; [|discriminate].
      inversion Hss; subst. simpl. f_equal. now apply (IH (S s)).
  - intros x Hx. destruct (sequence_mapi_in _ _ _ _ _ Hss Hx) as (i & nb & Hs). now apply jsentence_tag in Hs.
Qed.
End JiggWf2.

(* ================= normalize_tokens on one <token> ================= *)
Definition norm_a1 (a : attrs) : attrs :=
  match attr_get a_base a with
  | Some b => if text_eqb b v_star then attr_set a_base (tok_get_default a_surf v_star a) a else a
  | None => a end.
Definition norm_a2 (a1 : attrs) : attrs :=
  match attr_get a_base a1 with
  | Some b => if starts_us b then a1 else attr_set a_base (normalize_token b) a1
  | None => a1 end.
Lemma normalize_attrs_steps a :
  normalize_attrs a = match attr_get a_surf (norm_a2 (norm_a1 a)) with
                      | Some s => if starts_us s then norm_a2 (norm_a1 a) else attr_set a_surf (normalize_token s) (norm_a2 (norm_a1 a))
                      | None => norm_a2 (norm_a1 a) end.
Proof. reflexivity. Qed.

Lemma norm_a1_surf a : attr_get a_surf (norm_a1 a) = attr_get a_surf a.
Proof. unfold norm_a1. destruct (attr_get a_base a) as [b|]; [|reflexivity]. destruct (text_eqb b v_star); [|reflexivity]. apply attr_get_set_other. discriminate. Qed.
Lemma norm_a2_surf a : attr_get a_surf (norm_a2 a) = attr_get a_surf a.
Proof. unfold norm_a2. destruct (attr_get a_base a) as [b|]; [|reflexivity]. destruct (starts_us b); [reflexivity|]. apply attr_get_set_other. discriminate. Qed.

Lemma normalize_attrs_surf a s : attr_get a_surf a = Some s ->
  attr_get a_surf (normalize_attrs a) = Some (if starts_us s then s else normalize_token s).
Proof.
  intros H. rewrite normalize_attrs_steps. rewrite norm_a2_surf, norm_a1_surf, H.
  destruct (starts_us s); [now rewrite norm_a2_surf, norm_a1_surf | apply attr_get_set_same].
Qed.

Lemma normalize_attrs_base a b : attr_get a_base a = Some b ->
  attr_get a_base (normalize_attrs a) =
  Some (let b1 := if text_eqb b v_star then tok_get_default a_surf v_star a else b in if starts_us b1 then b1 else normalize_token b1).
Proof.
  intros H. rewrite normalize_attrs_steps. cbv zeta.
  set (b1 := if text_eqb b v_star then tok_get_default a_surf v_star a else b).
  assert (H1 : attr_get a_base (norm_a1 a) = Some b1).
  { unfold norm_a1, b1. rewrite H. destruct (text_eqb b v_star); [apply attr_get_set_same | exact H]. }
  assert (H2 : attr_get a_base (norm_a2 (norm_a1 a)) = Some (if starts_us b1 then b1 else normalize_token b1)).
  { unfold norm_a2. rewrite H1. destruct (starts_us b1); [exact H1 | apply attr_get_set_same]. }
  destruct (attr_get a_surf (norm_a2 (norm_a1 a))) as [s|]; [|exact H2].
  destruct (starts_us s); [exact H2|]. rewrite attr_get_set_other by discriminate. exact H2.
Qed.

(* ================= boolean versions of the hypotheses (to show generated data satisfies them) ================= *)
Fixpoint nodupb (l : list text) : bool := match l with [] => true | x :: r => negb (text_in x r) && nodupb r end.
Lemma nodupb_ok l : nodupb l = true -> NoDup l.
Proof.
  induction l as [|x l IH]; simpl; intros H; constructor; apply andb_true_iff in H as [H1 H2].
  - intros Hin. apply text_in_In in Hin. rewrite Hin in H1. discriminate.
  - now apply IH.
Qed.
Lemma forallb_in_keys ks a : forallb (fun k => text_in k (keys a)) ks = true -> forall k, In k ks -> In k (keys a).
Proof. intros H k Hk. rewrite forallb_forall in H. apply text_in_In. now apply H. Qed.
Lemma forallb_notin_keys ks a : forallb (fun k => negb (text_in k (keys a))) ks = true -> forall k, In k ks -> ~ In k (keys a).
Proof. intros H k Hk Hin. rewrite forallb_forall in H. specialize (H k Hk). apply text_in_In in Hin. rewrite Hin in H. discriminate. Qed.

Definition tok_xml_okb (tok : token) : bool :=
  nodupb (keys tok) && forallb (fun k => text_in k (keys tok)) five_keys && forallb (fun k => negb (text_in k (keys tok))) xml_reserved.
Lemma tok_xml_okb_ok tok : tok_xml_okb tok = true -> tok_xml_ok tok.
Proof.
  unfold tok_xml_okb, tok_xml_ok. intros H. apply andb_true_iff in H as [H H3]. apply andb_true_iff in H as [H1 H2].
  split; [now apply nodupb_ok | split; [now apply forallb_in_keys | now apply forallb_notin_keys]].
Qed.
Definition tok_jigg_okb (tok : token) : bool :=
  nodupb (keys tok) && text_in k_word (keys tok) && forallb (fun k => negb (text_in k (keys tok))) jigg_reserved.
Lemma tok_jigg_okb_ok tok : tok_jigg_okb tok = true -> tok_jigg_ok tok.
Proof.
  unfold tok_jigg_okb, tok_jigg_ok. intros H. apply andb_true_iff in H as [H H3]. apply andb_true_iff in H as [H1 H2].
  split; [now apply nodupb_ok | split; [now apply text_in_In | now apply forallb_notin_keys]].
Qed.

Fixpoint wf_xmlb (puncts : list text) (t : tree) : bool :=
  match t with
  | Leaf c tok _ _ => wfb puncts c && tok_xml_okb tok
  | Un c _ _ t1 => wfb puncts c && wf_xmlb puncts t1
  | Bin c _ _ _ l r => wfb puncts c && wf_xmlb puncts l && wf_xmlb puncts r
  end.
Lemma wf_xmlb_ok puncts t : wf_xmlb puncts t = true -> wf_xml puncts t.
Proof.
  induction t as [c tok o s | c o s t1 IH | c o s h l IHl r IHr]; simpl; intros H.
  - apply andb_true_iff in H as [H1 H2]. split; [now apply wfb_ok | now apply tok_xml_okb_ok].
  - apply andb_true_iff in H as [H1 H2]. split; [now apply wfb_ok | now apply IH].
  - apply andb_true_iff in H as [H H3]. apply andb_true_iff in H as [H1 H2]. split; [now apply wfb_ok | split; [now apply IHl | now apply IHr]].
Qed.
Lemma forallb_Forall {A} (p : A -> bool) (P : A -> Prop) l : (forall x, p x = true -> P x) -> forallb p l = true -> Forall P l.
Proof. intros H Hl. rewrite forallb_forall in Hl. apply Forall_forall. intros x Hx. apply H. now apply Hl. Qed.
Lemma doc_xmlb_ok puncts nb : forallb (forallb (wf_xmlb puncts)) nb = true -> Forall (Forall (wf_xml puncts)) nb.
Proof. apply forallb_Forall. intros l. apply forallb_Forall. apply wf_xmlb_ok. Qed.

Fixpoint cats_okb (puncts : list text) (t : tree) : bool :=
  match t with
  | Leaf c _ _ _ => wfb puncts c && nofunb c
  | Un c _ _ t1 => wfb puncts c && nofunb c && cats_okb puncts t1
  | Bin c _ _ _ l r => wfb puncts c && nofunb c && cats_okb puncts l && cats_okb puncts r
  end.
Lemma jcat_okb_ok puncts c : wfb puncts c && nofunb c = true -> jcat_ok puncts c.
Proof. intros H. apply andb_true_iff in H as [H1 H2]. split; [now apply wfb_ok | now apply nofunb_ok]. Qed.
Lemma cats_okb_ok puncts t : cats_okb puncts t = true -> cats_ok puncts t.
Proof.
  induction t as [c tok o s | c o s t1 IH | c o s h l IHl r IHr]; simpl; intros H.
  - now apply jcat_okb_ok.
  - apply andb_true_iff in H as [H1 H2]. split; [now apply jcat_okb_ok | now apply IH].
  - apply andb_true_iff in H as [H H3]. apply andb_true_iff in H as [H1 H2]. split; [now apply jcat_okb_ok | split; [now apply IHl | now apply IHr]].
Qed.

Lemma list_eqb_eq {A} (eqb : A -> A -> bool) : (forall x y, eqb x y = true -> x = y) -> forall a b, list_eqb eqb a b = true -> a = b.
Proof.
  intros Heq. induction a as [|x a IH]; intros [|y b] H; simpl in H; try discriminate; [reflexivity|].
  apply andb_true_iff in H as [H1 H2]. f_equal; [now apply Heq | now apply IH].
Qed.
Lemma kv_eqb_eq x y : kv_eqb x y = true -> x = y.
Proof.
  destruct x, y. unfold kv_eqb. simpl. intros H. apply andb_true_iff in H as [H1 H2].
  apply text_eqb_eq in H1. apply text_eqb_eq in H2. congruence.
Qed.
Lemma tokens_eqb_eq a b : list_eqb attrs_eqb a b = true -> a = b.
Proof. apply list_eqb_eq. apply list_eqb_eq. apply kv_eqb_eq. Qed.

Definition nbest_okb (puncts : list text) (nb : list (tree * option text)) : bool :=
  match nb with
  | [] => false
  | (t0, _) :: _ => forallb tok_jigg_okb (tokens t0) &&
                    forallb (fun ts => cats_okb puncts (fst ts) && list_eqb attrs_eqb (tokens (fst ts)) (tokens t0)) nb
  end.
Lemma nbest_okb_ok puncts nb : nbest_okb puncts nb = true -> nbest_ok puncts nb.
Proof.
  destruct nb as [|[t0 sc0] rest]; [discriminate|]. unfold nbest_okb, nbest_ok. intros H. apply andb_true_iff in H as [H1 H2]. split.
  - revert H1. apply forallb_Forall. apply tok_jigg_okb_ok.
  - revert H2. apply forallb_Forall. intros ts H. apply andb_true_iff in H as [Hc He]. split; [now apply cats_okb_ok | now apply tokens_eqb_eq].
Qed.
Lemma nbest_ok_tok puncts nb : nbest_ok puncts nb -> nbest_tok_ok nb.
Proof.
  destruct nb as [|[t0 sc0] rest]; [intros []|]. intros [H1 H2]. split; [exact H1|].
  revert H2. apply Forall_impl. intros ts [_ H]. exact H.
Qed.
Definition nbest_tok_okb (nb : list (tree * option text)) : bool :=
  match nb with
  | [] => false
  | (t0, _) :: _ => forallb tok_jigg_okb (tokens t0) && forallb (fun ts => list_eqb attrs_eqb (tokens (fst ts)) (tokens t0)) nb
  end.
Lemma nbest_tok_okb_ok nb : nbest_tok_okb nb = true -> nbest_tok_ok nb.
Proof.
  destruct nb as [|[t0 sc0] rest]; [discriminate|]. unfold nbest_tok_okb, nbest_tok_ok. intros H. apply andb_true_iff in H as [H1 H2]. split.
  - revert H1. apply forallb_Forall. apply tok_jigg_okb_ok.
  - revert H2. apply forallb_Forall. intros ts H. now apply tokens_eqb_eq.
Qed.

(* ---- build_ccg_tree over a whole <sentence> ---- *)
Lemma build_jccgs us sid ts : forall n j,
  Forall2 (fun x ccg => exists e, build_ccg_tree ccg = Some (Some e) /\ ccg_iso us sid (fst x) 0 e) ts (jccgs us sid ts n j).
Proof.
  induction ts as [|[t sc] ts IH]; intros n j; simpl; constructor.
  - exists (nest us sid true t n 0). split; [apply build_ccg_tree_jccg | apply nest_iso].
  - apply IH.
Qed.
Lemma build_sentence us sid nb s : jsentence us sid nb = Some s ->
  Forall2 (fun ts ccg => exists e, build_ccg_tree ccg = Some (Some e) /\ ccg_iso us sid (fst ts) 0 e) nb (sent_ccgs s).
Proof.
  unfold jsentence. destruct nb as [|[t0 sc0] rest] eqn:Enb; [discriminate|]. rewrite <- Enb. intros H. inversion H; subst s. clear H.
  rewrite sent_ccgs_jsentence by (intros x Hx; apply jccgs_in in Hx as (t & sc & n' & j' & ->); reflexivity).
  apply build_jccgs.
Qed.
