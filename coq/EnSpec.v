(* C03 - SPECIFICATION: the CCG schemata of the English grammar, written from the property text and independent
   of the combinator code (no Unification, no pattern literals, no rule loop).  Definitions only.

   Shared with the model are only the value types (Cat.cat, Cat.feat, GramPrims.cres), `skeleton`/`atoms` of Cat.v
   and the name tables below, which are the category texts the property itself lists.

   Reading guide.  `Justified_en r x y`: the result r (category, label, symbol) of combining x (left) and y (right)
   is an instance of the schema that its label names.  x and y are the categories *as the rules see them*, i.e. with
   the 'nb' marks erased. *)
From Coq Require Import List NArith Bool.
Import ListNotations.
Require Import Cat CatFacts GramPrims.
Open Scope N_scope.

(* ---------- names (code points) ---------- *)
Definition sl : text := [47].          (* "/"  *)
Definition bs : text := [92].          (* "\"  *)
Definition bar : text := [124].        (* "|"  *)
Definition n_S : text := [83].
Definition n_N : text := [78].
Definition n_NP : text := [78;80].
Definition n_comma : text := [44].
Definition n_semi : text := [59].
Definition n_conj : text := [99;111;110;106].
Definition n_LRB : text := [76;82;66].
Definition n_RRB : text := [82;82;66].
Definition n_LQU : text := [76;81;85].
Definition n_RQU : text := [82;81;85].
Definition f_X : feat := FUn [88].
Definition f_nb : feat := FUn [110;98].
Definition f_dcl : feat := FUn [100;99;108].
Definition f_em : feat := FUn [101;109].
Definition f_ng : feat := FUn [110;103].
Definition f_pss : feat := FUn [112;115;115].

(* labels and symbols *)
Definition l_fa : text := [102;97].       Definition y_fa : text := [62].            (* fa   >   *)
Definition l_ba : text := [98;97].        Definition y_ba : text := [60].            (* ba   <   *)
Definition l_fc : text := [102;99].       Definition y_fc : text := [62;66].         (* fc   >B  *)
Definition l_bx : text := [98;120].       Definition y_bx : text := [60;66].         (* bx   <B  *)
Definition l_gfc : text := [103;102;99].                                             (* gfc  >B  *)
Definition l_gbx : text := [103;98;120].                                             (* gbx  <B  *)
Definition l_conj : text := [99;111;110;106].  Definition y_conj : text := [60;934;62].   (* conj <Phi> *)
Definition l_lp : text := [108;112].      Definition y_lp : text := [60;108;112;62]. (* lp   <lp> *)
Definition l_rp : text := [114;112].      Definition y_rp : text := [60;114;112;62]. (* rp   <rp> *)
Definition y_star : text := [60;42;62].                                              (* lp   <*>  *)

(* the categories the property lists by name *)
Definition c_N : cat := Atom n_N FNone.
Definition c_NP : cat := Atom n_NP FNone.
Definition c_comma : cat := Atom n_comma FNone.
Definition c_semi : cat := Atom n_semi FNone.
Definition c_conj : cat := Atom n_conj FNone.
Definition c_LRB : cat := Atom n_LRB FNone.
Definition c_LQU : cat := Atom n_LQU FNone.
Definition c_S_dcl : cat := Atom n_S f_dcl.
Definition c_S_em : cat := Atom n_S f_em.
Definition c_Sem_Sem : cat := Fun c_S_em bs c_S_em.                       (* S[em]\S[em] *)
Definition c_NP_NP : cat := Fun c_NP bs c_NP.                             (* NP\NP *)
Definition c_Sng_NP : cat := Fun (Atom n_S f_ng) bs c_NP.                 (* S[ng]\NP *)
Definition c_Spss_NP : cat := Fun (Atom n_S f_pss) bs c_NP.               (* S[pss]\NP *)
Definition c_Sdcl_Sdcl : cat := Fun c_S_dcl sl c_S_dcl.                   (* S[dcl]/S[dcl] *)
Definition c_VP : cat := Fun (Atom n_S FNone) bs c_NP.                    (* S\NP *)
Definition c_VP_bs_VP : cat := Fun c_VP bs c_VP.                          (* (S\NP)\(S\NP) *)
Definition c_VP_sl_VP : cat := Fun c_VP sl c_VP.                          (* (S\NP)/(S\NP) *)

(* ---------- slashes: '|' stands for either direction ---------- *)
Definition fwd (s : text) : Prop := s = sl \/ s = bar.
Definition bwd (s : text) : Prop := s = bs \/ s = bar.

(* ---------- features ---------- *)
(* the leaf features of a category, left to right *)
Definition feats (c : cat) : list feat := map snd (atoms c).
(* the English feature system: every feature is absent or a single value *)
Definition unary_feat (f : feat) : Prop := match f with FTer _ _ _ _ _ _ => False | _ => True end.
Definition unary_sys (c : cat) : Prop := Forall unary_feat (feats c).
Definition one_system (x y : cat) : Prop := unary_sys x /\ unary_sys y.

(* a feature that is compatible with any other: absent, 'nb', or the variable X *)
Definition loose (f : feat) : Prop := f = FNone \/ f = f_nb \/ f = f_X.
Definition feat_compat (f g : feat) : Prop := f = g \/ loose f \/ loose g.

(* "a matches b": identical up to features, with position-wise compatible features *)
Definition matches (a b : cat) : Prop := skeleton a = skeleton b /\ Forall2 feat_compat (feats a) (feats b).

(* "features in the result come from the inputs": a' is a with only variable features replaced, and each
   replacement is a feature that occurs in one of the two inputs *)
Definition from_inputs (x y : cat) (g : feat) : Prop := In g (feats x) \/ In g (feats y).
Definition inst_of (x y a a' : cat) : Prop :=
  skeleton a' = skeleton a /\
  Forall2 (fun f' f => f' = f \/ (f = f_X /\ from_inputs x y f')) (feats a') (feats a).

(* the result of applying a functor with result part `res` and argument part `arg`:
   a modifier (res = arg) returns the other category unchanged; otherwise the result part is built from instantiated parts *)
Definition functor_result (res arg other : cat) (built : cat -> Prop) (c : cat) : Prop :=
  (res = arg /\ c = other) \/ (res <> arg /\ built c).

(* ---------- punctuation, type-raising, bare N / NP ---------- *)
Definition ascii_letter (c : N) : Prop := (65 <= c /\ c <= 90) \/ (97 <= c /\ c <= 122).
(* an atomic category whose name does not start with a letter, or is one of the four bracket/quote names *)
Definition punct_cat (c : cat) : Prop :=
  exists b f, c = Atom b f /\
    ((exists ch rest, b = ch :: rest /\ ~ ascii_letter ch) \/ In b [n_LRB; n_RRB; n_LQU; n_RQU]).
(* T/(T\a) or T\(T/a), whatever the slashes *)
Definition type_raised (c : cat) : Prop := exists t s1 s2 a, c = Fun t s1 (Fun t s2 a).
Definition bare_N_NP (c : cat) : Prop := c = c_N \/ c = c_NP.

(* ---------- the schemata ---------- *)
Definition labelled (r : cres) (l s : text) : Prop := op_string r = l /\ op_symbol r = s.

Inductive Justified_en (r : cres) (x y : cat) : Prop :=
(* fa   a/b  b'  =>  a *)
| J_fa a s b : x = Fun a s b -> fwd s -> matches b y -> labelled r l_fa y_fa ->
    functor_result a b y (inst_of x y a) (rcat r) -> Justified_en r x y
(* ba   b'  a\b  =>  a *)
| J_ba a s b : y = Fun a s b -> bwd s -> matches x b -> labelled r l_ba y_ba ->
    functor_result a b x (inst_of x y a) (rcat r) -> Justified_en r x y
(* ba   S[dcl]  S[em]\S[em]  =>  S[dcl]   (listed special case) *)
| J_ba_em : x = c_S_dcl -> y = c_Sem_Sem -> labelled r l_ba y_ba -> rcat r = x -> Justified_en r x y
(* fc   a/b  b'/c  =>  a/c *)
| J_fc a s1 b b' s2 c : x = Fun a s1 b -> y = Fun b' s2 c -> fwd s1 -> fwd s2 -> matches b b' -> labelled r l_fc y_fc ->
    functor_result a b y (fun z => exists a' c', z = Fun a' sl c' /\ inst_of x y a a' /\ inst_of x y c c') (rcat r) -> Justified_en r x y
(* bx   b/c  a\b'  =>  a/c    b' not a bare N or NP *)
| J_bx b s1 c a s2 b' : x = Fun b s1 c -> y = Fun a s2 b' -> fwd s1 -> bwd s2 -> matches b b' -> ~ bare_N_NP b' -> labelled r l_bx y_bx ->
    functor_result a b' x (fun z => exists a' c', z = Fun a' sl c' /\ inst_of x y a a' /\ inst_of x y c c') (rcat r) -> Justified_en r x y
(* gfc  a/b  (b'/c)|d  =>  (a/c)|d *)
| J_gfc a s1 b b' s2 c s3 d : x = Fun a s1 b -> y = Fun (Fun b' s2 c) s3 d -> fwd s1 -> fwd s2 -> matches b b' -> labelled r l_gfc y_fc ->
    functor_result a b y (fun z => exists a' c' d', z = Fun (Fun a' sl c') s3 d' /\ inst_of x y a a' /\ inst_of x y c c' /\ inst_of x y d d') (rcat r) ->
    Justified_en r x y
(* gbx  (b/c)|d  a\b'  =>  (a/c)|d    b' not a bare N or NP *)
| J_gbx b s1 c s3 d a s2 b' : x = Fun (Fun b s1 c) s3 d -> y = Fun a s2 b' -> fwd s1 -> bwd s2 -> matches b b' -> ~ bare_N_NP b' -> labelled r l_gbx y_bx ->
    functor_result a b' x (fun z => exists a' c' d', z = Fun (Fun a' sl c') s3 d' /\ inst_of x y a a' /\ inst_of x y c c' /\ inst_of x y d d') (rcat r) ->
    Justified_en r x y
(* conj  {, ; conj}  Y  =>  Y\Y    Y neither punctuation nor type-raised *)
| J_conj : In x [c_comma; c_semi; c_conj] -> ~ punct_cat y -> ~ type_raised y -> labelled r l_conj y_conj ->
    rcat r = Fun y bs y -> Justified_en r x y
(* conj  conj  NP\NP  =>  NP\NP *)
| J_conj_NP : x = c_conj -> y = c_NP_NP -> labelled r l_conj y_conj -> rcat r = y -> Justified_en r x y
(* lp   punctuation on the left is absorbed *)
| J_lp : punct_cat x -> labelled r l_lp y_lp -> rcat r = y -> Justified_en r x y
(* rp   punctuation on the right is absorbed *)
| J_rp : punct_cat y -> labelled r l_rp y_rp -> rcat r = x -> Justified_en r x y
(* lp   LQU/LRB  Y  =>  Y\Y *)
| J_lp_open : In x [c_LQU; c_LRB] -> labelled r l_lp y_lp -> rcat r = Fun y bs y -> Justified_en r x y
(* lp   ,  S[ng]\NP | S[pss]\NP  =>  (S\NP)\(S\NP) *)
| J_comma_vp : x = c_comma -> In y [c_Sng_NP; c_Spss_NP] -> labelled r l_lp y_star -> rcat r = c_VP_bs_VP -> Justified_en r x y
(* lp   ,  S[dcl]/S[dcl]  =>  (S\NP)/(S\NP) *)
| J_comma_ds : x = c_comma -> y = c_Sdcl_Sdcl -> labelled r l_lp y_star -> rcat r = c_VP_sl_VP -> Justified_en r x y.

(* ---------- boolean versions, to state computed facts ---------- *)
Definition unary_featb (f : feat) : bool := match f with FTer _ _ _ _ _ _ => false | _ => true end.
Definition unary_sysb (c : cat) : bool := forallb unary_featb (feats c).
