(* C11 - batch results align with inputs and do not depend on batch history.  Property theorems only. *)
From Coq Require Import List ZArith Bool Arith.
Import ListNotations.
Require Import Cat CatFacts Tree GramPrims AStar Glue GlueProofs GlueMemo.

(* contiguous chunks: concatenating the chunks gives the batch back, whatever the number of worker processes *)
Theorem C11_chunks_concat : forall (A : Type) (l : list A) k, concat (chunks l k) = l.
Proof. intros A l k. apply chunks_concat. Qed.

Theorem C11_chunks_nonempty : forall (A : Type) (l : list A) k c, In c (chunks l k) -> c <> [].
Proof. intros A l k c. apply chunks_nonempty. Qed.

(* the results collected task by task (task.get() in task order - completion order plays no role) are the per-sentence
   results in input order, for every chunk count *)
Theorem C11_collect_in_order : forall (A B : Type) (parse : A -> B) (batch : list A) k,
  concat (map (map parse) (chunks batch k)) = map parse batch.
Proof. intros A B parse batch k. apply collect_in_order. Qed.
