(* C11 - batch results align with inputs and do not depend on batch history.  Property theorems only. *)
From Coq Require Import List ZArith Bool Arith.
Import ListNotations.
Require Import Cat CatFacts Tree GramPrims AStar AStarImpl AStarEquiv AStarEquivOn AStarEquivTables Glue GlueProofs GlueMemo GlueMemoProofs
               GlueMemoSearch GlueMemoSearchProofs Filter GlueMemoRun GlueMemoRunProofs.

(* ---------- (a) chunking and collection (parsing.py) ---------- *)
(* _chunks as Python evaluates it (GlueMemo.chunks_py; None = the ValueError of range(0, 0, 0)): it raises exactly on the
   empty list *)
Theorem C11_chunks_error_iff_empty : forall (A : Type) (l : list A) k, chunks_py l k = None <-> l = [].
Proof. intros A l k. apply chunks_py_error_iff. Qed.

(* contiguous chunks: concatenating the chunks gives the batch back, whatever the number of worker processes; no chunk
   is empty and there is at least one *)
Theorem C11_chunks_concat : forall (A : Type) (l : list A) k cs, chunks_py l k = Some cs ->
  l <> [] /\ concat cs = l /\ (forall c, In c cs -> c <> []) /\ cs <> [].
Proof. intros A l k cs. apply chunks_py_spec. Qed.

Theorem C11_chunks_total : forall (A : Type) (l : list A) k, l <> [] -> exists cs, chunks_py l k = Some cs.
Proof. intros A l k. apply chunks_py_total. Qed.

(* never more chunks (tasks) than max(num_chunks, 1) *)
Theorem C11_chunks_at_most_num_chunks : forall (A : Type) (l : list A) k cs, chunks_py l k = Some cs -> length cs <= Nat.max k 1.
Proof. intros A l k cs. apply chunks_py_count. Qed.

(* the results collected task by task (task.get() in task order - completion order plays no role) are the per-sentence
   results in input order, for every chunk count *)
Theorem C11_collect_in_order : forall (A B : Type) (parse : A -> B) (batch : list A) k cs, chunks_py batch k = Some cs ->
  concat (map (map parse) cs) = map parse batch.
Proof. intros A B parse batch k cs. apply collect_in_order_py. Qed.

(* ---------- (b) the memo layer: category table + rule cache (parsing.pyx, parsing.h) ---------- *)
(* every lookup (hit or miss) preserves coherence; the old table is a prefix of the new one; earlier ids keep their
   meaning; the vector handed to the search is sound for its key *)
Theorem C11_memo_step_coherent : forall gbin gun o st e st', coherent gbin gun st -> memo_step gbin gun o st = Some (e, st') ->
  coherent gbin gun st' /\ (exists u, mtable st' = mtable st ++ u) /\
  (forall j x, nth_error (mtable st) j = Some x -> nth_error (mtable st') j = Some x) /\
  entry_ok gbin gun (mtable st') (key_of o) e.
Proof. exact memo_step_coherent. Qed.

(* for every sequence of lookups from the start of a call (input category list without duplicates, roots interned, empty
   cache): the state is coherent, the input list is a prefix of the table, lexical ids are the input positions *)
Theorem C11_memo_ops_coherent : forall gbin gun cats roots os st, NoDup cats ->
  memo_ops gbin gun os (init_state cats roots) = Some st ->
  coherent gbin gun st /\ (exists u, mtable st = cats ++ u) /\
  (forall j x, nth_error cats j = Some x -> nth_error (mtable st) j = Some x).
Proof. exact memo_ops_coherent. Qed.

(* ids handed out earlier keep their meaning and no category ever has two ids *)
Theorem C11_ids_never_reassigned : forall gbin gun os st st', coherent gbin gun st -> memo_ops gbin gun os st = Some st' ->
  (forall j x, nth_error (mtable st) j = Some x -> nth_error (mtable st') j = Some x) /\
  (forall i j x, nth_error (mtable st') i = Some x -> nth_error (mtable st') j = Some x -> i = j).
Proof. exact ids_never_reassigned. Qed.

(* the id of a lexical category is its position in the input list, after any history (this is what orders equal tag
   scores in parse_sentence's per-token queue) *)
Theorem C11_lexical_ids_are_positions : forall gbin gun cats roots os st j x, NoDup cats ->
  memo_ops gbin gun os (init_state cats roots) = Some st -> nth_error cats j = Some x ->
  nth_error (mtable st) j = Some x /\ forall i, nth_error (mtable st) i = Some x -> i = j.
Proof. exact lexical_ids_are_positions. Qed.

(* transparency: in every state reachable from the start of a call, the answer of any lookup, with its ids read back
   through the table, is the grammar's answer for the categories the argument ids name - no trace of earlier lookups *)
Theorem C11_memo_transparent : forall gbin gun cats roots os st o e st', NoDup cats ->
  memo_ops gbin gun os (init_state cats roots) = Some st -> memo_step gbin gun o st = Some (e, st') ->
  exists rs, op_cats gbin gun (mtable st) o = Some rs /\ decode (mtable st') e = Some rs.
Proof. exact memo_transparent. Qed.

(* two histories (two tables, possibly different ids for the same categories): equal decoded answers *)
Theorem C11_memo_history_independent : forall gbin gun st1 st2 o1 o2 e1 e2 st1' st2',
  coherent gbin gun st1 -> coherent gbin gun st2 -> op_cats gbin gun (mtable st1) o1 = op_cats gbin gun (mtable st2) o2 ->
  memo_step gbin gun o1 st1 = Some (e1, st1') -> memo_step gbin gun o2 st2 = Some (e2, st2') ->
  decode (mtable st1') e1 = decode (mtable st2') e2.
Proof. exact memo_history_independent. Qed.

(* a cached vector never changes: retrieve_tree later reads the labels the search saw *)
Theorem C11_cached_answer_stable : forall gbin gun o os st e st1 st2, memo_step gbin gun o st = Some (e, st1) ->
  memo_ops gbin gun os st1 = Some st2 -> cache_find (key_of o) (mcache st2) = Some e.
Proof. exact cached_answer_stable. Qed.

(* a lookup on ids of the table cannot fail (no IndexError) *)
Theorem C11_memo_step_total : forall gbin gun o st,
  (match o with OBin x y => x < length (mtable st) /\ y < length (mtable st) | OUn x => x < length (mtable st) end) ->
  exists e st', memo_step gbin gun o st = Some (e, st').
Proof. exact memo_step_total. Qed.

(* ---------- (c) the search does not depend on which ids the categories have (parsing.h) ---------- *)
(* Two runs of the implementation-level search whose category handles are related by R ("name the same category"):
   if equality tests, root tests, admitted tags with their scores and the rule results (position-wise, head flags equal)
   agree on related handles, then a finished run of one is matched by a finished run of the other with the same status
   and position-wise related results: same shape, same rule indices, same head flags, related categories at every node,
   all scores equal.  (Forall2-based version; the relation need not be a function.) *)
Theorem C11_search_independent_of_ids : forall (C C' : Type) (ceqb : C -> C -> bool) (ceqb' : C' -> C' -> bool) n
    (tag : nat -> C -> Z) (tag' : nat -> C' -> Z) dep (adm : nat -> list C) (adm' : nat -> list C') besttag bestdep
    (bin : C -> C -> list (C * bool)) (bin' : C' -> C' -> list (C' * bool)) (un : C -> list C) (un' : C' -> list C')
    (isroot : C -> bool) (isroot' : C' -> bool) pen dedup max_step nbest (R : C -> C' -> Prop),
  (forall a a' b b', R a a' -> R b b' -> ceqb a b = ceqb' a' b') ->
  (forall a a' b b', R a a' -> R b b' -> Forall2 (fun p q => R (fst p) (fst q) /\ snd p = snd q) (bin a b) (bin' a' b')) ->
  (forall a a', R a a' -> Forall2 R (un a) (un' a')) ->
  (forall a a', R a a' -> isroot a = isroot' a') ->
  (forall i, Forall2 (fun c c' => R c c' /\ tag i c = tag' i c') (adm i) (adm' i)) ->
  forall st, jreach ceqb n tag dep adm besttag bestdep bin un isroot pen dedup max_step nbest st ->
  ~ jrunning max_step nbest st ->
  exists st', jreach ceqb' n tag' dep adm' besttag bestdep bin' un' isroot' pen dedup max_step nbest st' /\
              ~ jrunning max_step nbest st' /\ jstatus st = jstatus st' /\
              Forall2 (irel R) (jresult st) (jresult st').
Proof. exact @search_simulation. Qed.

(* the simulation, state by state: every reachable state has a related reachable state (agenda, chart, goal related
   position-wise, same step count) *)
Theorem C11_search_states_related : forall (C C' : Type) (ceqb : C -> C -> bool) (ceqb' : C' -> C' -> bool) n
    (tag : nat -> C -> Z) (tag' : nat -> C' -> Z) dep (adm : nat -> list C) (adm' : nat -> list C') besttag bestdep
    (bin : C -> C -> list (C * bool)) (bin' : C' -> C' -> list (C' * bool)) (un : C -> list C) (un' : C' -> list C')
    (isroot : C -> bool) (isroot' : C' -> bool) pen dedup max_step nbest (R : C -> C' -> Prop),
  (forall a a' b b', R a a' -> R b b' -> ceqb a b = ceqb' a' b') ->
  (forall a a' b b', R a a' -> R b b' -> Forall2 (fun p q => R (fst p) (fst q) /\ snd p = snd q) (bin a b) (bin' a' b')) ->
  (forall a a', R a a' -> Forall2 R (un a) (un' a')) ->
  (forall a a', R a a' -> isroot a = isroot' a') ->
  (forall i, Forall2 (fun c c' => R c c' /\ tag i c = tag' i c') (adm i) (adm' i)) ->
  forall st, jreach ceqb n tag dep adm besttag bestdep bin un isroot pen dedup max_step nbest st ->
  exists st', jreach ceqb' n tag' dep adm' besttag bestdep bin' un' isroot' pen dedup max_step nbest st' /\ srel R st st'.
Proof. exact @equiv_reach. Qed.

(* related results decode to the same derivation: when R is "f x = y" (ids read through a table), the related result
   list is the image of the result list *)
Theorem C11_related_results_decode_equal : forall (C C' : Type) (f : C -> C') (l : list (@jitem C)) (l' : list (@jitem C')),
  Forall2 (irel (fun x y => f x = y)) l l' <-> l' = map (jmap f) l.
Proof. exact @F2_irel_fun. Qed.

(* the relation between ids under two duplicate-free tables is bi-unique: the id comparisons of the search agree *)
Theorem C11_table_ids_are_biunique : forall t1 t2, NoDup t1 -> NoDup t2 ->
  forall a a' b b', same_cat t1 t2 a a' -> same_cat t1 t2 b b' -> Nat.eqb a b = Nat.eqb a' b'.
Proof. exact same_cat_eqb. Qed.

(* ... and between ids and the categories they name *)
Theorem C11_ids_compare_like_categories : forall t, NoDup t ->
  forall i c j d, names t i c -> names t j d -> Nat.eqb i j = cat_eqb c d.
Proof. exact names_eqb. Qed.

(* a sound cache entry, as parse_sentence reads it (result id, head flag), is position-wise related to the grammar's
   answer on the categories (result category, head flag): the rule-result hypothesis of the simulation *)
Theorem C11_cached_entries_relate_ids_to_categories : forall gbin gun t k e, entry_ok gbin gun t k e ->
  exists rs, key_cats gbin gun t k = Some rs /\
             Forall2 (fun p q => names t (fst p) (fst q) /\ snd p = snd q) (id_view e) (cat_view rs).
Proof. exact entry_view_related. Qed.

(* ---------- (d) the per-sentence loop of run: alignment and locality of failures ---------- *)
Theorem C11_results_align : forall gbin gun (S R : Type) slen (placeholder : R) search max_length (sents : list S) st rs st',
  run_loop gbin gun S R slen placeholder search max_length sents st = Some (rs, st') -> length rs = length sents.
Proof. exact results_align. Qed.

(* one result per sentence, in order; too long or status 1 => exactly [placeholder]; every sentence - also the one after
   a failure - starts from a coherent memo state, and the state after the batch is coherent *)
Theorem C11_failure_is_local : forall gbin gun (S R : Type) slen (placeholder : R) search max_length (sents : list S) st rs st',
  coherent gbin gun st -> run_loop gbin gun S R slen placeholder search max_length sents st = Some (rs, st') ->
  coherent gbin gun st' /\
  Forall2 (fun s r => exists sti, coherent gbin gun sti /\
                      r = sentence_result S R slen placeholder search max_length s sti /\
                      (max_length < slen s -> r = [placeholder]) /\
                      (snd (search s sti) = None -> r = [placeholder])) sents rs.
Proof. exact failure_is_local. Qed.

(* ---------- (e) the search reading the memo incrementally = the search over the categories themselves ---------- *)
(* start_ok: the memo states a sentence can start from - coherent, the input category list is a prefix of the table, the
   root ids name the roots.  The initial state of a call is one, and so is every state any sequence of lookups leads to
   (i.e. whatever earlier sentences did). *)
Theorem C11_every_history_is_admissible : forall gbin gun cats roots os st, NoDup cats ->
  memo_ops gbin gun os (init_state cats roots) = Some st -> start_ok gbin gun cats roots (root_ids cats roots) st.
Proof. exact start_ok_reached. Qed.

(* what a lookup hands to the search in a coherent state, hit or miss, IS the id-level grammar induced by the table T of
   any later moment: bin_T T x y = the grammar's results for T[x], T[y] with every result category replaced by its id in T *)
Theorem C11_memo_answer_is_table_grammar : forall gbin gun o st e st1 T, coherent gbin gun st ->
  memo_step gbin gun o st = Some (e, st1) -> NoDup T -> (exists u, T = mtable st1 ++ u) ->
  match o with OBin x y => id_view e = bin_T gbin T x y | OUn x => map fst e = un_T gun T x end.
Proof. exact memo_answer_is_table_grammar. Qed.

(* ... in particular by the table the call ends with; and the cached vector is still the same then *)
Theorem C11_memo_answer_is_final_table_grammar : forall gbin gun o os st e st1 st2, coherent gbin gun st ->
  memo_step gbin gun o st = Some (e, st1) -> memo_ops gbin gun os st1 = Some st2 ->
  cache_find (key_of o) (mcache st2) = Some e /\
  match o with OBin x y => id_view e = bin_T gbin (mtable st2) x y | OUn x => map fst e = un_T gun (mtable st2) x end.
Proof. exact memo_answer_is_final_table_grammar. Qed.

(* lookups on ids of the table never fail, however much the table grows in between (no IndexError in a callback) *)
Theorem C11_lookups_total : forall gbin gun os st, coherent gbin gun st ->
  (forall o, In o os -> op_in_range (mtable st) o) -> exists st', memo_ops gbin gun os st = Some st'.
Proof. exact memo_ops_total. Qed.

(* one loop iteration under the memo (any order of this iteration's lookups) = one iteration of the category-level
   search, ids read through the table after the iteration *)
Theorem C11_memo_search_step : forall gbin gun cats roots rids pen dedup (s : sent) st st' a ac js jsc ks,
  start_ok gbin gun cats roots rids st -> srel (names (mtable st)) js jsc -> irel (names (mtable st)) a ac ->
  (forall k, In k ks <-> In k (needed dedup s a js)) -> memo_ops gbin gun ks st = Some st' ->
  start_ok gbin gun cats roots rids st' /\ (exists u, mtable st' = mtable st ++ u) /\
  srel (names (mtable st')) (mstep_js rids pen dedup s st' a js) (cstep gbin gun roots pen dedup s ac jsc).
Proof. exact mstep_rel. Qed.

(* every run of the search under the memo, started in any admissible memo state, is a run of the category-level
   search: related agenda, chart, goal (same shapes, rule indices, head flags, scores; every id names the category) *)
Theorem C11_memo_search_is_category_search : forall gbin gun cats roots rids pen dedup max_step nbest (s : sent),
  lex_ok cats s -> forall st0 p, start_ok gbin gun cats roots rids st0 ->
  mreach gbin gun rids pen dedup max_step nbest s st0 p ->
  start_ok gbin gun cats roots rids (snd p) /\ (exists u, mtable (snd p) = mtable st0 ++ u) /\
  exists jsc, creach gbin gun cats roots pen dedup max_step nbest s jsc /\ srel (names (mtable (snd p))) (fst p) jsc.
Proof. exact mreach_to_cat. Qed.

(* the domain invariant: every item of a reachable state decodes through the table of that moment *)
Theorem C11_reachable_ids_are_table_ids : forall gbin gun cats roots rids pen dedup max_step nbest (s : sent),
  lex_ok cats s -> forall st0 js st, start_ok gbin gun cats roots rids st0 ->
  mreach gbin gun rids pen dedup max_step nbest s st0 (js, st) ->
  forall a, In a (jagenda js) \/ In a (jchart js) \/ In a (jgoal js) ->
  jcat a < length (mtable st) /\ exists ac, jdecode (mtable st) a = Some ac.
Proof. exact mreach_items_in_table. Qed.

(* conversely every run of the category-level search is realised from every admissible memo state *)
Theorem C11_category_search_realised_after_any_history : forall gbin gun cats roots rids pen dedup max_step nbest (s : sent),
  lex_ok cats s -> forall st0 jsc, start_ok gbin gun cats roots rids st0 ->
  creach gbin gun cats roots pen dedup max_step nbest s jsc ->
  exists js st, mreach gbin gun rids pen dedup max_step nbest s st0 (js, st) /\ start_ok gbin gun cats roots rids st /\
                (exists u, mtable st = mtable st0 ++ u) /\ srel (names (mtable st)) js jsc.
Proof. exact cat_to_mreach. Qed.

(* THE SAME SENTENCE AFTER TWO HISTORIES (scores, beam, configuration equal; st1, st2 any two admissible memo states,
   e.g. cold start vs. after other sentences): every finished run from st1 has a finished run from st2 and a finished
   run of the category-level search with the same status; the results handed to the finalizer decode - each through
   its own table - to the very same list of category-level items (categories, rule indices, head flags, every score),
   so they are position-wise related by "names the same category", and the sentence outcomes are equal *)
Theorem C11_same_sentence_same_result_under_any_history : forall gbin gun cats roots rids pen dedup max_step nbest (s : sent),
  lex_ok cats s -> forall st1 st2 js1 st1', start_ok gbin gun cats roots rids st1 -> start_ok gbin gun cats roots rids st2 ->
  mreach gbin gun rids pen dedup max_step nbest s st1 (js1, st1') -> ~ jrunning max_step nbest js1 ->
  exists js2 st2' jsc,
    mreach gbin gun rids pen dedup max_step nbest s st2 (js2, st2') /\ ~ jrunning max_step nbest js2 /\
    creach gbin gun cats roots pen dedup max_step nbest s jsc /\ ~ jrunning max_step nbest jsc /\
    jstatus js1 = jstatus js2 /\ jstatus js1 = jstatus jsc /\
    decode_items (mtable st1') (jresult js1) = Some (jresult jsc) /\
    decode_items (mtable st2') (jresult js2) = Some (jresult jsc) /\
    Forall2 (irel (same_cat (mtable st1') (mtable st2'))) (jresult js1) (jresult js2) /\
    sentence_outcome js1 (mtable st1') = sentence_outcome js2 (mtable st2').
Proof. exact same_sentence_any_history. Qed.

(* a run under the memo is a run of the pure search AStarImpl.jreach over the ids of any later table T (e.g. the final
   one) with the grammar T induces, and all its expansions use keys whose results T contains *)
Theorem C11_memo_search_is_table_search : forall gbin gun rids pen dedup max_step nbest (s : sent) st0 p,
  coherent gbin gun st0 -> mreach gbin gun rids pen dedup max_step nbest s st0 p ->
  coherent gbin gun (snd p) /\ (exists u, mtable (snd p) = mtable st0 ++ u) /\
  forall T, NoDup T -> (exists u, T = mtable (snd p) ++ u) ->
    jreach_on Nat.eqb (s_n s) (s_dep s) (s_besttag s) (s_bestdep s) (isroot_ids rids) pen dedup (s_tag s) (s_adm s)
              (bin_T gbin T) (un_T gun T) max_step nbest (closed_bin gbin T) (closed_un gun T) (fst p).
Proof. exact mreach_is_table_run. Qed.

Theorem C11_runs_in_a_domain_are_runs : forall (C : Type) ceqb n dep besttag bestdep (isroot : C -> bool) pen dedup tag adm bin un max_step nbest UB UU st,
  jreach_on ceqb n dep besttag bestdep isroot pen dedup tag adm bin un max_step nbest UB UU st ->
  jreach ceqb n tag dep adm besttag bestdep bin un isroot pen dedup max_step nbest st.
Proof. exact @jreach_on_jreach. Qed.

(* ---------- (f) ids under two tables: the hypotheses of the simulation, on the ids that occur ---------- *)
(* T1, T2 duplicate-free (think: the table of a cold call vs. the table after other sentences), R i j := T1[i] = T2[j].
   Equality tests: C11_table_ids_are_biunique above.  Rule results: related position-wise, head flags equal, for every
   pair whose results both tables contain; root tests; admitted lexical ids and tag scores *)
Theorem C11_tables_rule_results_related : forall gbin T1 T2 a a' b b', same_cat T1 T2 a a' -> same_cat T1 T2 b b' ->
  both_closed_bin gbin T1 T2 a b -> res_rel (same_cat T1 T2) (bin_T gbin T1 a b) (bin_T gbin T2 a' b').
Proof. exact tables_R_bin. Qed.
Theorem C11_tables_unary_results_related : forall gun T1 T2 a a', same_cat T1 T2 a a' -> both_closed_un gun T1 T2 a ->
  Forall2 (same_cat T1 T2) (un_T gun T1 a) (un_T gun T2 a').
Proof. exact tables_R_un. Qed.
Theorem C11_tables_root_tests_agree : forall T1 T2, NoDup T1 -> NoDup T2 -> forall roots rids1 rids2 a a',
  Forall2 (names T1) rids1 roots -> Forall2 (names T2) rids2 roots -> same_cat T1 T2 a a' -> isroot_ids rids1 a = isroot_ids rids2 a'.
Proof. exact tables_R_root. Qed.
Theorem C11_tables_lexical_ids_related : forall T1 T2, NoDup T1 -> NoDup T2 -> forall cats (s : sent) i,
  (exists u, T1 = cats ++ u) -> (exists u, T2 = cats ++ u) -> lex_ok cats s ->
  Forall2 (fun c c' => same_cat T1 T2 c c' /\ s_tag s i c = s_tag s i c') (s_adm s i) (s_adm s i).
Proof. exact tables_R_adm. Qed.

(* the domain-restricted simulation: like C11_search_independent_of_ids, but the rule-result hypotheses are needed only
   on a domain UB / UU of keys, for runs all of whose expansions stay in that domain *)
Theorem C11_search_independent_of_ids_on_domain : forall (C C' : Type) (ceqb : C -> C -> bool) (ceqb' : C' -> C' -> bool) n dep besttag bestdep
    (isroot : C -> bool) (isroot' : C' -> bool) pen dedup (R : C -> C' -> Prop),
  (forall a a' b b', R a a' -> R b b' -> ceqb a b = ceqb' a' b') ->
  (forall a a', R a a' -> isroot a = isroot' a') ->
  forall (tag : nat -> C -> Z) (tag' : nat -> C' -> Z) (adm : nat -> list C) (adm' : nat -> list C')
         (bin : C -> C -> list (C * bool)) (bin' : C' -> C' -> list (C' * bool)) (un : C -> list C) (un' : C' -> list C')
         max_step nbest (UB : C -> C -> Prop) (UU : C -> Prop),
  (forall a a' b b', R a a' -> R b b' -> UB a b -> res_rel R (bin a b) (bin' a' b')) ->
  (forall a a', R a a' -> UU a -> Forall2 R (un a) (un' a')) ->
  (forall i, Forall2 (fun c c' => R c c' /\ tag i c = tag' i c') (adm i) (adm' i)) ->
  forall st, jreach_on ceqb n dep besttag bestdep isroot pen dedup tag adm bin un max_step nbest UB UU st ->
  ~ jrunning max_step nbest st ->
  exists st', jreach ceqb' n tag' dep adm' besttag bestdep bin' un' isroot' pen dedup max_step nbest st' /\
              ~ jrunning max_step nbest st' /\ jstatus st = jstatus st' /\ Forall2 (irel R) (jresult st) (jresult st').
Proof. exact @search_simulation_on. Qed.

(* hence: a finished run over the ids of T1 that only combines keys whose results both tables contain has a twin over
   the ids of T2 (pure searches with the table-induced grammars) *)
Theorem C11_table_runs_correspond : forall gbin gun T1 T2, NoDup T1 -> NoDup T2 ->
  forall cats roots rids1 rids2 pen dedup max_step nbest (s : sent) js1,
  (exists u, T1 = cats ++ u) -> (exists u, T2 = cats ++ u) -> lex_ok cats s ->
  Forall2 (names T1) rids1 roots -> Forall2 (names T2) rids2 roots ->
  jreach_on Nat.eqb (s_n s) (s_dep s) (s_besttag s) (s_bestdep s) (isroot_ids rids1) pen dedup (s_tag s) (s_adm s)
            (bin_T gbin T1) (un_T gun T1) max_step nbest (both_closed_bin gbin T1 T2) (both_closed_un gun T1 T2) js1 ->
  ~ jrunning max_step nbest js1 ->
  exists js2, treach gbin gun rids2 pen dedup max_step nbest s T2 js2 /\ ~ jrunning max_step nbest js2 /\
              jstatus js1 = jstatus js2 /\ Forall2 (irel (same_cat T1 T2)) (jresult js1) (jresult js2).
Proof. exact table_runs_correspond. Qed.

(* ---------- (g) end to end: the loop of depccg._parsing.run over the search under the memo ---------- *)
(* brun: sentence by sentence, too long => placeholder (None) and the memo untouched, otherwise a finished run of the
   search from the memo state the previous sentences left, the outcome decoded through the table.
   SOUND: from any admissible memo state, every result list is sentence by sentence an outcome of the category-level
   search of that sentence alone (cat_outcome mentions no table, no cache, no position, no other sentence) *)
Theorem C11_batch_results_are_category_level_outcomes : forall gbin gun cats roots rids pen dedup max_step nbest max_length ss st rs st',
  Forall (lex_ok cats) ss -> start_ok gbin gun cats roots rids st ->
  brun gbin gun rids pen dedup max_step nbest max_length ss st rs st' ->
  start_ok gbin gun cats roots rids st' /\ Forall2 (cat_outcome gbin gun cats roots pen dedup max_step nbest max_length) ss rs.
Proof. exact brun_sound. Qed.

(* COMPLETE: every per-sentence choice of such outcomes is a result list of the batch, from every admissible state *)
Theorem C11_category_level_outcomes_are_batch_results : forall gbin gun cats roots rids pen dedup max_step nbest max_length ss st rs,
  Forall (lex_ok cats) ss -> start_ok gbin gun cats roots rids st ->
  Forall2 (cat_outcome gbin gun cats roots pen dedup max_step nbest max_length) ss rs ->
  exists st', brun gbin gun rids pen dedup max_step nbest max_length ss st rs st' /\ start_ok gbin gun cats roots rids st'.
Proof. exact brun_complete. Qed.

(* HISTORY INDEPENDENCE, unconditional: the result lists a batch can have are the same from every admissible memo state
   (cold, warmed by any other sentences, any extension of the category table) *)
Theorem C11_batch_result_independent_of_history : forall gbin gun cats roots rids pen dedup max_step nbest max_length ss sta stb rs sta',
  Forall (lex_ok cats) ss -> start_ok gbin gun cats roots rids sta -> start_ok gbin gun cats roots rids stb ->
  brun gbin gun rids pen dedup max_step nbest max_length ss sta rs sta' ->
  exists stb', brun gbin gun rids pen dedup max_step nbest max_length ss stb rs stb'.
Proof. exact brun_history_independent. Qed.

(* BATCH = ALONE (this replaces the conditional theorem of the first version): rs is a result of the batch from state st
   iff every rs[k] is a result of parsing sentence k alone from state st0 - e.g. st0 = the cold state of a fresh call.
   Position, order, the other sentences of the batch (permutation, subset) do not occur on the right-hand side. *)
Theorem C11_batch_equals_alone : forall gbin gun cats roots rids pen dedup max_step nbest max_length ss st st0 rs,
  Forall (lex_ok cats) ss -> start_ok gbin gun cats roots rids st -> start_ok gbin gun cats roots rids st0 ->
  ((exists st', brun gbin gun rids pen dedup max_step nbest max_length ss st rs st') <->
   Forall2 (fun s r => exists st1, brun gbin gun rids pen dedup max_step nbest max_length [s] st0 [r] st1) ss rs).
Proof. exact brun_iff_alone. Qed.

Theorem C11_batch_results_align : forall gbin gun rids pen dedup max_step nbest max_length ss st rs st',
  brun gbin gun rids pen dedup max_step nbest max_length ss st rs st' -> length rs = length ss.
Proof. exact brun_length. Qed.

(* ---------- (g') tie-breaking: pop rules that do not look at categories ---------- *)
(* (g) speaks about the SET of possible results (the search model allows any maximal pop).  A pop policy is a function
   from the history of category-blind agenda views (derivation shapes, rule indices, head flags, spans, heads, all
   scores - every category erased) to the position of the item to pop.  parsing::operator< compares score() only and the
   order of the pushes is a matter of token order, chart cell creation order, push_front order and rule result order,
   so std::priority_queue is such a policy.  Under one such policy: *)
(* the run under the memo and the category-level run proceed in lockstep, with the same history of views *)
Theorem C11_policy_run_is_category_policy_run : forall gbin gun cats roots rids pen dedup max_step nbest (s : sent),
  lex_ok cats s -> forall (policy : policy_t) st0 h p, start_ok gbin gun cats roots rids st0 ->
  mreach_p gbin gun rids pen dedup max_step nbest s policy st0 h p ->
  start_ok gbin gun cats roots rids (snd p) /\
  exists jsc, creach_p gbin gun cats roots pen dedup max_step nbest s policy h jsc /\ srel (names (mtable (snd p))) (fst p) jsc.
Proof. exact mreach_p_to_cat. Qed.

Theorem C11_category_policy_run_realised_after_any_history : forall gbin gun cats roots rids pen dedup max_step nbest (s : sent),
  lex_ok cats s -> forall (policy : policy_t) st0 h jsc, start_ok gbin gun cats roots rids st0 ->
  creach_p gbin gun cats roots pen dedup max_step nbest s policy h jsc ->
  exists js st, mreach_p gbin gun rids pen dedup max_step nbest s policy st0 h (js, st) /\
                start_ok gbin gun cats roots rids st /\ srel (names (mtable st)) js jsc.
Proof. exact cat_p_to_mreach. Qed.

(* THE outcome of a sentence (not just the set of possible ones) is the same from any two admissible memo states *)
Theorem C11_same_policy_same_outcome_under_any_history : forall gbin gun cats roots rids pen dedup max_step nbest (s : sent),
  lex_ok cats s -> forall (policy : policy_t) st1 st2 h1 js1 st1' h2 js2 st2',
  start_ok gbin gun cats roots rids st1 -> start_ok gbin gun cats roots rids st2 ->
  mreach_p gbin gun rids pen dedup max_step nbest s policy st1 h1 (js1, st1') -> ~ jrunning max_step nbest js1 ->
  mreach_p gbin gun rids pen dedup max_step nbest s policy st2 h2 (js2, st2') -> ~ jrunning max_step nbest js2 ->
  sentence_outcome js1 (mtable st1') = sentence_outcome js2 (mtable st2') /\
  exists r, sentence_outcome js1 (mtable st1') = Some r.
Proof. exact policy_outcome_unique. Qed.

(* the loop of run is then a function of the batch: two executions, from any two admissible memo states, return the
   same result list; and a policy-driven execution is an execution in the sense of (g) *)
Theorem C11_batch_deterministic_under_category_blind_policy : forall gbin gun cats roots rids pen dedup max_step nbest max_length
    (policy : policy_t) ss sta stb rsa rsb sta' stb',
  Forall (lex_ok cats) ss -> start_ok gbin gun cats roots rids sta -> start_ok gbin gun cats roots rids stb ->
  brun_p gbin gun rids pen dedup max_step nbest max_length policy ss sta rsa sta' ->
  brun_p gbin gun rids pen dedup max_step nbest max_length policy ss stb rsb stb' -> rsa = rsb.
Proof. exact brun_p_deterministic. Qed.

Theorem C11_policy_batch_is_a_batch : forall gbin gun rids pen dedup max_step nbest max_length (policy : policy_t) ss st rs st',
  brun_p gbin gun rids pen dedup max_step nbest max_length policy ss st rs st' ->
  brun gbin gun rids pen dedup max_step nbest max_length ss st rs st'.
Proof. exact brun_p_brun. Qed.

(* ---------- (h) the wrapper depccg.parsing.run (parsing.py): shapes first, chunked = unchunked ---------- *)
(* property part (d): if _type_check fails, the result of run is that exception, for EVERY parser: the parser
   (depccg._parsing.run, the parameter inner) is not consulted - nothing is parsed *)
Theorem C11_shape_mismatch_rejected_before_parsing : forall (E R : Type) ntags d s e mcs procs,
  type_check ntags d s = Err e -> forall inner, run E R inner ntags d s mcs procs = RErr (RType e).
Proof. exact run_type_error_first. Qed.

Theorem C11_rejected_input_never_reaches_the_parser : forall (E R : Type) ntags d s e mcs procs,
  type_check ntags d s = Err e -> forall inner1 inner2, run E R inner1 ntags d s mcs procs = run E R inner2 ntags d s mcs procs.
Proof. exact run_rejected_parser_irrelevant. Qed.

Theorem C11_shape_error_only_from_type_check : forall (E R : Type) ntags d s mcs procs inner e,
  run E R inner ntags d s mcs procs = RErr (RType e) -> type_check ntags d s = Err e.
Proof. exact run_type_error_only. Qed.

(* score_results[0] after _type_check and range(0, 0, 0) in _chunks cannot happen inside run *)
Theorem C11_run_dead_exceptions : forall (E R : Type) ntags d s mcs procs inner,
  run E R inner ntags d s mcs procs <> RErr RScores0 /\ run E R inner ntags d s mcs procs <> RErr RChunks.
Proof. exact run_dead_exceptions. Qed.

(* a batch longer than max_chunk_size with processes < 1: ValueError of Pool, again before any parsing *)
Theorem C11_pool_rejects_nonpositive_processes : forall (E R : Type) ntags d s docs scs mcs procs,
  type_check ntags d s = Ok (docs, scs) -> (mcs < Z.of_nat (length docs))%Z -> (procs < 1)%Z ->
  forall inner, run E R inner ntags d s mcs procs = RErr RPool.
Proof. exact run_pool_error. Qed.

(* for well-typed input and a parser that works sentence by sentence, the chunked branch returns exactly what the
   unchunked one returns: one result per sentence in input order (or the parser's up-front exception in both) *)
Theorem C11_chunked_equals_unchunked : forall (E R : Type) inner pre parse ntags d s docs scs mcs procs,
  per_sentence E R inner pre parse -> type_check ntags d s = Ok (docs, scs) ->
  ((Z.of_nat (length docs) <= mcs)%Z \/ (1 <= procs)%Z) ->
  run E R inner ntags d s mcs procs =
    match pre ntags with Some e => RErr (RInner e) | None => ROk (map (parse ntags) (combine docs scs)) end.
Proof. exact run_chunked_equals_unchunked. Qed.

Theorem C11_schedule_independent : forall (E R : Type) inner pre parse ntags d s docs scs mcs1 procs1 mcs2 procs2,
  per_sentence E R inner pre parse -> type_check ntags d s = Ok (docs, scs) -> (1 <= procs1)%Z -> (1 <= procs2)%Z ->
  run E R inner ntags d s mcs1 procs1 = run E R inner ntags d s mcs2 procs2.
Proof. exact run_schedule_independent. Qed.

(* What remains outside the theorems (named precisely):
   (1) per_sentence is a hypothesis about depccg._parsing.run as a FUNCTION.  (g) gives: the set of possible results of its
       loop is per sentence and state independent; (g') gives: under any category-blind pop policy the result is a function
       of the sentence.  That libstdc++'s std::priority_queue IS such a policy (its choice depends only on the sequence of
       pushed/popped priorities) is read off parsing::operator< and the push loops, not derived from libstdc++'s source;
       the oracle of harness/props/c11.py exercises it on score rows with exact ties (and catches seeded change C11_b,
       which makes operator< look at the category id).
   (2) multiprocessing (fork, pickling, completion order) is represented by its specification in GlueMemoRun.run (tasks
       evaluated independently, collected in task order, first exception wins); the correspondence runs the real Pool.
   (3) mreach allows any order of the lookups within one loop iteration (which covers the order of parse_sentence);
       the tie of mreach to the C++ is the composition of the existing ties: AStarImpl.jstep <- pop-trace validation
       (C01/C02/C09/C10/C16), GlueMemo.memo_step <- replay of the recorded rule-function invocations (this check); there
       is no separate differential run of mreach itself.
   (4) trees: outcomes are the items handed to the finalizer (derivation over categories, rule indices, head flags, all
       scores); the labels retrieve_tree reads from the cache are covered by C11_cached_answer_stable and C12, the
       composition into "equal Tree objects" is not stated in Coq (the oracle compares the Tree objects).
   (5) float32 rounding: scores are Z (exact-grid tie, as everywhere in the A* theorems). *)

(* ---------- the hypotheses are satisfiable by non-trivial values ---------- *)
(* the same toy grammar under two different id assignments satisfies every hypothesis of the simulation, so each
   finished run under one assignment has its twin under the other *)
Example ex_c11_simulation : forall st,
  jreach Nat.eqb 2 ex_tag1 (fun _ _ => 0%Z) ex_adm1 (fun _ => 0%Z) (fun _ => 0%Z) ex_bin1 ex_un1 ex_root1 1%Z true 100 1 st ->
  ~ jrunning 100 1 st ->
  exists st', jreach Nat.eqb 2 ex_tag2 (fun _ _ => 0%Z) ex_adm2 (fun _ => 0%Z) (fun _ => 0%Z) ex_bin2 ex_un2 ex_root2 1%Z true 100 1 st' /\
              ~ jrunning 100 1 st' /\ jstatus st = jstatus st' /\ Forall2 (irel ex_R) (jresult st) (jresult st').
Proof.
  apply (C11_search_independent_of_ids nat nat Nat.eqb Nat.eqb 2 ex_tag1 ex_tag2 _ ex_adm1 ex_adm2 _ _ ex_bin1 ex_bin2 ex_un1 ex_un2
           ex_root1 ex_root2 1%Z true 100 1 ex_R ex_R_eqb ex_R_bin ex_R_un ex_R_root ex_R_adm).
Qed.

(* a memo run: two lexical categories, a root outside the list, a grammar creating a new category; the second lookup of
   the same pair is a hit; the table grew by the root and the new category; decoded answers are the grammar's *)
Definition ex_A := Atom [65%N] FNone.
Definition ex_B := Atom [66%N] FNone.
Definition ex_S := Atom [83%N] FNone.
Definition ex_AB := Fun ex_A [47%N] ex_B.
Definition ex_mk c := {| rcat := c; op_string := [102%N]; op_symbol := [62%N]; head_is_left := true |}.
Definition ex_gbin (x y : cat) : list cres := if cat_eqb x ex_A && cat_eqb y ex_B then [ex_mk ex_AB; ex_mk ex_A] else [].
Definition ex_gun (x : cat) : list cres := if cat_eqb x ex_AB then [ex_mk ex_S] else [].
Example ex_c11_memo :
  match memo_ops ex_gbin ex_gun [OBin 0 1; OBin 0 1; OUn 3; OBin 1 0] (init_state [ex_A; ex_B] [ex_S]) with
  | Some st => mtable st = [ex_A; ex_B; ex_S; ex_AB] /\ length (mcache st) = 3 /\
               (match memo_step ex_gbin ex_gun (OBin 0 1) st with
                | Some (e, st') => map fst e = [3; 0] /\ decode (mtable st') e = Some (ex_gbin ex_A ex_B)
                | None => False end)
  | None => False
  end.
Proof. vm_compute. repeat split; reflexivity. Qed.

Example ex_c11_nodup : NoDup [ex_A; ex_B].
Proof. repeat constructor; simpl; intuition discriminate. Qed.

(* ---------- examples for (e)-(h) ---------- *)
(* a grammar that creates categories: A B -> S | A/B ; A/B B -> S ; B B -> B/B.  Input list [A; B], root S (not in the list).
   "B B" has no parse but puts B/B into the table; in "A B B" the ids of A/B and B/B are then 4 and 3, after a cold
   start 3 and 4 *)
Definition ex_BB := Fun ex_B [47%N] ex_B.
Definition ex_mk2 c h := {| rcat := c; op_string := [102%N]; op_symbol := [62%N]; head_is_left := h |}.
Definition ex2_gbin (x y : cat) : list cres :=
  if cat_eqb x ex_A && cat_eqb y ex_B then [ex_mk2 ex_S true; ex_mk2 ex_AB false]
  else if cat_eqb x ex_AB && cat_eqb y ex_B then [ex_mk2 ex_S true]
  else if cat_eqb x ex_B && cat_eqb y ex_B then [ex_mk2 ex_BB true] else [].
Definition ex2_gun (x : cat) : list cres := [].
Definition ex2_cats := [ex_A; ex_B].
Definition ex2_roots := [ex_S].
Definition ex2_sent (n : nat) (adm : nat -> list nat) : sent :=
  {| s_n := n; s_tag := fun i j => (- Z.of_nat (i + j))%Z; s_dep := fun _ _ => 0%Z; s_adm := adm;
     s_besttag := fun _ => 0%Z; s_bestdep := fun _ => 0%Z |}.
Definition ex_s_BB := ex2_sent 2 (fun _ => [1]).
Definition ex_s_ABB := ex2_sent 3 (fun i => match i with 0 => [0] | _ => [1] end).
Definition ex_s_long := ex2_sent 300 (fun _ => [0; 1]).
Definition ex2_run (ss : list sent) :=
  brun_f ex2_gbin ex2_gun (root_ids ex2_cats ex2_roots) 1%Z true 1000 1 250 100 ss (init_state ex2_cats ex2_roots).

(* warmed vs. cold: the failing sentences yield the placeholder only, "A B B" has the same outcome in both calls although
   the tables (and the id of A/B inside the returned derivation) differ *)
Example ex_c11_history :
  match ex2_run [ex_s_BB; ex_s_long; ex_s_ABB], ex2_run [ex_s_ABB] with
  | Some ([r0; r1; r2], st), Some ([r2'], st') =>
      r0 = None /\ r1 = None /\ r2 = r2' /\ r2 <> None /\
      mtable st = [ex_A; ex_B; ex_S; ex_BB; ex_AB] /\ mtable st' = [ex_A; ex_B; ex_S; ex_AB; ex_BB]
  | _, _ => False
  end.
Proof. vm_compute. split; [reflexivity|]. split; [reflexivity|]. split; [reflexivity|]. split; [discriminate|]. split; reflexivity. Qed.

(* ... and these executions are runs in the sense of the theorems: brun is inhabited by a non-trivial batch, lex_ok and
   start_ok hold for it *)
Example ex_c11_batch_is_a_run : exists rs st,
  brun ex2_gbin ex2_gun (root_ids ex2_cats ex2_roots) 1%Z true 1000 1 250 [ex_s_BB; ex_s_long; ex_s_ABB] (init_state ex2_cats ex2_roots) rs st /\
  length rs = 3.
Proof.
  assert (H : exists rs st, ex2_run [ex_s_BB; ex_s_long; ex_s_ABB] = Some (rs, st) /\ length rs = 3).
  { vm_compute. eexists; eexists; split; reflexivity. }
  destruct H as (rs & st & H & Hl). exists rs, st. split; [exact (brun_f_sound _ _ _ _ _ _ _ _ _ _ _ _ _ H) | exact Hl].
Qed.
(* ... and runs under the category-blind policy "first item of maximal priority", so C11_batch_deterministic_... applies *)
Example ex_c11_batch_is_a_policy_run : exists rs st,
  brun_p ex2_gbin ex2_gun (root_ids ex2_cats ex2_roots) 1%Z true 1000 1 250 policy_first_max [ex_s_BB; ex_s_long; ex_s_ABB]
         (init_state ex2_cats ex2_roots) rs st /\ nth_error rs 2 <> Some None.
Proof.
  assert (H : exists rs st, ex2_run [ex_s_BB; ex_s_long; ex_s_ABB] = Some (rs, st) /\ nth_error rs 2 <> Some None).
  { vm_compute. eexists; eexists; split; [reflexivity | discriminate]. }
  destruct H as (rs & st & H & Hl). exists rs, st. split; [exact (brun_f_sound_p _ _ _ _ _ _ _ _ _ _ _ _ _ H) | exact Hl].
Qed.
Example ex_c11_lex_ok : Forall (lex_ok ex2_cats) [ex_s_BB; ex_s_long; ex_s_ABB].
Proof.
  apply Forall_cons; [|apply Forall_cons; [|apply Forall_cons; [|apply Forall_nil]]]; intros i j Hin; simpl in Hin.
  - destruct Hin as [<-|[]]. simpl. repeat constructor.
  - destruct Hin as [<-|[<-|[]]]; simpl; repeat constructor.
  - destruct i; destruct Hin as [<-|[]]; simpl; repeat constructor.
Qed.
Example ex_c11_start_ok : start_ok ex2_gbin ex2_gun ex2_cats ex2_roots (root_ids ex2_cats ex2_roots) (init_state ex2_cats ex2_roots).
Proof. apply start_ok_init. exact ex_c11_nodup. Qed.

(* the wrapper: three sentences, max_chunk_size 2, two processes => chunks of 2 and 1, process ids 0 and 1, results in
   input order; the same input unchunked; a wrong dependency shape is a RuntimeError even with a parser that always raises *)
Definition ex_w : word := [97%N].
Definition ex_sc1 := mkSc (mkMat 3 [[0;0;0]]%Z) (mkMat 2 [[0;0]]%Z).
Definition ex_sc2 := mkSc (mkMat 3 [[0;0;0];[0;0;0]]%Z) (mkMat 3 [[0;0;0];[0;0;0]]%Z).
Definition ex_probe_run fails d s mcs procs := observe (run unit (nat * nat * nat * nat) (probe fails) 3 d s mcs procs).
Example ex_c11_run_chunked :
  ex_probe_run false (DocMany [[ex_w]; [ex_w; ex_w]; [ex_w]]) (ScMany [ex_sc1; ex_sc2; ex_sc1]) 2 2 = OOk [(0, 3, 2, 1); (0, 3, 2, 2); (1, 3, 1, 1)] /\
  ex_probe_run false (DocMany [[ex_w]; [ex_w; ex_w]; [ex_w]]) (ScMany [ex_sc1; ex_sc2; ex_sc1]) 20 2 = OOk [(0, 3, 3, 1); (0, 3, 3, 2); (0, 3, 3, 1)] /\
  ex_probe_run true (DocMany [[ex_w]; [ex_w]; [ex_w]]) (ScMany [ex_sc1; ex_sc2; ex_sc1]) 2 2 = OErr 2 /\
  ex_probe_run false (DocMany [[ex_w]; [ex_w; ex_w]; [ex_w]]) (ScMany [ex_sc1; ex_sc2; ex_sc1]) 2 0 = OErr 3 /\
  chunks_py (@nil nat) 2 = None /\ chunks_py [1; 2; 3; 4; 5] 2 = Some [[1; 2; 3]; [4; 5]].
Proof. vm_compute. repeat split; reflexivity. Qed.
