(* C11 - batch results align with inputs and do not depend on batch history.  Property theorems only. *)
From Coq Require Import List ZArith Bool Arith.
Import ListNotations.
Require Import Cat CatFacts Tree GramPrims AStar AStarImpl AStarEquiv AStarEquivTables Glue GlueProofs GlueMemo GlueMemoProofs.

(* ---------- (a) chunking and collection (parsing.py) ---------- *)
(* contiguous chunks: concatenating the chunks gives the batch back, whatever the number of worker processes *)
Theorem C11_chunks_concat : forall (A : Type) (l : list A) k, concat (chunks l k) = l.
Proof. intros A l k. apply chunks_concat. Qed.

Theorem C11_chunks_nonempty : forall (A : Type) (l : list A) k c, In c (chunks l k) -> c <> [].
Proof. intros A l k c. apply chunks_nonempty. Qed.

(* the results collected task by task (task.get() in task order - completion order plays no role) are the per-sentence
   results in input order, for every chunk count *)
Theorem C11_collect_in_order : forall (A B : Type) (parse : A -> B) (batch : list A) k,
  concat (map (map parse) (chunks batch k)) = map parse batch.
Proof. intros A B parse batch k. apply collect_in_order. Qed.

(* ---------- (b) the memo layer: category table + rule cache (parsing.pyx, parsing.h) ---------- *)
(* every lookup (hit or miss) preserves coherence; the old table is a prefix of the new one; earlier ids keep their
   meaning; the vector handed to the search is sound for its key *)
Theorem C11_memo_step_coherent : forall gbin gun o st e st', coherent gbin gun st -> memo_step gbin gun o st = Some (e, st') ->
  coherent gbin gun st' /\ (exists u, mtable st' = mtable st ++ u) /\
  (forall j x, nth_error (mtable st) j = Some x -> nth_error (mtable st') j = Some x) /\
  entry_ok gbin gun (mtable st') (key_of o) e.
Proof. exact memo_step_coherent. Qed.

(* for every sequence of lookups from the start of a call (input category list without duplicates, roots interned, empty
   cache): the state is coherent, the input list is a prefix of the table, lexical ids are the input positions *)
Theorem C11_memo_ops_coherent : forall gbin gun cats roots os st, NoDup cats ->
  memo_ops gbin gun os (init_state cats roots) = Some st ->
  coherent gbin gun st /\ (exists u, mtable st = cats ++ u) /\
  (forall j x, nth_error cats j = Some x -> nth_error (mtable st) j = Some x).
Proof. exact memo_ops_coherent. Qed.

(* ids handed out earlier keep their meaning and no category ever has two ids *)
Theorem C11_ids_never_reassigned : forall gbin gun os st st', coherent gbin gun st -> memo_ops gbin gun os st = Some st' ->
  (forall j x, nth_error (mtable st) j = Some x -> nth_error (mtable st') j = Some x) /\
  (forall i j x, nth_error (mtable st') i = Some x -> nth_error (mtable st') j = Some x -> i = j).
Proof. exact ids_never_reassigned. Qed.

(* the id of a lexical category is its position in the input list, after any history (this is what orders equal tag
   scores in parse_sentence's per-token queue) *)
Theorem C11_lexical_ids_are_positions : forall gbin gun cats roots os st j x, NoDup cats ->
  memo_ops gbin gun os (init_state cats roots) = Some st -> nth_error cats j = Some x ->
  nth_error (mtable st) j = Some x /\ forall i, nth_error (mtable st) i = Some x -> i = j.
Proof. exact lexical_ids_are_positions. Qed.

(* transparency: in every state reachable from the start of a call, the answer of any lookup, with its ids read back
   through the table, is the grammar's answer for the categories the argument ids name - no trace of earlier lookups *)
Theorem C11_memo_transparent : forall gbin gun cats roots os st o e st', NoDup cats ->
  memo_ops gbin gun os (init_state cats roots) = Some st -> memo_step gbin gun o st = Some (e, st') ->
  exists rs, op_cats gbin gun (mtable st) o = Some rs /\ decode (mtable st') e = Some rs.
Proof. exact memo_transparent. Qed.

(* two histories (two tables, possibly different ids for the same categories): equal decoded answers *)
Theorem C11_memo_history_independent : forall gbin gun st1 st2 o1 o2 e1 e2 st1' st2',
  coherent gbin gun st1 -> coherent gbin gun st2 -> op_cats gbin gun (mtable st1) o1 = op_cats gbin gun (mtable st2) o2 ->
  memo_step gbin gun o1 st1 = Some (e1, st1') -> memo_step gbin gun o2 st2 = Some (e2, st2') ->
  decode (mtable st1') e1 = decode (mtable st2') e2.
Proof. exact memo_history_independent. Qed.

(* a cached vector never changes: retrieve_tree later reads the labels the search saw *)
Theorem C11_cached_answer_stable : forall gbin gun o os st e st1 st2, memo_step gbin gun o st = Some (e, st1) ->
  memo_ops gbin gun os st1 = Some st2 -> cache_find (key_of o) (mcache st2) = Some e.
Proof. exact cached_answer_stable. Qed.

(* a lookup on ids of the table cannot fail (no IndexError) *)
Theorem C11_memo_step_total : forall gbin gun o st,
  (match o with OBin x y => x < length (mtable st) /\ y < length (mtable st) | OUn x => x < length (mtable st) end) ->
  exists e st', memo_step gbin gun o st = Some (e, st').
Proof. exact memo_step_total. Qed.

(* ---------- (c) the search does not depend on which ids the categories have (parsing.h) ---------- *)
(* Two runs of the implementation-level search whose category handles are related by R ("name the same category"):
   if equality tests, root tests, admitted tags with their scores and the rule results (position-wise, head flags equal)
   agree on related handles, then a finished run of one is matched by a finished run of the other with the same status
   and position-wise related results: same shape, same rule indices, same head flags, related categories at every node,
   all scores equal.  (Forall2-based version; the relation need not be a function.) *)
Theorem C11_search_independent_of_ids : forall (C C' : Type) (ceqb : C -> C -> bool) (ceqb' : C' -> C' -> bool) n
    (tag : nat -> C -> Z) (tag' : nat -> C' -> Z) dep (adm : nat -> list C) (adm' : nat -> list C') besttag bestdep
    (bin : C -> C -> list (C * bool)) (bin' : C' -> C' -> list (C' * bool)) (un : C -> list C) (un' : C' -> list C')
    (isroot : C -> bool) (isroot' : C' -> bool) pen dedup max_step nbest (R : C -> C' -> Prop),
  (forall a a' b b', R a a' -> R b b' -> ceqb a b = ceqb' a' b') ->
  (forall a a' b b', R a a' -> R b b' -> Forall2 (fun p q => R (fst p) (fst q) /\ snd p = snd q) (bin a b) (bin' a' b')) ->
  (forall a a', R a a' -> Forall2 R (un a) (un' a')) ->
  (forall a a', R a a' -> isroot a = isroot' a') ->
  (forall i, Forall2 (fun c c' => R c c' /\ tag i c = tag' i c') (adm i) (adm' i)) ->
  forall st, jreach ceqb n tag dep adm besttag bestdep bin un isroot pen dedup max_step nbest st ->
  ~ jrunning max_step nbest st ->
  exists st', jreach ceqb' n tag' dep adm' besttag bestdep bin' un' isroot' pen dedup max_step nbest st' /\
              ~ jrunning max_step nbest st' /\ jstatus st = jstatus st' /\
              Forall2 (irel R) (jresult st) (jresult st').
Proof. exact @search_simulation. Qed.

(* the simulation, state by state: every reachable state has a related reachable state (agenda, chart, goal related
   position-wise, same step count) *)
Theorem C11_search_states_related : forall (C C' : Type) (ceqb : C -> C -> bool) (ceqb' : C' -> C' -> bool) n
    (tag : nat -> C -> Z) (tag' : nat -> C' -> Z) dep (adm : nat -> list C) (adm' : nat -> list C') besttag bestdep
    (bin : C -> C -> list (C * bool)) (bin' : C' -> C' -> list (C' * bool)) (un : C -> list C) (un' : C' -> list C')
    (isroot : C -> bool) (isroot' : C' -> bool) pen dedup max_step nbest (R : C -> C' -> Prop),
  (forall a a' b b', R a a' -> R b b' -> ceqb a b = ceqb' a' b') ->
  (forall a a' b b', R a a' -> R b b' -> Forall2 (fun p q => R (fst p) (fst q) /\ snd p = snd q) (bin a b) (bin' a' b')) ->
  (forall a a', R a a' -> Forall2 R (un a) (un' a')) ->
  (forall a a', R a a' -> isroot a = isroot' a') ->
  (forall i, Forall2 (fun c c' => R c c' /\ tag i c = tag' i c') (adm i) (adm' i)) ->
  forall st, jreach ceqb n tag dep adm besttag bestdep bin un isroot pen dedup max_step nbest st ->
  exists st', jreach ceqb' n tag' dep adm' besttag bestdep bin' un' isroot' pen dedup max_step nbest st' /\ srel R st st'.
Proof. exact @equiv_reach. Qed.

(* related results decode to the same derivation: when R is "f x = y" (ids read through a table), the related result
   list is the image of the result list *)
Theorem C11_related_results_decode_equal : forall (C C' : Type) (f : C -> C') (l : list (@jitem C)) (l' : list (@jitem C')),
  Forall2 (irel (fun x y => f x = y)) l l' <-> l' = map (jmap f) l.
Proof. exact @F2_irel_fun. Qed.

(* the relation between ids under two duplicate-free tables is bi-unique: the id comparisons of the search agree *)
Theorem C11_table_ids_are_biunique : forall t1 t2, NoDup t1 -> NoDup t2 ->
  forall a a' b b', same_cat t1 t2 a a' -> same_cat t1 t2 b b' -> Nat.eqb a b = Nat.eqb a' b'.
Proof. exact same_cat_eqb. Qed.

(* ... and between ids and the categories they name *)
Theorem C11_ids_compare_like_categories : forall t, NoDup t ->
  forall i c j d, names t i c -> names t j d -> Nat.eqb i j = cat_eqb c d.
Proof. exact names_eqb. Qed.

(* a sound cache entry, as parse_sentence reads it (result id, head flag), is position-wise related to the grammar's
   answer on the categories (result category, head flag): the rule-result hypothesis of the simulation *)
Theorem C11_cached_entries_relate_ids_to_categories : forall gbin gun t k e, entry_ok gbin gun t k e ->
  exists rs, key_cats gbin gun t k = Some rs /\
             Forall2 (fun p q => names t (fst p) (fst q) /\ snd p = snd q) (id_view e) (cat_view rs).
Proof. exact entry_view_related. Qed.

(* ---------- (d) the per-sentence loop of run: alignment and locality of failures ---------- *)
Theorem C11_results_align : forall gbin gun (S R : Type) slen (placeholder : R) search max_length (sents : list S) st rs st',
  run_loop gbin gun S R slen placeholder search max_length sents st = Some (rs, st') -> length rs = length sents.
Proof. exact results_align. Qed.

(* one result per sentence, in order; too long or status 1 => exactly [placeholder]; every sentence - also the one after
   a failure - starts from a coherent memo state, and the state after the batch is coherent *)
Theorem C11_failure_is_local : forall gbin gun (S R : Type) slen (placeholder : R) search max_length (sents : list S) st rs st',
  coherent gbin gun st -> run_loop gbin gun S R slen placeholder search max_length sents st = Some (rs, st') ->
  coherent gbin gun st' /\
  Forall2 (fun s r => exists sti, coherent gbin gun sti /\
                      r = sentence_result S R slen placeholder search max_length s sti /\
                      (max_length < slen s -> r = [placeholder]) /\
                      (snd (search s sti) = None -> r = [placeholder])) sents rs.
Proof. exact failure_is_local. Qed.

(* composition, conditional: IF a sentence's decoded outcome is the same from every coherent memo state (which is what
   C11_search_independent_of_ids with C11_memo_transparent say about the search; the premise is kept explicit because
   the search inside run_loop is abstract), THEN the batch result is sentence by sentence the result of parsing alone *)
Theorem C11_batch_equals_alone_if_search_is_state_independent :
  forall gbin gun (S R : Type) slen (placeholder : R) search max_length (sents : list S) st0 st rs st',
  (forall s st1 st2, coherent gbin gun st1 -> coherent gbin gun st2 -> snd (search s st1) = snd (search s st2)) ->
  coherent gbin gun st0 -> coherent gbin gun st ->
  run_loop gbin gun S R slen placeholder search max_length sents st = Some (rs, st') ->
  rs = map (fun s => sentence_result S R slen placeholder search max_length s st0) sents.
Proof. exact batch_equals_alone. Qed.

(* ---------- the hypotheses are satisfiable by non-trivial values ---------- *)
(* the same toy grammar under two different id assignments satisfies every hypothesis of the simulation, so each
   finished run under one assignment has its twin under the other *)
Example ex_c11_simulation : forall st,
  jreach Nat.eqb 2 ex_tag1 (fun _ _ => 0%Z) ex_adm1 (fun _ => 0%Z) (fun _ => 0%Z) ex_bin1 ex_un1 ex_root1 1%Z true 100 1 st ->
  ~ jrunning 100 1 st ->
  exists st', jreach Nat.eqb 2 ex_tag2 (fun _ _ => 0%Z) ex_adm2 (fun _ => 0%Z) (fun _ => 0%Z) ex_bin2 ex_un2 ex_root2 1%Z true 100 1 st' /\
              ~ jrunning 100 1 st' /\ jstatus st = jstatus st' /\ Forall2 (irel ex_R) (jresult st) (jresult st').
Proof.
  apply (C11_search_independent_of_ids nat nat Nat.eqb Nat.eqb 2 ex_tag1 ex_tag2 _ ex_adm1 ex_adm2 _ _ ex_bin1 ex_bin2 ex_un1 ex_un2
           ex_root1 ex_root2 1%Z true 100 1 ex_R ex_R_eqb ex_R_bin ex_R_un ex_R_root ex_R_adm).
Qed.

(* a memo run: two lexical categories, a root outside the list, a grammar creating a new category; the second lookup of
   the same pair is a hit; the table grew by the root and the new category; decoded answers are the grammar's *)
Definition ex_A := Atom [65%N] FNone.
Definition ex_B := Atom [66%N] FNone.
Definition ex_S := Atom [83%N] FNone.
Definition ex_AB := Fun ex_A [47%N] ex_B.
Definition ex_mk c := {| rcat := c; op_string := [102%N]; op_symbol := [62%N]; head_is_left := true |}.
Definition ex_gbin (x y : cat) : list cres := if cat_eqb x ex_A && cat_eqb y ex_B then [ex_mk ex_AB; ex_mk ex_A] else [].
Definition ex_gun (x : cat) : list cres := if cat_eqb x ex_AB then [ex_mk ex_S] else [].
Example ex_c11_memo :
  match memo_ops ex_gbin ex_gun [OBin 0 1; OBin 0 1; OUn 3; OBin 1 0] (init_state [ex_A; ex_B] [ex_S]) with
  | Some st => mtable st = [ex_A; ex_B; ex_S; ex_AB] /\ length (mcache st) = 3 /\
               (match memo_step ex_gbin ex_gun (OBin 0 1) st with
                | Some (e, st') => map fst e = [3; 0] /\ decode (mtable st') e = Some (ex_gbin ex_A ex_B)
                | None => False end)
  | None => False
  end.
Proof. vm_compute. repeat split; reflexivity. Qed.

Example ex_c11_nodup : NoDup [ex_A; ex_B].
Proof. repeat constructor; simpl; intuition discriminate. Qed.
