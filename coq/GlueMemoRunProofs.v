(* Facts about _chunks as Python evaluates it (GlueMemo.chunks_py: ValueError on the empty list) and about the wrapper
   depccg.parsing.run (GlueMemoRun.run): shape errors come first and the parser is not consulted; the two dead
   exceptions are dead; chunked = unchunked for a per-sentence parser. *)
From Coq Require Import List ZArith Bool Arith Lia.
Import ListNotations.
Require Import Cat Filter FilterProofs AStar Glue GlueProofs GlueMemo GlueMemoRun.
Open Scope nat_scope.

(* ---------- _chunks ---------- *)
Lemma ceil_div_zero_iff a b : 1 <= b -> (ceil_div a b = 0 <-> a = 0).
Proof.
  intros Hb. split.
  - intros H. destruct a as [|a]; [reflexivity|]. pose proof (ceil_div_pos (S a) b ltac:(lia) Hb). lia.
  - intros ->. unfold ceil_div. apply Nat.div_small. lia.
Qed.

(* the ValueError is exactly the empty list *)
Theorem chunks_py_error_iff {A} (l : list A) k : chunks_py l k = None <-> l = [].
Proof.
  unfold chunks_py. destruct (Nat.eqb (ceil_div (length l) (Nat.max k 1)) 0) eqn:E; split; intros H; try discriminate; try reflexivity.
  - apply Nat.eqb_eq in E. apply ceil_div_zero_iff in E; [|lia]. now apply length_zero_iff_nil.
  - subst l. apply Nat.eqb_neq in E. exfalso. apply E. apply ceil_div_zero_iff; [lia | reflexivity].
Qed.

(* otherwise it is Glue.chunks *)
Lemma chunks_py_some {A} (l : list A) k : l <> [] -> chunks_py l k = Some (chunks l k).
Proof.
  intros Hne. destruct (chunks_py l k) as [cs|] eqn:E; [|apply chunks_py_error_iff in E; contradiction].
  unfold chunks_py in E. destruct (Nat.eqb _ 0); [discriminate|]. inversion E. reflexivity.
Qed.

(* contiguous, order preserving, nothing lost or repeated, no empty chunk, at least one chunk *)
Theorem chunks_py_spec {A} (l : list A) k cs : chunks_py l k = Some cs ->
  l <> [] /\ concat cs = l /\ (forall c, In c cs -> c <> []) /\ cs <> [].
Proof.
  intros H. assert (Hne : l <> []) by (intros E; apply (chunks_py_error_iff l k) in E; congruence).
  rewrite (chunks_py_some l k Hne) in H. inversion H; subst cs. split; [assumption|]. split; [apply chunks_concat|].
  split; [intros c; apply chunks_nonempty|]. intros E. apply Hne. rewrite <- (chunks_concat l k), E. reflexivity.
Qed.

Theorem chunks_py_total {A} (l : list A) k : l <> [] -> exists cs, chunks_py l k = Some cs.
Proof. intros H. exists (chunks l k). now apply chunks_py_some. Qed.

(* results collected chunk by chunk, in chunk order, are the per-sentence results in input order *)
Theorem collect_in_order_py {A B} (f : A -> B) (l : list A) k cs : chunks_py l k = Some cs ->
  concat (map (map f) cs) = map f l.
Proof. intros H. destruct (chunks_py_spec l k cs H) as (_ & Hc & _). now rewrite <- concat_map, Hc. Qed.

(* never more chunks (worker tasks) than max(num_chunks, 1) *)
Lemma chunks_go_count {A} fuel splits : forall (l : list A), 1 <= splits -> length l <= fuel -> l <> [] ->
  1 <= length (chunks_go fuel splits l) /\ (length (chunks_go fuel splits l) - 1) * splits < length l.
Proof.
  induction fuel as [|f IH]; intros l Hs Hf Hne.
  - destruct l; [contradiction | simpl in Hf; lia].
  - destruct l as [|x l]; [contradiction|]. cbn [chunks_go length].
    destruct (drop splits (x :: l)) as [|y r] eqn:Ed.
    + destruct f; simpl; lia.
    + assert (Hlen : length (drop splits (x :: l)) = length (x :: l) - splits) by apply drop_length. rewrite Ed in Hlen.
      destruct (IH (y :: r) Hs) as [H1 H2]; [cbn [length] in *; lia | discriminate |].
      cbn [length] in *. split; [lia|]. nia.
Qed.
Lemma ceil_div_mul a b : 1 <= b -> a <= ceil_div a b * b.
Proof.
  intros Hb. unfold ceil_div. pose proof (Nat.div_mod (a + b - 1) b ltac:(lia)) as H.
  pose proof (Nat.mod_upper_bound (a + b - 1) b ltac:(lia)). nia.
Qed.
Theorem chunks_py_count {A} (l : list A) k cs : chunks_py l k = Some cs -> length cs <= Nat.max k 1.
Proof.
  intros H. destruct (chunks_py_spec l k cs H) as (Hne & _). unfold chunks_py in H.
  destruct (Nat.eqb (ceil_div (length l) (Nat.max k 1)) 0) eqn:E; [discriminate|]. apply Nat.eqb_neq in E. inversion H; subst cs.
  destruct (chunks_go_count (length l) (ceil_div (length l) (Nat.max k 1)) l ltac:(lia) (le_n _) Hne) as [H1 H2].
  pose proof (ceil_div_mul (length l) (Nat.max k 1) ltac:(lia)). nia.
Qed.

(* ---------- the wrapper ---------- *)
Section Run.
Variables E R : Type.

(* (d) shapes that do not fit are rejected before any parsing: the result is _type_check's exception, and it is the
   same whatever the parser is - the parser is never applied *)
Theorem run_type_error_first ntags d s e mcs procs : type_check ntags d s = Err e ->
  forall inner, run E R inner ntags d s mcs procs = RErr (RType e).
Proof. intros H inner. unfold run. now rewrite H. Qed.

Corollary run_rejected_parser_irrelevant ntags d s e mcs procs : type_check ntags d s = Err e ->
  forall inner1 inner2, run E R inner1 ntags d s mcs procs = run E R inner2 ntags d s mcs procs.
Proof. intros H i1 i2. now rewrite !(run_type_error_first ntags d s e mcs procs H). Qed.

(* conversely, a _type_check exception as result means _type_check failed *)
Theorem run_type_error_only ntags d s mcs procs inner e : run E R inner ntags d s mcs procs = RErr (RType e) ->
  type_check ntags d s = Err e.
Proof.
  unfold run. destruct (type_check ntags d s) as [[docs scs]|e0]; [|intros H; inversion H; reflexivity].
  destruct scs as [|s0 scs]; [discriminate|]. cbv zeta.
  destruct (Z.of_nat (length docs) <=? mcs)%Z; [destruct (inner 0 _ _); discriminate|].
  destruct (procs <? 1)%Z; [discriminate|]. destruct (chunks_py _ _); [|discriminate].
  destruct (collect _); discriminate.
Qed.

(* the two exceptions the code could raise in principle are dead: after _type_check the score list is not empty,
   and _chunks is only reached with a non-empty document *)
Theorem run_dead_exceptions ntags d s mcs procs inner :
  run E R inner ntags d s mcs procs <> RErr RScores0 /\ run E R inner ntags d s mcs procs <> RErr RChunks.
Proof.
  unfold run. destruct (type_check ntags d s) as [[docs scs]|e0] eqn:Et; [|split; discriminate].
  destruct (type_check_ok _ _ _ _ _ Et) as (_ & _ & Hlen & Hne & _).
  destruct scs as [|s0 scs]; [contradiction|]. cbv zeta.
  destruct (Z.of_nat (length docs) <=? mcs)%Z; [destruct (inner 0 _ _); split; discriminate|].
  destruct (procs <? 1)%Z; [split; discriminate|].
  destruct (chunks_py (combine docs (s0 :: scs)) (Z.to_nat procs)) as [cs|] eqn:Ec.
  - destruct (collect _); split; discriminate.
  - apply chunks_py_error_iff in Ec. destruct docs; [discriminate | discriminate].
Qed.

(* Pool(processes) with processes < 1: ValueError, also before any parsing *)
Theorem run_pool_error ntags d s docs scs mcs procs : type_check ntags d s = Ok (docs, scs) ->
  (mcs < Z.of_nat (length docs))%Z -> (procs < 1)%Z -> forall inner, run E R inner ntags d s mcs procs = RErr RPool.
Proof.
  intros Et Hm Hp inner. unfold run. rewrite Et. destruct (type_check_ok _ _ _ _ _ Et) as (_ & _ & _ & Hne & _).
  destruct scs as [|s0 scs]; [contradiction|]. cbv zeta.
  destruct (Z.leb_spec (Z.of_nat (length docs)) mcs); [lia|]. destruct (Z.ltb_spec procs 1); [reflexivity | lia].
Qed.

(* a parser that works sentence by sentence (after an optional up-front test such as the duplicate test on the
   category list): the result for a list is the list of per-sentence results, whatever the process id *)
Definition per_sentence (inner : nat -> nat -> list (list word * scores) -> ires E (list R))
    (pre : nat -> option E) (parse : nat -> list word * scores -> R) : Prop :=
  forall pid nt l, inner pid nt l = match pre nt with Some e => IErr e | None => IOk (map (parse nt) l) end.

Lemma collect_ok {A B} (f : A -> B) (g : nat -> list A -> ires E (list B)) cs : (forall i c, g i c = IOk (map f c)) ->
  forall k, collect (map (fun ic => g (fst ic) (snd ic)) (combine (seq k (length cs)) cs)) = IOk (map f (concat cs)).
Proof.
  intros Hg. induction cs as [|c cs IH]; intros k; simpl; [reflexivity|]. rewrite Hg, IH. now rewrite map_app.
Qed.

(* for well-typed input both branches return the same list: one result per sentence in input order, for every
   max_chunk_size and every number of processes >= 1 (and when the parser's up-front test fails, both raise it) *)
Theorem run_chunked_equals_unchunked inner pre parse ntags d s docs scs mcs procs :
  per_sentence inner pre parse -> type_check ntags d s = Ok (docs, scs) ->
  ((Z.of_nat (length docs) <= mcs)%Z \/ (1 <= procs)%Z) ->
  run E R inner ntags d s mcs procs =
    match pre ntags with Some e => RErr (RInner e) | None => ROk (map (parse ntags) (combine docs scs)) end.
Proof.
  intros Hin Et Hor. unfold run. rewrite Et. destruct (type_check_ok _ _ _ _ _ Et) as (_ & _ & Hlen & Hne & Hsh).
  destruct scs as [|s0 scs]; [contradiction|]. cbv zeta.
  assert (Hnt : ncols (Filter.tag s0) = ntags).
  { destruct docs as [|ws docs]; [discriminate|]. specialize (Hsh 0 ws s0 eq_refl eq_refl).
    apply shape_ok_iff in Hsh. tauto. }
  rewrite Hnt.
  destruct (Z.leb_spec (Z.of_nat (length docs)) mcs) as [Hle|Hgt].
  - rewrite (Hin 0 ntags). destruct (pre ntags); reflexivity.
  - destruct (Z.ltb_spec procs 1) as [Hp|Hp]; [lia|].
    destruct (chunks_py (combine docs (s0 :: scs)) (Z.to_nat procs)) as [cs|] eqn:Ec.
    + destruct (chunks_py_spec _ _ _ Ec) as (_ & Hcat & _ & Hcs). unfold enum.
      destruct (pre ntags) as [e|] eqn:Ep.
      * destruct cs as [|c cs]; [contradiction|]. simpl. rewrite (Hin 0 ntags c), Ep. reflexivity.
      * rewrite (collect_ok (parse ntags) (fun i c => inner i ntags c)); [now rewrite Hcat|].
        intros i c. rewrite (Hin i ntags c), Ep. reflexivity.
    + apply chunks_py_error_iff in Ec. destruct docs; discriminate.
Qed.

(* in particular the result does not depend on max_chunk_size / processes *)
Corollary run_schedule_independent inner pre parse ntags d s docs scs mcs1 procs1 mcs2 procs2 :
  per_sentence inner pre parse -> type_check ntags d s = Ok (docs, scs) -> (1 <= procs1)%Z -> (1 <= procs2)%Z ->
  run E R inner ntags d s mcs1 procs1 = run E R inner ntags d s mcs2 procs2.
Proof.
  intros Hin Et H1 H2. rewrite (run_chunked_equals_unchunked inner pre parse ntags d s docs scs mcs1 procs1 Hin Et (or_intror H1)).
  now rewrite (run_chunked_equals_unchunked inner pre parse ntags d s docs scs mcs2 procs2 Hin Et (or_intror H2)).
Qed.
End Run.
