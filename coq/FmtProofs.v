(* C07 - lemmas about the encoder models of Fmt.v: batch numbering, the CoNLL dependency column, rows. *)
From Coq Require Import List NArith ZArith Bool Arith Lia.
Import ListNotations.
Require Import Cat CatFacts Tree GenTables Fmt.
Open Scope nat_scope.

(* ================= numbering ================= *)
Lemma number_trees_snd {A} k i (ts : list A) : map snd (number_trees k i ts) = ts.
Proof. revert i. induction ts as [|x r IH]; intros i; cbn [number_trees map snd]; [reflexivity | now rewrite IH]. Qed.

Lemma number_from_snd {A} k (b : list (list A)) : map snd (number_from k b) = concat b.
Proof.
  revert k. induction b as [|ts r IH]; intros k; cbn [number_from concat map]; [reflexivity|].
  now rewrite map_app, number_trees_snd, IH.
Qed.

Lemma number_trees_in {A} k i (ts : list A) k' i' x :
  In (k', i', x) (number_trees k i ts) <-> k' = k /\ exists j, i' = i + j /\ nth_error ts j = Some x.
Proof.
  revert i. induction ts as [|y r IH]; intros i; cbn [number_trees In].
  - split; [tauto | intros [_ [j [_ Hj]]]; destruct j; discriminate].
  - rewrite IH. split.
    + intros [E | [Ek [j [Ei Hj]]]].
      * inversion E; subst. split; [reflexivity|]. exists 0. split; [lia | reflexivity].
      * split; [exact Ek|]. exists (S j). split; [lia | exact Hj].
    + intros [Ek [j [Ei Hj]]]. destruct j as [|j].
      * left. cbn in Hj. inversion Hj; subst. f_equal. f_equal. lia.
      * right. split; [exact Ek|]. exists j. split; [lia | exact Hj].
Qed.

Lemma number_from_in {A} k (b : list (list A)) k' i' x :
  In (k', i', x) (number_from k b) <->
  exists s j ts, k' = k + s /\ i' = S j /\ nth_error b s = Some ts /\ nth_error ts j = Some x.
Proof.
  revert k. induction b as [|ts r IH]; intros k; cbn [number_from].
  - split; [intros [] | intros (s & j & ts & _ & _ & H & _); destruct s; discriminate].
  - rewrite in_app_iff, number_trees_in, IH. split.
    + intros [[Ek [j [Ei Hj]]] | (s & j & ts' & Ek & Ei & Hs & Hj)].
      * exists 0, j, ts. repeat split; [lia | lia | exact Hj].
      * exists (S s), j, ts'. repeat split; [lia | exact Ei | exact Hs | exact Hj].
    + intros (s & j & ts' & Ek & Ei & Hs & Hj). destruct s as [|s].
      * left. cbn in Hs. inversion Hs; subst ts'. split; [lia|]. exists j. split; [lia | exact Hj].
      * right. exists s, j, ts'. repeat split; [lia | exact Ei | exact Hs | exact Hj].
Qed.

Lemma number_from_groups {A} k (b : list (list A)) :
  number_from k b = concat (map (fun g => number_trees (fst g) 1 (snd g)) (number_groups k b)).
Proof. revert k. induction b as [|ts r IH]; intros k; cbn [number_from number_groups map concat fst snd]; [reflexivity | now rewrite IH]. Qed.

Lemma number_groups_nth {A} k (b : list (list A)) s :
  nth_error (number_groups k b) s = option_map (fun ts => (k + s, ts)) (nth_error b s).
Proof.
  revert k s. induction b as [|ts r IH]; intros k s; destruct s as [|s]; cbn [number_groups nth_error option_map]; try reflexivity.
  - f_equal. f_equal. lia.
  - rewrite IH. destruct (nth_error r s); cbn [option_map]; [f_equal; f_equal; lia | reflexivity].
Qed.

Lemma length_concat_sum {A} (b : list (list A)) : length (concat b) = list_sum (map (@length A) b).
Proof. induction b as [|x r IH]; cbn [concat map list_sum]; [reflexivity | now rewrite app_length, IH]. Qed.

(* the sentence numbers never decrease and the tree numbers restart at 1: the list is sorted by (sentence, tree) *)
Lemma number_trees_sorted {A} k i (ts : list A) :
  map (fun x => fst x) (number_trees k i ts) = map (fun j => (k, j)) (seq i (length ts)).
Proof. revert i. induction ts as [|x r IH]; intros i; cbn [number_trees map seq length fst]; [reflexivity | now rewrite IH]. Qed.

(* ================= the dependency column ================= *)
Open Scope Z_scope.

(* relative index of the head of word i inside t; None when word i is the head word of t *)
Fixpoint head_of (t : tree) (i : nat) : option nat :=
  match t with
  | Leaf _ _ _ _ => None
  | Un _ _ _ t1 => head_of t1 i
  | Bin _ _ _ hl l r =>
      if (i <? nleaves l)%nat then
        match head_of l i with
        | Some h => Some h
        | None => if hl then None else Some (nleaves l + head_index r)%nat
        end
      else
        match head_of r (i - nleaves l) with
        | Some h => Some (nleaves l + h)%nat
        | None => if hl then Some (head_index l) else None
        end
  end.

Definition enc_head (off : nat) (h : option nat) : Z := match h with None => -1 | Some x => Z.of_nat (off + x) end.

(* a subtree s of t whose first word is word `off` of t *)
Inductive subtree : tree -> nat -> tree -> Prop :=
| sub_refl t : subtree t 0 t
| sub_un c o y t1 off s : subtree t1 off s -> subtree (Un c o y t1) off s
| sub_l c o y hl l r off s : subtree l off s -> subtree (Bin c o y hl l r) off s
| sub_r c o y hl l r off s : subtree r off s -> subtree (Bin c o y hl l r) (nleaves l + off) s.

Lemma nleaves_pos t : (0 < nleaves t)%nat.
Proof. induction t as [c tok o y | c o y t1 IH | c o y hl l IHl r IHr]; cbn [nleaves]; lia. Qed.

Lemma head_index_lt t : (head_index t < nleaves t)%nat.
Proof.
  induction t as [c tok o y | c o y t1 IH | c o y hl l IHl r IHr]; cbn [nleaves head_index]; try lia.
  destruct hl; lia.
Qed.

Lemma head_of_none t i : (i < nleaves t)%nat -> (head_of t i = None <-> i = head_index t).
Proof.
  revert i. induction t as [c tok o y | c o y t1 IH | c o y hl l IHl r IHr]; intros i Hi; cbn [nleaves head_index head_of] in *.
  - split; [intros _; lia | reflexivity].
  - now apply IH.
  - pose proof (head_index_lt l) as Hl. pose proof (head_index_lt r) as Hr.
    destruct (Nat.ltb_spec i (nleaves l)) as [Hlt|Hge].
    + specialize (IHl i Hlt). destruct (head_of l i) as [h|] eqn:E.
      * split; [discriminate|]. intros ->. destruct hl.
        -- assert (Some h = None) by (apply IHl; reflexivity). discriminate.
        -- lia.
      * destruct hl; split; try discriminate; try reflexivity.
        -- intros _. now apply IHl.
        -- intros ->. lia.
    + assert (Hi' : (i - nleaves l < nleaves r)%nat) by lia. specialize (IHr _ Hi').
      destruct (head_of r (i - nleaves l)) as [h|] eqn:E.
      * split; [discriminate|]. intros ->. destruct hl; [lia|].
        assert (Some h = None) by (apply IHr; lia). discriminate.
      * destruct hl; split; try discriminate; try reflexivity.
        -- intros ->. lia.
        -- intros _. assert (i - nleaves l = head_index r)%nat by (now apply IHr). lia.
Qed.

Lemma head_of_some t i h : (i < nleaves t)%nat -> head_of t i = Some h -> (h < nleaves t)%nat /\ h <> i.
Proof.
  revert i h. induction t as [c tok o y | c o y t1 IH | c o y hl l IHl r IHr]; intros i h Hi E; cbn [nleaves head_of] in *.
  - discriminate.
  - now apply IH.
  - pose proof (head_index_lt l) as Hl. pose proof (head_index_lt r) as Hr.
    destruct (Nat.ltb_spec i (nleaves l)) as [Hlt|Hge].
    + destruct (head_of l i) as [h'|] eqn:E'.
      * inversion E; subst h'. destruct (IHl _ _ Hlt E') as [A B]. split; [lia | exact B].
      * destruct hl; [discriminate|]. inversion E; subst. split; lia.
    + assert (Hi' : (i - nleaves l < nleaves r)%nat) by lia.
      destruct (head_of r (i - nleaves l)) as [h'|] eqn:E'.
      * inversion E; subst. destruct (IHr _ _ Hi' E') as [A B]. split; lia.
      * destruct hl; [|discriminate]. inversion E; subst. split; lia.
Qed.

Lemma subtree_bound t off s : subtree t off s -> (off + nleaves s <= nleaves t)%nat.
Proof.
  intros Hs. induction Hs as [t | c o y t1 off s Hs IH | c o y hl l r off s Hs IH | c o y hl l r off s Hs IH]; cbn [nleaves]; lia.
Qed.

(* heads assigned inside a subtree are the heads in the whole tree *)
Lemma subtree_head t off s : subtree t off s ->
  forall i h, (i < nleaves s)%nat -> head_of s i = Some h -> head_of t (off + i) = Some (off + h)%nat.
Proof.
  intros Hs. induction Hs as [t | c o y t1 off s Hs IH | c o y hl l r off s Hs IH | c o y hl l r off s Hs IH]; intros i h Hi E.
  - exact E.
  - cbn [head_of]. now apply IH.
  - cbn [head_of]. specialize (IH i h Hi E).
    pose proof (subtree_bound _ _ _ Hs) as Hb.
    destruct (Nat.ltb_spec (off + i) (nleaves l)) as [_|A]; [|lia]. now rewrite IH.
  - cbn [head_of]. specialize (IH i h Hi E).
    destruct (Nat.ltb_spec (nleaves l + off + i) (nleaves l)) as [A|_]; [lia|].
    replace (nleaves l + off + i - nleaves l)%nat with (off + i)%nat by lia. rewrite IH. f_equal. lia.
Qed.

(* the head entry written at a binary node *)
Lemma head_of_bin c o y (hl : bool) l r :
  if hl then head_of (Bin c o y hl l r) (nleaves l + head_index r) = Some (head_index l)
  else head_of (Bin c o y hl l r) (head_index l) = Some (nleaves l + head_index r)%nat.
Proof.
  pose proof (head_index_lt l) as Hl. pose proof (head_index_lt r) as Hr.
  destruct hl; cbn [head_of].
  - destruct (Nat.ltb_spec (nleaves l + head_index r) (nleaves l)) as [A|_]; [lia|].
    replace (nleaves l + head_index r - nleaves l)%nat with (head_index r) by lia.
    assert (E : head_of r (head_index r) = None) by (now apply head_of_none). now rewrite E.
  - destruct (Nat.ltb_spec (head_index l) (nleaves l)) as [_|A]; [|lia].
    assert (E : head_of l (head_index l) = None) by (now apply head_of_none). now rewrite E.
Qed.

(* ---- list update ---- *)
Lemma set_nth_app {A} (a b : list A) x v : set_nth (length a) v (a ++ x :: b) = Some (a ++ v :: b).
Proof. induction a as [|y a IH]; cbn [length app set_nth]; [reflexivity | now rewrite IH]. Qed.

Lemma set_nth_skip {A} (a l l' : list A) i v : set_nth i v l = Some l' -> set_nth (length a + i) v (a ++ l) = Some (a ++ l').
Proof. intros H. induction a as [|y a IH]; cbn [length app set_nth plus]; [exact H | now rewrite IH]. Qed.

Lemma set_nth_keep {A} (l l' b : list A) i v : set_nth i v l = Some l' -> set_nth i v (l ++ b) = Some (l' ++ b).
Proof.
  revert i l'. induction l as [|y l IH]; intros i l' H; destruct i as [|i]; cbn [set_nth app] in *; try discriminate.
  - inversion H; reflexivity.
  - destruct (set_nth i v l) as [r|] eqn:E; [|discriminate]. inversion H; subst. now rewrite (IH _ _ E).
Qed.

Lemma set_nth_nth {A} (l l' : list A) i v : set_nth i v l = Some l' ->
  length l' = length l /\ nth_error l' i = Some v /\ forall j, j <> i -> nth_error l' j = nth_error l j.
Proof.
  revert i l'. induction l as [|y l IH]; intros i l' H; destruct i as [|i]; cbn [set_nth] in H; try discriminate.
  - inversion H; subst. repeat split. intros j Hj. destruct j; [congruence | reflexivity].
  - destruct (set_nth i v l) as [r|] eqn:E; [|discriminate]. inversion H; subst.
    destruct (IH _ _ E) as (HA & HB & HC). repeat split; cbn [length nth_error]; [lia | exact HB|].
    intros j Hj. destruct j as [|j]; [reflexivity|]. apply HC. congruence.
Qed.

Lemma set_nth_some {A} (l : list A) i v : (i < length l)%nat -> exists l', set_nth i v l = Some l'.
Proof.
  revert i. induction l as [|y l IH]; intros i H; cbn [length] in H; [lia|]. destruct i as [|i]; cbn [set_nth]; [eauto|].
  destruct (IH i ltac:(lia)) as [r E]. rewrite E. eauto.
Qed.

(* ---- resolve computes head_of ---- *)
Definition local_ok (t : tree) (off : nat) (d : list Z) : Prop :=
  length d = nleaves t /\ forall i, (i < nleaves t)%nat -> nth_error d i = Some (enc_head off (head_of t i)).

Lemma resolve_spec t : forall res, exists d,
  resolve t res = Some (res ++ d, (length res + head_index t)%nat) /\ local_ok t (length res) d.
Proof.
  induction t as [c tok o y | c o y t1 IH | c o y hl l IHl r IHr]; intros res.
  - exists [-1]. cbn [resolve head_index]. split; [f_equal; f_equal; lia|]. split; [reflexivity|].
    intros i Hi. cbn [nleaves] in Hi. assert (i = 0)%nat by lia. subst. reflexivity.
  - destruct (IH res) as (d & E & Hd). exists d. cbn [resolve head_index]. split; [exact E|]. exact Hd.
  - destruct (IHl res) as (dl & El & [Ll Hl]).
    destruct (IHr (res ++ dl)) as (dr & Er & [Lr Hr]).
    pose proof (head_index_lt l) as Bl. pose proof (head_index_lt r) as Br.
    cbn [resolve]. rewrite El, Er. rewrite app_length, Ll in *.
    destruct hl.
    + (* results[right_head] = left_head *)
      destruct (set_nth_some dr (head_index r) (Z.of_nat (length res + head_index l)) ltac:(lia)) as [dr' Es].
      destruct (set_nth_nth _ _ _ _ Es) as (L' & Nv & No).
      exists (dl ++ dr'). split.
      * replace (length res + nleaves l + head_index r)%nat with (length (res ++ dl) + head_index r)%nat by (rewrite app_length; lia).
        rewrite (set_nth_skip (res ++ dl) dr dr' _ _ Es). cbn [head_index]. now rewrite <- app_assoc.
      * split; [rewrite app_length; cbn [nleaves]; lia|].
        intros i Hi. cbn [nleaves] in Hi. cbn [head_of].
        destruct (Nat.ltb_spec i (nleaves l)) as [A|A].
        -- rewrite nth_error_app1 by lia. rewrite (Hl i A). destruct (head_of l i); reflexivity.
        -- rewrite nth_error_app2 by lia. rewrite Ll.
           destruct (Nat.eq_dec (i - nleaves l) (head_index r)) as [E|E].
           ++ rewrite E, Nv. assert (E0 : head_of r (head_index r) = None) by (now apply head_of_none). rewrite E0. reflexivity.
           ++ rewrite (No _ E), (Hr (i - nleaves l)%nat ltac:(lia)).
              destruct (head_of r (i - nleaves l)) as [h|] eqn:E1.
              ** cbn [enc_head]. f_equal. f_equal. lia.
              ** exfalso. apply E. now apply head_of_none; [lia|].
    + (* results[left_head] = right_head *)
      destruct (set_nth_some dl (head_index l) (Z.of_nat (length res + nleaves l + head_index r)) ltac:(lia)) as [dl' Es].
      destruct (set_nth_nth _ _ _ _ Es) as (L' & Nv & No).
      exists (dl' ++ dr). split.
      * rewrite <- app_assoc. rewrite (set_nth_skip res (dl ++ dr) (dl' ++ dr) _ _ (set_nth_keep _ _ dr _ _ Es)).
        cbn [head_index]. f_equal. f_equal. lia.
      * split; [rewrite app_length; cbn [nleaves]; lia|].
        intros i Hi. cbn [nleaves] in Hi. cbn [head_of].
        destruct (Nat.ltb_spec i (nleaves l)) as [A|A].
        -- rewrite nth_error_app1 by lia.
           destruct (Nat.eq_dec i (head_index l)) as [E|E].
           ++ rewrite E, Nv. assert (E0 : head_of l (head_index l) = None) by (now apply head_of_none). rewrite E0. cbn [enc_head]. f_equal. f_equal. lia.
           ++ rewrite (No _ E), (Hl _ A). destruct (head_of l i) as [h|] eqn:E1; [reflexivity|].
              exfalso. apply E. now apply head_of_none.
        -- rewrite nth_error_app2 by lia. rewrite L', Ll. rewrite (Hr (i - nleaves l)%nat ltac:(lia)).
           destruct (head_of r (i - nleaves l)) as [h|]; cbn [enc_head]; [f_equal; f_equal; lia | reflexivity].
Qed.

(* exactly one position satisfies p *)
Lemma filter_one {A} (p : A -> bool) (l : list A) k :
  (k < length l)%nat -> (forall i x, nth_error l i = Some x -> (p x = true <-> i = k)) -> length (filter p l) = 1%nat.
Proof.
  revert k. induction l as [|x l IH]; intros k Hk H; cbn [length] in Hk; [lia|].
  cbn [filter]. destruct k as [|k].
  - assert (Hx : p x = true) by (apply (H 0%nat x); reflexivity). rewrite Hx. cbn [length]. f_equal.
    assert (Hn : forall y, In y l -> p y = false).
    { intros y Hy. apply In_nth_error in Hy as [j Hj]. destruct (p y) eqn:E; [|reflexivity].
      assert (S j = 0)%nat by (apply (H (S j) y); [exact Hj | exact E]). discriminate. }
    clear -Hn. induction l as [|y l IH]; [reflexivity|]. cbn [filter]. rewrite (Hn y (or_introl eq_refl)). apply IH. intros z Hz. apply Hn. now right.
  - assert (Hx : p x = false).
    { destruct (p x) eqn:E; [|reflexivity]. assert (0 = S k)%nat by (apply (H 0%nat x); [reflexivity | exact E]). discriminate. }
    rewrite Hx. apply (IH k); [lia|]. intros i y Hy. specialize (H (S i) y Hy). rewrite H. split; intros; lia.
Qed.

Lemma enc_head_root off h : Z.eqb (-1) (enc_head off h) = true <-> h = None.
Proof. destruct h as [x|]; cbn [enc_head]; split; intros H; try reflexivity; try discriminate. apply Z.eqb_eq in H. lia. Qed.

Theorem deps_of_spec t : exists ds, deps_of t = Some ds /\ length ds = nleaves t /\
  forall i, (i < nleaves t)%nat -> nth_error ds i = Some (match head_of t i with None => 0%nat | Some h => S h end).
Proof.
  destruct (resolve_spec t []) as (d & E & [L H]). cbn [length app plus] in E.
  unfold deps_of, resolve_dependencies. rewrite E.
  assert (C : count_root d = 1%nat).
  { unfold count_root. apply (filter_one _ d (head_index t)); [rewrite L; apply head_index_lt|].
    intros i x Hx. assert (Hi : (i < nleaves t)%nat) by (rewrite <- L; apply nth_error_Some; congruence).
    rewrite (H i Hi) in Hx. inversion Hx; subst x. rewrite enc_head_root. now apply head_of_none. }
  rewrite C. cbn [Nat.eqb option_map]. eexists. split; [reflexivity|]. split; [now rewrite map_length|].
  intros i Hi. rewrite nth_error_map, (H i Hi). cbn [option_map]. f_equal.
  destruct (head_of t i) as [h|]; cbn [enc_head length plus]; [|reflexivity].
  rewrite Z.add_1_r, <- Nat2Z.inj_succ, Nat2Z.id. reflexivity.
Qed.

Close Scope Z_scope.

(* ================= rows ================= *)
Definition has_words (t : tree) : Prop := Forall (fun ct => leaf_word (snd ct) <> None) (leaves t).

Lemma denormalize_total w : exists w', denormalize w = Some w'.
Proof.
  unfold denormalize. destruct (assoc w denormalize_table) as [r|]; [eauto|].
  cbn [denormalize_replace fold_left replace_pat fst snd]. eauto.
Qed.

Lemma app_last_frag_map {B} (f : row -> B) s rows :
  (forall r x, f (mkrow (r_idx r) (r_word r) (r_lemma r) (r_pos r) (r_head r) (r_cat r) x) = f r) ->
  map f (app_last_frag s rows) = map f rows.
Proof.
  intros Hf. induction rows as [|r rest IH]; [reflexivity|].
  destruct rest as [|r2 rest]; cbn [app_last_frag map] in *; [now rewrite Hf | now rewrite IH].
Qed.

Definition leaf_words (t : tree) : list (option text) :=
  map (fun ct => match leaf_word (snd ct) with Some w => denormalize w | None => None end) (leaves t).

Lemma rows_rec_spec deps t : forall stack k rows k',
  rows_rec deps t stack k = Some (rows, k') ->
  k' = k + nleaves t /\ map r_cat rows = map fst (leaves t) /\ map r_idx rows = seq k (nleaves t) /\
  map (fun r => Some (r_word r)) rows = leaf_words t /\
  map (fun r => Some (r_head r)) rows = map (fun i => nth_error deps (i - 1)) (seq k (nleaves t)) /\
  map r_lemma rows = map (fun ct => tok_get_default k_lemma s_us (snd ct)) (leaves t) /\
  map r_pos rows = map (fun ct => tok_get_default k_pos s_us (snd ct)) (leaves t).
Proof.
  unfold leaf_words.
  induction t as [c tok o y | c o y t1 IH | c o y hl l IHl r IHr]; intros stack k rows k' E; cbn [rows_rec] in E.
  - destruct (leaf_word tok) as [w|] eqn:Ew; [|discriminate].
    destruct (denormalize w) as [w'|] eqn:Ed; [|discriminate].
    destruct (nth_error deps (k - 1)) as [h|] eqn:Eh; [|discriminate].
    inversion E; subst. cbn [nleaves leaves map seq fst snd r_cat r_idx r_word r_head r_lemma r_pos].
    rewrite Ew, Ed, Eh. repeat split; lia.
  - destruct (rows_rec deps t1 _ k) as [[rows1 k1]|] eqn:E1; [|discriminate]. inversion E; subst.
    destruct (IH _ _ _ _ E1) as (A & B & C & D & F & G & H). cbn [nleaves leaves].
    rewrite !app_last_frag_map by reflexivity. repeat split; assumption.
  - destruct (rows_rec deps l _ k) as [[rows1 k1]|] eqn:E1; [|discriminate].
    destruct (rows_rec deps r [] k1) as [[rows2 k2]|] eqn:E2; [|discriminate]. inversion E; subst.
    destruct (IHl _ _ _ _ E1) as (A1 & B1 & C1 & D1 & F1 & G1 & H1).
    destruct (IHr _ _ _ _ E2) as (A2 & B2 & C2 & D2 & F2 & G2 & H2). subst k1.
    cbn [nleaves leaves]. rewrite !map_app, !app_last_frag_map by reflexivity. rewrite seq_app, !map_app.
    rewrite B1, B2, C1, C2, D1, D2, F1, F2, G1, G2, H1, H2. repeat split. lia.
Qed.

Lemma rows_rec_total deps t : has_words t -> forall stack k,
  (1 <= k)%nat -> (k - 1 + nleaves t <= length deps)%nat -> exists rows k', rows_rec deps t stack k = Some (rows, k').
Proof.
  unfold has_words.
  induction t as [c tok o y | c o y t1 IH | c o y hl l IHl r IHr]; intros Hw stack k Hk Hd; cbn [rows_rec nleaves leaves] in *.
  - apply Forall_inv in Hw. cbn [snd] in Hw. destruct (leaf_word tok) as [w|]; [|congruence].
    destruct (denormalize_total w) as [w' Ew]. rewrite Ew.
    destruct (nth_error deps (k - 1)) as [h|] eqn:Eh; [eauto|]. apply nth_error_None in Eh. lia.
  - destruct (IH Hw (stack ++ [node_open c true s_one_gt]) k Hk Hd) as (rows & k' & E). rewrite E. eauto.
  - apply Forall_app in Hw as [Hwl Hwr].
    destruct (IHl Hwl (stack ++ [node_open c hl s_two_gt]) k Hk ltac:(lia)) as (rows1 & k1 & E1). rewrite E1.
    destruct (rows_rec_spec _ _ _ _ _ _ E1) as (A & _). subst k1.
    destruct (IHr Hwr [] (k + nleaves l) ltac:(lia) ltac:(lia)) as (rows2 & k2 & E2). rewrite E2. eauto.
Qed.

Lemma map_nth_seq {A} (l : list A) : map (fun i => nth_error l (i - 1)) (seq 1 (length l)) = map Some l.
Proof.
  assert (G : forall (l : list A) (pre : list A), map (fun i => nth_error (pre ++ l) (i - 1)) (seq (S (length pre)) (length l)) = map Some l).
  { clear l. intros l. induction l as [|x l IH]; intros pre; cbn [length seq map]; [reflexivity|].
    f_equal.
    - replace (S (length pre) - 1) with (length pre) by lia. rewrite nth_error_app2 by lia. now rewrite Nat.sub_diag.
    - specialize (IH (pre ++ [x])). rewrite <- app_assoc, app_length in IH. cbn [length app] in IH.
      replace (length pre + 1) with (S (length pre)) in IH by lia. exact IH. }
  exact (G l []).
Qed.

Lemma map_Some_inj {A} (a b : list A) : map Some a = map Some b -> a = b.
Proof. revert b. induction a as [|x a IH]; intros [|y b] H; cbn [map] in H; try discriminate; [reflexivity|]. inversion H. f_equal. now apply IH. Qed.

Theorem conll_rows_view t : has_words t ->
  exists rows ds, conll_rows t = Some rows /\ deps_of t = Some ds /\
    map r_idx rows = seq 1 (nleaves t) /\ map r_cat rows = map fst (leaves t) /\
    map (fun r => Some (r_word r)) rows = leaf_words t /\ map r_head rows = ds /\
    map r_lemma rows = map (fun ct => tok_get_default k_lemma s_us (snd ct)) (leaves t) /\
    map r_pos rows = map (fun ct => tok_get_default k_pos s_us (snd ct)) (leaves t).
Proof.
  intros Hw. destruct (deps_of_spec t) as (ds & Ed & Ld & _).
  destruct (rows_rec_total ds t Hw [] 1 ltac:(lia) ltac:(lia)) as (rows & k' & Er).
  exists rows, ds. unfold conll_rows. rewrite Ed, Er.
  destruct (rows_rec_spec _ _ _ _ _ _ Er) as (_ & B & C & D & F & G & H).
  repeat split; try assumption.
  apply map_Some_inj. rewrite <- (map_nth_seq ds), Ld, <- F, map_map. reflexivity.
Qed.

Theorem conll_deps_all t : exists ds, deps_of t = Some ds /\ length ds = nleaves t /\
  length (filter (Nat.eqb 0) ds) = 1 /\ nth_error ds (head_index t) = Some 0 /\
  (forall off c ops sym (hl : bool) l r, subtree t off (Bin c ops sym hl l r) ->
     if hl then nth_error ds (off + (nleaves l + head_index r)) = Some (S (off + head_index l))
     else nth_error ds (off + head_index l) = Some (S (off + (nleaves l + head_index r)))) /\
  (forall off s i, subtree t off s -> i < nleaves s -> i <> head_index s ->
     exists h, nth_error ds (off + i) = Some (S (off + h)) /\ h < nleaves s /\ h <> i).
Proof.
  destruct (deps_of_spec t) as (ds & Ed & Ld & Hd). exists ds. split; [exact Ed|]. split; [exact Ld|].
  pose proof (head_index_lt t) as Ht.
  assert (Hroot : nth_error ds (head_index t) = Some 0).
  { rewrite (Hd _ Ht). assert (E : head_of t (head_index t) = None) by (now apply head_of_none). now rewrite E. }
  split; [|split; [exact Hroot|split]].
  - apply (filter_one _ ds (head_index t)); [lia|]. intros i x Hx.
    assert (Hi : i < nleaves t) by (rewrite <- Ld; apply nth_error_Some; congruence).
    rewrite (Hd i Hi) in Hx. inversion Hx; subst x. destruct (head_of t i) as [h|] eqn:E.
    + split; [discriminate|]. intros ->. assert (E0 : head_of t (head_index t) = None) by (now apply head_of_none). congruence.
    + split; [intros _; now apply head_of_none | reflexivity].
  - intros off c ops sym hl l r Hs. pose proof (subtree_bound _ _ _ Hs) as Hb. cbn [nleaves] in Hb.
    pose proof (head_index_lt l) as Hl. pose proof (head_index_lt r) as Hr.
    pose proof (head_of_bin c ops sym hl l r) as Hbin. destruct hl.
    + rewrite (Hd (off + (nleaves l + head_index r)) ltac:(lia)).
      rewrite (subtree_head _ _ _ Hs (nleaves l + head_index r) (head_index l) ltac:(cbn [nleaves]; lia) Hbin). reflexivity.
    + rewrite (Hd (off + head_index l) ltac:(lia)).
      rewrite (subtree_head _ _ _ Hs (head_index l) (nleaves l + head_index r) ltac:(cbn [nleaves]; lia) Hbin). reflexivity.
  - intros off s i Hs Hi Hne. pose proof (subtree_bound _ _ _ Hs) as Hb.
    destruct (head_of s i) as [h|] eqn:E.
    + destruct (head_of_some _ _ _ Hi E) as [A B]. exists h. rewrite (Hd (off + i) ltac:(lia)), (subtree_head _ _ _ Hs _ _ Hi E). repeat split; assumption.
    + exfalso. apply Hne. now apply head_of_none.
Qed.

Theorem numbering_all (A : Type) (b : list (list A)) :
  map snd (number_batch b) = concat b /\
  length (number_batch b) = list_sum (map (@length A) b) /\
  (forall k i x, In (k, i, x) (number_batch b) <->
     exists s j ts, k = S s /\ i = S j /\ nth_error b s = Some ts /\ nth_error ts j = Some x) /\
  number_batch b = concat (map (fun g => number_trees (fst g) 1 (snd g)) (number_groups 1 b)) /\
  (forall s, nth_error (number_groups 1 b) s = option_map (fun ts => (S s, ts)) (nth_error b s)) /\
  (forall k i (ts : list A), map (fun x => fst x) (number_trees k i ts) = map (fun j => (k, j)) (seq i (length ts))).
Proof.
  unfold number_batch. repeat split.
  - apply number_from_snd.
  - rewrite <- length_concat_sum, <- (number_from_snd 1 b). now rewrite map_length.
  - intros H. apply number_from_in in H as (s & j & ts & Ek & Ei & Hs & Hj). exists s, j, ts. repeat split; assumption.
  - intros (s & j & ts & Ek & Ei & Hs & Hj). apply number_from_in. exists s, j, ts. repeat split; assumption.
  - apply number_from_groups.
  - intros s. apply (number_groups_nth 1 b s).
  - intros k i ts. apply number_trees_sorted.
Qed.

(* every projection of a derivation has the derivation's shape, categories and (where carried) labels and head flags *)
Lemma project_erase {L} (leaf : token -> option L) k heads t v :
  project leaf k heads t = Some v -> project (fun _ => Some tt) k heads t = Some (vmap (fun _ => tt) v).
Proof.
  revert v. induction t as [c tok o y | c o y t1 IH | c o y hl l IHl r IHr]; intros v E; cbn [project] in *.
  - destruct (leaf tok); [|discriminate]. inversion E; reflexivity.
  - destruct (project leaf k heads t1) as [v1|]; [|discriminate]. inversion E; subst. now rewrite (IH v1 eq_refl).
  - destruct (project leaf k heads l) as [v1|]; [|discriminate]. destruct (project leaf k heads r) as [v2|]; [|discriminate].
    inversion E; subst. now rewrite (IHl v1 eq_refl), (IHr v2 eq_refl).
Qed.

Lemma project_skeleton {L} (leaf : token -> option L) k heads t v :
  project leaf k heads t = Some v -> tree_skeleton t = Some (skeleton_of v).
Proof.
  unfold tree_skeleton. revert v. induction t as [c tok o y | c o y t1 IH | c o y hl l IHl r IHr]; intros v E; cbn [project] in *.
  - destruct (leaf tok); [|discriminate]. inversion E; reflexivity.
  - destruct (project leaf k heads t1) as [v1|]; [|discriminate]. inversion E; subst. now rewrite (IH v1 eq_refl).
  - destruct (project leaf k heads l) as [v1|]; [|discriminate]. destruct (project leaf k heads r) as [v2|]; [|discriminate].
    inversion E; subst. now rewrite (IHl v1 eq_refl), (IHr v2 eq_refl).
Qed.

Theorem views_same_derivation (L : Type) (leaf : token -> option L) k heads t v :
  project leaf k heads t = Some v ->
  project (fun _ => Some tt) k heads t = Some (vmap (fun _ => tt) v) /\ tree_skeleton t = Some (skeleton_of v).
Proof. intros H. split; [exact (project_erase leaf k heads t v H) | exact (project_skeleton leaf k heads t v H)]. Qed.
