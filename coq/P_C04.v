(* C04 - Japanese combinatory rules are sound; unary labels follow the shape.  Property theorems only.
   Everything is stated over the GENERATED GenJa.v (translated from depccg/grammar/ja.py on every run) and the
   GENERATED table GenJaroots.ja_roots; the schemata `Justified_ja`, `Expected_ja`, `ja_unary_label` are in JaSpec.v.
   Domain: `ternary` = every atom carries a feature triple (one feature system).  Well-formedness of names/slashes
   (CatFacts.wf) is not needed by any statement below, so it is not assumed. *)
From Coq Require Import List NArith Bool.
Import ListNotations.
Require Import Cat CatFacts Unify GramPrims GenTables GenJa GenJaroots JaSpec JaLemmas JaSound JaPure.
Open Scope N_scope.

(* every result of the Japanese grammar is justified by the schema its symbol names *)
Theorem C04_ja_sound : forall x y rs r, ternary x -> ternary y ->
  GenJa.apply_binary_rules x y None = Ok_ rs -> In r rs -> Justified_ja r x y.
Proof. exact ja_sound. Qed.

(* the head is always the right child *)
Theorem C04_ja_head_right : forall x y rs r, ternary x -> ternary y ->
  GenJa.apply_binary_rules x y None = Ok_ rs -> In r rs -> head_is_left r = false.
Proof. intros x y rs r Tx Ty H Hin. exact (justified_head r x y (ja_sound x y rs r Tx Ty H Hin)). Qed.

(* on EVERY pair of categories (no domain hypothesis): whatever is returned has the head on the right and the rule name that
   goes with its symbol *)
Theorem C04_ja_labels : forall x y rs r, GenJa.apply_binary_rules x y None = Ok_ rs -> In r rs ->
  head_is_left r = false /\ ja_op_string (op_symbol r) = Some (op_string r).
Proof. exact ja_labels. Qed.

(* only the eleven symbols occur *)
Theorem C04_ja_symbols : forall x y rs r, ternary x -> ternary y ->
  GenJa.apply_binary_rules x y None = Ok_ rs -> In r rs ->
  In (op_symbol r) [sym_fa; sym_ba; sym_fc; sym_bx 1; sym_bx 2; sym_bx 3; sym_bx 4; sym_fx 1; sym_fx 2; sym_fx 3; sym_sseq].
Proof. intros x y rs r Tx Ty H Hin. exact (justified_symbol r x y (ja_sound x y rs r Tx Ty H Hin)). Qed.

(* feature variables are instantiated only from the inputs: every feature triple of a result is a triple of x or of y *)
Theorem C04_ja_features_from_inputs : forall x y rs r, ternary x -> ternary y ->
  GenJa.apply_binary_rules x y None = Ok_ rs -> In r rs ->
  forall f, In f (feats (rcat r)) -> In f (feats x) \/ In f (feats y).
Proof. intros x y rs r Tx Ty H Hin. exact (justified_feats r x y (ja_sound x y rs r Tx Ty H Hin)). Qed.

(* completeness on identical parts, for all eleven symbols: when the part the functor asks for is literally there,
   the rule named by the symbol returns the schema's category (no variable-freeness is needed: nothing is re-instantiated) *)
Theorem C04_ja_complete : forall x y sym c, ternary x -> ternary y -> Expected_ja x y sym c ->
  exists rs r, GenJa.apply_binary_rules x y None = Ok_ rs /\ In r rs /\ op_symbol r = sym /\ rcat r = c /\ head_is_left r = false.
Proof. exact ja_complete. Qed.

(* unary steps: the label is the one the shape of the input calls for, and every result carries it as rule name and symbol,
   on the configured target categories in order *)
(* (the helper _unary_rule_symbol is inlined by the translator: the label is read off the per-result body of apply_unary_rules) *)
Theorem C04_ja_unary_label : forall x, result_ternary x ->
  (forall c, GenJa.unary_body x c = Ok_ (unary_result (ja_unary_label x) c)) /\
  forall t, GenJa.apply_unary_rules x t = Ok_ (map (unary_result (ja_unary_label x)) (targets x t)).
Proof. intros x H. split; [intros c; now apply ja_unary_symbol | intros t; now apply ja_unary_rules]. Qed.

(* the domain of the label: a key whose result atom carries a unary feature (or none) raises AttributeError *)
Theorem C04_ja_unary_label_domain : forall x, ~ result_ternary x ->
  (forall c, GenJa.unary_body x c = Err AttrErr) /\
  forall t c rest, table_get x t = Some (c :: rest) -> GenJa.apply_unary_rules x t = Err AttrErr.
Proof. intros x H. split; [intros c; now apply ja_unary_symbol_domain | intros t c rest; now apply ja_unary_rules_domain]. Qed.

(* ---------- non-vacuity: concrete categories ---------- *)
Definition k_mod : text := [109;111;100]. Definition k_form : text := [102;111;114;109]. Definition k_fin : text := [102;105;110].
Definition k_case : text := [99;97;115;101].
Definition S_ (m : text) : cat := Atom [83] (FTer k_mod m k_form [98;97;115;101] k_fin [102]).               (* S[mod=m,form=base,fin=f] *)
Definition NP_ (c m : text) : cat := Atom [78;80] (FTer k_case c k_mod m k_fin [102]).                       (* NP[case=c,mod=m,fin=f] *)
Definition v_adn : text := [97;100;110]. Definition v_adv : text := [97;100;118]. Definition v_nm : text := [110;109].
Definition v_ga : text := [103;97]. Definition v_X1 : text := [88;49]. Definition v_X2 : text := [88;50].
Definition bs : text := [92].

(* each of the five labels (and OTHER) is reached: this is what breaks if the shape test is wrong *)
Definition label_of (x : cat) : res text := match GenJa.unary_body x x with Ok_ r => Ok_ (op_symbol r) | Err e => Err e end.
Example C04_labels_reached :
  map label_of
      [S_ v_adn; Fun (S_ v_adn) bs (NP_ v_ga v_nm); S_ v_adv; Fun (S_ v_adv) bs (NP_ v_ga v_nm);
       Fun (Fun (S_ v_adv) bs (NP_ v_ga v_nm)) bs (NP_ v_ga v_nm); Fun (Fun (Fun (S_ v_adv) bs (NP_ v_ga v_nm)) bs (NP_ v_ga v_nm)) bs (NP_ v_ga v_nm);
       S_ v_nm]
  = [Ok_ l_ADNext; Ok_ l_ADNint; Ok_ l_ADV0; Ok_ l_ADV1; Ok_ l_ADV2; Ok_ l_ADV0; Ok_ l_OTHER].
Proof. vm_compute. reflexivity. Qed.
Example C04_label_domain : label_of (Atom [83] (FUn [100;99;108])) = Err AttrErr.
Proof. vm_compute. reflexivity. Qed.

(* a non-modifier backward application that instantiates two feature variables from the argument *)
Definition ex_x : cat := NP_ v_ga v_nm.
Definition ex_y : cat := Fun (Fun (S_ v_nm) bs (NP_ v_X1 v_X2)) bs (NP_ v_X1 v_X2).
Example ex_ternary : ternary ex_x /\ ternary ex_y /\ wf puncts ex_x /\ wf puncts ex_y.
Proof. split; [|split; [|split]]; try (apply ternaryb_ok; vm_compute; reflexivity); apply wfb_ok; vm_compute; reflexivity. Qed.
Example ex_fires : GenJa.apply_binary_rules ex_x ex_y None =
  Ok_ [ {| rcat := Fun (S_ v_nm) bs (NP_ v_ga v_nm); op_string := [98;97]; op_symbol := sym_ba; head_is_left := false |} ].
Proof. vm_compute. reflexivity. Qed.
(* a crossed composition '>Bx2' that is not a modifier case: the crossed slash stays backward, the outer slash is y's own *)
Definition ex_x2 : cat := Fun (S_ v_adn) [47] (S_ v_nm).
Definition ex_y2 : cat := Fun (Fun (S_ v_nm) bs (NP_ v_ga v_nm)) [47] (NP_ v_ga v_adv).
Example ex_crossed : GenJa.apply_binary_rules ex_x2 ex_y2 None =
  Ok_ [ {| rcat := Fun (Fun (S_ v_adn) bs (NP_ v_ga v_nm)) [47] (NP_ v_ga v_adv); op_string := [102;120]; op_symbol := sym_fx 2; head_is_left := false |} ].
Proof. vm_compute. reflexivity. Qed.
Example ex_roots : In (S_ v_nm) ja_roots /\ length ja_roots = 16%nat.
Proof. split; [vm_compute; tauto | reflexivity]. Qed.
