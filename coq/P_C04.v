(* C04 - Japanese combinatory rules are sound; unary labels follow the shape.  Property theorems only. *)
From Coq Require Import List NArith Bool.
Import ListNotations.
Require Import Cat CatFacts Unify GramPrims GenTables GenJa GenJaroots JaSpec.
Open Scope N_scope.
