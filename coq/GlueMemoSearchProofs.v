(* The search reading the memo incrementally (GlueMemoSearch.mreach) is, from EVERY coherent memo state that extends the
   initial one - whatever earlier sentences put into the table and the cache - step by step the category-level search
   (handles = the categories themselves), with ids read through the table of the moment; and conversely every run of
   the category-level search is realised from every such state.  Hence a sentence has the same possible outcomes
   (decoded derivations, rule indices, head flags, all scores, status) after any history, the loop of run yields for
   every sentence an outcome of the category-level search of that sentence alone, and vice versa.
   Also: the answers the search receives are the id-level grammar induced by any later (e.g. the final) table, a run
   under the memo is a run under that fixed grammar, and the ids under two tables satisfy the hypotheses of the
   (domain-restricted) simulation on the pairs whose results both tables contain. *)
From Coq Require Import List ZArith Bool Arith Lia.
Import ListNotations.
Require Import Cat CatFacts Tree GramPrims AStar AStarImpl AStarEquiv AStarEquivOn Glue GlueProofs GlueMemo GlueMemoProofs
               AStarEquivTables GlueMemoSearch.
Open Scope nat_scope.

(* ---------- tables ---------- *)
Lemma names_ext t u i c : names t i c -> names (t ++ u) i c.
Proof. unfold names. apply nth_error_ext. Qed.
Lemma names_lt t i c : names t i c -> i < length t.
Proof. unfold names. intros H. apply nth_error_Some. congruence. Qed.
Lemma names_fun t i c d : names t i c -> names t i d -> c = d.
Proof. unfold names. congruence. Qed.

Lemma index_of_nth (t : table) i c : NoDup t -> nth_error t i = Some c -> index_of c t 0 = Some i.
Proof.
  intros Hnd Hi. destruct (index_of c t 0) as [j|] eqn:E.
  - destruct (index_of_bound _ _ _ _ E) as [_ Hn]. rewrite Nat.sub_0_r in Hn. f_equal. now apply (nodup_inj t j i c).
  - exfalso. apply (index_of_none _ _ _ E). now apply (nth_error_In t i).
Qed.
Lemma id_of_nth t i c : NoDup t -> nth_error t i = Some c -> id_of t c = i.
Proof. intros Hnd Hi. unfold id_of, get_or_add. now rewrite (index_of_nth t i c Hnd Hi). Qed.
Lemma in_table_In c t : in_table c t = true <-> In c t.
Proof.
  unfold in_table. destruct (index_of c t 0) as [j|] eqn:E; split; intros H; try discriminate; try reflexivity.
  - destruct (index_of_bound _ _ _ _ E) as [_ Hn]. now apply (nth_error_In t (j - 0)).
  - exfalso. now apply (index_of_none _ _ _ E).
Qed.
Lemma id_of_names t c : In c t -> names t (id_of t c) c.
Proof.
  intros Hin. unfold id_of, get_or_add, names. destruct (index_of c t 0) as [j|] eqn:E.
  - destruct (index_of_bound _ _ _ _ E) as [_ Hn]. now rewrite Nat.sub_0_r in Hn.
  - exfalso. now apply (index_of_none _ _ _ E).
Qed.
Lemma NoDup_app_l {A} (l u : list A) : NoDup (l ++ u) -> NoDup l.
Proof. induction l as [|x l IH]; simpl; intros H; [constructor|]. inversion H; subst. constructor; [|now apply IH]. intros Hin. apply H2. apply in_or_app. now left. Qed.
Lemma F2_impl {A B} (P Q : A -> B -> Prop) l l' : (forall x y, P x y -> Q x y) -> Forall2 P l l' -> Forall2 Q l l'.
Proof. intros H HF. induction HF; constructor; auto. Qed.
Lemma F2_map_same {A B B'} (P : B -> B' -> Prop) (f : A -> B) (g : A -> B') l : (forall x, In x l -> P (f x) (g x)) -> Forall2 P (map f l) (map g l).
Proof. induction l as [|x l IH]; intros H; simpl; constructor; [apply H; now left | apply IH; intros y Hy; apply H; now right]. Qed.

Lemma step_within_impl {C} ceqb n dedup (UB UB' : C -> C -> Prop) (UU UU' : C -> Prop) a st :
  (forall x y, UB x y -> UB' x y) -> (forall x, UU x -> UU' x) ->
  step_within ceqb n dedup UB UU a st -> step_within ceqb n dedup UB' UU' a st.
Proof. intros HB HU Hw Hex. destruct (Hw Hex) as (H1 & H2 & H3). repeat split; auto. Qed.

(* ---------- decoding ---------- *)
Lemma ddecode_rel t d dc : drel (names t) d dc -> ddecode t d = Some dc.
Proof.
  induction 1 as [i c c' Hc | k c c' d d' Hc Hd IH | k c c' hl l l' r r' Hc Hl IHl Hr IHr]; simpl; unfold names in Hc; rewrite Hc.
  - reflexivity.
  - now rewrite IH.
  - now rewrite IHl, IHr.
Qed.
Lemma jdecode_rel t a ac : irel (names t) a ac -> jdecode t a = Some ac.
Proof.
  intros (Hf & Hd & Hi & Ho & Hs & Hl & Hh). unfold jdecode. rewrite (ddecode_rel _ _ _ Hd).
  destruct ac; simpl in *. now rewrite Hf, Hi, Ho, Hs, Hl, Hh.
Qed.
Lemma decode_items_rel t l lc : Forall2 (irel (names t)) l lc -> decode_items t l = Some lc.
Proof. induction 1 as [|a ac l lc Ha _ IH]; simpl; [reflexivity|]. now rewrite (jdecode_rel _ _ _ Ha), IH. Qed.
Lemma outcome_rel t js (jsc : @jstate cat) : srel (names t) js jsc ->
  sentence_outcome js t = Some (match jgoal jsc with [] => None | _ => Some (jresult jsc) end).
Proof.
  intros Hs. pose proof (equiv_result _ _ _ Hs) as Hr. destruct Hs as (_ & _ & Hgo & _). unfold sentence_outcome.
  destruct Hgo as [|g gc gs gcs Hg Hgs]; [reflexivity|]. now rewrite (decode_items_rel _ _ _ Hr).
Qed.

(* ids under two tables that decode to the same category-level object are related by same_cat *)
Lemma drel_names_same t1 t2 d1 dc : drel (names t1) d1 dc -> forall d2, drel (names t2) d2 dc -> drel (same_cat t1 t2) d1 d2.
Proof.
  induction 1 as [i c c' Hc | k c c' d d' Hc Hd IH | k c c' hl l l' r r' Hc Hl IHl Hr IHr]; intros d2 H2; inversion H2; subst;
    constructor; try (exists c'; split; assumption); auto.
Qed.
Lemma irel_names_same t1 t2 a1 ac a2 : irel (names t1) a1 ac -> irel (names t2) a2 ac -> irel (same_cat t1 t2) a1 a2.
Proof.
  intros (Hf & Hd & Hi & Ho & Hs & Hl & Hh) (Hf2 & Hd2 & Hi2 & Ho2 & Hs2 & Hl2 & Hh2). unfold irel.
  rewrite Hf, Hi, Ho, Hs, Hl, Hh, Hf2, Hi2, Ho2, Hs2, Hl2, Hh2. repeat split. now apply (drel_names_same t1 t2 _ (jder ac)).
Qed.
Lemma F2_irel_names_same t1 t2 l1 lc : Forall2 (irel (names t1)) l1 lc -> forall l2, Forall2 (irel (names t2)) l2 lc ->
  Forall2 (irel (same_cat t1 t2)) l1 l2.
Proof.
  induction 1 as [|a ac l lc Ha _ IH]; intros l2 H2; inversion H2; subst; constructor; [now apply (irel_names_same t1 t2 a ac) | now apply IH].
Qed.

(* related items look the same to a category-blind observer *)
Lemma derase_rel {C C'} (R : C -> C' -> Prop) d d' : drel R d d' -> derase d = derase d'.
Proof. induction 1 as [i c c' Hc | k c c' d d' Hc Hd IH | k c c' hl l l' r r' Hc Hl IHl Hr IHr]; simpl; congruence. Qed.
Lemma blind_rel {C C'} (R : C -> C' -> Prop) (a : @jitem C) (a' : @jitem C') : irel R a a' -> blind a = blind a'.
Proof. intros (Hf & Hd & Hi & Ho & Hs & Hl & Hh). unfold blind. now rewrite Hf, (derase_rel R _ _ Hd), Hi, Ho, Hs, Hl, Hh. Qed.
Lemma view_rel {C C'} (R : C -> C' -> Prop) (js : @jstate C) (js' : @jstate C') : srel R js js' -> view js = view js'.
Proof.
  intros (Hag & _). unfold view. induction Hag as [|a a' l l' Ha _ IH]; simpl; [reflexivity|]. now rewrite (blind_rel R a a' Ha), IH.
Qed.
Lemma F2_nth_l {A B} (P : A -> B -> Prop) l l' k a : Forall2 P l l' -> nth_error l k = Some a -> exists a', nth_error l' k = Some a' /\ P a a'.
Proof.
  intros HF. revert k. induction HF as [|x y l l' Hxy _ IH]; intros [|k] H; simpl in *; try discriminate.
  - inversion H; subst. eauto.
  - now apply IH.
Qed.
Lemma F2_nth_r {A B} (P : A -> B -> Prop) l l' k a' : Forall2 P l l' -> nth_error l' k = Some a' -> exists a, nth_error l k = Some a /\ P a a'.
Proof.
  intros HF. revert k. induction HF as [|x y l l' Hxy _ IH]; intros [|k] H; simpl in *; try discriminate.
  - inversion H; subst. eauto.
  - now apply IH.
Qed.
(* validity of a pop transfers to the related item itself (priorities read scores only) *)
Lemma jvalid_pop_at {C C'} (R : C -> C' -> Prop) (a : @jitem C) (a' : @jitem C') js js' :
  srel R js js' -> irel R a a' -> In a' (jagenda js') -> jvalid_pop a js -> jvalid_pop a' js'.
Proof.
  intros (Hag & _) Ha Hin [_ Hmax]. split; [assumption|]. intros b' Hb'. destruct (F2_in_r _ _ _ _ Hag Hb') as [b [Hb Hbb]].
  rewrite <- (irel_jprio _ _ _ Ha), <- (irel_jprio _ _ _ Hbb). now apply Hmax.
Qed.
Lemma jvalid_pop_at_conv {C C'} (R : C -> C' -> Prop) (a : @jitem C) (a' : @jitem C') js js' :
  srel R js js' -> irel R a a' -> In a (jagenda js) -> jvalid_pop a' js' -> jvalid_pop a js.
Proof.
  intros (Hag & _) Ha Hin [_ Hmax]. split; [assumption|]. intros b Hb. destruct (F2_in_l _ _ _ _ Hag Hb) as [b' [Hb' Hbb]].
  rewrite (irel_jprio _ _ _ Ha), (irel_jprio _ _ _ Hbb). now apply Hmax.
Qed.

Section G.
Variable gbin : cat -> cat -> list cres.
Variable gun : cat -> list cres.
Notation memo_step := (memo_step gbin gun).
Notation memo_ops := (memo_ops gbin gun).
Notation coherent := (coherent gbin gun).
Notation entry_ok := (entry_ok gbin gun).

(* ---------- the answers of the memo are the grammar induced by any later table ---------- *)
Lemma entry_bin_table t u x y e : NoDup (t ++ u) -> entry_ok t (KBin x y) e -> id_view e = bin_T gbin (t ++ u) x y.
Proof.
  intros Hnd (rs & Hk & Hm & HF). simpl in Hk.
  destruct (nth_error t x) as [cx|] eqn:Ex; [|discriminate]. destruct (nth_error t y) as [cy|] eqn:Ey; [|discriminate].
  inversion Hk as [Hrs]. unfold bin_T. rewrite (nth_error_ext _ u _ _ Ex), (nth_error_ext _ u _ _ Ey), Hrs, <- Hm.
  unfold id_view. rewrite map_map. apply map_ext_in. intros p Hp. rewrite Forall_forall in HF. f_equal.
  symmetry. apply id_of_nth; [assumption|]. apply nth_error_ext. now apply HF.
Qed.
Lemma entry_un_table t u x e : NoDup (t ++ u) -> entry_ok t (KUn x) e -> map fst e = un_T gun (t ++ u) x.
Proof.
  intros Hnd (rs & Hk & Hm & HF). simpl in Hk. destruct (nth_error t x) as [cx|] eqn:Ex; [|discriminate].
  inversion Hk as [Hrs]. unfold un_T. rewrite (nth_error_ext _ u _ _ Ex), Hrs, <- Hm.
  rewrite map_map. apply map_ext_in. intros p Hp. rewrite Forall_forall in HF.
  symmetry. apply id_of_nth; [assumption|]. apply nth_error_ext. now apply HF.
Qed.

(* what a lookup hands to the search, in any coherent state (hit or miss): exactly the id-level grammar induced by the
   table T of any later moment - in particular by the table the call ends with *)
Theorem memo_answer_is_table_grammar o st e st1 T : coherent st -> memo_step o st = Some (e, st1) ->
  NoDup T -> (exists u, T = mtable st1 ++ u) ->
  match o with OBin x y => id_view e = bin_T gbin T x y | OUn x => map fst e = un_T gun T x end.
Proof.
  intros Hc H Hnd [u ->]. destruct (memo_step_coherent gbin gun _ _ _ _ Hc H) as (_ & _ & _ & Hok).
  destruct o as [x y|x]; simpl in Hok; [now apply entry_bin_table | now apply entry_un_table].
Qed.

Corollary memo_answer_is_final_table_grammar o os st e st1 st2 : coherent st -> memo_step o st = Some (e, st1) ->
  memo_ops os st1 = Some st2 ->
  cache_find (key_of o) (mcache st2) = Some e /\
  match o with OBin x y => id_view e = bin_T gbin (mtable st2) x y | OUn x => map fst e = un_T gun (mtable st2) x end.
Proof.
  intros Hc H Hos. split; [now apply (cached_answer_stable gbin gun o os st e st1 st2)|].
  destruct (memo_step_coherent gbin gun _ _ _ _ Hc H) as (Hc1 & _).
  destruct (memo_ops_coherent_from gbin gun _ _ _ Hc1 Hos) as ([Hnd _] & Hu & _).
  now apply (memo_answer_is_table_grammar o st e st1).
Qed.

(* ---------- the cache, seen from the categories ---------- *)
Lemma cache_bin_rel st x y cx cy : coherent st -> names (mtable st) x cx -> names (mtable st) y cy ->
  (exists e, cache_find (KBin x y) (mcache st) = Some e) ->
  res_rel (names (mtable st)) (cache_bin st x y) (bin_c gbin cx cy).
Proof.
  intros [_ Hc] Hx Hy [e He]. unfold cache_bin. rewrite He.
  destruct (entry_view_related gbin gun _ _ _ (Hc _ _ He)) as (rs & Hk & HF). simpl in Hk.
  unfold names in Hx, Hy. rewrite Hx, Hy in Hk. inversion Hk; subst rs. exact HF.
Qed.
Lemma cache_un_rel st x cx : coherent st -> names (mtable st) x cx ->
  (exists e, cache_find (KUn x) (mcache st) = Some e) -> Forall2 (names (mtable st)) (cache_un st x) (un_c gun cx).
Proof.
  intros [_ Hc] Hx [e He]. unfold cache_un. rewrite He. destruct (Hc _ _ He) as (rs & Hk & Hm & HF). simpl in Hk.
  unfold names in Hx. rewrite Hx in Hk. inversion Hk as [Hrs]. unfold un_c. rewrite Hrs, <- Hm. clear Hm Hk Hrs He.
  induction HF as [|p e' Hp _ IH]; simpl; constructor; assumption.
Qed.

(* every key looked up is in the cache afterwards *)
Lemma memo_ops_cached os : forall st st' k, memo_ops os st = Some st' -> In k os ->
  exists e, cache_find (key_of k) (mcache st') = Some e.
Proof.
  induction os as [|o os IH]; intros st st' k H Hin; simpl in *; [contradiction|].
  destruct (memo_step o st) as [[e st1]|] eqn:E; [|discriminate]. destruct Hin as [->|Hin].
  - exists e. now apply (cached_answer_stable gbin gun k os st e st1 st').
  - now apply (IH st1 st' k).
Qed.

Definition op_in_range (t : table) (o : mop) : Prop :=
  match o with OBin x y => x < length t /\ y < length t | OUn x => x < length t end.
(* lookups on ids of the table never fail (no IndexError), however the table grows in between *)
Lemma memo_ops_total os : forall st, coherent st -> (forall o, In o os -> op_in_range (mtable st) o) ->
  exists st', memo_ops os st = Some st'.
Proof.
  induction os as [|o os IH]; intros st Hc Hr; simpl; [eauto|].
  destruct (memo_step_total gbin gun o st (Hr o (or_introl eq_refl))) as (e & st1 & E). rewrite E.
  destruct (memo_step_coherent gbin gun _ _ _ _ Hc E) as (Hc1 & [u Hu] & _ & _). apply IH; [assumption|].
  intros o' Ho'. specialize (Hr o' (or_intror Ho')). rewrite Hu. destruct o'; simpl in *; rewrite app_length; lia.
Qed.

Section Call.
Variable cats roots : list cat.
Variable rids : list nat.
Variable pen : Z.
Variable dedup : bool.
Variable max_step nbest : nat.

(* the memo states a sentence of this call can start from: coherent, the input list is a prefix of the table, the root
   ids name the roots.  True of the initial state and preserved by every lookup. *)
Definition start_ok (st : mstate) : Prop :=
  coherent st /\ (exists u, mtable st = cats ++ u) /\ Forall2 (names (mtable st)) rids roots.

Lemma start_ok_ext st st' : start_ok st -> coherent st' -> (exists u, mtable st' = mtable st ++ u) -> start_ok st'.
Proof.
  intros (Hc & [u0 Hu0] & HR) Hc' [u Hu]. split; [assumption|]. split; [exists (u0 ++ u); rewrite Hu, Hu0; now rewrite app_assoc|].
  rewrite Hu. eapply F2_impl; [|exact HR]. intros i c. apply names_ext.
Qed.
Lemma start_ok_ops os st st' : start_ok st -> memo_ops os st = Some st' -> start_ok st'.
Proof.
  intros Hs H. destruct Hs as (Hc & Hrest). destruct (memo_ops_coherent_from gbin gun _ _ _ Hc H) as (Hc' & Hu & _).
  now apply (start_ok_ext st); [split|assumption|assumption].
Qed.
Lemma start_ok_nodup st : start_ok st -> NoDup cats /\ NoDup (mtable st).
Proof. intros ([Hnd _] & [u Hu] & _). split; [|assumption]. rewrite Hu in Hnd. now apply (NoDup_app_l cats u). Qed.

Lemma isroot_rel t i c : NoDup t -> Forall2 (names t) rids roots -> names t i c -> isroot_ids rids i = isroot_c roots c.
Proof.
  intros Hnd HF Hi. unfold isroot_ids, isroot_c. induction HF as [|r c' rs cs Hr _ IH]; simpl; [reflexivity|].
  rewrite IH. f_equal. exact (names_eqb t Hnd i c r c' Hi Hr).
Qed.

Lemma adm_rel t (s : sent) i : NoDup cats -> (exists u, t = cats ++ u) -> lex_ok cats s ->
  Forall2 (fun j c => names t j c /\ s_tag s i j = tag_c cats (s_tag s) i c) (s_adm s i) (adm_c cats (s_adm s) i).
Proof.
  intros Hnd [u ->] Hlex. unfold adm_c. specialize (Hlex i). revert Hlex. generalize (s_adm s i) as l.
  induction l as [|j l IH]; intros Hl; simpl; [constructor|].
  assert (Hj : j < length cats) by (apply Hl; now left). apply nth_error_Some in Hj.
  destruct (nth_error cats j) as [c|] eqn:E; [|congruence]. simpl. constructor; [|apply IH; intros x Hx; apply Hl; now right].
  split; [now apply names_ext|]. unfold tag_c. now rewrite (index_of_nth cats j c Hnd E).
Qed.

Section OneSentence.
Variable s : sent.
Hypothesis Hlex : lex_ok cats s.
Notation mreach := (mreach gbin gun rids pen dedup max_step nbest s).
Notation creach := (creach gbin gun cats roots pen dedup max_step nbest s).
Notation cstep := (cstep gbin gun roots pen dedup s).
Notation mstep_js := (mstep_js rids pen dedup s).
Notation needed := (needed dedup s).
Notation cached_bin st := (fun x y => exists e, cache_find (KBin x y) (mcache st) = Some e).
Notation cached_un st := (fun x => exists e, cache_find (KUn x) (mcache st) = Some e).

(* the keys a step needs, as the domain predicate of AStarEquivOn *)
Lemma needed_within a js (PB : nat -> nat -> Prop) (PU : nat -> Prop) :
  (forall k, In k (needed a js) -> match k with OBin x y => PB x y | OUn x => PU x end) ->
  step_within Nat.eqb (s_n s) dedup PB PU a js.
Proof.
  intros Hc Hex. unfold expands in Hex. apply andb_true_iff in Hex as [Hf Hd]. apply negb_true_iff in Hf, Hd.
  unfold GlueMemoSearch.needed in Hc. rewrite Hf, Hd in Hc. unfold step_keys in Hc. split; [|split].
  - intros Hu. apply (Hc (OUn (jcat a))). apply in_or_app. left. unfold uses_un in Hu. rewrite Hu. now left.
  - intros o Ho Hr. apply (Hc (OBin (jcat a) (jcat o))). apply in_or_app. right. apply in_or_app. left.
    apply in_flat_map. exists o. split; [assumption|]. unfold right_of in Hr. rewrite Hr. now left.
  - intros o Ho Hl. apply (Hc (OBin (jcat o) (jcat a))). apply in_or_app. right. apply in_or_app. right.
    apply in_flat_map. exists o. split; [assumption|]. unfold left_of in Hl. rewrite Hl. now left.
Qed.

Lemma needed_cached a js ks st st' : (forall k, In k ks <-> In k (needed a js)) -> memo_ops ks st = Some st' ->
  step_within Nat.eqb (s_n s) dedup (cached_bin st') (cached_un st') a js.
Proof.
  intros Hks Hops. apply needed_within. intros k Hk. apply Hks in Hk.
  destruct (memo_ops_cached _ _ _ _ Hops Hk) as [e He]. destruct k; simpl in He; eauto.
Qed.

(* every handle of a state related to a category-level state is an id of the table: the keys are in range *)
Lemma needed_in_range t a (ac : @jitem cat) js (jsc : @jstate cat) : srel (names t) js jsc -> irel (names t) a ac ->
  forall k, In k (needed a js) -> op_in_range t k.
Proof.
  intros (_ & Hch & _) Ha k Hk. pose proof (names_lt _ _ _ (irel_jcat _ _ _ Ha)) as Hla.
  assert (Hlo : forall o, In o (jchart js) -> jcat o < length t).
  { intros o Ho. destruct (F2_in_l _ _ _ _ Hch Ho) as [oc [_ Hoc]]. exact (names_lt _ _ _ (irel_jcat _ _ _ Hoc)). }
  unfold GlueMemoSearch.needed in Hk. destruct (jfin a); [destruct Hk|].
  destruct (dedup && existsb (jkey_eqb Nat.eqb a) (jchart js)); [destruct Hk|].
  unfold step_keys in Hk. apply in_app_or in Hk as [Hk|Hk]; [|apply in_app_or in Hk as [Hk|Hk]].
  - destruct ((s_n s =? 1) || negb (jlen a =? s_n s)); [|destruct Hk]. destruct Hk as [<-|[]]. exact Hla.
  - apply in_flat_map in Hk as [o [Ho Hk]]. destruct (jstart o =? jstart a + jlen a); [|destruct Hk].
    destruct Hk as [<-|[]]. split; [exact Hla | now apply Hlo].
  - apply in_flat_map in Hk as [o [Ho Hk]]. destruct (jstart o + jlen o =? jstart a); [|destruct Hk].
    destruct Hk as [<-|[]]. split; [now apply Hlo | exact Hla].
Qed.

(* ---------- one loop iteration under the memo = one iteration of the category-level search ---------- *)
Theorem mstep_rel st st' a ac js jsc ks : start_ok st ->
  srel (names (mtable st)) js jsc -> irel (names (mtable st)) a ac ->
  (forall k, In k ks <-> In k (needed a js)) -> memo_ops ks st = Some st' ->
  start_ok st' /\ (exists u, mtable st' = mtable st ++ u) /\ srel (names (mtable st')) (mstep_js st' a js) (cstep ac jsc).
Proof.
  intros Hst Hs Ha Hks Hops. pose proof (start_ok_ops _ _ _ Hst Hops) as Hst'.
  destruct Hst as (Hc & _). destruct (memo_ops_coherent_from gbin gun _ _ _ Hc Hops) as (Hc' & [u Hu] & _).
  split; [assumption|]. split; [now exists u|].
  assert (Hsub : forall i c, names (mtable st) i c -> names (mtable st') i c) by (intros i c H; rewrite Hu; now apply names_ext).
  destruct Hst' as (_ & _ & HR'). destruct Hc' as [Hnd' Hcc'].
  unfold GlueMemoSearch.mstep_js, GlueMemoSearch.cstep.
  apply (jstep_rel_on Nat.eqb cat_eqb (s_n s) (s_dep s) (s_besttag s) (s_bestdep s) (isroot_ids rids) (isroot_c roots) pen dedup
           (names (mtable st')) (names_eqb _ Hnd') (fun i c => isroot_rel _ i c Hnd' HR')
           (cache_bin st') (bin_c gbin) (cache_un st') (un_c gun) (cached_bin st') (cached_un st')).
  - intros x cx y cy Hx Hy Hex. apply cache_bin_rel; [now split | assumption | assumption | assumption].
  - intros x cx Hx Hex. apply cache_un_rel; [now split | assumption | assumption].
  - now apply (irel_mono (names (mtable st))).
  - now apply (srel_mono (names (mtable st))).
  - now apply (needed_cached a js ks st).
Qed.

(* ---------- every run under the memo is a run of the category-level search ---------- *)
Theorem mreach_to_cat st0 p : start_ok st0 -> mreach st0 p ->
  start_ok (snd p) /\ (exists u, mtable (snd p) = mtable st0 ++ u) /\
  exists jsc, creach jsc /\ srel (names (mtable (snd p))) (fst p) jsc.
Proof.
  intros H0. induction 1 as [|js st a ks st' Hr IH Hrun Hpop Hks Hops]; simpl in *.
  - split; [assumption|]. split; [exists []; now rewrite app_nil_r|].
    exists (jinit (s_n s) (tag_c cats (s_tag s)) (adm_c cats (s_adm s)) (s_besttag s) (s_bestdep s)). split; [constructor|].
    unfold minit. apply jinit_rel. intros i. destruct (start_ok_nodup _ H0) as [Hnd _]. destruct H0 as (_ & Hu & _).
    apply adm_rel; assumption.
  - destruct IH as (Hst & [u0 Hu0] & jsc & Hc & Hs).
    destruct (jvalid_pop_rel _ _ _ _ Hs Hpop) as [ac [Ha Hpopc]].
    destruct (mstep_rel st st' a ac js jsc ks Hst Hs Ha Hks Hops) as (Hst' & [u Hu] & Hs').
    split; [assumption|]. split; [exists (u0 ++ u); rewrite Hu, Hu0; now rewrite app_assoc|].
    exists (cstep ac jsc). split; [|assumption].
    constructor; [assumption | now apply (jrunning_rel max_step nbest (names (mtable st)) js) | assumption].
Qed.

(* the domain invariant: every item of a reachable state (agenda, chart, goal) decodes through the table of that
   moment - all the ids in its derivation are ids of the table; no IndexError in categories_[id] *)
Corollary mreach_items_in_table st0 js st : start_ok st0 -> mreach st0 (js, st) ->
  forall a, In a (jagenda js) \/ In a (jchart js) \/ In a (jgoal js) ->
  jcat a < length (mtable st) /\ exists ac, jdecode (mtable st) a = Some ac.
Proof.
  intros H0 Hm a Hin. destruct (mreach_to_cat st0 _ H0 Hm) as (_ & _ & jsc & _ & (Hag & Hch & Hgo & _)). simpl in *.
  assert (Hex : exists ac, irel (names (mtable st)) a ac).
  { destruct Hin as [Hin|[Hin|Hin]];
      [destruct (F2_in_l _ _ _ _ Hag Hin) as [ac [_ Ha]] | destruct (F2_in_l _ _ _ _ Hch Hin) as [ac [_ Ha]]
       | destruct (F2_in_l _ _ _ _ Hgo Hin) as [ac [_ Ha]]]; now exists ac. }
  destruct Hex as [ac Ha]. split; [exact (names_lt _ _ _ (irel_jcat _ _ _ Ha)) | exists ac; now apply jdecode_rel].
Qed.

(* ---------- and every run of the category-level search is realised from every such memo state ---------- *)
Theorem cat_to_mreach st0 jsc : start_ok st0 -> creach jsc ->
  exists js st, mreach st0 (js, st) /\ start_ok st /\ (exists u, mtable st = mtable st0 ++ u) /\ srel (names (mtable st)) js jsc.
Proof.
  intros H0. induction 1 as [|jsc ac Hr (js & st & Hm & Hst & [u0 Hu0] & Hs) Hrun Hpop].
  - exists (minit s), st0. split; [constructor|]. split; [assumption|]. split; [exists []; now rewrite app_nil_r|].
    unfold minit. apply jinit_rel. intros i. destruct (start_ok_nodup _ H0) as [Hnd _]. destruct H0 as (_ & Hu & _).
    apply adm_rel; assumption.
  - destruct (jvalid_pop_rel_conv _ _ _ _ Hs Hpop) as [a [Ha Hpopi]].
    destruct (memo_ops_total (needed a js) st (proj1 Hst) (needed_in_range _ a ac js jsc Hs Ha)) as [st' Hops].
    destruct (mstep_rel st st' a ac js jsc (needed a js) Hst Hs Ha (fun k => iff_refl _) Hops) as (Hst' & [u Hu] & Hs').
    exists (mstep_js st' a js), st'. split.
    + apply (mreach_step gbin gun rids pen dedup max_step nbest s st0 js st a (needed a js) st'); try assumption.
      * now apply (jrunning_rel_conv max_step nbest (names (mtable st)) js jsc).
      * intros k. apply iff_refl.
    + split; [assumption|]. split; [exists (u0 ++ u); rewrite Hu, Hu0; now rewrite app_assoc | assumption].
Qed.

(* ---------- the same sentence after two histories ---------- *)
(* every finished run from memo state st1 has a finished run from memo state st2 (and a finished run of the
   category-level search) with the same status and position-wise the same results: the id-level results of both
   decode - each through its own table - to the very same list of category-level items, all numeric fields equal *)
Theorem same_sentence_any_history st1 st2 js1 st1' : start_ok st1 -> start_ok st2 ->
  mreach st1 (js1, st1') -> ~ jrunning max_step nbest js1 ->
  exists js2 st2' jsc,
    mreach st2 (js2, st2') /\ ~ jrunning max_step nbest js2 /\ creach jsc /\ ~ jrunning max_step nbest jsc /\
    jstatus js1 = jstatus js2 /\ jstatus js1 = jstatus jsc /\
    decode_items (mtable st1') (jresult js1) = Some (jresult jsc) /\
    decode_items (mtable st2') (jresult js2) = Some (jresult jsc) /\
    Forall2 (irel (same_cat (mtable st1') (mtable st2'))) (jresult js1) (jresult js2) /\
    sentence_outcome js1 (mtable st1') = sentence_outcome js2 (mtable st2').
Proof.
  intros H1 H2 Hm Hend. destruct (mreach_to_cat st1 _ H1 Hm) as (_ & _ & jsc & Hc & Hs1). simpl in Hs1.
  destruct (cat_to_mreach st2 jsc H2 Hc) as (js2 & st2' & Hm2 & _ & _ & Hs2).
  exists js2, st2', jsc. split; [assumption|].
  assert (Hendc : ~ jrunning max_step nbest jsc) by (intros H; apply Hend; now apply (jrunning_rel_conv max_step nbest (names (mtable st1')) js1 jsc)).
  split; [intros H; apply Hendc; now apply (jrunning_rel max_step nbest (names (mtable st2')) js2 jsc)|]. split; [assumption|]. split; [assumption|].
  pose proof (equiv_result _ _ _ Hs1) as Hr1. pose proof (equiv_result _ _ _ Hs2) as Hr2.
  split; [rewrite (equiv_status _ _ _ Hs1); symmetry; exact (equiv_status _ _ _ Hs2)|].
  split; [exact (equiv_status _ _ _ Hs1)|].
  split; [now apply decode_items_rel|]. split; [now apply decode_items_rel|].
  split; [exact (F2_irel_names_same _ _ _ _ Hr1 _ Hr2)|].
  now rewrite (outcome_rel _ _ _ Hs1), (outcome_rel _ _ _ Hs2).
Qed.

(* ---------- runs driven by a category-blind pop policy: the outcome is a function of the sentence ---------- *)
Section Policy.
Variable policy : policy_t.
Notation mreach_p := (mreach_p gbin gun rids pen dedup max_step nbest s policy).
Notation creach_p := (creach_p gbin gun cats roots pen dedup max_step nbest s policy).

Lemma mreach_p_mreach st0 h p : mreach_p st0 h p -> mreach st0 p.
Proof. induction 1 as [|hist js st a ks st' _ IH Hrun Hn Hpop Hks Hops]; [constructor | now apply (mreach_step _ _ _ _ _ _ _ _ _ js st a ks st')]. Qed.

(* in lockstep with the category-level run under the same policy: same history of views *)
Theorem mreach_p_to_cat st0 h p : start_ok st0 -> mreach_p st0 h p ->
  start_ok (snd p) /\ exists jsc, creach_p h jsc /\ srel (names (mtable (snd p))) (fst p) jsc.
Proof.
  intros H0. induction 1 as [|hist js st a ks st' Hr IH Hrun Hn Hpop Hks Hops]; simpl in *.
  - split; [assumption|].
    assert (Hs : srel (names (mtable st0)) (minit s) (jinit (s_n s) (tag_c cats (s_tag s)) (adm_c cats (s_adm s)) (s_besttag s) (s_bestdep s))).
    { unfold minit. apply jinit_rel. intros i. destruct (start_ok_nodup _ H0) as [Hnd _]. destruct H0 as (_ & Hu & _). apply adm_rel; assumption. }
    eexists. split; [|exact Hs]. rewrite (view_rel _ _ _ Hs). constructor.
  - destruct IH as (Hst & jsc & Hc & Hs).
    destruct (F2_nth_l _ _ _ _ _ (proj1 Hs) Hn) as [ac [Hnc Ha]].
    destruct (mstep_rel st st' a ac js jsc ks Hst Hs Ha Hks Hops) as (Hst' & _ & Hs').
    split; [assumption|]. exists (cstep ac jsc). split; [|assumption]. rewrite (view_rel _ _ _ Hs').
    constructor; try assumption.
    + now apply (jrunning_rel max_step nbest (names (mtable st)) js).
    + apply (jvalid_pop_at (names (mtable st)) a ac js jsc); try assumption. now apply (nth_error_In _ (policy hist)).
Qed.

Theorem cat_p_to_mreach st0 h jsc : start_ok st0 -> creach_p h jsc ->
  exists js st, mreach_p st0 h (js, st) /\ start_ok st /\ srel (names (mtable st)) js jsc.
Proof.
  intros H0. induction 1 as [|hist jsc ac Hr (js & st & Hm & Hst & Hs) Hrun Hn Hpop].
  - assert (Hs : srel (names (mtable st0)) (minit s) (jinit (s_n s) (tag_c cats (s_tag s)) (adm_c cats (s_adm s)) (s_besttag s) (s_bestdep s))).
    { unfold minit. apply jinit_rel. intros i. destruct (start_ok_nodup _ H0) as [Hnd _]. destruct H0 as (_ & Hu & _). apply adm_rel; assumption. }
    exists (minit s), st0. split; [|split; assumption]. rewrite <- (view_rel _ _ _ Hs). constructor.
  - destruct (F2_nth_r _ _ _ _ _ (proj1 Hs) Hn) as [a [Hna Ha]].
    destruct (memo_ops_total (needed a js) st (proj1 Hst) (needed_in_range _ a ac js jsc Hs Ha)) as [st' Hops].
    destruct (mstep_rel st st' a ac js jsc (needed a js) Hst Hs Ha (fun k => iff_refl _) Hops) as (Hst' & _ & Hs').
    exists (mstep_js st' a js), st'. split; [|split; assumption]. rewrite <- (view_rel _ _ _ Hs').
    apply (mreach_p_step gbin gun rids pen dedup max_step nbest s policy st0 hist js st a (needed a js) st'); try assumption.
    + now apply (jrunning_rel_conv max_step nbest (names (mtable st)) js jsc).
    + apply (jvalid_pop_at_conv (names (mtable st)) a ac js jsc); try assumption. now apply (nth_error_In _ (policy hist)).
    + intros k. apply iff_refl.
Qed.

(* the category-level run under a policy is deterministic *)
Lemma creach_p_len h js : creach_p h js -> 1 <= length h.
Proof. destruct 1; simpl; lia. Qed.
Lemma creach_p_fun h1 js1 : creach_p h1 js1 -> forall h2 js2, creach_p h2 js2 -> length h1 = length h2 -> h1 = h2 /\ js1 = js2.
Proof.
  induction 1 as [|hist js a Hr IH Hrun Hn Hpop]; intros h2 js2 H2 Hlen; destruct H2 as [|hist2 js2 a2 Hr2 Hrun2 Hn2 Hpop2]; simpl in Hlen.
  - split; reflexivity.
  - pose proof (creach_p_len _ _ Hr2). lia.
  - pose proof (creach_p_len _ _ Hr). lia.
  - destruct (IH _ _ Hr2 ltac:(lia)) as [-> ->]. rewrite Hn in Hn2. inversion Hn2; subst. split; reflexivity.
Qed.
Lemma creach_p_prefix h js : creach_p h js -> forall k, 1 <= k < length h -> exists h' js', creach_p h' js' /\ length h' = k /\ jrunning max_step nbest js'.
Proof.
  induction 1 as [|hist js a Hr IH Hrun Hn Hpop]; intros k Hk; simpl in Hk; [lia|].
  destruct (Nat.eq_dec k (length hist)) as [->|Hne]; [exists hist, js; auto|]. apply IH. lia.
Qed.
Theorem creach_p_finished_unique h1 js1 h2 js2 : creach_p h1 js1 -> ~ jrunning max_step nbest js1 ->
  creach_p h2 js2 -> ~ jrunning max_step nbest js2 -> js1 = js2.
Proof.
  intros H1 E1 H2 E2. pose proof (creach_p_len _ _ H1). pose proof (creach_p_len _ _ H2).
  destruct (Nat.lt_trichotomy (length h1) (length h2)) as [Hlt|[Heq|Hgt]].
  - destruct (creach_p_prefix _ _ H2 (length h1) ltac:(lia)) as (h' & js' & H' & Hl & Hrun).
    destruct (creach_p_fun _ _ H1 _ _ H' (eq_sym Hl)) as [_ ->]. contradiction.
  - now destruct (creach_p_fun _ _ H1 _ _ H2 Heq).
  - destruct (creach_p_prefix _ _ H1 (length h2) ltac:(lia)) as (h' & js' & H' & Hl & Hrun).
    destruct (creach_p_fun _ _ H2 _ _ H' (eq_sym Hl)) as [_ ->]. contradiction.
Qed.

(* hence: under one and the same category-blind pop policy, THE outcome of the sentence is the same from any two
   admissible memo states - not just the set of possible outcomes *)
Theorem policy_outcome_unique st1 st2 h1 js1 st1' h2 js2 st2' : start_ok st1 -> start_ok st2 ->
  mreach_p st1 h1 (js1, st1') -> ~ jrunning max_step nbest js1 -> mreach_p st2 h2 (js2, st2') -> ~ jrunning max_step nbest js2 ->
  sentence_outcome js1 (mtable st1') = sentence_outcome js2 (mtable st2') /\
  exists r, sentence_outcome js1 (mtable st1') = Some r.
Proof.
  intros S1 S2 M1 E1 M2 E2.
  destruct (mreach_p_to_cat st1 h1 _ S1 M1) as (_ & jsc1 & C1 & R1). destruct (mreach_p_to_cat st2 h2 _ S2 M2) as (_ & jsc2 & C2 & R2). simpl in *.
  assert (jsc1 = jsc2).
  { apply (creach_p_finished_unique h1 jsc1 h2 jsc2); try assumption.
    - intros H. apply E1. now apply (jrunning_rel_conv max_step nbest (names (mtable st1')) js1 jsc1).
    - intros H. apply E2. now apply (jrunning_rel_conv max_step nbest (names (mtable st2')) js2 jsc2). }
  subst jsc2. rewrite (outcome_rel _ _ _ R1), (outcome_rel _ _ _ R2). split; [reflexivity | eauto].
Qed.
End Policy.

(* ---------- a run under the memo is a run under the fixed grammar of any later table ---------- *)
(* the domain on which a table T answers without growing: both ids name categories and T contains every result *)
Definition closed_bin (T : table) (x y : nat) : Prop :=
  exists cx cy, names T x cx /\ names T y cy /\ bin_closed gbin T cx cy = true.
Definition closed_un (T : table) (x : nat) : Prop := exists cx, names T x cx /\ un_closed gun T cx = true.

Lemma entry_closed_bin t u x y e : entry_ok t (KBin x y) e -> closed_bin (t ++ u) x y.
Proof.
  intros (rs & Hk & Hm & HF). simpl in Hk.
  destruct (nth_error t x) as [cx|] eqn:Ex; [|discriminate]. destruct (nth_error t y) as [cy|] eqn:Ey; [|discriminate].
  inversion Hk as [Hrs]. exists cx, cy. split; [now apply names_ext|]. split; [now apply names_ext|].
  unfold bin_closed. apply forallb_forall. intros r Hr. apply in_table_In. rewrite Hrs, <- Hm in Hr.
  apply in_map_iff in Hr as [p [<- Hp]]. rewrite Forall_forall in HF. apply (nth_error_In _ (fst p)). apply nth_error_ext. now apply HF.
Qed.
Lemma entry_closed_un t u x e : entry_ok t (KUn x) e -> closed_un (t ++ u) x.
Proof.
  intros (rs & Hk & Hm & HF). simpl in Hk. destruct (nth_error t x) as [cx|] eqn:Ex; [|discriminate].
  inversion Hk as [Hrs]. exists cx. split; [now apply names_ext|].
  unfold un_closed. apply forallb_forall. intros r Hr. apply in_table_In. rewrite Hrs, <- Hm in Hr.
  apply in_map_iff in Hr as [p [<- Hp]]. rewrite Forall_forall in HF. apply (nth_error_In _ (fst p)). apply nth_error_ext. now apply HF.
Qed.

Notation treach_on T := (jreach_on Nat.eqb (s_n s) (s_dep s) (s_besttag s) (s_bestdep s) (isroot_ids rids) pen dedup
                                   (s_tag s) (s_adm s) (bin_T gbin T) (un_T gun T) max_step nbest (closed_bin T) (closed_un T)).

Theorem mreach_is_table_run st0 p : coherent st0 -> mreach st0 p ->
  coherent (snd p) /\ (exists u, mtable (snd p) = mtable st0 ++ u) /\
  forall T, NoDup T -> (exists u, T = mtable (snd p) ++ u) -> treach_on T (fst p).
Proof.
  intros H0. induction 1 as [|js st a ks st' Hr IH Hrun Hpop Hks Hops]; simpl in *.
  - split; [assumption|]. split; [exists []; now rewrite app_nil_r|]. intros T _ _. constructor.
  - destruct IH as (Hc & [u0 Hu0] & IH). destruct (memo_ops_coherent_from gbin gun _ _ _ Hc Hops) as (Hc' & [u Hu] & _).
    split; [assumption|]. split; [exists (u0 ++ u); rewrite Hu, Hu0; now rewrite app_assoc|].
    intros T Hnd [w Hw]. subst T.
    assert (Hpre : treach_on (mtable st' ++ w) js) by (apply IH; [assumption | exists (u ++ w); rewrite Hu; now rewrite app_assoc]).
    pose proof (needed_cached a js ks st st' Hks Hops) as Hcached. destruct Hc' as [_ Hcc'].
    unfold GlueMemoSearch.mstep_js.
    rewrite (jstep_ext_on Nat.eqb (s_n s) (s_dep s) (s_besttag s) (s_bestdep s) (cache_bin st') (bin_T gbin (mtable st' ++ w))
               (cache_un st') (un_T gun (mtable st' ++ w)) (isroot_ids rids) pen dedup a js).
    + constructor; try assumption. eapply step_within_impl; [| |exact Hcached].
      * intros x y [e He]. now apply (entry_closed_bin _ w x y e), Hcc'.
      * intros x [e He]. now apply (entry_closed_un _ w x e), Hcc'.
    + eapply step_within_impl; [| |exact Hcached].
      * intros x y [e He]. unfold cache_bin. rewrite He. apply entry_bin_table; [assumption | now apply Hcc'].
      * intros x [e He]. unfold cache_un. rewrite He. apply entry_un_table; [assumption | now apply Hcc'].
Qed.
End OneSentence.

(* ---------- the loop of run ---------- *)
Variable max_length : nat.
Notation brun := (brun gbin gun rids pen dedup max_step nbest max_length).
Notation cat_outcome := (cat_outcome gbin gun cats roots pen dedup max_step nbest max_length).

(* every result list of a batch - from any admissible memo state - is, sentence by sentence, an outcome of the
   category-level search of that sentence: nothing of the table, the cache, the position or the other sentences is left *)
Theorem brun_sound ss : forall st rs st', Forall (lex_ok cats) ss -> start_ok st -> brun ss st rs st' ->
  start_ok st' /\ Forall2 cat_outcome ss rs.
Proof.
  intros st rs st' Hlex Hst H. induction H as [st | s ss st rs st' Hlong _ IH | s ss st js st1 r rs st' Hlen Hm Hend Hout _ IH].
  - split; [assumption | constructor].
  - inversion Hlex as [|? ? Hl1 Hl2]; subst. destruct (IH Hl2 Hst) as [Hst' HF]. split; [assumption|]. constructor; [|assumption].
    unfold GlueMemoSearch.cat_outcome. apply Nat.ltb_lt in Hlong. now rewrite Hlong.
  - inversion Hlex as [|? ? Hl1 Hl2]; subst. destruct (mreach_to_cat s Hl1 st _ Hst Hm) as (Hst1 & _ & jsc & Hc & Hs). simpl in *.
    destruct (IH Hl2 Hst1) as [Hst' HF]. split; [assumption|]. constructor; [|assumption].
    unfold GlueMemoSearch.cat_outcome. assert (E : (max_length <? s_n s) = false) by (apply Nat.ltb_ge; lia). rewrite E.
    exists jsc. split; [assumption|]. split; [intros Hrun; apply Hend; now apply (jrunning_rel_conv max_step nbest (names (mtable st1)) js jsc)|].
    rewrite (outcome_rel _ _ _ Hs) in Hout. now inversion Hout.
Qed.

(* ... and every choice of such outcomes is a result of the batch, from every admissible memo state *)
Theorem brun_complete ss : forall st rs, Forall (lex_ok cats) ss -> start_ok st -> Forall2 cat_outcome ss rs ->
  exists st', brun ss st rs st' /\ start_ok st'.
Proof.
  induction ss as [|s ss IH]; intros st rs Hlex Hst HF; inversion HF as [|s' r ss' rs' Hsr HFr]; subst.
  - exists st. split; [constructor | assumption].
  - inversion Hlex as [|? ? Hl1 Hl2]; subst. unfold GlueMemoSearch.cat_outcome in Hsr. destruct (max_length <? s_n s) eqn:E.
    + subst r. destruct (IH st rs' Hl2 Hst HFr) as (st' & Hb & Hst'). exists st'. split; [|assumption].
      apply brun_long; [now apply Nat.ltb_lt | assumption].
    + destruct Hsr as (jsc & Hc & Hend & ->).
      destruct (cat_to_mreach s Hl1 st jsc Hst Hc) as (js & st1 & Hm & Hst1 & _ & Hs).
      destruct (IH st1 rs' Hl2 Hst1 HFr) as (st' & Hb & Hst'). exists st'. split; [|assumption].
      apply (brun_search gbin gun rids pen dedup max_step nbest max_length s ss st js st1); try assumption.
      * apply Nat.ltb_ge in E. lia.
      * intros Hrun. apply Hend. now apply (jrunning_rel max_step nbest (names (mtable st1)) js jsc).
      * now apply outcome_rel.
Qed.

(* history independence, end to end: the possible result lists of a batch are the same from every admissible memo state *)
Corollary brun_history_independent ss sta stb rs sta' : Forall (lex_ok cats) ss -> start_ok sta -> start_ok stb ->
  brun ss sta rs sta' -> exists stb', brun ss stb rs stb'.
Proof.
  intros Hlex Ha Hb H. destruct (brun_sound ss sta rs sta' Hlex Ha H) as [_ HF].
  destruct (brun_complete ss stb rs Hlex Hb HF) as (stb' & Hb' & _). now exists stb'.
Qed.

(* each sentence's result in the batch is a result of parsing that sentence alone from memo state st0 (e.g. the cold
   state of a fresh call), and any per-sentence choice of alone results is a result of the batch *)
Corollary brun_iff_alone ss st st0 rs : Forall (lex_ok cats) ss -> start_ok st -> start_ok st0 ->
  ((exists st', brun ss st rs st') <-> Forall2 (fun s r => exists st1, brun [s] st0 [r] st1) ss rs).
Proof.
  intros Hlex Hst H0. split.
  - intros [st' H]. destruct (brun_sound ss st rs st' Hlex Hst H) as [_ HF]. clear H.
    induction HF as [|s r ss rs Hsr _ IH]; constructor; [|apply IH; now inversion Hlex].
    assert (Hl1 : Forall (lex_ok cats) [s]) by (constructor; [now inversion Hlex | constructor]).
    destruct (brun_complete [s] st0 [r] Hl1 H0 (Forall2_cons _ _ Hsr (Forall2_nil _))) as (st1 & Hb & _). now exists st1.
  - intros HF. assert (HC : Forall2 cat_outcome ss rs).
    { clear Hst. induction HF as [|s r ss rs [st1 Hb] _ IH]; constructor; [|apply IH; now inversion Hlex].
      assert (Hl1 : Forall (lex_ok cats) [s]) by (constructor; [now inversion Hlex | constructor]).
      destruct (brun_sound [s] st0 [r] st1 Hl1 H0 Hb) as [_ H1]. now inversion H1. }
    destruct (brun_complete ss st rs Hlex Hst HC) as (st' & Hb & _). now exists st'.
Qed.

Lemma brun_length ss st rs st' : brun ss st rs st' -> length rs = length ss.
Proof. induction 1; simpl; congruence. Qed.

(* with a category-blind pop policy the loop is a function of the batch: two executions - from any two admissible memo
   states - return the same result list *)
Theorem brun_p_deterministic policy ss : forall sta stb rsa rsb sta' stb', Forall (lex_ok cats) ss -> start_ok sta -> start_ok stb ->
  brun_p gbin gun rids pen dedup max_step nbest max_length policy ss sta rsa sta' ->
  brun_p gbin gun rids pen dedup max_step nbest max_length policy ss stb rsb stb' -> rsa = rsb.
Proof.
  induction ss as [|s ss IH]; intros sta stb rsa rsb sta' stb' Hlex Sa Sb Ha Hb.
  - inversion Ha; inversion Hb; subst. reflexivity.
  - inversion Hlex as [|? ? Hl1 Hl2]; subst.
    inversion Ha as [| s1 ss1 st1 rs1 st1' Hlong1 Hrest1 | s1 ss1 st1 h1 js1 st11 r1 rs1 st1' Hlen1 Hm1 He1 Ho1 Hrest1]; subst;
    inversion Hb as [| s2 ss2 st2 rs2 st2' Hlong2 Hrest2 | s2 ss2 st2 h2 js2 st21 r2 rs2 st2' Hlen2 Hm2 He2 Ho2 Hrest2]; subst; try lia.
    + f_equal. now apply (IH sta stb rs1 rs2 sta' stb').
    + destruct (policy_outcome_unique s Hl1 policy sta stb h1 js1 st11 h2 js2 st21 Sa Sb Hm1 He1 Hm2 He2) as [Heq _].
      rewrite Ho1, Ho2 in Heq. inversion Heq; subst. f_equal.
      destruct (mreach_p_to_cat s Hl1 policy sta h1 _ Sa Hm1) as (Sa1 & _). destruct (mreach_p_to_cat s Hl1 policy stb h2 _ Sb Hm2) as (Sb1 & _).
      now apply (IH st11 st21 rs1 rs2 sta' stb').
Qed.

(* a policy-driven execution is an execution *)
Lemma brun_p_brun policy ss st rs st' : brun_p gbin gun rids pen dedup max_step nbest max_length policy ss st rs st' -> brun ss st rs st'.
Proof.
  induction 1 as [st | s ss st rs st' Hlong _ IH | s ss st h js st1 r rs st' Hlen Hm Hend Hout _ IH].
  - constructor.
  - now apply brun_long.
  - apply (brun_search gbin gun rids pen dedup max_step nbest max_length s ss st js st1); try assumption. now apply (mreach_p_mreach s policy st h).
Qed.
End Call.

(* the initial state of a call is admissible, and so is every state reached from it *)
Lemma start_ok_init cats roots : NoDup cats -> start_ok cats roots (root_ids cats roots) (init_state cats roots).
Proof.
  intros Hnd. unfold start_ok, init_state, root_ids, GlueMemoProofs.coherent; simpl.
  pose proof (intern_cats_spec roots cats Hnd) as H. destruct (intern_cats roots cats) as [ids t']. simpl.
  destruct H as (Hu & Hnd' & HF). split; [split; [assumption | intros k e Hk; discriminate]|]. split; assumption.
Qed.
Lemma start_ok_reached cats roots os st : NoDup cats -> memo_ops os (init_state cats roots) = Some st ->
  start_ok cats roots (root_ids cats roots) st.
Proof. intros Hnd H. apply (start_ok_ops cats roots _ os (init_state cats roots)); [now apply start_ok_init | assumption]. Qed.

(* ---------- the executable drivers produce runs (used by the examples of P_C11.v) ---------- *)
Section Exec.
Variable rids : list nat.
Variable pen : Z.
Variable dedup : bool.
Variable max_step nbest : nat.

Lemma jrunning_b_iff {C} (js : @jstate C) : jrunning_b max_step nbest js = true <-> jrunning max_step nbest js.
Proof.
  unfold jrunning_b, jrunning. rewrite !andb_true_iff, !Nat.ltb_lt, negb_true_iff. split.
  - intros [[H1 H2] H3]. repeat split; try assumption. intros E. rewrite E in H3. discriminate.
  - intros (H1 & H2 & H3). repeat split; try assumption. destruct (jagenda js); [now elim H3 | reflexivity].
Qed.

Lemma pick_max_valid l a : pick_max l = Some a -> In a l /\ forall b, In b l -> (jprio b <= jprio a)%Z.
Proof.
  revert a. induction l as [|x l IH]; intros a H; simpl in H; [discriminate|].
  destruct (pick_max l) as [b|] eqn:E.
  - destruct (IH b eq_refl) as [Hin Hmax]. destruct (jprio x <? jprio b)%Z eqn:Ec; inversion H; subst.
    + split; [now right|]. intros c [<-|Hc]; [apply Z.ltb_lt in Ec; lia | now apply Hmax].
    + split; [now left|]. intros c [<-|Hc]; [lia|]. apply Z.ltb_ge in Ec. specialize (Hmax c Hc). lia.
  - inversion H; subst. destruct l as [|y l]; [|simpl in E; destruct (pick_max l); [destruct (jprio y <? jprio j)%Z|]; discriminate].
    split; [now left|]. intros c [<-|[]]. lia.
Qed.

Theorem mrun_f_sound s st0 fuel : forall js st js' st', mreach gbin gun rids pen dedup max_step nbest s st0 (js, st) ->
  mrun_f gbin gun rids pen dedup max_step nbest s fuel js st = Some (js', st') ->
  mreach gbin gun rids pen dedup max_step nbest s st0 (js', st') /\ ~ jrunning max_step nbest js'.
Proof.
  induction fuel as [|f IH]; intros js st js' st' Hr H; simpl in H.
  - destruct (jrunning_b max_step nbest js) eqn:E; [discriminate|]. inversion H; subst. split; [assumption|].
    intros Hrun. apply jrunning_b_iff in Hrun. congruence.
  - destruct (jrunning_b max_step nbest js) eqn:E.
    + destruct (pick_max (jagenda js)) as [a|] eqn:Ep; [|discriminate]. unfold mstep_f in H.
      destruct (memo_ops (needed dedup s a js) st) as [st1|] eqn:Eo; [|discriminate].
      apply (IH _ _ _ _ (mreach_step gbin gun rids pen dedup max_step nbest s st0 js st a (needed dedup s a js) st1 Hr
                           (proj1 (jrunning_b_iff js) E) (pick_max_valid _ _ Ep) (fun k => iff_refl _) Eo) H).
    + inversion H; subst. split; [assumption|]. intros Hrun. apply jrunning_b_iff in Hrun. congruence.
Qed.

(* the executable driver follows the category-blind policy "first item of maximal priority" *)
Lemma pick_max_first_max l a : pick_max l = Some a ->
  exists k, first_max (map jprio l) = Some (k, jprio a) /\ nth_error l k = Some a.
Proof.
  revert a. induction l as [|x l IH]; intros a H; simpl in H; [discriminate|]. simpl.
  destruct (pick_max l) as [b|] eqn:E.
  - destruct (IH b eq_refl) as (k & Hk & Hn). rewrite Hk. destruct (jprio x <? jprio b)%Z; inversion H; subst.
    + exists (S k). split; [reflexivity | exact Hn].
    + exists 0. split; reflexivity.
  - inversion H; subst. destruct l as [|y l]; [|simpl in E; destruct (pick_max l); [destruct (jprio y <? jprio j)%Z|]; discriminate].
    exists 0. split; reflexivity.
Qed.
Lemma jprio_blind {C} (a : @jitem C) : jprio (blind a) = jprio a.
Proof. reflexivity. Qed.
Lemma mreach_p_head policy s st0 h js st : mreach_p gbin gun rids pen dedup max_step nbest s policy st0 h (js, st) -> exists t, h = view js :: t.
Proof. intros H. inversion H; subst; eauto. Qed.

Theorem mrun_f_sound_p s st0 fuel : forall h js st js' st', mreach_p gbin gun rids pen dedup max_step nbest s policy_first_max st0 h (js, st) ->
  mrun_f gbin gun rids pen dedup max_step nbest s fuel js st = Some (js', st') ->
  exists h', mreach_p gbin gun rids pen dedup max_step nbest s policy_first_max st0 h' (js', st') /\ ~ jrunning max_step nbest js'.
Proof.
  induction fuel as [|f IH]; intros h js st js' st' Hr H; simpl in H.
  - destruct (jrunning_b max_step nbest js) eqn:E; [discriminate|]. inversion H; subst. exists h. split; [assumption|].
    intros Hrun. apply jrunning_b_iff in Hrun. congruence.
  - destruct (jrunning_b max_step nbest js) eqn:E.
    + destruct (pick_max (jagenda js)) as [a|] eqn:Ep; [|discriminate]. unfold mstep_f in H.
      destruct (memo_ops (needed dedup s a js) st) as [st1|] eqn:Eo; [|discriminate].
      destruct (pick_max_first_max _ _ Ep) as (k & Hk & Hn). destruct (mreach_p_head _ _ _ _ _ _ Hr) as [t Ht].
      assert (Hpol : policy_first_max h = k).
      { subst h. unfold policy_first_max, view. rewrite map_map. rewrite (map_ext _ _ (fun a => jprio_blind a)). now rewrite Hk. }
      apply (IH _ _ _ _ _ (mreach_p_step gbin gun rids pen dedup max_step nbest s policy_first_max st0 h js st a (needed dedup s a js) st1 Hr
                             (proj1 (jrunning_b_iff js) E) (eq_ind_r (fun p => nth_error (jagenda js) p = Some a) Hn Hpol)
                             (pick_max_valid _ _ Ep) (fun k => iff_refl _) Eo) H).
    + inversion H; subst. exists h. split; [assumption|]. intros Hrun. apply jrunning_b_iff in Hrun. congruence.
Qed.

Theorem brun_f_sound_p max_length fuel ss : forall st rs st',
  brun_f gbin gun rids pen dedup max_step nbest max_length fuel ss st = Some (rs, st') ->
  brun_p gbin gun rids pen dedup max_step nbest max_length policy_first_max ss st rs st'.
Proof.
  induction ss as [|s ss IH]; intros st rs st' H; simpl in H.
  - inversion H; subst. constructor.
  - destruct (max_length <? s_n s) eqn:El.
    + destruct (brun_f gbin gun rids pen dedup max_step nbest max_length fuel ss st) as [[rs0 st0]|] eqn:E; [|discriminate].
      inversion H; subst. apply brun_p_long; [now apply Nat.ltb_lt | now apply IH].
    + destruct (mrun_f gbin gun rids pen dedup max_step nbest s fuel (minit s) st) as [[js st1]|] eqn:Em; [|discriminate].
      destruct (sentence_outcome js (mtable st1)) as [r|] eqn:Eo; [|discriminate].
      destruct (brun_f gbin gun rids pen dedup max_step nbest max_length fuel ss st1) as [[rs0 st2]|] eqn:E; [|discriminate].
      inversion H; subst.
      destruct (mrun_f_sound_p s st fuel _ _ _ _ _ (mreach_p_init gbin gun rids pen dedup max_step nbest s policy_first_max st) Em) as (h' & Hm & Hend).
      apply (brun_p_search gbin gun rids pen dedup max_step nbest max_length policy_first_max s ss st h' js st1); try assumption.
      * apply Nat.ltb_ge in El. lia.
      * now apply IH.
Qed.

Theorem brun_f_sound max_length fuel ss : forall st rs st',
  brun_f gbin gun rids pen dedup max_step nbest max_length fuel ss st = Some (rs, st') ->
  brun gbin gun rids pen dedup max_step nbest max_length ss st rs st'.
Proof.
  induction ss as [|s ss IH]; intros st rs st' H; simpl in H.
  - inversion H; subst. constructor.
  - destruct (max_length <? s_n s) eqn:El.
    + destruct (brun_f gbin gun rids pen dedup max_step nbest max_length fuel ss st) as [[rs0 st0]|] eqn:E; [|discriminate].
      inversion H; subst. apply brun_long; [now apply Nat.ltb_lt | now apply IH].
    + destruct (mrun_f gbin gun rids pen dedup max_step nbest s fuel (minit s) st) as [[js st1]|] eqn:Em; [|discriminate].
      destruct (sentence_outcome js (mtable st1)) as [r|] eqn:Eo; [|discriminate].
      destruct (brun_f gbin gun rids pen dedup max_step nbest max_length fuel ss st1) as [[rs0 st2]|] eqn:E; [|discriminate].
      inversion H; subst. destruct (mrun_f_sound s st fuel _ _ _ _ (mreach_init gbin gun rids pen dedup max_step nbest s st) Em) as [Hm Hend].
      apply (brun_search gbin gun rids pen dedup max_step nbest max_length s ss st js st1); try assumption.
      * apply Nat.ltb_ge in El. lia.
      * now apply IH.
Qed.
End Exec.

(* ---------- ids under two tables: the hypotheses of the (restricted) simulation ---------- *)
Section TwoTables.
Variable T1 T2 : table.
Hypothesis Hnd1 : NoDup T1.
Hypothesis Hnd2 : NoDup T2.

(* the pairs / categories whose rule results both tables contain *)
Definition both_closed_bin (x y : nat) : Prop :=
  exists cx cy, names T1 x cx /\ names T1 y cy /\ bin_closed gbin T1 cx cy = true /\ bin_closed gbin T2 cx cy = true.
Definition both_closed_un (x : nat) : Prop := exists cx, names T1 x cx /\ un_closed gun T1 cx = true /\ un_closed gun T2 cx = true.

Lemma same_cat_id_of c : In c T1 -> In c T2 -> same_cat T1 T2 (id_of T1 c) (id_of T2 c).
Proof. intros H1 H2. exists c. split; now apply id_of_names. Qed.

Theorem tables_R_bin a a' b b' : same_cat T1 T2 a a' -> same_cat T1 T2 b b' -> both_closed_bin a b ->
  res_rel (same_cat T1 T2) (bin_T gbin T1 a b) (bin_T gbin T2 a' b').
Proof.
  intros (ca & Ha & Ha') (cb & Hb & Hb') (cx & cy & Hx & Hy & Hc1 & Hc2).
  assert (cx = ca) by now apply (names_fun T1 a). assert (cy = cb) by now apply (names_fun T1 b). subst cx cy.
  unfold bin_T, res_rel. unfold names in *. rewrite Ha, Hb, Ha', Hb'.
  apply F2_map_same. intros r Hr. simpl. split; [|reflexivity].
  unfold bin_closed in Hc1, Hc2. rewrite forallb_forall in Hc1, Hc2.
  apply same_cat_id_of; apply in_table_In; auto.
Qed.
Theorem tables_R_un a a' : same_cat T1 T2 a a' -> both_closed_un a -> Forall2 (same_cat T1 T2) (un_T gun T1 a) (un_T gun T2 a').
Proof.
  intros (ca & Ha & Ha') (cx & Hx & Hc1 & Hc2). assert (cx = ca) by now apply (names_fun T1 a). subst cx.
  unfold un_T. unfold names in *. rewrite Ha, Ha'. apply F2_map_same. intros r Hr.
  unfold un_closed in Hc1, Hc2. rewrite forallb_forall in Hc1, Hc2. apply same_cat_id_of; apply in_table_In; auto.
Qed.
Theorem tables_R_root roots rids1 rids2 a a' : Forall2 (names T1) rids1 roots -> Forall2 (names T2) rids2 roots ->
  same_cat T1 T2 a a' -> isroot_ids rids1 a = isroot_ids rids2 a'.
Proof.
  intros H1 H2 (c & Ha & Ha'). rewrite (isroot_rel roots rids1 T1 a c Hnd1 H1 Ha). symmetry. now apply (isroot_rel roots rids2 T2 a' c Hnd2 H2 Ha').
Qed.
Theorem tables_R_adm cats (s : sent) i : (exists u, T1 = cats ++ u) -> (exists u, T2 = cats ++ u) -> lex_ok cats s ->
  Forall2 (fun c c' => same_cat T1 T2 c c' /\ s_tag s i c = s_tag s i c') (s_adm s i) (s_adm s i).
Proof.
  intros [u1 ->] [u2 ->] Hlex. specialize (Hlex i). revert Hlex. generalize (s_adm s i) as l.
  induction l as [|j l IH]; intros Hl; constructor; [|apply IH; intros x Hx; apply Hl; now right]. split; [|reflexivity].
  assert (Hj : j < length cats) by (apply Hl; now left). apply nth_error_Some in Hj.
  destruct (nth_error cats j) as [c|] eqn:E; [|congruence]. exists c. split; now apply nth_error_ext.
Qed.

(* a run over the ids of T1 that only combines pairs whose results both tables contain has a twin over the ids of T2:
   same status, position-wise related results (ids naming the same categories), all numeric fields equal *)
Theorem table_runs_correspond cats roots rids1 rids2 pen dedup max_step nbest (s : sent) js1 :
  (exists u, T1 = cats ++ u) -> (exists u, T2 = cats ++ u) -> lex_ok cats s ->
  Forall2 (names T1) rids1 roots -> Forall2 (names T2) rids2 roots ->
  jreach_on Nat.eqb (s_n s) (s_dep s) (s_besttag s) (s_bestdep s) (isroot_ids rids1) pen dedup (s_tag s) (s_adm s)
            (bin_T gbin T1) (un_T gun T1) max_step nbest both_closed_bin both_closed_un js1 ->
  ~ jrunning max_step nbest js1 ->
  exists js2, treach gbin gun rids2 pen dedup max_step nbest s T2 js2 /\ ~ jrunning max_step nbest js2 /\
              jstatus js1 = jstatus js2 /\ Forall2 (irel (same_cat T1 T2)) (jresult js1) (jresult js2).
Proof.
  intros Hp1 Hp2 Hlex Hr1 Hr2 Hrun Hend. unfold treach.
  apply (search_simulation_on Nat.eqb Nat.eqb (s_n s) (s_dep s) (s_besttag s) (s_bestdep s) (isroot_ids rids1) (isroot_ids rids2) pen dedup
           (same_cat T1 T2) (same_cat_eqb T1 T2 Hnd1 Hnd2) (fun a a' => tables_R_root roots rids1 rids2 a a' Hr1 Hr2)
           (s_tag s) (s_tag s) (s_adm s) (s_adm s) (bin_T gbin T1) (bin_T gbin T2) (un_T gun T1) (un_T gun T2) max_step nbest
           both_closed_bin both_closed_un tables_R_bin tables_R_un (fun i => tables_R_adm cats s i Hp1 Hp2 Hlex) js1 Hrun Hend).
Qed.
End TwoTables.
End G.
