(* Proofs about the std::priority_queue model of Heap.v:
     - push / pop preserve the multiset of elements (for an arbitrary comparator),
     - under a strict weak order they preserve the max-heap invariant and pop returns a maximal element,
     - relational parametricity: the sequence of comparisons outcomes, hence the pop order, depends only on
       what the comparator can see (key-only corollary). *)
From Coq Require Import List Arith Bool Lia Permutation ZArith ZifyNat.
Require Import Heap.
Require AStarImpl.
Import ListNotations.

(* lia extended with division by constants (used for the parent index (i-1)/2) *)
Ltac dlia := zify; Z.to_euclidean_division_equations; lia.

(* ------------------------------------------------------------------------------------------------------------ *)
(* facts about set_nth, nth, nth_error, removelast *)
Section ListFacts.
Context {T : Type}.
Implicit Types (v w : list T) (x y d : T).

Lemma set_nth_length i x v : length (set_nth i x v) = length v.
Proof. revert i; induction v as [|y r IH]; intros [|i]; cbn; auto. Qed.

Lemma nth_set_nth_eq d i x v : i < length v -> nth i (set_nth i x v) d = x.
Proof.
  revert i; induction v as [|y r IH]; intros [|i] H; cbn in *; try lia; auto.
  apply IH; lia.
Qed.

Lemma nth_set_nth_neq d i j x v : i <> j -> nth j (set_nth i x v) d = nth j v d.
Proof.
  revert i j; induction v as [|y r IH]; intros [|i] [|j] H; cbn; auto; try lia.
Qed.

Lemma nth_error_Some_lt v i a : nth_error v i = Some a -> i < length v.
Proof. intros H. apply nth_error_Some. congruence. Qed.

Lemma nth_error_set_nth_eq i x v : i < length v -> nth_error (set_nth i x v) i = Some x.
Proof.
  revert i; induction v as [|y r IH]; intros [|i] H; cbn in *; try lia; auto.
  apply IH; lia.
Qed.

Lemma nth_error_set_nth_neq i j x v : i <> j -> nth_error (set_nth i x v) j = nth_error v j.
Proof.
  revert i j; induction v as [|y r IH]; intros [|i] [|j] H; cbn; auto; try lia.
Qed.

Lemma set_nth_same i a v : nth_error v i = Some a -> set_nth i a v = v.
Proof.
  revert i; induction v as [|y r IH]; intros [|i] H; cbn in *; try discriminate.
  - congruence.
  - f_equal. auto.
Qed.

Lemma set_nth_set_nth i x y v : set_nth i y (set_nth i x v) = set_nth i y v.
Proof.
  revert i; induction v as [|z r IH]; intros [|i]; cbn; auto. f_equal; auto.
Qed.

Lemma set_nth_perm i a x v : nth_error v i = Some a -> Permutation (a :: set_nth i x v) (x :: v).
Proof.
  revert i; induction v as [|y r IH]; intros [|i] H; cbn in *; try discriminate.
  - injection H as ->. apply perm_swap.
  - transitivity (y :: a :: set_nth i x r); [apply perm_swap|].
    transitivity (y :: x :: r); [apply perm_skip; auto | apply perm_swap].
Qed.

(* moving the hole from [hole] to [c] (whose content p is copied into the old hole) and then filling it
   is the same, up to permutation, as filling the old hole *)
Lemma set_nth_swap_perm hole c p x v :
  nth_error v c = Some p -> hole < length v ->
  Permutation (set_nth c x (set_nth hole p v)) (set_nth hole x v).
Proof.
  intros Hc Hh.
  destruct (Nat.eq_dec hole c) as [->|Hne].
  - rewrite set_nth_set_nth. reflexivity.
  - destruct (nth_error v hole) as [h|] eqn:Eh.
    2:{ apply nth_error_None in Eh. lia. }
    assert (P1 : Permutation (p :: set_nth c x (set_nth hole p v)) (x :: set_nth hole p v)).
    { apply set_nth_perm. rewrite nth_error_set_nth_neq; auto. }
    assert (P2 : Permutation (h :: set_nth hole p v) (p :: v)) by (apply set_nth_perm; auto).
    assert (P3 : Permutation (h :: set_nth hole x v) (x :: v)) by (apply set_nth_perm; auto).
    apply Permutation_cons_inv with (a := h). apply Permutation_cons_inv with (a := p).
    transitivity (h :: p :: set_nth c x (set_nth hole p v)); [apply perm_swap|].
    transitivity (h :: x :: set_nth hole p v); [apply perm_skip, P1|].
    transitivity (x :: h :: set_nth hole p v); [apply perm_swap|].
    transitivity (x :: p :: v); [apply perm_skip, P2|].
    transitivity (p :: x :: v); [apply perm_swap|].
    apply perm_skip. symmetry. exact P3.
Qed.

Lemma removelast_length v : length (removelast v) = length v - 1.
Proof.
  induction v as [|a [|b r] IH]; auto.
  change (removelast (a :: b :: r)) with (a :: removelast (b :: r)).
  cbn [length] in *. lia.
Qed.

Lemma nth_removelast d v i : i < length v - 1 -> nth i (removelast v) d = nth i v d.
Proof.
  revert i; induction v as [|a [|b r] IH]; intros i H; cbn [length] in H; try lia.
  change (removelast (a :: b :: r)) with (a :: removelast (b :: r)).
  destruct i as [|i]; cbn [nth]; auto.
  apply IH. cbn [length]. lia.
Qed.

Lemma removelast_nth_last d v : v <> [] -> v = removelast v ++ [nth (length v - 1) v d].
Proof.
  induction v as [|a [|b r] IH]; intros H; [contradiction | reflexivity | ].
  change (removelast (a :: b :: r)) with (a :: removelast (b :: r)).
  replace (length (a :: b :: r) - 1) with (S (length (b :: r) - 1)) by (cbn [length]; lia).
  cbn [nth app]. f_equal. apply IH. discriminate.
Qed.
End ListFacts.

(* ------------------------------------------------------------------------------------------------------------ *)
Section Spec.
Context {T : Type}.
Variable lt : T -> T -> bool.

(* strict weak order *)
Record swo : Prop := {
  swo_irrefl : forall a, lt a a = false;
  swo_trans : forall a b c, lt a b = true -> lt b c = true -> lt a c = true;
  (* incomparability is transitive, stated through its consequence "not-less is transitive" *)
  swo_nlt_trans : forall a b c, lt b a = false -> lt c b = false -> lt c a = false }.

(* the max-heap invariant of the vector: no parent is less than its child *)
Definition heap_ok (v : list T) : Prop :=
  forall i p c, (0 < i)%nat -> nth_error v ((i - 1) / 2) = Some p -> nth_error v i = Some c -> lt p c = false.

Lemma heap_ok_nil : heap_ok [].
Proof. intros i p c _ _ H. destruct i; discriminate. Qed.

(* ---------------- multiset preservation and frame properties: arbitrary lt ---------------- *)

Lemma sift_up_length f v hole top x : length (sift_up lt f v hole top x) = length v.
Proof.
  revert v hole; induction f as [|f IH]; intros v hole; cbn [sift_up].
  - apply set_nth_length.
  - destruct (top <? hole); [|apply set_nth_length].
    destruct (nth_error v ((hole - 1) / 2)) as [p|]; [|apply set_nth_length].
    destruct (lt p x); [|apply set_nth_length].
    rewrite IH. apply set_nth_length.
Qed.

Lemma sift_up_perm f v hole top x :
  hole < length v -> Permutation (sift_up lt f v hole top x) (set_nth hole x v).
Proof.
  revert v hole; induction f as [|f IH]; intros v hole H; cbn [sift_up]; [reflexivity|].
  destruct (top <? hole); [|reflexivity].
  destruct (nth_error v ((hole - 1) / 2)) as [p|] eqn:Ep; [|reflexivity].
  destruct (lt p x); [|reflexivity].
  transitivity (set_nth ((hole - 1) / 2) x (set_nth hole p v)).
  - apply IH. rewrite set_nth_length. eapply nth_error_Some_lt; eauto.
  - apply set_nth_swap_perm; auto.
Qed.

(* __push_heap writes at positions <= hole only *)
Lemma sift_up_frame d f v hole top x j :
  hole < j -> nth j (sift_up lt f v hole top x) d = nth j v d.
Proof.
  revert v hole; induction f as [|f IH]; intros v hole H; cbn [sift_up].
  - apply nth_set_nth_neq; lia.
  - destruct (top <? hole); [|apply nth_set_nth_neq; lia].
    destruct (nth_error v ((hole - 1) / 2)) as [p|]; [|apply nth_set_nth_neq; lia].
    destruct (lt p x); [|apply nth_set_nth_neq; lia].
    rewrite IH by dlia. apply nth_set_nth_neq; lia.
Qed.

Lemma sift_down_perm f v hole len v1 h1 x :
  sift_down lt f v hole len = (v1, h1) -> hole < length v ->
  h1 < length v1 /\ Permutation (set_nth h1 x v1) (set_nth hole x v).
Proof.
  revert v hole; induction f as [|f IH]; intros v hole E H; cbn [sift_down] in E.
  - injection E as <- <-. split; auto.
  - destruct (hole <? (len - 1) / 2); [|injection E as <- <-; split; auto].
    destruct (nth_error v (2 * (hole + 1))) as [a|] eqn:Ea; [|injection E as <- <-; split; auto].
    destruct (nth_error v (2 * (hole + 1) - 1)) as [b|] eqn:Eb; [|injection E as <- <-; split; auto].
    destruct (lt a b).
    + apply IH in E.
      2:{ rewrite set_nth_length. eapply nth_error_Some_lt; eauto. }
      destruct E as [E1 E2]. split; auto.
      etransitivity; [exact E2|]. apply set_nth_swap_perm; auto.
    + apply IH in E.
      2:{ rewrite set_nth_length. eapply nth_error_Some_lt; eauto. }
      destruct E as [E1 E2]. split; auto.
      etransitivity; [exact E2|]. apply set_nth_swap_perm; auto.
Qed.

(* the loop of __adjust_heap stays below len and leaves everything from len on untouched *)
Lemma sift_down_frame d f v hole len v1 h1 :
  sift_down lt f v hole len = (v1, h1) -> hole < len ->
  h1 < len /\ length v1 = length v /\ forall j, len <= j -> nth j v1 d = nth j v d.
Proof.
  revert v hole; induction f as [|f IH]; intros v hole E H; cbn [sift_down] in E.
  - injection E as <- <-. auto.
  - destruct (hole <? (len - 1) / 2) eqn:C; [|injection E as <- <-; auto].
    apply Nat.ltb_lt in C.
    destruct (nth_error v (2 * (hole + 1))) as [a|] eqn:Ea; [|injection E as <- <-; auto].
    destruct (nth_error v (2 * (hole + 1) - 1)) as [b|] eqn:Eb; [|injection E as <- <-; auto].
    destruct (lt a b).
    + apply IH in E; [|dlia]. destruct E as (E1 & E2 & E3). rewrite set_nth_length in E2.
      split; auto. split; auto. intros j Hj. rewrite E3 by auto. apply nth_set_nth_neq. lia.
    + apply IH in E; [|dlia]. destruct E as (E1 & E2 & E3). rewrite set_nth_length in E2.
      split; auto. split; auto. intros j Hj. rewrite E3 by auto. apply nth_set_nth_neq. lia.
Qed.

(* the condition of the extra step of __adjust_heap (even length, hole at the node with a single child) *)
Lemma even_cond len h1 :
  Nat.even len && (2 <=? len) && (h1 =? (len - 2) / 2) = true ->
  2 * (h1 + 1) - 1 = len - 1 /\ 2 <= len /\ h1 = (len - 2) / 2.
Proof.
  intros H. apply andb_true_iff in H. destruct H as [H H3]. apply andb_true_iff in H. destruct H as [H1 H2].
  apply Nat.even_spec in H1. destruct H1 as [m Hm]. apply Nat.leb_le in H2. apply Nat.eqb_eq in H3.
  dlia.
Qed.

Lemma adjust_heap_perm v hole len x :
  hole < length v -> Permutation (adjust_heap lt v hole len x) (set_nth hole x v).
Proof.
  intros H. unfold adjust_heap.
  destruct (sift_down lt len v hole len) as [v1 h1] eqn:E.
  destruct (sift_down_perm _ _ _ _ _ _ x E H) as [H1 P1].
  destruct (Nat.even len && (2 <=? len) && (h1 =? (len - 2) / 2)).
  - destruct (nth_error v1 (2 * (h1 + 1) - 1)) as [y|] eqn:Ey.
    + etransitivity; [apply sift_up_perm|].
      * rewrite set_nth_length. eapply nth_error_Some_lt; eauto.
      * etransitivity; [apply set_nth_swap_perm; eauto | exact P1].
    + etransitivity; [apply sift_up_perm; auto | exact P1].
  - etransitivity; [apply sift_up_perm; auto | exact P1].
Qed.

Lemma adjust_heap_frame d v len x :
  0 < len ->
  length (adjust_heap lt v 0 len x) = length v /\
  forall j, len <= j -> nth j (adjust_heap lt v 0 len x) d = nth j v d.
Proof.
  intros H. unfold adjust_heap.
  destruct (sift_down lt len v 0 len) as [v1 h1] eqn:E.
  destruct (sift_down_frame d _ _ _ _ _ _ E H) as (F1 & F2 & F3).
  destruct (Nat.even len && (2 <=? len) && (h1 =? (len - 2) / 2)) eqn:C.
  - apply even_cond in C. destruct C as (C1 & C2 & C3).
    destruct (nth_error v1 (2 * (h1 + 1) - 1)) as [y|] eqn:Ey.
    + split.
      * rewrite sift_up_length, set_nth_length. auto.
      * intros j Hj. rewrite sift_up_frame by lia. rewrite nth_set_nth_neq by lia. auto.
    + split.
      * rewrite sift_up_length. auto.
      * intros j Hj. rewrite sift_up_frame by lia. auto.
  - split.
    + rewrite sift_up_length. auto.
    + intros j Hj. rewrite sift_up_frame by lia. auto.
Qed.

Lemma push_heap_perm v : Permutation (push_heap lt v) v.
Proof.
  unfold push_heap. destruct (length v) as [|last] eqn:L; [reflexivity|].
  destruct (nth_error v last) as [x|] eqn:E; [|reflexivity].
  etransitivity; [apply sift_up_perm; lia|].
  rewrite (set_nth_same _ _ _ E). reflexivity.
Qed.

Theorem push_perm v x : Permutation (push lt v x) (x :: v).
Proof.
  unfold push. etransitivity; [apply push_heap_perm|].
  symmetry. apply Permutation_cons_append.
Qed.

Theorem push_length v x : length (push lt v x) = S (length v).
Proof.
  rewrite (Permutation_length (push_perm v x)). reflexivity.
Qed.

Lemma pop_heap_perm v : Permutation (pop_heap lt v) v.
Proof.
  unfold pop_heap. destruct (length v) as [|[|n]] eqn:L; try reflexivity.
  destruct (nth_error v (S n)) as [value|] eqn:Ev; [|reflexivity].
  destruct (nth_error v 0) as [tp|] eqn:Et; [|reflexivity].
  etransitivity; [apply adjust_heap_perm; rewrite set_nth_length; lia|].
  etransitivity; [apply set_nth_swap_perm; [exact Et | lia]|].
  rewrite (set_nth_same _ _ _ Ev). reflexivity.
Qed.

Lemma pop_heap_length v : length (pop_heap lt v) = length v.
Proof. apply Permutation_length, pop_heap_perm. Qed.

(* after pop_heap the old top is in the last slot *)
Lemma pop_heap_last d v : nth (length v - 1) (pop_heap lt v) d = nth 0 v d.
Proof.
  unfold pop_heap. destruct (length v) as [|[|n]] eqn:L; try reflexivity.
  destruct (nth_error v (S n)) as [value|] eqn:Ev; [|apply nth_error_None in Ev; lia].
  destruct (nth_error v 0) as [tp|] eqn:Et; [|apply nth_error_None in Et; lia].
  replace (S (S n) - 1) with (S n) by lia.
  destruct (adjust_heap_frame d (set_nth (S n) tp v) (S n) value) as [_ F]; [lia|].
  rewrite F by lia. rewrite nth_set_nth_eq by lia. symmetry. apply nth_error_nth. exact Et.
Qed.

Theorem pop_none v : pop lt v = None <-> v = [].
Proof. destruct v; cbn; split; intros H; auto; discriminate. Qed.

Theorem pop_perm v x v' : pop lt v = Some (x, v') -> Permutation v (x :: v').
Proof.
  intros H. destruct v as [|y r]; [discriminate|]. cbn [pop] in H. injection H as <- <-.
  set (v := y :: r).
  assert (Hne : pop_heap lt v <> []).
  { intros E. pose proof (pop_heap_length v) as L. rewrite E in L. discriminate. }
  pose proof (removelast_nth_last y _ Hne) as D.
  rewrite pop_heap_length, pop_heap_last in D. cbn [nth v] in D.
  etransitivity; [symmetry; apply pop_heap_perm|].
  rewrite D at 1. symmetry. apply Permutation_cons_append.
Qed.

(* ---------------- the heap invariant: strict weak order ---------------- *)

(* heap_ok on the prefix of length n, through a total read with a default *)
Definition hp (d : T) (n : nat) (v : list T) : Prop :=
  forall i, 0 < i -> i < n -> lt (nth ((i - 1) / 2) v d) (nth i v d) = false.

Lemma heap_ok_hp d v : heap_ok v -> hp d (length v) v.
Proof.
  intros H i Hi Hn. apply (H i); auto; apply nth_error_nth'; dlia.
Qed.

Lemma hp_heap_ok d v : hp d (length v) v -> heap_ok v.
Proof.
  intros H i p c Hi Hp Hc.
  pose proof (nth_error_Some_lt _ _ _ Hc) as Hlt.
  specialize (H i Hi Hlt).
  rewrite (nth_error_nth _ _ d Hp), (nth_error_nth _ _ d Hc) in H. exact H.
Qed.

Lemma hp_weaken d n m v : m <= n -> hp d n v -> hp d m v.
Proof. intros H Hh i Hi Hm. apply Hh; lia. Qed.

Lemma hp_ext d n v w : (forall i, i < n -> nth i w d = nth i v d) -> hp d n v -> hp d n w.
Proof.
  intros E H i Hi Hn. rewrite !E by dlia. apply H; auto.
Qed.

(* heap everywhere except on the edges touching the hole h; the children of h are not greater than the parent of h *)
Definition hole_ok (d : T) (n : nat) (v : list T) (h : nat) : Prop :=
  (forall i, 0 < i -> i < n -> i <> h -> (i - 1) / 2 <> h -> lt (nth ((i - 1) / 2) v d) (nth i v d) = false) /\
  (forall i, 0 < i -> i < n -> (i - 1) / 2 = h -> 0 < h -> lt (nth ((h - 1) / 2) v d) (nth i v d) = false).

Section WithSwo.
Hypothesis HS : swo.
Variable d : T.

Lemma lt_asym a b : lt a b = true -> lt b a = false.
Proof.
  intros H. destruct (lt b a) eqn:E; auto.
  pose proof (swo_trans HS _ _ _ H E) as C. rewrite (swo_irrefl HS) in C. discriminate.
Qed.

Lemma hp_hole_ok n v h : hp d n v -> h < n -> hole_ok d n v h.
Proof.
  intros H Hh. split.
  - intros i Hi Hn _ _. apply H; auto.
  - intros i Hi Hn Hp Hpos.
    apply (swo_nlt_trans HS _ (nth h v d)).
    + rewrite <- Hp. apply H; auto.
    + apply H; auto.
Qed.

(* every element of a heap is not greater than the root *)
Lemma hp_root n v i : hp d n v -> i < n -> lt (nth 0 v d) (nth i v d) = false.
Proof.
  intros H. induction i as [i IH] using lt_wf_ind. intros Hn.
  destruct (Nat.eq_dec i 0) as [->|Hne]; [apply (swo_irrefl HS)|].
  apply (swo_nlt_trans HS _ (nth ((i - 1) / 2) v d)).
  - apply H; lia.
  - apply IH; dlia.
Qed.

(* filling the hole with a value that fits *)
Lemma hole_fill n v h x :
  n <= length v -> h < n -> hole_ok d n v h ->
  (forall i, 0 < i -> i < n -> (i - 1) / 2 = h -> lt x (nth i v d) = false) ->
  (0 < h -> lt (nth ((h - 1) / 2) v d) x = false) ->
  hp d n (set_nth h x v).
Proof.
  intros Hlen Hh [O1 O2] Hch Hpar i Hi Hn.
  destruct (Nat.eq_dec i h) as [->|Hne].
  - rewrite nth_set_nth_eq by lia. rewrite nth_set_nth_neq by dlia. apply Hpar; auto.
  - destruct (Nat.eq_dec ((i - 1) / 2) h) as [Hp|Hnp].
    + rewrite (nth_set_nth_neq d h i) by lia. rewrite Hp. rewrite nth_set_nth_eq by lia.
      apply Hch; auto.
    + rewrite !nth_set_nth_neq by lia. apply O1; auto.
Qed.

(* one iteration of __push_heap: the parent p (< x) moves down into the hole *)
Lemma hole_up n v h x :
  n <= length v -> h < n -> 0 < h -> hole_ok d n v h ->
  (forall i, 0 < i -> i < n -> (i - 1) / 2 = h -> lt x (nth i v d) = false) ->
  lt (nth ((h - 1) / 2) v d) x = true ->
  hole_ok d n (set_nth h (nth ((h - 1) / 2) v d) v) ((h - 1) / 2) /\
  (forall i, 0 < i -> i < n -> (i - 1) / 2 = (h - 1) / 2 ->
             lt x (nth i (set_nth h (nth ((h - 1) / 2) v d) v) d) = false).
Proof.
  intros Hlen Hh Hpos [O1 O2] Hch Hpx.
  set (p := nth ((h - 1) / 2) v d) in *.
  assert (Hh' : (h - 1) / 2 < h) by dlia.
  split; [split|].
  - intros i Hi Hn Hne Hnp.
    assert (i <> h) by congruence.
    rewrite (nth_set_nth_neq d h i) by lia.
    destruct (Nat.eq_dec ((i - 1) / 2) h) as [Hp|Hp'].
    + rewrite Hp. rewrite nth_set_nth_eq by lia. apply O2; auto.
    + rewrite nth_set_nth_neq by lia. apply O1; auto.
  - intros i Hi Hn Hp Hpos'.
    rewrite (nth_set_nth_neq d h (((h - 1) / 2 - 1) / 2)) by dlia.
    assert (Hpp : lt (nth (((h - 1) / 2 - 1) / 2) v d) (nth ((h - 1) / 2) v d) = false).
    { apply O1; auto; dlia. }
    destruct (Nat.eq_dec i h) as [->|Hne].
    + rewrite nth_set_nth_eq by lia. exact Hpp.
    + rewrite nth_set_nth_neq by lia.
      apply (swo_nlt_trans HS _ (nth ((h - 1) / 2) v d)); [|exact Hpp].
      rewrite <- Hp. apply O1; auto; lia.
  - intros i Hi Hn Hp.
    destruct (Nat.eq_dec i h) as [->|Hne].
    + rewrite nth_set_nth_eq by lia. apply lt_asym. exact Hpx.
    + rewrite nth_set_nth_neq by lia.
      assert (Hpi : lt p (nth i v d) = false).
      { unfold p. rewrite <- Hp. apply O1; auto; lia. }
      destruct (lt x (nth i v d)) eqn:E; auto.
      rewrite (swo_trans HS _ _ _ Hpx E) in Hpi. discriminate.
Qed.

Lemma sift_up_hp f v h x n :
  n <= length v -> h < n -> h <= f -> hole_ok d n v h ->
  (forall i, 0 < i -> i < n -> (i - 1) / 2 = h -> lt x (nth i v d) = false) ->
  hp d n (sift_up lt f v h 0 x).
Proof.
  revert v h; induction f as [|f IH]; intros v h Hlen Hh Hf HO Hch; cbn [sift_up].
  - apply hole_fill; auto. lia.
  - destruct (0 <? h) eqn:C.
    + apply Nat.ltb_lt in C.
      assert (Hp : (h - 1) / 2 < length v) by dlia.
      rewrite (nth_error_nth' v d Hp).
      destruct (lt (nth ((h - 1) / 2) v d) x) eqn:Cmp.
      * destruct (hole_up n v h x Hlen Hh C HO Hch Cmp) as [HO' Hch'].
        apply IH; auto.
        -- rewrite set_nth_length. auto.
        -- dlia.
        -- dlia.
      * apply hole_fill; auto.
    + apply Nat.ltb_ge in C. apply hole_fill; auto. lia.
Qed.

(* one iteration of __adjust_heap: the larger child c of the hole h is copied into the hole; the vector stays a
   heap (the stale copy at c is the new hole) *)
Lemma hole_down n v h c :
  n <= length v -> c < n -> 0 < c -> (c - 1) / 2 = h -> hp d n v ->
  (forall i, 0 < i -> i < n -> (i - 1) / 2 = h -> lt (nth c v d) (nth i v d) = false) ->
  hp d n (set_nth h (nth c v d) v).
Proof.
  intros Hlen Hc Hpos Hpar H Hmax i Hi Hn.
  assert (Hhc : h < c) by dlia.
  destruct (Nat.eq_dec i h) as [->|Hne].
  - rewrite nth_set_nth_eq by lia. rewrite nth_set_nth_neq by dlia.
    apply (swo_nlt_trans HS _ (nth h v d)).
    + rewrite <- Hpar at 1. apply H; auto.
    + apply H; auto; lia.
  - destruct (Nat.eq_dec ((i - 1) / 2) h) as [Hp|Hnp].
    + rewrite (nth_set_nth_neq d h i) by lia. rewrite Hp. rewrite nth_set_nth_eq by lia.
      apply Hmax; auto.
    + rewrite !nth_set_nth_neq by lia. apply H; auto.
Qed.

Lemma sift_down_hp f v hole len v1 h1 :
  sift_down lt f v hole len = (v1, h1) -> len <= length v -> hole < len -> hp d len v -> hp d len v1.
Proof.
  revert v hole; induction f as [|f IH]; intros v hole E Hlen Hh H; cbn [sift_down] in E.
  - injection E as <- <-. auto.
  - destruct (hole <? (len - 1) / 2) eqn:C; [|injection E as <- <-; auto].
    apply Nat.ltb_lt in C.
    destruct (nth_error v (2 * (hole + 1))) as [a|] eqn:Ea; [|injection E as <- <-; auto].
    destruct (nth_error v (2 * (hole + 1) - 1)) as [b|] eqn:Eb; [|injection E as <- <-; auto].
    apply (nth_error_nth _ _ d) in Ea. apply (nth_error_nth _ _ d) in Eb.
    destruct (lt a b) eqn:Cmp.
    + apply IH in E; auto.
      * rewrite set_nth_length. auto.
      * dlia.
      * rewrite <- Eb. apply hole_down; auto; try dlia.
        intros i Hi Hn Hp. rewrite Eb.
        assert (Hi2 : i = 2 * (hole + 1) - 1 \/ i = 2 * (hole + 1)) by dlia.
        destruct Hi2 as [-> | ->].
        -- rewrite Eb. apply (swo_irrefl HS).
        -- rewrite Ea. apply lt_asym. exact Cmp.
    + apply IH in E; auto.
      * rewrite set_nth_length. auto.
      * dlia.
      * rewrite <- Ea. apply hole_down; auto; try dlia.
        intros i Hi Hn Hp. rewrite Ea.
        assert (Hi2 : i = 2 * (hole + 1) - 1 \/ i = 2 * (hole + 1)) by dlia.
        destruct Hi2 as [-> | ->].
        -- rewrite Eb. exact Cmp.
        -- rewrite Ea. apply (swo_irrefl HS).
Qed.

(* with enough fuel the loop of __adjust_heap stops because its condition is false *)
Lemma sift_down_stop f v hole len v1 h1 :
  sift_down lt f v hole len = (v1, h1) -> len <= length v -> len <= f + hole -> (len - 1) / 2 <= h1.
Proof.
  revert v hole; induction f as [|f IH]; intros v hole E Hlen Hf; cbn [sift_down] in E.
  - injection E as <- <-. dlia.
  - destruct (hole <? (len - 1) / 2) eqn:C; [|injection E as <- <-; apply Nat.ltb_ge in C; auto].
    apply Nat.ltb_lt in C.
    destruct (nth_error v (2 * (hole + 1))) as [a|] eqn:Ea; [|apply nth_error_None in Ea; dlia].
    destruct (nth_error v (2 * (hole + 1) - 1)) as [b|] eqn:Eb; [|apply nth_error_None in Eb; dlia].
    destruct (lt a b).
    + apply IH in E; auto.
      * rewrite set_nth_length. auto.
      * lia.
    + apply IH in E; auto.
      * rewrite set_nth_length. auto.
      * lia.
Qed.

(* when the extra step is not taken the hole has no child below len *)
Lemma no_child len h1 :
  Nat.even len && (2 <=? len) && (h1 =? (len - 2) / 2) = false ->
  (len - 1) / 2 <= h1 -> 0 < len ->
  forall i, 0 < i -> i < len -> (i - 1) / 2 <> h1.
Proof.
  intros C Hs Hlen i Hi Hn Hp.
  destruct (Nat.Even_or_Odd len) as [[m Hm]|[m Hm]].
  - assert (Ev : Nat.even len = true) by (apply Nat.even_spec; exists m; auto).
    assert (L2 : (2 <=? len) = true) by (apply Nat.leb_le; lia).
    rewrite Ev, L2 in C. cbn [andb] in C. apply Nat.eqb_neq in C. dlia.
  - dlia.
Qed.

Lemma adjust_heap_hp v len x :
  0 < len -> len <= length v -> hp d len v -> hp d len (adjust_heap lt v 0 len x).
Proof.
  intros Hpos Hlen H. unfold adjust_heap.
  destruct (sift_down lt len v 0 len) as [v1 h1] eqn:E.
  destruct (sift_down_frame d _ _ _ _ _ _ E Hpos) as (F1 & F2 & _).
  pose proof (sift_down_hp _ _ _ _ _ _ E Hlen Hpos H) as H1.
  assert (Hstop : (len - 1) / 2 <= h1) by (eapply sift_down_stop; eauto; lia).
  destruct (Nat.even len && (2 <=? len) && (h1 =? (len - 2) / 2)) eqn:C.
  - apply even_cond in C. destruct C as (C1 & C2 & C3).
    assert (Hc : 2 * (h1 + 1) - 1 < length v1) by lia.
    rewrite (nth_error_nth' v1 d Hc).
    assert (H2 : hp d len (set_nth h1 (nth (2 * (h1 + 1) - 1) v1 d) v1)).
    { apply hole_down; auto; try dlia.
      intros i Hi Hn Hp. assert (i = 2 * (h1 + 1) - 1) as -> by dlia. apply (swo_irrefl HS). }
    apply sift_up_hp; auto.
    + rewrite set_nth_length. lia.
    + lia.
    + apply hp_hole_ok; auto. lia.
    + intros i Hi Hn Hp. dlia.
  - apply sift_up_hp; auto.
    + lia.
    + apply hp_hole_ok; auto.
    + intros i Hi Hn Hp. exfalso. eapply no_child; eauto.
Qed.

Lemma push_heap_hp v x : heap_ok v -> hp d (S (length v)) (push lt v x).
Proof.
  intros H. unfold push, push_heap. rewrite app_length. cbn [length].
  replace (length v + 1) with (S (length v)) by lia.
  rewrite nth_error_app2 by lia. rewrite Nat.sub_diag. cbn [nth_error].
  pose proof (heap_ok_hp d v H) as Hv.
  apply sift_up_hp.
  - rewrite app_length. cbn [length]. lia.
  - lia.
  - lia.
  - split.
    + intros i Hi Hn Hne Hnp. rewrite !app_nth1 by dlia. apply Hv; auto. lia.
    + intros i Hi Hn Hp Hpos. dlia.
  - intros i Hi Hn Hp. dlia.
Qed.

Lemma pop_heap_hp v : heap_ok v -> hp d (length v - 1) (pop_heap lt v).
Proof.
  intros H. pose proof (heap_ok_hp d v H) as Hv.
  unfold pop_heap. destruct (length v) as [|[|n]] eqn:L.
  - intros i Hi Hn. lia.
  - intros i Hi Hn. lia.
  - replace (S (S n) - 1) with (S n) by lia.
    destruct (nth_error v (S n)) as [value|] eqn:Ev; [|apply nth_error_None in Ev; lia].
    destruct (nth_error v 0) as [tp|] eqn:Et; [|apply nth_error_None in Et; lia].
    apply adjust_heap_hp.
    + lia.
    + rewrite set_nth_length. lia.
    + apply hp_ext with (v := v).
      * intros i Hi. apply nth_set_nth_neq. lia.
      * apply hp_weaken with (n := S (S n)); auto.
Qed.
End WithSwo.

Theorem push_heap_ok v x : swo -> heap_ok v -> heap_ok (push lt v x).
Proof.
  intros HS H. apply (hp_heap_ok x). rewrite push_length. apply push_heap_hp; auto.
Qed.

Theorem pop_max v x v' : swo -> heap_ok v -> pop lt v = Some (x, v') -> forall y, In y v -> lt x y = false.
Proof.
  intros HS H E y Hy. destruct v as [|z r]; [discriminate|]. cbn [pop] in E. injection E as <- <-.
  destruct (In_nth _ _ z Hy) as (i & Hi & <-).
  apply (hp_root HS z _ _ i (heap_ok_hp z _ H) Hi).
Qed.

Theorem pop_heap_ok v x v' : swo -> heap_ok v -> pop lt v = Some (x, v') -> heap_ok v'.
Proof.
  intros HS H E. destruct v as [|z r]; [discriminate|]. cbn [pop] in E. injection E as <- <-.
  apply (hp_heap_ok z). rewrite removelast_length, pop_heap_length.
  apply hp_ext with (v := pop_heap lt (z :: r)).
  - intros i Hi. apply nth_removelast. rewrite pop_heap_length. exact Hi.
  - apply pop_heap_hp; auto.
Qed.

End Spec.

(* ------------------------------------------------------------------------------------------------------------ *)
(* relational parametricity in the element type: two runs whose comparators agree on related elements perform the
   same moves *)
Section Param.
Context {A A' : Type}.
Variable lt : A -> A -> bool.
Variable lt' : A' -> A' -> bool.
Variable R : A -> A' -> Prop.
Hypothesis R_lt : forall a a' b b', R a a' -> R b b' -> lt a b = lt' a' b'.

Definition opt_rel (o : option A) (o' : option A') : Prop :=
  match o, o' with Some x, Some x' => R x x' | None, None => True | _, _ => False end.

Lemma Forall2_len v v' : Forall2 R v v' -> length v = length v'.
Proof. induction 1; cbn; auto. Qed.

Lemma Forall2_set_nth i v v' x x' : Forall2 R v v' -> R x x' -> Forall2 R (set_nth i x v) (set_nth i x' v').
Proof.
  intros H Hx. revert i; induction H as [|a a' r r' Ha Hr IH]; intros [|i]; cbn; constructor; auto.
Qed.

Lemma Forall2_nth_error v v' i : Forall2 R v v' -> opt_rel (nth_error v i) (nth_error v' i).
Proof.
  intros H. revert i; induction H as [|a a' r r' Ha Hr IH]; intros [|i]; cbn; auto.
Qed.

Lemma Forall2_removelast v v' : Forall2 R v v' -> Forall2 R (removelast v) (removelast v').
Proof.
  induction 1 as [|a a' r r' Ha Hr IH]; [constructor|].
  inversion Hr; subst.
  - cbn. constructor.
  - change (Forall2 R (a :: removelast (x :: l)) (a' :: removelast (y :: l'))). constructor; auto.
Qed.

Lemma Forall2_rev_rel v v' : Forall2 R v v' -> Forall2 R (rev v) (rev v').
Proof.
  induction 1 as [|a a' r r' Ha Hr IH]; cbn; [constructor|].
  apply Forall2_app; auto.
Qed.

Lemma sift_up_rel f v v' hole top x x' :
  Forall2 R v v' -> R x x' -> Forall2 R (sift_up lt f v hole top x) (sift_up lt' f v' hole top x').
Proof.
  revert v v' hole; induction f as [|f IH]; intros v v' hole H Hx; cbn [sift_up].
  - apply Forall2_set_nth; auto.
  - destruct (top <? hole); [|apply Forall2_set_nth; auto].
    pose proof (Forall2_nth_error v v' ((hole - 1) / 2) H) as Hn. unfold opt_rel in Hn.
    destruct (nth_error v ((hole - 1) / 2)) as [p|], (nth_error v' ((hole - 1) / 2)) as [p'|];
      try contradiction; [|apply Forall2_set_nth; auto].
    rewrite (R_lt _ _ _ _ Hn Hx).
    destruct (lt' p' x'); [|apply Forall2_set_nth; auto].
    apply IH; auto. apply Forall2_set_nth; auto.
Qed.

Lemma sift_down_rel f v v' hole len :
  Forall2 R v v' ->
  Forall2 R (fst (sift_down lt f v hole len)) (fst (sift_down lt' f v' hole len)) /\
  snd (sift_down lt f v hole len) = snd (sift_down lt' f v' hole len).
Proof.
  revert v v' hole; induction f as [|f IH]; intros v v' hole H; cbn [sift_down].
  - cbn [fst snd]. auto.
  - destruct (hole <? (len - 1) / 2); [|cbn [fst snd]; auto].
    pose proof (Forall2_nth_error v v' (2 * (hole + 1)) H) as Ha. unfold opt_rel in Ha.
    pose proof (Forall2_nth_error v v' (2 * (hole + 1) - 1) H) as Hb. unfold opt_rel in Hb.
    destruct (nth_error v (2 * (hole + 1))) as [a|], (nth_error v' (2 * (hole + 1))) as [a'|];
      try contradiction; [|cbn [fst snd]; auto].
    destruct (nth_error v (2 * (hole + 1) - 1)) as [b|], (nth_error v' (2 * (hole + 1) - 1)) as [b'|];
      try contradiction; [|cbn [fst snd]; auto].
    rewrite (R_lt _ _ _ _ Ha Hb).
    destruct (lt' a' b'); apply IH; apply Forall2_set_nth; auto.
Qed.

Lemma adjust_heap_rel v v' hole len x x' :
  Forall2 R v v' -> R x x' -> Forall2 R (adjust_heap lt v hole len x) (adjust_heap lt' v' hole len x').
Proof.
  intros H Hx. unfold adjust_heap.
  pose proof (sift_down_rel len v v' hole len H) as Hd.
  destruct (sift_down lt len v hole len) as [v1 h1], (sift_down lt' len v' hole len) as [v1' h1'].
  cbn [fst snd] in Hd. destruct Hd as [Hv <-].
  destruct (Nat.even len && (2 <=? len) && (h1 =? (len - 2) / 2)).
  - pose proof (Forall2_nth_error v1 v1' (2 * (h1 + 1) - 1) Hv) as Hy. unfold opt_rel in Hy.
    destruct (nth_error v1 (2 * (h1 + 1) - 1)) as [y|], (nth_error v1' (2 * (h1 + 1) - 1)) as [y'|];
      try contradiction.
    + apply sift_up_rel; auto. apply Forall2_set_nth; auto.
    + apply sift_up_rel; auto.
  - apply sift_up_rel; auto.
Qed.

Lemma push_heap_rel v v' : Forall2 R v v' -> Forall2 R (push_heap lt v) (push_heap lt' v').
Proof.
  intros H. unfold push_heap. rewrite <- (Forall2_len v v' H).
  destruct (length v) as [|last]; auto.
  pose proof (Forall2_nth_error v v' last H) as Hx. unfold opt_rel in Hx.
  destruct (nth_error v last) as [x|], (nth_error v' last) as [x'|]; try contradiction; auto.
  apply sift_up_rel; auto.
Qed.

Theorem push_rel v v' x x' : Forall2 R v v' -> R x x' -> Forall2 R (push lt v x) (push lt' v' x').
Proof.
  intros H Hx. unfold push. apply push_heap_rel. apply Forall2_app; auto.
Qed.

Lemma pop_heap_rel v v' : Forall2 R v v' -> Forall2 R (pop_heap lt v) (pop_heap lt' v').
Proof.
  intros H. unfold pop_heap. rewrite <- (Forall2_len v v' H).
  destruct (length v) as [|[|n]]; auto.
  pose proof (Forall2_nth_error v v' (S n) H) as Hx. unfold opt_rel in Hx.
  pose proof (Forall2_nth_error v v' 0 H) as Ht. unfold opt_rel in Ht.
  destruct (nth_error v (S n)) as [x|], (nth_error v' (S n)) as [x'|]; try contradiction; auto.
  destruct (nth_error v 0) as [t|], (nth_error v' 0) as [t'|]; try contradiction; auto.
  apply adjust_heap_rel; auto. apply Forall2_set_nth; auto.
Qed.

Definition pop_res_rel (r : option (A * list A)) (r' : option (A' * list A')) : Prop :=
  match r, r' with
  | Some (x, w), Some (x', w') => R x x' /\ Forall2 R w w'
  | None, None => True
  | _, _ => False
  end.

Theorem pop_rel v v' : Forall2 R v v' -> pop_res_rel (pop lt v) (pop lt' v').
Proof.
  intros H. destruct H as [|a a' r r' Ha Hr]; cbn [pop pop_res_rel]; auto.
  split; auto. apply Forall2_removelast. apply pop_heap_rel. constructor; auto.
Qed.

Theorem run_ops_rel ops ops' v v' out out' k :
  Forall2 (fun o o' => match o, o' with Some x, Some x' => R x x' | None, None => True | _, _ => False end) ops ops' ->
  Forall2 R v v' -> Forall2 R out out' ->
  let '(o1, w1, u1) := run_ops lt ops v out k in let '(o2, w2, u2) := run_ops lt' ops' v' out' k in
  Forall2 R o1 o2 /\ Forall2 R w1 w2 /\ u1 = u2.
Proof.
  intros Hops. revert v v' out out' k.
  induction Hops as [|o o' r r' Ho Hr IH]; intros v v' out out' k Hv Hout; cbn [run_ops].
  - split; [|split]; auto. apply Forall2_rev_rel; auto.
  - destruct o as [x|], o' as [x'|]; try contradiction.
    + apply IH; auto. apply push_rel; auto.
    + pose proof (pop_rel v v' Hv) as Hp. unfold pop_res_rel in Hp.
      destruct (pop lt v) as [[y w]|], (pop lt' v') as [[y' w']|]; try contradiction.
      * destruct Hp as [Hy Hw]. apply IH; auto.
      * apply IH; auto.
Qed.
End Param.

(* ------------------------------------------------------------------------------------------------------------ *)
(* elements K * P compared on the key only: the popped keys depend on the pushed keys only *)
Theorem pops_depend_on_keys_only {K P P' : Type} (ltk : K -> K -> bool)
  (ops : list (option (K * P))) (ops' : list (option (K * P'))) :
  map (option_map fst) ops = map (option_map fst) ops' ->
  map fst (fst (fst (run_ops (fun a b => ltk (fst a) (fst b)) ops [] [] 0))) =
  map fst (fst (fst (run_ops (fun a b => ltk (fst a) (fst b)) ops' [] [] 0))).
Proof.
  intros H.
  set (R := fun (a : K * P) (a' : K * P') => fst a = fst a').
  assert (Hops : Forall2 (fun o o' => match o, o' with Some x, Some x' => R x x' | None, None => True
                                      | _, _ => False end) ops ops').
  { revert ops' H; induction ops as [|o r IH]; intros [|o' r'] H; cbn in H; try discriminate; constructor.
    - destruct o as [x|], o' as [x'|]; cbn in H; try discriminate; auto.
      unfold R. congruence.
    - apply IH. congruence. }
  assert (Hlt : forall a a' b b', R a a' -> R b b' ->
                  (fun a b : K * P => ltk (fst a) (fst b)) a b = (fun a b : K * P' => ltk (fst a) (fst b)) a' b').
  { unfold R. intros a a' b b' -> ->. reflexivity. }
  pose proof (run_ops_rel _ _ R Hlt ops ops' [] [] [] [] 0 Hops (Forall2_nil _) (Forall2_nil _)) as HR.
  destruct (run_ops (fun a b : K * P => ltk (fst a) (fst b)) ops [] [] 0) as [[o1 w1] u1].
  destruct (run_ops (fun a b : K * P' => ltk (fst a) (fst b)) ops' [] [] 0) as [[o2 w2] u2].
  cbn [fst]. destruct HR as [Ho _].
  induction Ho as [|a a' r r' Ha Hr IH]; cbn [map]; auto. unfold R in Ha. congruence.
Qed.

(* ------------------------------------------------------------------------------------------------------------ *)
(* instances *)
Lemma swo_key {T} (key : T -> Z) : swo (fun a b => (key a <? key b)%Z).
Proof.
  constructor.
  - intros a. apply Z.ltb_irrefl.
  - intros a b c H1 H2. apply Z.ltb_lt in H1, H2. apply Z.ltb_lt. lia.
  - intros a b c H1 H2. apply Z.ltb_ge in H1, H2. apply Z.ltb_ge. lia.
Qed.

Lemma pair_ltb_true a b :
  AStarImpl.pair_ltb a b = true <-> (fst a < fst b \/ (fst a = fst b /\ (snd a < snd b)%nat))%Z.
Proof.
  unfold AStarImpl.pair_ltb. rewrite orb_true_iff, andb_true_iff, Z.ltb_lt, Z.eqb_eq, Nat.ltb_lt. tauto.
Qed.

Lemma pair_ltb_false a b :
  AStarImpl.pair_ltb a b = false <-> (fst b <= fst a /\ (fst a <> fst b \/ (snd b <= snd a)%nat))%Z.
Proof.
  unfold AStarImpl.pair_ltb. rewrite orb_false_iff, andb_false_iff, Z.ltb_ge, Z.eqb_neq, Nat.ltb_ge. tauto.
Qed.

Lemma swo_pair : swo AStarImpl.pair_ltb.
Proof.
  constructor.
  - intros a. apply pair_ltb_false. lia.
  - intros a b c H1 H2. apply pair_ltb_true in H1, H2. apply pair_ltb_true. lia.
  - intros a b c H1 H2. apply pair_ltb_false in H1, H2. apply pair_ltb_false. lia.
Qed.

(* a non-trivial heap, and a concrete run: pushes of 3 1 4 1 5 9 2 6, two pops, a push, pops until empty and one
   more (underflow), a last push; with a key-only comparator the payload does not influence the order of the keys *)
Example heap_example :
  fold_left (push Z.ltb) [3; 1; 4; 1; 5; 9; 2; 6]%Z [] = [9; 6; 5; 4; 1; 3; 2; 1]%Z /\
  heap_ok Z.ltb [9; 6; 5; 4; 1; 3; 2; 1]%Z /\
  ~ heap_ok Z.ltb [1; 2]%Z /\
  run_ops Z.ltb [Some 3; Some 1; Some 4; Some 1; Some 5; Some 9; Some 2; Some 6; None; None; Some 7;
                 None; None; None; None; None; None; None; None; Some 8]%Z [] [] 0 =
    ([9; 6; 7; 5; 4; 3; 2; 1; 1]%Z, [8]%Z, 1) /\
  run_ops (fun a b : Z * nat => (fst a <? fst b)%Z)
          [Some (2%Z, 0); Some (2%Z, 1); Some (2%Z, 2); Some (1%Z, 3); Some (2%Z, 4); None; None; None; None; None] [] [] 0 =
    ([(2%Z, 0); (2%Z, 2); (2%Z, 4); (2%Z, 1); (1%Z, 3)], [], 0).
Proof.
  assert (E : fold_left (push Z.ltb) [3; 1; 4; 1; 5; 9; 2; 6]%Z [] = [9; 6; 5; 4; 1; 3; 2; 1]%Z)
    by (vm_compute; reflexivity).
  split; [exact E|]. split; [|split; [|split]].
  - rewrite <- E.
    assert (S : swo Z.ltb) by exact (swo_key (fun z : Z => z)).
    cbn [fold_left]. repeat apply push_heap_ok; auto. apply heap_ok_nil.
  - intros H. specialize (H 1 1%Z 2%Z). cbn in H. discriminate H; auto.
  - vm_compute. reflexivity.
  - vm_compute. reflexivity.
Qed.
