(* C06 - lemmas tying the model of class Unification (Unify.v) to its specification (UnifySpec.v).
   Lemmas meant for reuse by the rule-soundness proofs (C03/C04) are listed at the end of the file. *)
From Coq Require Import List NArith Bool Lia.
Import ListNotations.
Require Import Cat CatFacts Unify UnifySpec.
Open Scope N_scope.

(* ================= ordered dictionaries ================= *)
Section DictFacts.
Context {K V : Type}.
Variable keqb : K -> K -> bool.
Hypothesis keqb_eq : forall a b, keqb a b = true <-> a = b.

Lemma keqb_refl a : keqb a a = true.
Proof. now apply keqb_eq. Qed.
Lemma keqb_neq a b : a <> b -> keqb a b = false.
Proof. intros H. destruct (keqb a b) eqn:E; [apply keqb_eq in E; congruence | reflexivity]. Qed.

Lemma dget_dset_same k v (d : list (K * V)) : dget keqb k (dset keqb k v d) = Some v.
Proof.
  induction d as [|[k0 v0] d IH]; simpl.
  - now rewrite keqb_refl.
  - destruct (keqb k k0) eqn:E; simpl; rewrite E; [reflexivity | exact IH].
Qed.
Lemma dget_dset_other k k' v (d : list (K * V)) : k <> k' -> dget keqb k' (dset keqb k v d) = dget keqb k' d.
Proof.
  intros Hne. induction d as [|[k0 v0] d IH]; simpl.
  - rewrite keqb_neq; [reflexivity | congruence].
  - destruct (keqb k k0) eqn:E; simpl.
    + apply keqb_eq in E; subst k0. rewrite keqb_neq; [reflexivity | congruence].
    + now rewrite IH.
Qed.
Lemma dget_dset k k' v (d : list (K * V)) :
  dget keqb k' (dset keqb k v d) = if keqb k' k then Some v else dget keqb k' d.
Proof.
  destruct (keqb k' k) eqn:E.
  - apply keqb_eq in E; subst. apply dget_dset_same.
  - apply dget_dset_other. intros ->. now rewrite keqb_refl in E.
Qed.
Lemma dget_In k v (d : list (K * V)) : dget keqb k d = Some v -> In (k, v) d.
Proof.
  induction d as [|[k0 v0] d IH]; simpl; [discriminate|].
  destruct (keqb k k0) eqn:E; intros H.
  - apply keqb_eq in E. inversion H; subst. now left.
  - right. now apply IH.
Qed.
Lemma dget_none k (d : list (K * V)) : dget keqb k d = None <-> ~ In k (map fst d).
Proof.
  induction d as [|[k0 v0] d IH]; simpl; [tauto|].
  destruct (keqb k k0) eqn:E.
  - apply keqb_eq in E. subst. split; [discriminate | intros H; exfalso; apply H; now left].
  - rewrite IH. split; [intros H [H1|H1]; [subst; now rewrite keqb_refl in E | tauto] | tauto].
Qed.
Lemma dhas_In k (d : list (K * V)) : dhas keqb k d = true <-> In k (map fst d).
Proof.
  unfold dhas. destruct (dget keqb k d) eqn:E.
  - split; [intros _ | reflexivity]. apply dget_In in E. apply in_map_iff. now exists (k, v).
  - apply dget_none in E. split; [discriminate | tauto].
Qed.
(* keys keep their insertion order: an existing key stays where it is, a new key goes to the end *)
Lemma dset_keys k v (d : list (K * V)) :
  map fst (dset keqb k v d) = if dhas keqb k d then map fst d else map fst d ++ [k].
Proof.
  unfold dhas. induction d as [|[k0 v0] d IH]; simpl; [reflexivity|].
  destruct (keqb k k0) eqn:E; simpl; [reflexivity|].
  rewrite IH. now destruct (dget keqb k d).
Qed.

(* d[k1] = v1; ...; d[kn] = vn *)
Definition set_list (E d : list (K * V)) : list (K * V) := fold_left (fun d kv => dset keqb (fst kv) (snd kv) d) E d.
(* the value of the last entry with key k *)
Fixpoint alast (k : K) (E : list (K * V)) : option V :=
  match E with
  | [] => None
  | (k', v) :: r => match alast k r with Some w => Some w | None => if keqb k k' then Some v else None end
  end.
Lemma set_list_app A B d : set_list (A ++ B) d = set_list B (set_list A d).
Proof. apply fold_left_app. Qed.
Lemma alast_app k A B : alast k (A ++ B) = match alast k B with Some v => Some v | None => alast k A end.
Proof.
  induction A as [|[k0 v0] A IH]; simpl.
  - now destruct (alast k B).
  - rewrite IH. now destruct (alast k B).
Qed.
Lemma dget_set_list k E : forall d, dget keqb k (set_list E d) = match alast k E with Some v => Some v | None => dget keqb k d end.
Proof.
  induction E as [|[k0 v0] E IH]; intros d; simpl; [reflexivity|].
  rewrite IH. destruct (alast k E); [reflexivity|]. rewrite dget_dset. now destruct (keqb k k0).
Qed.
Lemma alast_In k v E : alast k E = Some v -> In (k, v) E.
Proof.
  induction E as [|[k0 v0] E IH]; simpl; [discriminate|].
  destruct (alast k E) eqn:E1.
  - intros H. right. now apply IH.
  - destruct (keqb k k0) eqn:E2; [|discriminate]. apply keqb_eq in E2. intros H. inversion H; subst. now left.
Qed.
Lemma alast_none k E : alast k E = None <-> ~ In k (map fst E).
Proof.
  induction E as [|[k0 v0] E IH]; simpl; [tauto|].
  destruct (alast k E) eqn:E1.
  - split; [discriminate|]. intros H. exfalso. apply H. right.
    apply alast_In in E1. apply in_map_iff. now exists (k, v).
  - destruct (keqb k k0) eqn:E2.
    + apply keqb_eq in E2; subst. split; [discriminate | intros H; exfalso; apply H; now left].
    + split; [|reflexivity]. intros _ [H|H]; [subst; now rewrite keqb_refl in E2 | now apply IH in H].
Qed.
(* keys after a series of assignments: the old keys, then the new ones in order of first assignment *)
Fixpoint new_keys (seen : list K) (ks : list K) : list K :=
  match ks with
  | [] => []
  | k :: r => if existsb (keqb k) seen then new_keys seen r else k :: new_keys (seen ++ [k]) r
  end.
Lemma existsb_keqb k l : existsb (keqb k) l = true <-> In k l.
Proof.
  rewrite existsb_exists. split.
  - intros [x [Hin Hx]]. apply keqb_eq in Hx. now subst.
  - intros H. exists k. split; [assumption | apply keqb_refl].
Qed.
Lemma set_list_keys E : forall d, map fst (set_list E d) = map fst d ++ new_keys (map fst d) (map fst E).
Proof.
  induction E as [|[k0 v0] E IH]; intros d; simpl.
  - now rewrite app_nil_r.
  - rewrite IH, dset_keys.
    destruct (dhas keqb k0 d) eqn:Eh.
    + apply dhas_In in Eh. apply existsb_keqb in Eh. now rewrite Eh.
    + assert (Hn : existsb (keqb k0) (map fst d) = false).
      { destruct (existsb (keqb k0) (map fst d)) eqn:Ee; [|reflexivity]. apply existsb_keqb in Ee. apply dhas_In in Ee. congruence. }
      rewrite Hn. now rewrite <- app_assoc.
Qed.
End DictFacts.

Lemma key_eqb_eq a b : key_eqb a b = true <-> a = b.
Proof.
  destruct a as [a1 [i|]], b as [b1 [j|]]; unfold key_eqb; simpl; rewrite andb_true_iff, text_eqb_eq.
  - rewrite N.eqb_eq. split; [intros [-> ->]; reflexivity | intros H; inversion H; auto].
  - split; [intros [_ H]; discriminate | intros H; discriminate].
  - split; [intros [_ H]; discriminate | intros H; discriminate].
  - split; [intros [-> _]; reflexivity | intros H; inversion H; auto].
Qed.

(* ================= the feature-blind comparison is an equivalence ================= *)
Lemma cat_xor_skeleton a b : cat_xor a b = true <-> skeleton a = skeleton b.
Proof.
  revert b; induction a as [x f | l IHl s r IHr]; intros [y g | l' s' r']; simpl; split; intros H; try discriminate.
  - apply text_eqb_eq in H. now subst.
  - inversion H. apply text_eqb_refl.
  - apply andb_true_iff in H as [H H3]. apply andb_true_iff in H as [H1 H2].
    apply IHl in H1. apply IHr in H3. apply text_eqb_eq in H2. congruence.
  - inversion H as [[H1 H2 H3]]. apply IHl in H1. apply IHr in H3. now rewrite H1, H3, text_eqb_refl.
Qed.
Lemma cat_xor_refl a : cat_xor a a = true.
Proof. now apply cat_xor_skeleton. Qed.
Lemma cat_xor_sym a b : cat_xor a b = true -> cat_xor b a = true.
Proof. rewrite !cat_xor_skeleton. congruence. Qed.
Lemma cat_xor_trans a b c : cat_xor a b = true -> cat_xor b c = true -> cat_xor a c = true.
Proof. rewrite !cat_xor_skeleton. congruence. Qed.

Lemma leaf_feats_atoms c : leaf_feats c = map snd (atoms c).
Proof. induction c as [b f | l IHl s r IHr]; simpl; [reflexivity | now rewrite map_app, IHl, IHr]. Qed.
Lemma leaf_feats_nonnil c : leaf_feats c <> [].
Proof. induction c as [b f | l IHl s r IHr]; simpl; [discriminate|]. destruct (leaf_feats l); [congruence | discriminate]. Qed.
Lemma skeleton_leaf_length a b : skeleton a = skeleton b -> length (leaf_feats a) = length (leaf_feats b).
Proof.
  revert b; induction a as [x f | l IHl s r IHr]; intros [y g | l' s' r']; simpl; intros H; try discriminate; [reflexivity|].
  inversion H. rewrite !app_length. now rewrite (IHl l'), (IHr r').
Qed.
Definition is_atom (c : cat) : bool := match c with Atom _ _ => true | Fun _ _ _ => false end.
Lemma skeleton_same_kind a b : skeleton a = skeleton b -> is_atom a = is_atom b.
Proof. destruct a, b; simpl; intros H; try discriminate; reflexivity. Qed.

(* ================= scan_deep: the leaf features, keyed (v, Some idx), (v, Some (idx+1)), ... ================= *)
Notation kset_list := (set_list key_eqb).
Notation kalast := (alast key_eqb).
Notation cget := (dget text_eqb).
Notation cset := (dset text_eqb).

Fixpoint idx_entries (v : text) (idx : N) (fs : list feat) : list (key * feat) :=
  match fs with [] => [] | f :: r => ((v, Some idx), f) :: idx_entries v (idx + 1) r end.
Lemma idx_entries_app v fs1 : forall idx fs2,
  idx_entries v idx (fs1 ++ fs2) = idx_entries v idx fs1 ++ idx_entries v (idx + N.of_nat (length fs1)) fs2.
Proof.
  induction fs1 as [|f fs1 IH]; intros idx fs2.
  - simpl. now rewrite N.add_0_r.
  - cbn [app idx_entries length]. rewrite IH. replace (idx + N.of_nat (S (length fs1))) with (idx + 1 + N.of_nat (length fs1)) by lia. reflexivity.
Qed.
Lemma scan_deep_spec t v : forall idx r,
  scan_deep t v idx r = (idx + N.of_nat (length (leaf_feats t)), kset_list (idx_entries v idx (leaf_feats t)) r).
Proof.
  induction t as [b f | l IHl s rr IHr]; intros idx r.
  - reflexivity.
  - cbn [scan_deep leaf_feats]. rewrite IHl, IHr, idx_entries_app, set_list_app, app_length, Nat2N.inj_add, N.add_assoc. reflexivity.
Qed.
(* reading the entries back *)
Lemma idx_entries_get v fs : forall idx w k,
  kalast (w, k) (idx_entries v idx fs) =
  match k with
  | Some i => if text_eqb w v && (idx <=? i) then nth_error fs (N.to_nat (i - idx)) else None
  | None => None
  end.
Proof.
  induction fs as [|f fs IH]; intros idx w k; simpl.
  - destruct k as [i|]; [|reflexivity]. destruct (text_eqb w v && (idx <=? i)); [|reflexivity]. now destruct (N.to_nat (i - idx)).
  - rewrite IH. destruct k as [i|]; unfold key_eqb; simpl.
    + destruct (text_eqb w v) eqn:Ev; simpl; [|reflexivity].
      destruct (N.leb_spec (idx + 1) i) as [H1|H1].
      * destruct (N.leb_spec idx i) as [H2|H2]; [|lia].
        replace (N.to_nat (i - idx)) with (S (N.to_nat (i - (idx + 1)))) by lia. simpl.
        destruct (nth_error fs (N.to_nat (i - (idx + 1)))) eqn:En; [reflexivity|].
        destruct (N.eqb_spec i idx) as [H3|H3]; [lia | reflexivity].
      * destruct (N.eqb_spec i idx) as [H3|H3].
        -- subst. rewrite N.leb_refl, N.sub_diag. reflexivity.
        -- destruct (N.leb_spec idx i) as [H2|H2]; [lia | reflexivity].
    + now rewrite andb_false_r.
Qed.

(* the feature entries that one binding (v, c) contributes *)
Definition entries (vc : text * cat) : list (key * feat) :=
  match snd vc with
  | Atom _ f => [((fst vc, None), f)]
  | c => idx_entries (fst vc) 0 (leaf_feats c)
  end.
(* the entry of binding (v, c) under key (w, k) *)
Definition entry_get (c : cat) (k : option N) : option feat :=
  match c, k with
  | Atom _ f, None => Some f
  | Fun _ _ _, Some i => nth_error (leaf_feats c) (N.to_nat i)
  | _, _ => None
  end.
Lemma entries_get v c w k : kalast (w, k) (entries (v, c)) = if text_eqb w v then entry_get c k else None.
Proof.
  destruct c as [b f | l s r]; unfold entries; cbn [snd fst].
  - simpl. unfold key_eqb; simpl. destruct (text_eqb w v); simpl; [now destruct k | reflexivity].
  - rewrite idx_entries_get. destruct k as [i|]; cbn [entry_get].
    + rewrite N.sub_0_r. replace (0 <=? i) with true by (symmetry; apply N.leb_le; lia). rewrite andb_true_r. reflexivity.
    + now destruct (text_eqb w v).
Qed.
Lemma entry_get_skeleton c c' k : skeleton c = skeleton c' -> (entry_get c k = None <-> entry_get c' k = None).
Proof.
  intros H. pose proof (skeleton_leaf_length _ _ H) as HL.
  destruct c as [b f | l s r], c' as [b' f' | l' s' r']; try discriminate H.
  - destruct k; simpl; split; intros; congruence.
  - destruct k as [i|]; cbn [entry_get]; [|tauto]. rewrite !nth_error_None. rewrite HL. tauto.
Qed.
Lemma entry_get_leaf c k f : entry_get c k = Some f -> In f (leaf_feats c).
Proof.
  destruct c as [b g | l s r], k as [i|]; cbn [entry_get]; try discriminate.
  - intros H. inversion H. now left.
  - apply nth_error_In.
Qed.

(* ================= scan ================= *)
Definition set_all (bs : list (text * cat)) (cats : cats_t) : cats_t := set_list text_eqb bs cats.
Definition feats_all (bs : list (text * cat)) (r : feats_t) : feats_t := kset_list (flat_map entries bs) r.
(* the sequence of tests `t ^ self.cats[v]` that scan performs, each against the latest binding *)
Fixpoint bind_all (bs : list (text * cat)) (cats : cats_t) : option cats_t :=
  match bs with
  | [] => Some cats
  | (v, c) :: r =>
      match cget v cats with
      | Some c0 => if cat_xor c c0 then bind_all r (cset v c cats) else None
      | None => bind_all r (cset v c cats)
      end
  end.
Lemma bind_all_app a : forall b cats,
  bind_all (a ++ b) cats = match bind_all a cats with Some c1 => bind_all b c1 | None => None end.
Proof.
  induction a as [|[v c] a IH]; intros b cats; simpl; [reflexivity|].
  destruct (cget v cats) as [c0|]; [destruct (cat_xor c c0); [apply IH | reflexivity] | apply IH].
Qed.
Lemma bind_all_result bs : forall cats c', bind_all bs cats = Some c' -> c' = set_all bs cats.
Proof.
  induction bs as [|[v c] bs IH]; intros cats c'; simpl.
  - intros H. now inversion H.
  - destruct (cget v cats) as [c0|]; [destruct (cat_xor c c0); [apply IH | discriminate] | apply IH].
Qed.
Lemma feats_all_app a b r : feats_all (a ++ b) r = feats_all b (feats_all a r).
Proof. unfold feats_all. now rewrite flat_map_app, set_list_app. Qed.

(* scan succeeds iff the input has the shape and every test against the latest binding passes; then the
   dictionaries are the bindings / their feature entries, assigned in order *)
Lemma scan_spec s : forall t cats r,
  match binds s t with
  | None => fst (fst (scan s t cats r)) = false
  | Some bs =>
      match bind_all bs cats with
      | Some c' => scan s t cats r = (true, c', feats_all bs r)
      | None => fst (fst (scan s t cats r)) = false
      end
  end.
Proof.
  induction s as [b f0 | sl IHl ss sr IHr]; intros t cats r.
  - cbn [binds bind_all scan]. destruct (cget b cats) as [c0|].
    + destruct (cat_xor t c0); cbn [negb]; [|reflexivity].
      destruct t as [tb tf | tl ts tr]; [reflexivity|].
      rewrite scan_deep_spec. unfold feats_all, entries. cbn [flat_map snd fst]. now rewrite app_nil_r.
    + destruct t as [tb tf | tl ts tr]; [reflexivity|].
      rewrite scan_deep_spec. unfold feats_all, entries. cbn [flat_map snd fst]. now rewrite app_nil_r.
  - destruct t as [tb tf | tl ts tr]; [reflexivity|].
    cbn [binds scan]. unfold slash_ok, slash_match.
    destruct (text_eqb ss ts || text_eqb ss [cBAR] || text_eqb ts [cBAR]); [|reflexivity].
    specialize (IHl tl cats r). destruct (binds sl tl) as [b1|].
    + destruct (bind_all b1 cats) as [c1|] eqn:E1.
      * rewrite IHl. specialize (IHr tr c1 (feats_all b1 r)). destruct (binds sr tr) as [b2|].
        -- rewrite bind_all_app, E1. destruct (bind_all b2 c1) as [c2|].
           ++ now rewrite IHr, feats_all_app.
           ++ exact IHr.
        -- exact IHr.
      * destruct (scan sl tl cats r) as [[ok1 c1'] r1']. cbn [fst] in IHl. subst ok1.
        destruct (binds sr tr); [rewrite bind_all_app, E1|]; reflexivity.
    + destruct (scan sl tl cats r) as [[ok1 c1'] r1']. cbn [fst] in IHl. subst ok1. reflexivity.
Qed.

(* ---------- testing against the latest binding only is enough: ^ is an equivalence ---------- *)
Definition agree_with (cats : cats_t) (bs : list (text * cat)) : Prop :=
  forall v c c0, In (v, c) bs -> cget v cats = Some c0 -> cat_xor c c0 = true.
Lemma bind_all_iff bs : forall cats,
  (exists c', bind_all bs cats = Some c') <-> vars_agree bs /\ agree_with cats bs.
Proof.
  induction bs as [|[v c] bs IH]; intros cats.
  - simpl. split; [intros _ | intros _; now eexists]. split; [intros ? ? ? [] | intros ? ? ? []].
  - assert (Hstep : (exists c', bind_all bs (cset v c cats) = Some c') <->
                    vars_agree bs /\ (forall d, In (v, d) bs -> cat_xor d c = true) /\
                    (forall w d d0, In (w, d) bs -> w <> v -> cget w cats = Some d0 -> cat_xor d d0 = true)).
    { rewrite IH. unfold agree_with. split.
      - intros [Ha Hw]. split; [exact Ha|]. split.
        + intros d Hd. apply (Hw v d c Hd). apply (dget_dset_same _ text_eqb_eq).
        + intros w d d0 Hd Hne Hg. apply (Hw w d d0 Hd). rewrite (dget_dset_other _ text_eqb_eq); [exact Hg | congruence].
      - intros (Ha & Hv & Hw). split; [exact Ha|]. intros w d d0 Hd Hg.
        destruct (text_eq_dec w v) as [->|Hne].
        + rewrite (dget_dset_same _ text_eqb_eq) in Hg. inversion Hg; subst. now apply Hv.
        + rewrite (dget_dset_other _ text_eqb_eq) in Hg; [|congruence]. now apply (Hw w d d0). }
    assert (Hgoal : vars_agree ((v, c) :: bs) /\ agree_with cats ((v, c) :: bs) <->
                    (forall c0, cget v cats = Some c0 -> cat_xor c c0 = true) /\
                    vars_agree bs /\ (forall d, In (v, d) bs -> cat_xor d c = true) /\
                    (forall w d d0, In (w, d) bs -> w <> v -> cget w cats = Some d0 -> cat_xor d d0 = true)).
    { unfold vars_agree, agree_with. split.
      - intros [Ha Hw]. split; [|split; [|split]].
        + intros c0 Hg. apply (Hw v c c0); [now left | exact Hg].
        + intros w c1 c2 H1 H2. apply (Ha w); now right.
        + intros d Hd. apply (Ha v); [now right | now left].
        + intros w d d0 Hd _ Hg. apply (Hw w d d0); [now right | exact Hg].
      - intros (H0 & Ha & Hv & Hw). split.
        + intros w c1 c2 [H1|H1] [H2|H2].
          * inversion H1; inversion H2; subst. apply cat_xor_refl.
          * inversion H1; subst. apply cat_xor_sym. now apply Hv.
          * inversion H2; subst. now apply Hv.
          * now apply (Ha w).
        + intros w d d0 [H1|H1] Hg.
          * inversion H1; subst. now apply H0.
          * destruct (text_eq_dec w v) as [->|Hne].
            -- apply (cat_xor_trans d c d0); [now apply Hv | now apply H0].
            -- now apply (Hw w d d0). }
    rewrite Hgoal. cbn [bind_all]. destruct (cget v cats) as [c0|] eqn:Eg.
    + destruct (cat_xor c c0) eqn:Ex.
      * rewrite Hstep. split; [intros H; split; [intros c1 H1; inversion H1; now subst | exact H] | tauto].
      * split; [intros [c' H]; discriminate | intros [H _]; specialize (H c0 eq_refl); congruence].
    + rewrite Hstep. split; [intros H; split; [intros c1 H1; discriminate | exact H] | tauto].
Qed.
Lemma agree_with_empty bs : agree_with [] bs.
Proof. intros v c c0 _ H. discriminate. Qed.

Lemma last_binding_alast v bs : last_binding v bs = alast text_eqb v bs.
Proof. induction bs as [|[w c] bs IH]; simpl; [reflexivity | now rewrite IH]. Qed.
Lemma set_all_get v bs cats :
  cget v (set_all bs cats) = match last_binding v bs with Some c => Some c | None => cget v cats end.
Proof. unfold set_all. rewrite (dget_set_list _ text_eqb_eq v bs cats), (last_binding_alast v bs). reflexivity. Qed.
Lemma last_binding_In v bs c : last_binding v bs = Some c -> In (v, c) bs.
Proof. rewrite last_binding_alast. apply (alast_In _ text_eqb_eq). Qed.
Lemma last_binding_none v bs : last_binding v bs = None <-> ~ In v (map fst bs).
Proof. rewrite last_binding_alast. apply (alast_none _ text_eqb_eq). Qed.
Lemma last_binding_app v a b :
  last_binding v (a ++ b) = match last_binding v b with Some c => Some c | None => last_binding v a end.
Proof. rewrite !last_binding_alast. apply alast_app. Qed.

(* ================= the feature dictionaries after a successful scan ================= *)
Lemma vars_agree_tail vc bs : vars_agree (vc :: bs) -> vars_agree bs.
Proof. intros H v c1 c2 H1 H2. apply (H v); now right. Qed.
Lemma vars_agree_app_l a b : vars_agree (a ++ b) -> vars_agree a.
Proof. intros H v c1 c2 H1 H2. apply (H v); apply in_or_app; now left. Qed.
Lemma vars_agree_app_r a b : vars_agree (a ++ b) -> vars_agree b.
Proof. intros H v c1 c2 H1 H2. apply (H v); apply in_or_app; now right. Qed.

(* x_features[(v, k)] is the entry of the LAST binding of v (all bindings of v have the same keys) *)
Lemma entries_all_get bs : vars_agree bs -> forall v k,
  kalast (v, k) (flat_map entries bs) = match last_binding v bs with Some c => entry_get c k | None => None end.
Proof.
  induction bs as [|[w c] bs IH]; intros Ha v k; [reflexivity|].
  cbn [flat_map last_binding]. rewrite alast_app, (IH (vars_agree_tail _ _ Ha)), entries_get.
  destruct (last_binding v bs) as [c'|] eqn:El.
  - destruct (entry_get c' k) eqn:Eg; [reflexivity|].
    destruct (text_eqb v w) eqn:Ev; [|reflexivity].
    apply text_eqb_eq in Ev; subst w.
    assert (Hx : cat_xor c c' = true).
    { apply (Ha v); [now left | right; now apply last_binding_In]. }
    apply cat_xor_skeleton in Hx. now apply (entry_get_skeleton c c' k Hx).
  - now destruct (text_eqb v w).
Qed.
Lemma feats_all_get bs : vars_agree bs -> forall v k,
  dget key_eqb (v, k) (feats_all bs []) = match last_binding v bs with Some c => entry_get c k | None => None end.
Proof.
  intros Ha v k. unfold feats_all. rewrite (dget_set_list _ key_eqb_eq (v, k) (flat_map entries bs) []).
  rewrite (entries_all_get bs Ha). cbn [dget]. now destruct (match last_binding v bs with Some c => entry_get c k | None => None end).
Qed.

Lemma entry_get_nth c k f : entry_get c k = Some f ->
  nth_error (leaf_feats c) (match k with Some i => N.to_nat i | None => 0%nat end) = Some f /\ (is_atom c = true <-> k = None).
Proof.
  destruct c as [b g | l s r], k as [i|]; cbn [entry_get]; try discriminate; intros H.
  - inversion H; subst. split; [reflexivity | simpl; tauto].
  - split; [exact H | simpl; split; discriminate].
Qed.

Lemma Forall2_nth_error {A B} (R : A -> B -> Prop) l1 l2 : Forall2 R l1 l2 ->
  forall i a b, nth_error l1 i = Some a -> nth_error l2 i = Some b -> R a b.
Proof.
  induction 1 as [|x y l1 l2 Hxy HF IH]; intros [|i] a b H1 H2; simpl in *; try discriminate.
  - inversion H1; inversion H2; now subst.
  - now apply (IH i).
Qed.
Lemma Forall2_of_nth {A B} (R : A -> B -> Prop) l1 : forall l2, length l1 = length l2 ->
  (forall i a b, nth_error l1 i = Some a -> nth_error l2 i = Some b -> R a b) -> Forall2 R l1 l2.
Proof.
  induction l1 as [|x l1 IH]; intros [|y l2] HL H; simpl in HL; try discriminate; constructor.
  - now apply (H 0%nat).
  - apply IH; [now inversion HL|]. intros i a b H1 H2. now apply (H (S i)).
Qed.

(* the pairs looked up by the loop are exactly the compared pairs of the specification *)
Lemma lookup_compared bx by_ : vars_agree (bx ++ by_) -> forall a b,
  (exists key, dget key_eqb key (feats_all bx []) = Some a /\ dget key_eqb key (feats_all by_ []) = Some b)
  <-> compared bx by_ a b.
Proof.
  intros Ha a b. pose proof (vars_agree_app_l _ _ Ha) as Hax. pose proof (vars_agree_app_r _ _ Ha) as Hay. split.
  - intros [[v k] [H1 H2]]. rewrite (feats_all_get _ Hax) in H1. rewrite (feats_all_get _ Hay) in H2.
    destruct (last_binding v bx) as [cx|] eqn:Ex; [|discriminate].
    destruct (last_binding v by_) as [cy|] eqn:Ey; [|discriminate].
    apply entry_get_nth in H1 as [H1 _]. apply entry_get_nth in H2 as [H2 _].
    exists v, cx, cy, (match k with Some i => N.to_nat i | None => 0%nat end). auto.
  - intros (v & cx & cy & i & Ex & Ey & H1 & H2).
    assert (Hs : skeleton cx = skeleton cy).
    { apply cat_xor_skeleton. apply (Ha v); apply in_or_app; [left | right]; now apply last_binding_In. }
    destruct cx as [bx0 fx | lx sx rx], cy as [by0 fy | ly sy ry]; try discriminate Hs.
    + exists (v, None). rewrite (feats_all_get _ Hax), (feats_all_get _ Hay), Ex, Ey. cbn [entry_get].
      destruct i as [|i]; simpl in H1, H2; [auto | destruct i; discriminate].
    + exists (v, Some (N.of_nat i)). rewrite (feats_all_get _ Hax), (feats_all_get _ Hay), Ex, Ey. cbn [entry_get].
      rewrite Nat2N.id. auto.
Qed.
Lemma feats_compatible_compared bx by_ : vars_agree (bx ++ by_) ->
  (feats_compatible bx by_ <-> forall a b, compared bx by_ a b -> compat_ok a b).
Proof.
  intros Ha. split.
  - intros Hc a b (v & cx & cy & i & Ex & Ey & H1 & H2). exact (Forall2_nth_error _ _ _ (Hc v cx cy Ex Ey) i a b H1 H2).
  - intros H v cx cy Ex Ey. apply Forall2_of_nth.
    + apply skeleton_leaf_length. apply cat_xor_skeleton. apply (Ha v); apply in_or_app; [left | right]; now apply last_binding_In.
    + intros i a b H1 H2. apply H. now exists v, cx, cy, i.
Qed.

(* ================= the loop over the shared keys ================= *)
Definition upd (a b : feat) (m : mapping_t) : mapping_t :=
  match unifies a b with
  | Ok_ true => if is_variable a then dset feat_eqb a b m else m
  | _ => if is_variable b then dset feat_eqb b a m else m
  end.
Definition build_map (ps : list (feat * feat)) (m : mapping_t) : mapping_t := fold_left (fun m p => upd (fst p) (snd p) m) ps m.
Lemma floop_cons var rest xf yf m a b : dget key_eqb var xf = Some a -> dget key_eqb var yf = Some b ->
  floop (var :: rest) xf yf m =
  match compat a b with Err e => Err e | Ok_ false => Ok_ None | Ok_ true => floop rest xf yf (upd a b m) end.
Proof.
  intros H1 H2. cbn [floop]. rewrite H1, H2. unfold compat, upd, bind.
  destruct (unifies a b) as [[|]|e]; try reflexivity; destruct (unifies b a) as [[|]|e']; reflexivity.
Qed.
Definition looked_up (xf yf : feats_t) (k : key) (p : feat * feat) : Prop :=
  dget key_eqb k xf = Some (fst p) /\ dget key_eqb k yf = Some (snd p).
Lemma floop_run order xf yf ps : Forall2 (looked_up xf yf) order ps -> forall m,
  floop order xf yf m =
  match run_tests ps with Err e => Err e | Ok_ false => Ok_ None | Ok_ true => Ok_ (Some (build_map ps m)) end.
Proof.
  induction 1 as [|k [a b] order ps [H1 H2] HF IH]; intros m; [reflexivity|].
  cbn [fst snd] in H1, H2. rewrite (floop_cons k order xf yf m a b H1 H2). cbn [run_tests build_map fold_left fst snd].
  destruct (compat a b) as [[|]|e]; try reflexivity. apply IH.
Qed.
Lemma run_tests_true ps : run_tests ps = Ok_ true <-> Forall (fun p => compat_ok (fst p) (snd p)) ps.
Proof.
  induction ps as [|[a b] ps IH]; cbn [run_tests].
  - split; [constructor | reflexivity].
  - unfold compat_ok at 1. split.
    + intros H. destruct (compat a b) as [[|]|e] eqn:E; try discriminate. constructor; [exact E | now apply IH].
    + intros H. inversion H as [|? ? Hab Hps]; subst. cbn [fst snd] in Hab. unfold compat_ok in Hab. rewrite Hab. now apply IH.
Qed.
Lemma run_tests_cases ps :
  (run_tests ps = Ok_ true /\ Forall (fun p => compat_ok (fst p) (snd p)) ps) \/
  (exists pre a b post, ps = pre ++ (a, b) :: post /\ Forall (fun p => compat_ok (fst p) (snd p)) pre /\
                        ((run_tests ps = Ok_ false /\ compat a b = Ok_ false) \/ (exists e, run_tests ps = Err e /\ compat a b = Err e))).
Proof.
  induction ps as [|[a b] ps IH]; cbn [run_tests]; [left; split; [reflexivity | constructor]|].
  destruct (compat a b) as [[|]|e] eqn:E.
  - destruct IH as [[H1 H2] | (pre & a' & b' & post & -> & Hpre & H)].
    + left. split; [exact H1 | constructor; [exact E | exact H2]].
    + right. exists ((a, b) :: pre), a', b', post. split; [reflexivity | split; [constructor; [exact E | exact Hpre] | exact H]].
  - right. exists [], a, b, ps. split; [reflexivity | split; [constructor | left; auto]].
  - right. exists [], a, b, ps. split; [reflexivity | split; [constructor | right; exists e; auto]].
Qed.

(* every entry of the recorded instantiations: a variable feature -> the feature it met on the other side *)
Definition met (ps : list (feat * feat)) (g h : feat) : Prop :=
  exists a b, In (a, b) ps /\ ((g = a /\ h = b) \/ (g = b /\ h = a)).
Lemma upd_get a b m g h : dget feat_eqb g (upd a b m) = Some h ->
  dget feat_eqb g m = Some h \/ (is_variable g = true /\ ((g = a /\ h = b) \/ (g = b /\ h = a))).
Proof.
  unfold upd. intros H.
  assert (Hset : forall a b, is_variable a = true -> dget feat_eqb g (dset feat_eqb a b m) = Some h ->
                             dget feat_eqb g m = Some h \/ (is_variable g = true /\ g = a /\ h = b)).
  { intros a0 b0 Hv Hg. rewrite (dget_dset _ feat_eqb_eq) in Hg. destruct (feat_eqb g a0) eqn:Eg.
    - apply feat_eqb_eq in Eg. inversion Hg; subst. right. auto.
    - now left. }
  destruct (unifies a b) as [[|]|e].
  - destruct (is_variable a) eqn:Ev; [|now left]. destruct (Hset a b Ev H) as [H1|(H1 & H2 & H3)]; [now left | right; auto].
  - destruct (is_variable b) eqn:Ev; [|now left]. destruct (Hset b a Ev H) as [H1|(H1 & H2 & H3)]; [now left | right; auto].
  - destruct (is_variable b) eqn:Ev; [|now left]. destruct (Hset b a Ev H) as [H1|(H1 & H2 & H3)]; [now left | right; auto].
Qed.
Lemma build_map_get ps : forall m g h, dget feat_eqb g (build_map ps m) = Some h ->
  dget feat_eqb g m = Some h \/ (is_variable g = true /\ met ps g h).
Proof.
  induction ps as [|[a b] ps IH]; intros m g h H; [now left|].
  cbn [build_map fold_left fst snd] in H. apply IH in H as [H|[Hv (a' & b' & Hin & H)]].
  - apply upd_get in H as [H|[Hv H]]; [now left|]. right. split; [exact Hv|]. exists a, b. split; [now left | exact H].
  - right. split; [exact Hv|]. exists a', b'. split; [now right | exact H].
Qed.

(* ================= substitution of the recorded instantiations ================= *)
Definition subst_feat (m : mapping_t) (f : feat) : feat := match dget feat_eqb f m with Some g => g | None => f end.
Lemma subst_skeleton m c : skeleton (subst m c) = skeleton c.
Proof.
  induction c as [b f | l IHl s r IHr]; simpl.
  - destruct (dget feat_eqb f m); reflexivity.
  - now rewrite IHl, IHr.
Qed.
Lemma subst_leaf_feats m c : leaf_feats (subst m c) = map (subst_feat m) (leaf_feats c).
Proof.
  induction c as [b f | l IHl s r IHr]; simpl.
  - unfold subst_feat. destruct (dget feat_eqb f m); reflexivity.
  - now rewrite map_app, IHl, IHr.
Qed.
Lemma subst_atoms m c : atoms (subst m c) = map (fun bf => (fst bf, subst_feat m (snd bf))) (atoms c).
Proof.
  induction c as [b f | l IHl s r IHr]; simpl.
  - unfold subst_feat. destruct (dget feat_eqb f m); reflexivity.
  - now rewrite map_app, IHl, IHr.
Qed.
Lemma subst_xor m c : cat_xor (subst m c) c = true.
Proof. apply cat_xor_skeleton. apply subst_skeleton. Qed.
Lemma subst_id m c : (forall f, In f (leaf_feats c) -> subst_feat m f = f) -> subst m c = c.
Proof.
  induction c as [b f | l IHl s r IHr]; cbn [subst leaf_feats]; intros H.
  - specialize (H f (or_introl eq_refl)). unfold subst_feat in H. destruct (dget feat_eqb f m); congruence.
  - rewrite IHl, IHr; [reflexivity | |]; intros f Hf; apply H; apply in_or_app; auto.
Qed.

(* ================= unify ================= *)
Lemma shared_In xf yf k : In k (shared xf yf) <-> dget key_eqb k xf <> None /\ dget key_eqb k yf <> None.
Proof.
  unfold shared. rewrite filter_In. rewrite <- (dhas_In _ key_eqb_eq k xf). unfold dhas.
  destruct (dget key_eqb k xf), (dget key_eqb k yf); split; intros [H1 H2]; split; try congruence; try reflexivity.
Qed.
Lemma lookup_pairs xf yf order : (forall k, In k order -> dget key_eqb k xf <> None /\ dget key_eqb k yf <> None) ->
  exists ps, Forall2 (looked_up xf yf) order ps.
Proof.
  induction order as [|k order IH]; intros H; [exists []; constructor|].
  destruct IH as [ps Hps]; [intros k' Hk'; apply H; now right|].
  destruct (H k (or_introl eq_refl)) as [H1 H2].
  destruct (dget key_eqb k xf) as [a|] eqn:Ea; [|congruence]. destruct (dget key_eqb k yf) as [b|] eqn:Eb; [|congruence].
  exists ((a, b) :: ps). constructor; [split; assumption | exact Hps].
Qed.
Lemma Forall2_In_r {A B} (R : A -> B -> Prop) l1 l2 : Forall2 R l1 l2 -> forall b, In b l2 -> exists a, In a l1 /\ R a b.
Proof.
  induction 1 as [|x y l1 l2 Hxy HF IH]; intros b [].
  - subst. exists x. split; [now left | exact Hxy].
  - destruct (IH b H) as [a [Ha Hr]]. exists a. split; [now right | exact Hr].
Qed.
Lemma Forall2_In_l {A B} (R : A -> B -> Prop) l1 l2 : Forall2 R l1 l2 -> forall a, In a l1 -> exists b, In b l2 /\ R a b.
Proof.
  induction 1 as [|x y l1 l2 Hxy HF IH]; intros a [].
  - subst. exists y. split; [now left | exact Hxy].
  - destruct (IH a H) as [b [Hb Hr]]. exists b. split; [now right | exact Hr].
Qed.

(* unify, with the two scans replaced by their specification *)
Lemma unify_char px py x y :
  unify px py x y =
  match binds px x, binds py y with
  | Some bx, Some by_ =>
      match bind_all (bx ++ by_) [] with
      | Some c2 => let xf := feats_all bx [] in let yf := feats_all by_ [] in
                   do m <- floop (shared xf yf) xf yf [];
                   match m with Some m' => Ok_ (Some {| ucats := c2; umap := m' |}) | None => Ok_ None end
      | None => Ok_ None
      end
  | _, _ => Ok_ None
  end.
Proof.
  unfold unify. pose proof (scan_spec px x [] []) as Hx.
  destruct (scan px x [] []) as [[ok1 c1] xf] eqn:Es.
  destruct (binds px x) as [bx|].
  2: { cbn [fst] in Hx. subst ok1. reflexivity. }
  destruct (bind_all bx []) as [c1'|] eqn:E1.
  - inversion Hx; subst ok1 c1 xf. cbn [negb]. pose proof (scan_spec py y c1' []) as Hy.
    destruct (scan py y c1' []) as [[ok2 c2] yf] eqn:Es2.
    destruct (binds py y) as [by_|].
    + rewrite bind_all_app, E1. destruct (bind_all by_ c1') as [c2'|].
      * inversion Hy; subst ok2 c2 yf. reflexivity.
      * cbn [fst] in Hy. subst ok2. reflexivity.
    + cbn [fst] in Hy. subst ok2. reflexivity.
  - cbn [fst] in Hx. subst ok1. cbn [negb]. destruct (binds py y); [rewrite bind_all_app, E1|]; reflexivity.
Qed.

(* the outcome once shape and agreement hold: run the comparisons; ps lists exactly the compared pairs *)
Lemma unify_outcome px py x y bx by_ : binds px x = Some bx -> binds py y = Some by_ -> vars_agree (bx ++ by_) ->
  exists ps, (forall a b, In (a, b) ps <-> compared bx by_ a b) /\
    unify px py x y =
    match run_tests ps with
    | Err e => Err e
    | Ok_ false => Ok_ None
    | Ok_ true => Ok_ (Some {| ucats := set_all (bx ++ by_) []; umap := build_map ps [] |})
    end.
Proof.
  intros Hbx Hby Ha. rewrite unify_char, Hbx, Hby.
  destruct (proj2 (bind_all_iff (bx ++ by_) []) (conj Ha (agree_with_empty _))) as [c2 Hc2].
  rewrite Hc2. apply bind_all_result in Hc2. subst c2. cbv zeta.
  set (xf := feats_all bx []). set (yf := feats_all by_ []).
  destruct (lookup_pairs xf yf (shared xf yf)) as [ps Hps]; [intros k Hk; now apply shared_In|].
  exists ps. split.
  - intros a b. rewrite <- (lookup_compared bx by_ Ha). fold xf yf. split.
    + intros Hin. destruct (Forall2_In_r _ _ _ Hps (a, b) Hin) as [k [_ [H1 H2]]]. now exists k.
    + intros [k [H1 H2]]. assert (Hk : In k (shared xf yf)) by (apply shared_In; split; congruence).
      destruct (Forall2_In_l _ _ _ Hps k Hk) as [[a' b'] [Hin [H1' H2']]]. cbn [fst snd] in H1', H2'. congruence.
  - rewrite (floop_run _ _ _ _ Hps []). unfold bind. now destruct (run_tests ps) as [[|]|e].
Qed.
Lemma unify_fail_shape_x px py x y : binds px x = None -> unify px py x y = Ok_ None.
Proof. intros H. now rewrite unify_char, H. Qed.
Lemma unify_fail_shape_y px py x y : binds py y = None -> unify px py x y = Ok_ None.
Proof. intros H. rewrite unify_char, H. now destruct (binds px x). Qed.
Lemma unify_fail_agree px py x y bx by_ : binds px x = Some bx -> binds py y = Some by_ -> ~ vars_agree (bx ++ by_) ->
  unify px py x y = Ok_ None.
Proof.
  intros Hbx Hby Hn. rewrite unify_char, Hbx, Hby. destruct (bind_all (bx ++ by_) []) as [c2|] eqn:E; [|reflexivity].
  exfalso. apply Hn. apply (proj1 (bind_all_iff (bx ++ by_) [])). now exists c2.
Qed.
(* agreement is decided by the sequence of tests against the latest binding *)
Lemma vars_agree_dec bs : {vars_agree bs} + {~ vars_agree bs}.
Proof.
  destruct (bind_all bs []) as [c|] eqn:E.
  - left. apply (proj1 (bind_all_iff bs [])). now exists c.
  - right. intros H. destruct (proj2 (bind_all_iff bs []) (conj H (agree_with_empty _))) as [c Hc]. congruence.
Qed.

Lemma matches_inv px py x y : matches px py x y <->
  exists bx by_, binds px x = Some bx /\ binds py y = Some by_ /\ vars_agree (bx ++ by_) /\ feats_compatible bx by_.
Proof.
  unfold matches, shape, bindings, obinds. split.
  - intros (H1 & H2 & H3 & H4). destruct (binds px x) as [bx|]; [|congruence]. destruct (binds py y) as [by_|]; [|congruence].
    exists bx, by_. auto.
  - intros (bx & by_ & -> & -> & H3 & H4). repeat split; try congruence; assumption.
Qed.

(* everything one learns from a successful match *)
Lemma unify_success_inv px py x y st : unify px py x y = Ok_ (Some st) ->
  exists bx by_ ps, binds px x = Some bx /\ binds py y = Some by_ /\ vars_agree (bx ++ by_) /\ feats_compatible bx by_ /\
    (forall a b, In (a, b) ps <-> compared bx by_ a b) /\ Forall (fun p => compat_ok (fst p) (snd p)) ps /\
    ucats st = set_all (bx ++ by_) [] /\ umap st = build_map ps [].
Proof.
  intros H. destruct (binds px x) as [bx|] eqn:Hbx; [|rewrite (unify_fail_shape_x _ _ _ _ Hbx) in H; discriminate].
  destruct (binds py y) as [by_|] eqn:Hby; [|rewrite (unify_fail_shape_y _ _ _ _ Hby) in H; discriminate].
  destruct (vars_agree_dec (bx ++ by_)) as [Ha|Hn]; [|rewrite (unify_fail_agree _ _ _ _ _ _ Hbx Hby Hn) in H; discriminate].
  destruct (unify_outcome _ _ _ _ _ _ Hbx Hby Ha) as [ps [Hps Hu]]. rewrite Hu in H.
  destruct (run_tests ps) as [[|]|e] eqn:Er; try discriminate. inversion H; subst st. cbn [ucats umap].
  apply run_tests_true in Er. exists bx, by_, ps. repeat split; try assumption; try apply Hps.
  apply (feats_compatible_compared _ _ Ha). intros a b Hc. apply Hps in Hc.
  rewrite Forall_forall in Er. exact (Er (a, b) Hc).
Qed.
Lemma unify_success_intro px py x y bx by_ : binds px x = Some bx -> binds py y = Some by_ -> vars_agree (bx ++ by_) ->
  feats_compatible bx by_ -> exists st, unify px py x y = Ok_ (Some st).
Proof.
  intros Hbx Hby Ha Hc. destruct (unify_outcome _ _ _ _ _ _ Hbx Hby Ha) as [ps [Hps Hu]]. rewrite Hu.
  assert (Er : run_tests ps = Ok_ true).
  { apply run_tests_true. apply Forall_forall. intros [a b] Hin. cbn [fst snd].
    apply (proj1 (feats_compatible_compared _ _ Ha) Hc). now apply Hps. }
  rewrite Er. now eexists.
Qed.
Lemma unify_success_iff px py x y : (exists st, unify px py x y = Ok_ (Some st)) <-> matches px py x y.
Proof.
  rewrite matches_inv. split.
  - intros [st H]. destruct (unify_success_inv _ _ _ _ _ H) as (bx & by_ & ps & H1 & H2 & H3 & H4 & _). exists bx, by_. auto.
  - intros (bx & by_ & H1 & H2 & H3 & H4). now apply (unify_success_intro _ _ _ _ bx by_).
Qed.

(* ---------- errors ---------- *)
Lemma unifies_err a b e : unifies a b = Err e -> e = AttrErr /\ is_ter a = true /\ is_ter b = false.
Proof.
  destruct a as [|v|k1 v1 k2 v2 k3 v3]; cbn [unifies]; try discriminate.
  destruct (feat_eqb _ b); [discriminate|]. destruct b; cbn; try (intros H; inversion H; auto).
  destruct (negb _); discriminate.
Qed.
Lemma compat_err a b e : compat a b = Err e -> e = AttrErr /\ is_ter a <> is_ter b.
Proof.
  unfold compat. destruct (unifies a b) as [[|]|e1] eqn:E1; try discriminate.
  - intros H. apply unifies_err in H as (H1 & H2 & H3). split; [exact H1|]. congruence.
  - intros H. inversion H; subst. apply unifies_err in E1 as (H1 & H2 & H3). split; [exact H1|]. congruence.
Qed.
Lemma run_tests_err ps e : run_tests ps = Err e ->
  e = AttrErr /\ exists a b, In (a, b) ps /\ compat a b = Err AttrErr.
Proof.
  induction ps as [|[a b] ps IH]; cbn [run_tests]; [discriminate|].
  destruct (compat a b) as [[|]|e1] eqn:E; try discriminate.
  - intros H. destruct (IH H) as [H1 (a' & b' & Hin & Hc)]. split; [exact H1|]. exists a', b'. split; [now right | exact Hc].
  - intros H. inversion H; subst. destruct (compat_err _ _ _ E) as [-> _]. split; [reflexivity|]. exists a, b. split; [now left | exact E].
Qed.

Lemma binds_leaf_incl p : forall t bs v c, binds p t = Some bs -> In (v, c) bs -> incl (leaf_feats c) (leaf_feats t).
Proof.
  induction p as [b f | pl IHl ps pr IHr]; intros t bs v c; cbn [binds].
  - intros H Hin. inversion H; subst. destruct Hin as [Hin|[]]. inversion Hin; subst. apply incl_refl.
  - destruct t as [tb tf | tl ts tr]; [discriminate|]. destruct (slash_match ps ts); [|discriminate].
    destruct (binds pl tl) as [a1|] eqn:E1; [|discriminate]. destruct (binds pr tr) as [a2|] eqn:E2; [|discriminate].
    intros H Hin. inversion H; subst. cbn [leaf_feats]. apply in_app_or in Hin as [Hin|Hin].
    + apply incl_appl. now apply (IHl tl a1 v c).
    + apply incl_appr. now apply (IHr tr a2 v c).
Qed.
Lemma binds_vars p : forall t bs, binds p t = Some bs -> map fst bs = pattern_vars p.
Proof.
  unfold pattern_vars. induction p as [b f | pl IHl ps pr IHr]; intros t bs; cbn [binds].
  - intros H. inversion H. reflexivity.
  - destruct t as [tb tf | tl ts tr]; [discriminate|]. destruct (slash_match ps ts); [|discriminate].
    destruct (binds pl tl) as [a1|] eqn:E1; [|discriminate]. destruct (binds pr tr) as [a2|] eqn:E2; [|discriminate].
    intros H. inversion H. cbn [atoms]. now rewrite !map_app, (IHl tl a1 E1), (IHr tr a2 E2).
Qed.
Lemma compared_leaves px py x y bx by_ a b : binds px x = Some bx -> binds py y = Some by_ -> compared bx by_ a b ->
  In a (leaf_feats x) /\ In b (leaf_feats y).
Proof.
  intros Hbx Hby (v & cx & cy & i & Ex & Ey & H1 & H2). split.
  - apply (binds_leaf_incl px x bx v cx Hbx (last_binding_In _ _ _ Ex)). now apply nth_error_In in H1.
  - apply (binds_leaf_incl py y by_ v cy Hby (last_binding_In _ _ _ Ey)). now apply nth_error_In in H2.
Qed.

Lemma one_system_same a b x y : one_system x y -> In a (leaf_feats x) -> In b (leaf_feats y) -> is_ter a = is_ter b.
Proof.
  unfold one_system, unary_system, ternary_system. rewrite !Forall_forall.
  intros [[Hx Hy]|[Hx Hy]] Ha Hb; rewrite (Hx a Ha), (Hy b Hb); reflexivity.
Qed.
(* with one feature system no exception arises *)
Lemma unify_no_error px py x y e : one_system x y -> unify px py x y <> Err e.
Proof.
  intros Hs H. destruct (binds px x) as [bx|] eqn:Hbx; [|rewrite (unify_fail_shape_x _ _ _ _ Hbx) in H; discriminate].
  destruct (binds py y) as [by_|] eqn:Hby; [|rewrite (unify_fail_shape_y _ _ _ _ Hby) in H; discriminate].
  destruct (vars_agree_dec (bx ++ by_)) as [Ha|Hn]; [|rewrite (unify_fail_agree _ _ _ _ _ _ Hbx Hby Hn) in H; discriminate].
  destruct (unify_outcome _ _ _ _ _ _ Hbx Hby Ha) as [ps [Hps Hu]]. rewrite Hu in H.
  destruct (run_tests ps) as [[|]|e1] eqn:Er; try discriminate.
  apply run_tests_err in Er as [_ (a & b & Hin & Hc)]. apply compat_err in Hc as [_ Hc]. apply Hc.
  apply Hps in Hin. destruct (compared_leaves _ _ _ _ _ _ _ _ Hbx Hby Hin) as [H1 H2]. now apply (one_system_same a b x y).
Qed.
(* the only exception is AttributeError, and only when a compared pair mixes the feature systems *)
Lemma unify_error_inv px py x y e : unify px py x y = Err e ->
  e = AttrErr /\ exists bx by_ a b, binds px x = Some bx /\ binds py y = Some by_ /\ vars_agree (bx ++ by_) /\
                                   compared bx by_ a b /\ compat a b = Err AttrErr.
Proof.
  intros H. destruct (binds px x) as [bx|] eqn:Hbx; [|rewrite (unify_fail_shape_x _ _ _ _ Hbx) in H; discriminate].
  destruct (binds py y) as [by_|] eqn:Hby; [|rewrite (unify_fail_shape_y _ _ _ _ Hby) in H; discriminate].
  destruct (vars_agree_dec (bx ++ by_)) as [Ha|Hn]; [|rewrite (unify_fail_agree _ _ _ _ _ _ Hbx Hby Hn) in H; discriminate].
  destruct (unify_outcome _ _ _ _ _ _ Hbx Hby Ha) as [ps [Hps Hu]]. rewrite Hu in H.
  destruct (run_tests ps) as [[|]|e1] eqn:Er; try discriminate. inversion H; subst e1.
  apply run_tests_err in Er as [-> (a & b & Hin & Hc)]. split; [reflexivity|].
  exists bx, by_, a, b. repeat split; try assumption. now apply Hps.
Qed.
(* when the success condition does not hold the answer is False - or the AttributeError above *)
Lemma unify_not_matches px py x y : ~ matches px py x y -> unify px py x y = Ok_ None \/ unify px py x y = Err AttrErr.
Proof.
  intros Hn. destruct (unify px py x y) as [[st|]|e] eqn:E.
  - exfalso. apply Hn. apply unify_success_iff. now exists st.
  - now left.
  - right. now destruct (unify_error_inv _ _ _ _ _ E) as [-> _].
Qed.
Lemma unify_fail_iff px py x y : one_system x y -> (unify px py x y = Ok_ None <-> ~ matches px py x y).
Proof.
  intros Hs. split.
  - intros H Hm. apply unify_success_iff in Hm as [st Hst]. congruence.
  - intros Hn. destruct (unify_not_matches _ _ _ _ Hn) as [H|H]; [exact H | exfalso; exact (unify_no_error _ _ _ _ _ Hs H)].
Qed.

(* ================= reading bindings ================= *)
Lemma uget_char st bs v : ucats st = set_all bs [] ->
  uget st v = match last_binding v bs with Some c0 => Ok_ (subst (umap st) c0) | None => Err KeyErr end.
Proof. intros H. unfold uget. rewrite H, set_all_get. now destruct (last_binding v bs). Qed.
Lemma build_map_keys_variable ps g h : dget feat_eqb g (build_map ps []) = Some h -> is_variable g = true /\ met ps g h.
Proof. intros H. apply build_map_get in H as [H|H]; [discriminate | exact H]. Qed.

Lemma binding_shape px py x y st v c : unify px py x y = Ok_ (Some st) -> uget st v = Ok_ c ->
  exists c0, last_binding v (bindings px py x y) = Some c0 /\ binding_of (obinds px x) (obinds py y) c c0.
Proof.
  intros Hu Hg. destruct (unify_success_inv _ _ _ _ _ Hu) as (bx & by_ & ps & Hbx & Hby & Ha & Hc & Hps & Hok & Hcats & Hmap).
  unfold bindings, obinds. rewrite Hbx, Hby. rewrite (uget_char st _ v Hcats) in Hg.
  destruct (last_binding v (bx ++ by_)) as [c0|]; [|discriminate]. inversion Hg; subst c. exists c0. split; [reflexivity|].
  split; [apply subst_skeleton|]. rewrite subst_leaf_feats.
  induction (leaf_feats c0) as [|f0 fs IH]; cbn [map]; constructor; [|exact IH].
  unfold subst_feat. destruct (dget feat_eqb f0 (umap st)) as [g|] eqn:Eg; [|now left]. right.
  rewrite Hmap in Eg. apply build_map_keys_variable in Eg as [Hv (a & b & Hin & H)]. split; [exact Hv|].
  apply Hps in Hin. destruct H as [[-> ->]|[-> ->]]; [now left | now right].
Qed.
Lemma binding_feats_from_inputs px py x y st v c f : unify px py x y = Ok_ (Some st) -> uget st v = Ok_ c ->
  In f (leaf_feats c) -> In f (leaf_feats x ++ leaf_feats y).
Proof.
  intros Hu Hg Hf. destruct (binding_shape _ _ _ _ _ _ _ Hu Hg) as (c0 & Hl & _ & HF).
  destruct (unify_success_inv _ _ _ _ _ Hu) as (bx & by_ & ps & Hbx & Hby & _).
  unfold bindings, obinds in *. rewrite Hbx, Hby in *.
  assert (H0 : incl (leaf_feats c0) (leaf_feats x ++ leaf_feats y)).
  { apply last_binding_In in Hl. apply in_app_or in Hl as [Hl|Hl].
    - apply incl_appl. exact (binds_leaf_incl _ _ _ _ _ Hbx Hl).
    - apply incl_appr. exact (binds_leaf_incl _ _ _ _ _ Hby Hl). }
  revert H0 Hf. induction HF as [|g g0 l l0 Hg0 HF IH]; intros H0 []; subst.
  - destruct Hg0 as [->|[_ [Hc|Hc]]].
    + apply H0. now left.
    + apply in_or_app. right. exact (proj2 (compared_leaves _ _ _ _ _ _ _ _ Hbx Hby Hc)).
    + apply in_or_app. left. exact (proj1 (compared_leaves _ _ _ _ _ _ _ _ Hbx Hby Hc)).
  - apply IH; [|assumption]. intros z Hz. apply H0. now right.
Qed.
Lemma bound_vars_readable px py x y st v : unify px py x y = Ok_ (Some st) -> In v (pattern_vars px ++ pattern_vars py) ->
  exists c, uget st v = Ok_ c.
Proof.
  intros Hu Hv. destruct (unify_success_inv _ _ _ _ _ Hu) as (bx & by_ & ps & Hbx & Hby & _ & _ & _ & _ & Hcats & _).
  rewrite (uget_char st _ v Hcats). destruct (last_binding v (bx ++ by_)) as [c0|] eqn:El; [now eexists|].
  exfalso. apply last_binding_none in El. apply El. now rewrite map_app, (binds_vars _ _ _ Hbx), (binds_vars _ _ _ Hby).
Qed.
Lemma missing_var_keyerror px py x y st v : unify px py x y = Ok_ (Some st) -> ~ In v (pattern_vars px ++ pattern_vars py) ->
  uget st v = Err KeyErr.
Proof.
  intros Hu Hv. destruct (unify_success_inv _ _ _ _ _ Hu) as (bx & by_ & ps & Hbx & Hby & _ & _ & _ & _ & Hcats & _).
  rewrite (uget_char st _ v Hcats). destruct (last_binding v (bx ++ by_)) as [c0|] eqn:El; [|reflexivity].
  exfalso. apply Hv. apply last_binding_In in El. rewrite <- (binds_vars _ _ _ Hbx), <- (binds_vars _ _ _ Hby), <- map_app.
  apply in_map_iff. now exists (v, c0).
Qed.
Lemma binding_ground px py x y st v c0 : unify px py x y = Ok_ (Some st) -> last_binding v (bindings px py x y) = Some c0 ->
  Forall (fun f => is_variable f = false) (leaf_feats c0) -> uget st v = Ok_ c0.
Proof.
  intros Hu Hl Hg. destruct (unify_success_inv _ _ _ _ _ Hu) as (bx & by_ & ps & Hbx & Hby & _ & _ & _ & _ & Hcats & Hmap).
  unfold bindings, obinds in Hl. rewrite Hbx, Hby in Hl. rewrite (uget_char st _ v Hcats), Hl. f_equal.
  apply subst_id. intros f Hf. unfold subst_feat. destruct (dget feat_eqb f (umap st)) as [g|] eqn:Eg; [|reflexivity].
  rewrite Hmap in Eg. apply build_map_keys_variable in Eg as [Hv _]. rewrite Forall_forall in Hg. rewrite (Hg f Hf) in Hv. discriminate.
Qed.
(* identical compared features leave the bound sub-category unchanged (used for "complete on identical parts") *)
Lemma binding_unchanged px py x y st v c0 : unify px py x y = Ok_ (Some st) -> last_binding v (bindings px py x y) = Some c0 ->
  (forall a b, compared (obinds px x) (obinds py y) a b -> a = b) -> uget st v = Ok_ c0.
Proof.
  intros Hu Hl Hsame. destruct (unify_success_inv _ _ _ _ _ Hu) as (bx & by_ & ps & Hbx & Hby & _ & _ & Hps & _ & Hcats & Hmap).
  unfold bindings, obinds in *. rewrite Hbx, Hby in *. rewrite (uget_char st _ v Hcats), Hl. f_equal.
  apply subst_id. intros f Hf. unfold subst_feat. destruct (dget feat_eqb f (umap st)) as [g|] eqn:Eg; [|reflexivity].
  rewrite Hmap in Eg. apply build_map_keys_variable in Eg as [_ (a & b & Hin & H)]. apply Hps in Hin. apply Hsame in Hin.
  destruct H as [[-> ->]|[-> ->]]; congruence.
Qed.

(* ================= the object protocol ================= *)
Lemma no_read_after_failure px py x y o v : ucall (UFresh px py) x y = Ok_ (false, o) -> uread o v = Err AssertErr.
Proof.
  cbn [ucall]. destruct (unify px py x y) as [[st|]|e]; cbn [bind]; intros H; inversion H. reflexivity.
Qed.
Lemma answers_once st x y : ucall (UDone st) x y = Err Twice.
Proof. reflexivity. Qed.
Lemma answers_once_after_call o x y b o' x' y' : ucall o x y = Ok_ (b, o') -> ucall o' x' y' = Err Twice.
Proof.
  destruct o as [px py|st]; cbn [ucall]; [|discriminate].
  destruct (unify px py x y) as [r|e]; cbn [bind]; intros H; inversion H. reflexivity.
Qed.
Lemma no_read_before_call px py v : uread (UFresh px py) v = Err AssertErr.
Proof. reflexivity. Qed.
Lemma read_after_success px py x y o v : ucall (UFresh px py) x y = Ok_ (true, o) ->
  exists st, unify px py x y = Ok_ (Some st) /\ uread o v = uget st v.
Proof.
  cbn [ucall]. destruct (unify px py x y) as [[st|]|e]; cbn [bind]; intros H; inversion H. now exists st.
Qed.

(* ================= further corollaries ================= *)
Lemma unify_fail_shape_agree px py x y :
  ~ (shape px x /\ shape py y /\ vars_agree (bindings px py x y)) -> unify px py x y = Ok_ None.
Proof.
  intros Hn. unfold shape, bindings, obinds in Hn.
  destruct (binds px x) as [bx|] eqn:Hbx; [|now apply unify_fail_shape_x].
  destruct (binds py y) as [by_|] eqn:Hby; [|now apply unify_fail_shape_y].
  apply (unify_fail_agree _ _ _ _ bx by_ Hbx Hby). intros Ha. apply Hn. repeat split; try discriminate; assumption.
Qed.
Lemma binding_xor px py x y st v c : unify px py x y = Ok_ (Some st) -> uget st v = Ok_ c ->
  exists c0, last_binding v (bindings px py x y) = Some c0 /\ cat_xor c c0 = true.
Proof.
  intros Hu Hg. destruct (binding_shape _ _ _ _ _ _ _ Hu Hg) as (c0 & Hl & Hs & _). exists c0. split; [exact Hl | now apply cat_xor_skeleton].
Qed.

(* ---------- the feature tests, in closed form ---------- *)
Definition lenient_b (f : feat) : bool :=
  match f with FNone => true | FUn v => text_eqb v [cX] || text_eqb v s_nb | FTer _ _ _ _ _ _ => false end.
Definition covers_b (a b : feat) : bool :=
  match a, b with
  | FTer k1 v1 k2 v2 k3 v3, FTer l1 w1 l2 w2 l3 w3 =>
      (text_eqb k1 l1 && text_eqb k2 l2 && text_eqb k3 l3) &&
      ((text_eqb v1 w1 || starts_X v1) && (text_eqb v2 w2 || starts_X v2) && (text_eqb v3 w3 || starts_X v3))
  | _, _ => false
  end.
Definition compat_fn (a b : feat) : res bool :=
  match is_ter a, is_ter b with
  | false, false => Ok_ (lenient_b a || feat_eqb a b || (lenient_b b || feat_eqb b a))
  | false, true => if lenient_b a then Ok_ true else Err AttrErr
  | true, false => Err AttrErr
  | true, true => Ok_ (feat_eqb a b || covers_b a b || (feat_eqb b a || covers_b b a))
  end.
Lemma unifies_unary a b : is_ter a = false -> unifies a b = Ok_ (lenient_b a || feat_eqb a b).
Proof. destruct a; cbn [is_ter]; intros H; try discriminate; reflexivity. Qed.
Lemma unifies_ter a b : is_ter a = true -> is_ter b = true -> unifies a b = Ok_ (feat_eqb a b || covers_b a b).
Proof.
  destruct a as [| |k1 v1 k2 v2 k3 v3]; cbn [is_ter]; intros Ha; try discriminate.
  destruct b as [| |l1 w1 l2 w2 l3 w3]; cbn [is_ter]; intros Hb; try discriminate.
  unfold unifies. destruct (feat_eqb _ _); [reflexivity|]. cbn [orb covers_b].
  destruct (text_eqb k1 l1 && text_eqb k2 l2 && text_eqb k3 l3); reflexivity.
Qed.
Lemma feat_eqb_ter_mixed a b : is_ter a <> is_ter b -> feat_eqb a b = false.
Proof. destruct a, b; cbn; intros H; try reflexivity; congruence. Qed.
Lemma compat_char a b : compat a b = compat_fn a b.
Proof.
  unfold compat, compat_fn. destruct (is_ter a) eqn:Ea, (is_ter b) eqn:Eb.
  - rewrite (unifies_ter a b Ea Eb), (unifies_ter b a Eb Ea).
    destruct (feat_eqb a b || covers_b a b); reflexivity.
  - destruct a as [| |k1 v1 k2 v2 k3 v3]; try discriminate. unfold unifies.
    rewrite feat_eqb_ter_mixed by (cbn [is_ter]; congruence). destruct b; try discriminate; reflexivity.
  - rewrite (unifies_unary a b Ea). rewrite (feat_eqb_ter_mixed a b) by congruence. rewrite orb_false_r.
    destruct (lenient_b a); [reflexivity|].
    destruct b as [| |k1 v1 k2 v2 k3 v3]; try discriminate. unfold unifies.
    rewrite feat_eqb_ter_mixed by (cbn [is_ter]; congruence). destruct a; try discriminate; reflexivity.
  - rewrite (unifies_unary a b Ea), (unifies_unary b a Eb). destruct (lenient_b a || feat_eqb a b); reflexivity.
Qed.
Lemma lenient_b_ok f : lenient_b f = true <-> lenient f.
Proof.
  unfold lenient, s_X. destruct f as [|v|]; cbn [lenient_b].
  - split; auto.
  - rewrite orb_true_iff, !text_eqb_eq. split.
    + intros [->| ->]; auto.
    + intros [H|[H|H]]; inversion H; auto.
  - split; [discriminate | intros [H|[H|H]]; discriminate].
Qed.
Lemma covers_b_ok a b : covers_b a b = true <-> covers a b.
Proof.
  destruct a as [| |k1 v1 k2 v2 k3 v3], b as [| |l1 w1 l2 w2 l3 w3]; cbn [covers_b covers]; try (split; [discriminate | tauto]).
  rewrite !andb_true_iff, !orb_true_iff, !text_eqb_eq. tauto.
Qed.
Lemma feat_eqb_sym a b : feat_eqb a b = feat_eqb b a.
Proof.
  destruct (feat_eqb a b) eqn:E.
  - apply feat_eqb_eq in E. subst. symmetry. apply feat_eqb_refl.
  - destruct (feat_eqb b a) eqn:E2; [|reflexivity]. apply feat_eqb_eq in E2. subst. now rewrite feat_eqb_refl in E.
Qed.
Lemma lenient_not_ter f : lenient f -> is_ter f = false.
Proof. intros [->|[->| ->]]; reflexivity. Qed.
Lemma covers_ter a b : covers a b -> is_ter a = true /\ is_ter b = true.
Proof. destruct a, b; cbn; tauto. Qed.
Lemma compat_true_iff a b : compat a b = Ok_ true <-> compatible_decl a b.
Proof.
  rewrite compat_char. unfold compat_fn, compatible_decl.
  destruct (is_ter a) eqn:Ea, (is_ter b) eqn:Eb.
  - split.
    + intros H. inversion H as [H1]. rewrite !orb_true_iff, !feat_eqb_eq, !covers_b_ok in H1.
      destruct H1 as [[H1|H1]|[H1|H1]]; [left; exact H1 | right; right; left; tauto | left; now symmetry | right; right; left; tauto].
    + intros H. f_equal. rewrite !orb_true_iff, !feat_eqb_eq, !covers_b_ok.
      destruct H as [H|[(H & _)|[[H|H]|[H _]]]]; auto; try discriminate. apply lenient_not_ter in H. congruence.
  - split; [discriminate|]. intros [H|[(H & _)|[[H|H]|[H _]]]]; exfalso.
    + subst. congruence.
    + discriminate.
    + apply covers_ter in H. destruct H; congruence.
    + apply covers_ter in H. destruct H; congruence.
    + apply lenient_not_ter in H. congruence.
  - destruct (lenient_b a) eqn:El.
    + apply lenient_b_ok in El. split; [intros _|reflexivity]. right. right. right. auto.
    + split; [discriminate|]. intros [H|[(_ & H & _)|[[H|H]|[H _]]]]; exfalso.
      * subst. congruence.
      * discriminate.
      * apply covers_ter in H. destruct H; congruence.
      * apply covers_ter in H. destruct H; congruence.
      * apply lenient_b_ok in H. congruence.
  - split.
    + intros H. inversion H as [H1]. rewrite !orb_true_iff, !feat_eqb_eq, !lenient_b_ok in H1.
      destruct H1 as [[H1|H1]|[H1|H1]]; [right; left; tauto | left; exact H1 | right; left; tauto | left; now symmetry].
    + intros H. f_equal. rewrite !orb_true_iff, !feat_eqb_eq, !lenient_b_ok.
      destruct H as [H|[(_ & _ & [H|H])|[[H|H]|[_ H]]]]; auto; try discriminate.
      * apply covers_ter in H. destruct H; congruence.
      * apply covers_ter in H. destruct H; congruence.
Qed.
Lemma compat_err_iff a b e : compat a b = Err e <-> e = AttrErr /\ compat_raises a b.
Proof.
  rewrite compat_char. unfold compat_fn, compat_raises.
  destruct (is_ter a) eqn:Ea, (is_ter b) eqn:Eb.
  - split; [discriminate|]. intros [_ [[_ H]|[H _]]]; discriminate.
  - split; [intros H; inversion H; auto | intros [-> _]; reflexivity].
  - destruct (lenient_b a) eqn:El.
    + split; [discriminate|]. intros [_ [[H _]|(_ & H & _)]]; [discriminate|]. exfalso. apply H. now apply lenient_b_ok.
    + split; [intros H; inversion H; split; [reflexivity|]; right; repeat split; auto; intros Hl; apply lenient_b_ok in Hl; congruence
             | intros [-> _]; reflexivity].
  - split; [discriminate|]. intros [_ [[H _]|(_ & _ & H)]]; discriminate.
Qed.
Lemma compat_refl a : compat a a = Ok_ true.
Proof. apply compat_true_iff. now left. Qed.

(* ---------- boolean deciders of the specification ---------- *)
Lemma vars_agreeb_ok bs : vars_agreeb bs = true <-> vars_agree bs.
Proof.
  unfold vars_agreeb, vars_agree. rewrite forallb_forall. split.
  - intros H v c1 c2 H1 H2. specialize (H (v, c1) H1). rewrite forallb_forall in H. specialize (H (v, c2) H2).
    cbn [fst snd] in H. rewrite text_eqb_refl in H. exact H.
  - intros H [v c1] H1. apply forallb_forall. intros [w c2] H2. cbn [fst snd].
    destruct (text_eqb v w) eqn:E; [|reflexivity]. apply text_eqb_eq in E. subst w. cbn [negb orb]. now apply (H v).
Qed.
Lemma forall2b_ok {A B} (f : A -> B -> bool) (R : A -> B -> Prop) : (forall a b, f a b = true <-> R a b) ->
  forall l1 l2, forall2b f l1 l2 = true <-> Forall2 R l1 l2.
Proof.
  intros Hf. induction l1 as [|a l1 IH]; intros [|b l2]; cbn [forall2b].
  - split; [constructor | reflexivity].
  - split; [discriminate | intros H; inversion H].
  - split; [discriminate | intros H; inversion H].
  - rewrite andb_true_iff, Hf, IH. split; [intros [H1 H2]; now constructor | intros H; inversion H; auto].
Qed.
Lemma compat_okb_ok a b : compat_okb a b = true <-> compat_ok a b.
Proof. unfold compat_okb, compat_ok. destruct (compat a b) as [[|]|e]; split; congruence. Qed.
Lemma feats_compatibleb_ok bx by_ : feats_compatibleb bx by_ = true <-> feats_compatible bx by_.
Proof.
  unfold feats_compatibleb, feats_compatible. rewrite forallb_forall. split.
  - intros H v cx cy Ex Ey. assert (Hin : In v (map fst bx)).
    { apply last_binding_In in Ex. apply in_map_iff. now exists (v, cx). }
    specialize (H v Hin). rewrite Ex, Ey in H. now apply (forall2b_ok compat_okb compat_ok compat_okb_ok).
  - intros H v _. destruct (last_binding v bx) as [cx|] eqn:Ex; [|reflexivity].
    destruct (last_binding v by_) as [cy|] eqn:Ey; [|reflexivity].
    apply (forall2b_ok compat_okb compat_ok compat_okb_ok). now apply (H v).
Qed.
Lemma matchesb_ok px py x y : matchesb px py x y = true <-> matches px py x y.
Proof.
  rewrite matches_inv. unfold matchesb. destruct (binds px x) as [bx|]; [destruct (binds py y) as [by_|]|].
  - rewrite andb_true_iff, vars_agreeb_ok, feats_compatibleb_ok. split.
    + intros [H1 H2]. exists bx, by_. auto.
    + intros (bx' & by' & H1 & H2 & H3 & H4). inversion H1; inversion H2; subst. auto.
  - split; [discriminate | intros (bx' & by' & _ & H & _); discriminate].
  - split; [discriminate | intros (bx' & by' & H & _); discriminate].
Qed.
(* the model's answer is decided by the specification *)
Lemma unify_success_b px py x y : (exists st, unify px py x y = Ok_ (Some st)) <-> matchesb px py x y = true.
Proof. now rewrite matchesb_ok, unify_success_iff. Qed.

(* ================= patterns without a repeated variable ================= *)
Lemma nodupb_ok (l : list text) : nodupb l = true <-> NoDup l.
Proof.
  induction l as [|v l IH]; cbn [nodupb]; [split; [constructor | reflexivity]|].
  rewrite andb_true_iff, negb_true_iff, IH. split.
  - intros [H1 H2]. constructor; [|exact H2]. intros Hin. apply text_in_In in Hin. congruence.
  - intros H. inversion H as [|? ? H1 H2]; subst. split; [|exact H2].
    destruct (text_in v l) eqn:E; [apply text_in_In in E; contradiction | reflexivity].
Qed.
Lemma linear_binds_nodup p t bs : linear_pattern p = true -> binds p t = Some bs -> NoDup (map fst bs).
Proof. intros Hl Hb. rewrite (binds_vars _ _ _ Hb). now apply nodupb_ok. Qed.
Lemma nodup_last_binding bs v c : NoDup (map fst bs) -> (last_binding v bs = Some c <-> In (v, c) bs).
Proof.
  intros Hn. split; [apply last_binding_In|].
  induction bs as [|[w d] bs IH]; intros Hin; [destruct Hin|].
  cbn [map fst] in Hn. inversion Hn as [|? ? H1 H2]; subst. cbn [last_binding]. destruct Hin as [Hin|Hin].
  - inversion Hin; subst. apply last_binding_none in H1. now rewrite H1, text_eqb_refl.
  - now rewrite (IH H2 Hin).
Qed.
Lemma nodup_binding_unique (bs : list (text * cat)) v c1 c2 : NoDup (map fst bs) -> In (v, c1) bs -> In (v, c2) bs -> c1 = c2.
Proof. intros Hn H1 H2. apply (nodup_last_binding bs v _ Hn) in H1. apply (nodup_last_binding bs v _ Hn) in H2. congruence. Qed.
Lemma linear_last_binding p t bs v c : linear_pattern p = true -> binds p t = Some bs ->
  (last_binding v bs = Some c <-> In (v, c) bs).
Proof. intros Hl Hb. apply nodup_last_binding. now apply (linear_binds_nodup p t). Qed.
Lemma linear_vars_agree px py x y bx by_ : linear_pattern px = true -> linear_pattern py = true ->
  binds px x = Some bx -> binds py y = Some by_ ->
  (vars_agree (bx ++ by_) <-> forall v cx cy, In (v, cx) bx -> In (v, cy) by_ -> cat_xor cx cy = true).
Proof.
  intros Hlx Hly Hbx Hby. pose proof (linear_binds_nodup _ _ _ Hlx Hbx) as Hnx. pose proof (linear_binds_nodup _ _ _ Hly Hby) as Hny.
  split.
  - intros Ha v cx cy H1 H2. apply (Ha v); apply in_or_app; auto.
  - intros H v c1 c2 H1 H2. apply in_app_or in H1. apply in_app_or in H2. destruct H1 as [H1|H1], H2 as [H2|H2].
    + rewrite (nodup_binding_unique bx v c1 c2 Hnx H1 H2). apply cat_xor_refl.
    + now apply (H v).
    + apply cat_xor_sym. now apply (H v).
    + rewrite (nodup_binding_unique by_ v c1 c2 Hny H1 H2). apply cat_xor_refl.
Qed.

(* ================= the ORDER of the tests: x_features keys in insertion order ================= *)
Notation knew := (new_keys key_eqb).
Definition keys_of (vc : text * cat) : list key := map fst (entries vc).

Lemma new_keys_app A : forall seen B, knew seen (A ++ B) = knew seen A ++ knew (seen ++ knew seen A) B.
Proof.
  induction A as [|k A IH]; intros seen B; cbn [app new_keys].
  - now rewrite app_nil_r.
  - destruct (existsb (key_eqb k) seen); [apply IH|].
    cbn [app]. rewrite IH. now rewrite <- !app_assoc.
Qed.
Lemma new_keys_all_seen seen l : (forall k, In k l -> In k seen) -> knew seen l = [].
Proof.
  induction l as [|k l IH]; intros H; cbn [new_keys]; [reflexivity|].
  assert (Hk : existsb (key_eqb k) seen = true) by (apply (existsb_keqb _ key_eqb_eq); apply H; now left).
  rewrite Hk. apply IH. intros k' Hk'. apply H. now right.
Qed.
Lemma new_keys_fresh l : forall seen, NoDup l -> (forall k, In k l -> ~ In k seen) -> knew seen l = l.
Proof.
  induction l as [|k l IH]; intros seen Hn H; cbn [new_keys]; [reflexivity|].
  inversion Hn as [|? ? Hk Hn']; subst.
  assert (Hs : existsb (key_eqb k) seen = false).
  { destruct (existsb (key_eqb k) seen) eqn:E; [|reflexivity]. apply (existsb_keqb _ key_eqb_eq) in E. exfalso. apply (H k); [now left | exact E]. }
  rewrite Hs. f_equal. apply IH; [exact Hn'|]. intros k' Hk' Hin. apply in_app_or in Hin as [Hin|[Hin|[]]].
  - apply (H k'); [now right | exact Hin].
  - subst. contradiction.
Qed.

Lemma keys_of_In v c w k : In (w, k) (keys_of (v, c)) <-> w = v /\ entry_get c k <> None.
Proof.
  unfold keys_of. pose proof (alast_none key_eqb key_eqb_eq (w, k) (entries (v, c))) as H.
  pose proof (entries_get v c w k) as Hg.
  destruct (text_eqb w v) eqn:E.
  - apply text_eqb_eq in E. subst w. split.
    + intros Hin. split; [reflexivity|]. intros Hn. rewrite Hg in H. now apply H in Hn.
    + intros [_ Hn]. destruct (kalast (v, k) (entries (v, c))) as [f|] eqn:Ea; [|congruence].
      apply (alast_In key_eqb key_eqb_eq) in Ea. apply in_map_iff. now exists ((v, k), f).
  - split.
    + intros Hin. exfalso. rewrite Hg in H. apply (proj1 H eq_refl). exact Hin.
    + intros [-> _]. now rewrite text_eqb_refl in E.
Qed.
Lemma idx_keys_nth v fs : forall idx i,
  nth_error (map fst (idx_entries v idx fs)) i = if Nat.ltb i (length fs) then Some (v, Some (idx + N.of_nat i)) else None.
Proof.
  induction fs as [|f fs IH]; intros idx i; cbn [idx_entries map length].
  - now destruct i.
  - destruct i as [|i]; cbn [nth_error].
    + cbn. now rewrite N.add_0_r.
    + rewrite IH. change (Nat.ltb (S i) (S (length fs))) with (Nat.ltb i (length fs)).
      destruct (Nat.ltb i (length fs)); [|reflexivity]. replace (idx + N.of_nat (S i)) with (idx + 1 + N.of_nat i) by lia. reflexivity.
Qed.
Lemma idx_keys_length v fs idx : length (map fst (idx_entries v idx fs)) = length fs.
Proof. revert idx. induction fs as [|f fs IH]; intros idx; cbn; [reflexivity | now rewrite IH]. Qed.
Lemma idx_keys_by_length v fs fs' idx : length fs = length fs' -> map fst (idx_entries v idx fs) = map fst (idx_entries v idx fs').
Proof.
  revert fs' idx. induction fs as [|f fs IH]; intros [|f' fs'] idx H; try discriminate; [reflexivity|].
  cbn [idx_entries map fst]. f_equal. apply IH. now inversion H.
Qed.
Lemma idx_keys_ge v fs : forall idx w i, In (w, Some i) (map fst (idx_entries v idx fs)) -> idx <= i.
Proof.
  induction fs as [|f fs IH]; intros idx w i; cbn [idx_entries map fst]; [intros []|].
  intros [H|H]; [inversion H; lia | apply IH in H; lia].
Qed.
Lemma idx_keys_nodup v fs : forall idx, NoDup (map fst (idx_entries v idx fs)).
Proof.
  induction fs as [|f fs IH]; intros idx; cbn [idx_entries map fst]; constructor; [|apply IH].
  intros H. apply idx_keys_ge in H. lia.
Qed.
Lemma keys_of_nodup vc : NoDup (keys_of vc).
Proof.
  destruct vc as [v [b f | l s r]]; unfold keys_of, entries; cbn [snd fst].
  - cbn. constructor; [intros [] | constructor].
  - apply idx_keys_nodup.
Qed.
Lemma keys_of_skeleton v c c' : skeleton c = skeleton c' -> keys_of (v, c) = keys_of (v, c').
Proof.
  intros H. pose proof (skeleton_leaf_length _ _ H) as HL.
  destruct c as [b f | l s r], c' as [b' f' | l' s' r']; try discriminate H; unfold keys_of, entries; cbn [snd fst].
  - reflexivity.
  - now apply idx_keys_by_length.
Qed.
Lemma keys_of_fst vc k : In k (keys_of vc) -> fst k = fst vc.
Proof. destruct vc as [v c], k as [w kk]. intros H. apply keys_of_In in H. now destruct H. Qed.

Lemma map_flat_map {A B C} (f : B -> C) (g : A -> list B) l : map f (flat_map g l) = flat_map (fun x => map f (g x)) l.
Proof. induction l as [|x l IH]; cbn; [reflexivity | now rewrite map_app, IH]. Qed.
Lemma filter_flat_map {A B} (p : B -> bool) (g : A -> list B) l : filter p (flat_map g l) = flat_map (fun x => filter p (g x)) l.
Proof. induction l as [|x l IH]; cbn; [reflexivity | now rewrite filter_app, IH]. Qed.
Lemma flat_map_ext_In {A B} (f g : A -> list B) l : (forall x, In x l -> f x = g x) -> flat_map f l = flat_map g l.
Proof.
  induction l as [|x l IH]; intros H; cbn; [reflexivity|].
  rewrite (H x (or_introl eq_refl)), IH; [reflexivity|]. intros y Hy. apply H. now right.
Qed.
Lemma filter_all_true {A} (p : A -> bool) l : (forall x, In x l -> p x = true) -> filter p l = l.
Proof.
  induction l as [|x l IH]; intros H; cbn; [reflexivity|].
  rewrite (H x (or_introl eq_refl)), IH; [reflexivity|]. intros y Hy. apply H. now right.
Qed.
Lemma filter_all_false {A} (p : A -> bool) l : (forall x, In x l -> p x = false) -> filter p l = [].
Proof.
  induction l as [|x l IH]; intros H; cbn; [reflexivity|].
  rewrite (H x (or_introl eq_refl)), IH; [reflexivity|]. intros y Hy. apply H. now right.
Qed.
Lemma Forall2_flat_map {A B C} (R : B -> C -> Prop) (G : A -> list B) (H : A -> list C) l :
  (forall x, In x l -> Forall2 R (G x) (H x)) -> Forall2 R (flat_map G l) (flat_map H l).
Proof.
  induction l as [|x l IH]; intros Hx; cbn; [constructor|].
  apply Forall2_app; [apply Hx; now left | apply IH; intros y Hy; apply Hx; now right].
Qed.

(* keys in insertion order = per distinct variable (first occurrence), the keys of its binding *)
Lemma new_keys_flat (g : text -> list key) bs :
  (forall v c, In (v, c) bs -> keys_of (v, c) = g v) ->
  forall seen seenV,
  (forall v, In v (map fst bs) -> (In v seenV -> forall k, In k (g v) -> In k seen) /\ (~ In v seenV -> forall k, In k seen -> fst k <> v)) ->
  knew seen (flat_map keys_of bs) = flat_map g (first_occ seenV (map fst bs)).
Proof.
  induction bs as [|[v c] bs IH]; intros Hg seen seenV Hs; [reflexivity|].
  cbn [flat_map map fst first_occ]. rewrite new_keys_app.
  assert (Hgv : keys_of (v, c) = g v) by (apply Hg; now left).
  assert (Hg' : forall w d, In (w, d) bs -> keys_of (w, d) = g w) by (intros w d Hin; apply Hg; now right).
  destruct (Hs v (or_introl eq_refl)) as [Hs1 Hs2].
  destruct (text_in v seenV) eqn:Ev.
  - apply text_in_In in Ev. rewrite (new_keys_all_seen seen (keys_of (v, c))).
    + rewrite app_nil_r. cbn [app]. apply IH; [exact Hg'|]. intros w Hw. apply Hs. now right.
    + rewrite Hgv. now apply Hs1.
  - assert (Hnv : ~ In v seenV) by (intros Hin; apply text_in_In in Hin; congruence).
    rewrite (new_keys_fresh (keys_of (v, c)) seen (keys_of_nodup _)).
    + cbn [flat_map]. rewrite <- Hgv. f_equal. rewrite Hgv. apply IH; [exact Hg'|].
      intros w Hw. destruct (Hs w (or_intror Hw)) as [Hw1 Hw2]. split.
      * intros [->|Hin] k Hk; apply in_or_app; [now right | left; now apply Hw1].
      * intros Hn k Hk. apply in_app_or in Hk as [Hk|Hk].
        -- apply Hw2; [|exact Hk]. intros Hin. apply Hn. now right.
        -- rewrite <- Hgv in Hk. apply keys_of_fst in Hk. cbn [fst] in Hk. rewrite Hk. intros ->. apply Hn. now left.
    + intros k Hk Hin. apply keys_of_fst in Hk. cbn [fst] in Hk. exact (Hs2 Hnv k Hin Hk).
Qed.

Definition bound_keys (bs : list (text * cat)) (v : text) : list key :=
  match last_binding v bs with Some c => keys_of (v, c) | None => [] end.
Lemma bound_keys_ok bs : vars_agree bs -> forall v c, In (v, c) bs -> keys_of (v, c) = bound_keys bs v.
Proof.
  intros Ha v c Hin. unfold bound_keys. destruct (last_binding v bs) as [c'|] eqn:El.
  - apply keys_of_skeleton. apply cat_xor_skeleton. apply (Ha v); [exact Hin | now apply last_binding_In].
  - exfalso. apply last_binding_none in El. apply El. apply in_map_iff. now exists (v, c).
Qed.
Lemma feats_all_keys bs : vars_agree bs -> map fst (feats_all bs []) = flat_map (bound_keys bs) (first_occ [] (map fst bs)).
Proof.
  intros Ha. unfold feats_all. rewrite (set_list_keys key_eqb key_eqb_eq (flat_map entries bs) []). cbn [map app].
  rewrite map_flat_map. change (flat_map (fun x => map fst (entries x)) bs) with (flat_map keys_of bs).
  apply new_keys_flat; [now apply bound_keys_ok|]. intros v _. split; [intros [] | intros _ k []].
Qed.

Lemma nth_error_combine {A B} (l1 : list A) : forall (l2 : list B) i a b, nth_error (combine l1 l2) i = Some (a, b) ->
  nth_error l1 i = Some a /\ nth_error l2 i = Some b.
Proof.
  induction l1 as [|x l1 IH]; intros [|y l2] i a b; cbn [combine]; try (destruct i; discriminate).
  destruct i as [|i]; cbn [nth_error].
  - intros H. inversion H. auto.
  - apply IH.
Qed.
(* the keys of a binding, paired with the leaf features of two bindings of the same skeleton *)
Lemma keys_combine v cx cy : skeleton cx = skeleton cy ->
  Forall2 (fun k p => fst k = v /\ entry_get cx (snd k) = Some (fst p) /\ entry_get cy (snd k) = Some (snd p))
          (keys_of (v, cx)) (combine (leaf_feats cx) (leaf_feats cy)).
Proof.
  intros H. pose proof (skeleton_leaf_length _ _ H) as HL.
  destruct cx as [b f | l s r], cy as [b' f' | l' s' r']; try discriminate H; unfold keys_of, entries; cbn [snd fst].
  - cbn. constructor; [auto | constructor].
  - apply Forall2_of_nth.
    + rewrite idx_keys_length, combine_length, <- HL. lia.
    + intros i k [a b] Hk Hp. rewrite idx_keys_nth in Hk. destruct (Nat.ltb i _); [|discriminate]. inversion Hk; subst k.
      apply nth_error_combine in Hp as [H1 H2]. cbn [fst snd entry_get]. rewrite ?N.add_0_l, Nat2N.id. auto.
Qed.

Lemma Forall2_weaken {A B} (R S : A -> B -> Prop) l1 l2 : (forall a b, R a b -> S a b) -> Forall2 R l1 l2 -> Forall2 S l1 l2.
Proof. intros H. induction 1; constructor; auto. Qed.
(* the loop looks up exactly `comparisons`, in that order *)
Lemma shared_comparisons bx by_ : vars_agree (bx ++ by_) ->
  Forall2 (looked_up (feats_all bx []) (feats_all by_ [])) (shared (feats_all bx []) (feats_all by_ [])) (comparisons bx by_).
Proof.
  intros Ha. pose proof (vars_agree_app_l _ _ Ha) as Hax. pose proof (vars_agree_app_r _ _ Ha) as Hay.
  unfold shared, comparisons. rewrite (feats_all_keys bx Hax), filter_flat_map.
  apply Forall2_flat_map. intros v _. unfold bound_keys.
  destruct (last_binding v bx) as [cx|] eqn:Ex; [|constructor].
  destruct (last_binding v by_) as [cy|] eqn:Ey.
  - assert (Hs : skeleton cx = skeleton cy).
    { apply cat_xor_skeleton. apply (Ha v); apply in_or_app; [left | right]; now apply last_binding_In. }
    rewrite filter_all_true.
    + eapply Forall2_weaken; [|apply (keys_combine v cx cy Hs)].
      intros [w k] [a b] (Hw & H1 & H2). cbn [fst snd] in *. subst w. unfold looked_up. cbn [fst snd].
      rewrite (feats_all_get bx Hax), (feats_all_get by_ Hay), Ex, Ey. auto.
    + intros [w k] Hk. apply keys_of_In in Hk as [-> Hk]. unfold dhas. rewrite (feats_all_get by_ Hay), Ey.
      destruct (entry_get cy k) eqn:Eg; [reflexivity|]. exfalso. apply Hk. now apply (entry_get_skeleton cx cy k Hs).
  - rewrite filter_all_false; [constructor|].
    intros [w k] Hk. apply keys_of_In in Hk as [-> Hk]. unfold dhas. now rewrite (feats_all_get by_ Hay), Ey.
Qed.

(* the exact outcome of a match whose shape and agreement conditions hold *)
Lemma unify_outcome_ordered px py x y bx by_ : binds px x = Some bx -> binds py y = Some by_ -> vars_agree (bx ++ by_) ->
  unify px py x y =
  match run_tests (comparisons bx by_) with
  | Err e => Err e
  | Ok_ false => Ok_ None
  | Ok_ true => Ok_ (Some {| ucats := set_all (bx ++ by_) []; umap := build_map (comparisons bx by_) [] |})
  end.
Proof.
  intros Hbx Hby Ha. rewrite unify_char, Hbx, Hby.
  destruct (proj2 (bind_all_iff (bx ++ by_) []) (conj Ha (agree_with_empty _))) as [c2 Hc2].
  rewrite Hc2. apply bind_all_result in Hc2. subst c2. cbv zeta.
  rewrite (floop_run _ _ _ _ (shared_comparisons bx by_ Ha) []). unfold bind. now destruct (run_tests (comparisons bx by_)) as [[|]|e].
Qed.

(* ---------- exact error / failure conditions ---------- *)
Definition all_ok (ps : list (feat * feat)) : Prop := Forall (fun p => compat_ok (fst p) (snd p)) ps.
Lemma unify_error_iff px py x y e : unify px py x y = Err e <->
  e = AttrErr /\ exists bx by_ pre a b post, binds px x = Some bx /\ binds py y = Some by_ /\ vars_agree (bx ++ by_) /\
     comparisons bx by_ = pre ++ (a, b) :: post /\ all_ok pre /\ compat a b = Err AttrErr.
Proof.
  split.
  - intros H. destruct (binds px x) as [bx|] eqn:Hbx; [|rewrite (unify_fail_shape_x _ _ _ _ Hbx) in H; discriminate].
    destruct (binds py y) as [by_|] eqn:Hby; [|rewrite (unify_fail_shape_y _ _ _ _ Hby) in H; discriminate].
    destruct (vars_agree_dec (bx ++ by_)) as [Ha|Hn]; [|rewrite (unify_fail_agree _ _ _ _ _ _ Hbx Hby Hn) in H; discriminate].
    rewrite (unify_outcome_ordered _ _ _ _ _ _ Hbx Hby Ha) in H.
    destruct (run_tests_cases (comparisons bx by_)) as [[Hr _]|(pre & a & b & post & Hc & Hpre & [[Hr _]|[e1 [Hr Hab]]])];
      rewrite Hr in H; try discriminate.
    inversion H; subst e1. destruct (compat_err _ _ _ Hab) as [-> _]. split; [reflexivity|].
    exists bx, by_, pre, a, b, post. repeat split; assumption.
  - intros [-> (bx & by_ & pre & a & b & post & Hbx & Hby & Ha & Hc & Hpre & Hab)].
    rewrite (unify_outcome_ordered _ _ _ _ _ _ Hbx Hby Ha), Hc.
    assert (Hr : run_tests (pre ++ (a, b) :: post) = Err AttrErr).
    { clear Hc. induction pre as [|[a' b'] pre IH]; cbn [app run_tests]; [now rewrite Hab|].
      inversion Hpre as [|? ? H1 H2]; subst. cbn [fst snd] in H1. unfold compat_ok in H1. rewrite H1. now apply IH. }
    now rewrite Hr.
Qed.
Lemma unify_false_iff px py x y : unify px py x y = Ok_ None <->
  ~ (shape px x /\ shape py y /\ vars_agree (bindings px py x y)) \/
  exists bx by_ pre a b post, binds px x = Some bx /\ binds py y = Some by_ /\ vars_agree (bx ++ by_) /\
     comparisons bx by_ = pre ++ (a, b) :: post /\ all_ok pre /\ compat a b = Ok_ false.
Proof.
  split.
  - intros H. destruct (binds px x) as [bx|] eqn:Hbx.
    2: { left. unfold shape. rewrite Hbx. intros [Hs _]. now apply Hs. }
    destruct (binds py y) as [by_|] eqn:Hby.
    2: { left. unfold shape. rewrite Hby. intros (_ & Hs & _). now apply Hs. }
    destruct (vars_agree_dec (bx ++ by_)) as [Ha|Hn].
    2: { left. unfold bindings, obinds. rewrite Hbx, Hby. tauto. }
    right. rewrite (unify_outcome_ordered _ _ _ _ _ _ Hbx Hby Ha) in H.
    destruct (run_tests_cases (comparisons bx by_)) as [[Hr _]|(pre & a & b & post & Hc & Hpre & [[Hr Hab]|[e1 [Hr _]]])];
      rewrite Hr in H; try discriminate.
    exists bx, by_, pre, a, b, post. repeat split; assumption.
  - intros [Hn|(bx & by_ & pre & a & b & post & Hbx & Hby & Ha & Hc & Hpre & Hab)]; [now apply unify_fail_shape_agree|].
    rewrite (unify_outcome_ordered _ _ _ _ _ _ Hbx Hby Ha), Hc.
    assert (Hr : run_tests (pre ++ (a, b) :: post) = Ok_ false).
    { clear Hc. induction pre as [|[a' b'] pre IH]; cbn [app run_tests]; [now rewrite Hab|].
      inversion Hpre as [|? ? H1 H2]; subst. cbn [fst snd] in H1. unfold compat_ok in H1. rewrite H1. now apply IH. }
    now rewrite Hr.
Qed.

(* ---------- the exact binding ---------- *)
Lemma upd_get_exact a b m g :
  dget feat_eqb g (upd a b m) = match inst_step g (a, b) with Some h => Some h | None => dget feat_eqb g m end.
Proof.
  unfold upd, inst_step. cbn [fst snd].
  destruct (unifies a b) as [[|]|e].
  - destruct (is_variable a); cbn [andb]; [|reflexivity]. rewrite (dget_dset _ feat_eqb_eq). now destruct (feat_eqb g a).
  - destruct (is_variable b); cbn [andb]; [|reflexivity]. rewrite (dget_dset _ feat_eqb_eq). now destruct (feat_eqb g b).
  - destruct (is_variable b); cbn [andb]; [|reflexivity]. rewrite (dget_dset _ feat_eqb_eq). now destruct (feat_eqb g b).
Qed.
Lemma build_map_instantiation ps : forall m g,
  dget feat_eqb g (build_map ps m) = match instantiation g ps with Some h => Some h | None => dget feat_eqb g m end.
Proof.
  induction ps as [|[a b] ps IH]; intros m g; [reflexivity|].
  cbn [build_map fold_left fst snd instantiation]. change (fold_left _ ps (upd a b m)) with (build_map ps (upd a b m)).
  rewrite IH. destruct (instantiation g ps); [reflexivity|]. apply upd_get_exact.
Qed.
Lemma subst_feat_instantiate ps f : subst_feat (build_map ps []) f = instantiate_feat ps f.
Proof. unfold subst_feat, instantiate_feat. rewrite build_map_instantiation. now destruct (instantiation f ps). Qed.
Lemma binding_exact px py x y st v c : unify px py x y = Ok_ (Some st) -> uget st v = Ok_ c ->
  exists c0, last_binding v (bindings px py x y) = Some c0 /\ skeleton c = skeleton c0 /\
             leaf_feats c = map (instantiate_feat (comparisons (obinds px x) (obinds py y))) (leaf_feats c0).
Proof.
  intros Hu Hg. destruct (binds px x) as [bx|] eqn:Hbx; [|rewrite (unify_fail_shape_x _ _ _ _ Hbx) in Hu; discriminate].
  destruct (binds py y) as [by_|] eqn:Hby; [|rewrite (unify_fail_shape_y _ _ _ _ Hby) in Hu; discriminate].
  destruct (vars_agree_dec (bx ++ by_)) as [Ha|Hn]; [|rewrite (unify_fail_agree _ _ _ _ _ _ Hbx Hby Hn) in Hu; discriminate].
  rewrite (unify_outcome_ordered _ _ _ _ _ _ Hbx Hby Ha) in Hu.
  destruct (run_tests (comparisons bx by_)) as [[|]|e]; try discriminate. inversion Hu; subst st.
  unfold bindings, obinds. rewrite Hbx, Hby. rewrite (uget_char {| ucats := set_all (bx ++ by_) []; umap := build_map (comparisons bx by_) [] |} (bx ++ by_) v eq_refl) in Hg. cbn [umap] in Hg.
  destruct (last_binding v (bx ++ by_)) as [c0|]; [|discriminate]. inversion Hg; subst c. exists c0.
  split; [reflexivity|]. split; [apply subst_skeleton|]. rewrite subst_leaf_feats.
  apply map_ext. intros f. apply subst_feat_instantiate.
Qed.

(* ---------- linear patterns: keys and shared variables ---------- *)
Lemma first_occ_nodup l : forall seen, NoDup l -> (forall v, In v l -> ~ In v seen) -> first_occ seen l = l.
Proof.
  induction l as [|v l IH]; intros seen Hn H; cbn [first_occ]; [reflexivity|].
  inversion Hn as [|? ? Hv Hn']; subst.
  assert (Hs : text_in v seen = false).
  { destruct (text_in v seen) eqn:E; [|reflexivity]. apply text_in_In in E. exfalso. apply (H v); [now left | exact E]. }
  rewrite Hs. f_equal. apply IH; [exact Hn'|]. intros w Hw [->|Hin]; [contradiction | apply (H w); [now right | exact Hin]].
Qed.
Lemma flat_map_map {A B C} (f : A -> B) (g : B -> list C) l : flat_map g (map f l) = flat_map (fun x => g (f x)) l.
Proof. induction l as [|x l IH]; cbn; [reflexivity | now rewrite IH]. Qed.
Lemma flat_map_filter {A B} (p : A -> bool) (g : A -> list B) l : flat_map g (filter p l) = flat_map (fun x => if p x then g x else []) l.
Proof. induction l as [|x l IH]; cbn; [reflexivity|]. destruct (p x); cbn; now rewrite IH. Qed.
Lemma scan_true_inv s t cats r c' r' : scan s t cats r = (true, c', r') ->
  exists bs, binds s t = Some bs /\ bind_all bs cats = Some c' /\ r' = feats_all bs r.
Proof.
  intros H. pose proof (scan_spec s t cats r) as Hs. rewrite H in Hs. cbn [fst] in Hs.
  destruct (binds s t) as [bs|]; [|discriminate]. destruct (bind_all bs cats) as [c1|] eqn:Eb; [|discriminate].
  inversion Hs; subst. now exists bs.
Qed.
Lemma linear_shared px py x y bx by_ c1 xf c2 yf : linear_pattern px = true -> linear_pattern py = true ->
  binds px x = Some bx -> binds py y = Some by_ -> scan px x [] [] = (true, c1, xf) -> scan py y c1 [] = (true, c2, yf) ->
  map fst xf = flat_map (fun vc => map fst (entries vc)) bx /\
  shared xf yf = flat_map (fun vc => map fst (entries vc)) (filter (fun vc => text_in (fst vc) (pattern_vars py)) bx).
Proof.
  intros Hlx Hly Hbx Hby Hsx Hsy.
  apply scan_true_inv in Hsx as (bx' & Hbx' & Hb1 & ->). rewrite Hbx in Hbx'. inversion Hbx'; subst bx'.
  apply scan_true_inv in Hsy as (by' & Hby' & Hb2 & ->). rewrite Hby in Hby'. inversion Hby'; subst by'.
  assert (Ha : vars_agree (bx ++ by_)).
  { apply (proj1 (bind_all_iff (bx ++ by_) [])). exists c2. now rewrite bind_all_app, Hb1. }
  pose proof (vars_agree_app_l _ _ Ha) as Hax. pose proof (vars_agree_app_r _ _ Ha) as Hay.
  pose proof (linear_binds_nodup _ _ _ Hlx Hbx) as Hnx.
  assert (Hkeys : map fst (feats_all bx []) = flat_map keys_of bx).
  { rewrite (feats_all_keys bx Hax), (first_occ_nodup _ [] Hnx) by (intros v _ []). rewrite flat_map_map.
    apply flat_map_ext_In. intros [v c] Hin. cbn [fst]. symmetry. now apply bound_keys_ok. }
  split; [exact Hkeys|].
  unfold shared. rewrite Hkeys, filter_flat_map, flat_map_filter. apply flat_map_ext_In. intros [v c] Hin. cbn [fst].
  change (map fst (entries (v, c))) with (keys_of (v, c)).
  destruct (text_in v (pattern_vars py)) eqn:Ev.
  - apply filter_all_true. intros [w k] Hk. apply keys_of_In in Hk as [-> Hk]. unfold dhas. rewrite (feats_all_get by_ Hay).
    apply text_in_In in Ev. rewrite <- (binds_vars _ _ _ Hby) in Ev.
    destruct (last_binding v by_) as [cy|] eqn:Ey; [|apply last_binding_none in Ey; contradiction].
    assert (Hs : skeleton c = skeleton cy).
    { apply cat_xor_skeleton. apply (Ha v); apply in_or_app; [now left | right; now apply last_binding_In]. }
    destruct (entry_get cy k) eqn:Eg; [reflexivity|]. exfalso. apply Hk. now apply (entry_get_skeleton c cy k Hs).
  - apply filter_all_false. intros [w k] Hk. apply keys_of_In in Hk as [-> Hk]. unfold dhas. rewrite (feats_all_get by_ Hay).
    destruct (last_binding v by_) as [cy|] eqn:Ey; [|reflexivity].
    exfalso. apply last_binding_In in Ey. assert (Hin' : In v (map fst by_)) by (apply in_map_iff; now exists (v, cy)).
    rewrite (binds_vars _ _ _ Hby) in Hin'. apply text_in_In in Hin'. congruence.
Qed.

(* "False otherwise" does not hold without the one-feature-system hypothesis: a witness *)
Lemma otherwise_false_mixed_witness : exists px py x y, ~ matches px py x y /\ unify px py x y = Err AttrErr.
Proof.
  exists (Fun (Atom [97] FNone) [cSL] (Atom [98] FNone)), (Atom [98] FNone),
         (Fun (Atom [83] FNone) [cSL] (Atom [78;80] (FUn [100]))), (Atom [78;80] (FTer [97] [98] [99] [100] [101] [102])).
  split; [|vm_compute; reflexivity]. intros H. apply matchesb_ok in H. vm_compute in H. discriminate.
Qed.

(* =====================================================================================================
   LEMMAS MEANT FOR REUSE by the rule-soundness proofs (C03 English rules, C04 Japanese rules); names are stable.

   from a successful match:   unify_success_inv, unify_success_iff, matches_inv, matchesb_ok, unify_success_b
   to a successful match:     unify_success_intro
   failure / errors:          unify_fail_shape_x, unify_fail_shape_y, unify_fail_agree, unify_fail_shape_agree, unify_fail_iff,
                              unify_false_iff, unify_no_error, unify_error_inv, unify_error_iff, unify_not_matches
   exact outcome:             unify_outcome_ordered (run_tests (comparisons bx by)), unify_outcome, unify_char
   bindings:                  uget_char, binding_shape, binding_exact, binding_xor, binding_feats_from_inputs, bound_vars_readable,
                              missing_var_keyerror, binding_ground, binding_unchanged, build_map_keys_variable, build_map_instantiation
   substitution:              subst_skeleton, subst_leaf_feats, subst_atoms, subst_xor, subst_id, subst_feat_instantiate
   feature tests:             compat_char (closed form compat_fn), compat_true_iff, compat_err_iff, compat_refl, compat_err, unifies_err,
                              unifies_unary, unifies_ter, lenient_b_ok, covers_b_ok
   ^ is an equivalence:       cat_xor_skeleton, cat_xor_refl, cat_xor_sym, cat_xor_trans, skeleton_leaf_length, leaf_feats_atoms
   spec plumbing:             binds_vars, binds_leaf_incl, compared_leaves, last_binding_app / _In / _none / _alast, set_all_get,
                              vars_agree_app_l / _r / _tail, vars_agree_dec, vars_agreeb_ok, feats_compatibleb_ok, feats_compatible_compared
   linear patterns:           linear_binds_nodup, linear_last_binding, linear_vars_agree, nodup_last_binding, nodup_binding_unique, linear_shared
   object protocol:           no_read_after_failure, no_read_before_call, answers_once, answers_once_after_call, read_after_success
   dictionaries (generic):    dget_dset_same, dget_dset_other, dget_dset, dget_In, dget_none, dhas_In, dset_keys, set_list_app, alast_app,
                              dget_set_list, alast_In, alast_none, set_list_keys, key_eqb_eq
   model internals:           scan_deep_spec, scan_spec, scan_true_inv, bind_all_iff, bind_all_result, feats_all_get, feats_all_keys,
                              floop_cons, floop_run, run_tests_true, run_tests_cases, shared_In, shared_comparisons
   ===================================================================================================== *)
