(* C15 - XML formats round-trip and give ccg2lambda a complete derivation.  Property theorems only.
   Model: Xml.v (infoset level; lxml's serialiser/parser is a trusted library).  Proofs: XmlProofs.v.
   The category tables `puncts` / `specials` are regenerated from depccg/cat.py on every run (GenTables.v). *)
From Coq Require Import List NArith Bool.
Import ListNotations.
Require Import Cat CatFacts CatLex CatRoundTrip GenTables Tree Xml XmlProofs.
Open Scope N_scope.

(* Category.parse *)
Definition parse (t : text) : option cat := CatRoundTrip.parse specials puncts t.
Lemma specials_std : forall c, special specials c = special9 c.
Proof. apply existsb_ext_set. vm_compute. reflexivity. Qed.
Lemma puncts_plain : Forall plain puncts.
Proof. apply Forall_plain_of_bool. vm_compute. reflexivity. Qed.
Lemma parse_show_ok : forall c, wf puncts c -> parse (show c) = Some c.
Proof. exact (CatRoundTrip.parse_show specials specials_std puncts puncts_plain). Qed.

(* ---------------------------------------------------------------------------------------------------------------
   (1) C&C XML.  For every n-best document whose categories are well-formed and whose tokens are dicts carrying the five
   C&C attributes (and no key that overwrites start/span/cat), read_xml of what xml_of wrote succeeds and returns, tree by
   tree, the same categories and shape, the same op_string on every unary and binary node, the same five token attributes
   (xml_same), and the token list of each result is the token list of its tree.  `guess` (guess_combinator_by_triplet) is
   arbitrary: op_symbol and head direction of binary nodes are whatever it answers. *)
Theorem C15_read_xml_enc : forall guess nb, Forall (Forall (wf_xml puncts)) nb ->
  exists rs, read_xml parse guess (enc_xml nb) = Some rs /\
             Forall2 (fun t r => xml_same t (snd r) /\ snd (fst r) = tokens (snd r)) (concat nb) rs.
Proof. exact (read_xml_enc_same puncts parse parse_show_ok). Qed.

(* the exact value read back, names "sentence=<i>_id=<j>" included *)
Theorem C15_read_xml_enc_value : forall guess nb, Forall (Forall (wf_xml puncts)) nb ->
  read_xml parse guess (enc_xml nb) = Some (map (xml_result guess) (numbered nb)).
Proof. exact (read_xml_enc puncts parse parse_show_ok). Qed.

(* ---------------------------------------------------------------------------------------------------------------
   (2) Jigg XML, Japanese categories (no unary feature value, so that _cat_multi_valued spells str(cat)): for every document
   of non-empty n-best lists over the same tokens (dicts with a 'word' and no id/start/cat key), to_jigg_xml succeeds and
   read_jigg_xml of its output returns, tree by tree, the same categories, shape and words (jigg_same).  Labels are not
   claimed: the reader relabels by `guess`. *)
Theorem C15_read_jigg_enc_ja : forall guess use_symbol doc, Forall (nbest_ok puncts) doc ->
  exists root rs, enc_jigg use_symbol doc = Some root /\ read_jigg parse guess root = Some rs /\
                  Forall2 (fun t r => jigg_same t (snd r)) (doc_trees doc) rs.
Proof. exact (read_jigg_enc_same puncts parse parse_show_ok). Qed.

Theorem C15_read_jigg_enc_ja_value : forall guess use_symbol doc, Forall (nbest_ok puncts) doc ->
  exists root, enc_jigg use_symbol doc = Some root /\
               read_jigg parse guess root = Some (concat (mapi (jigg_results guess) 0 doc)).
Proof. exact (read_jigg_enc puncts parse parse_show_ok). Qed.

(* ---------------------------------------------------------------------------------------------------------------
   (3) Every <sentence> of to_jigg_xml's output is self-contained (sentence_wf): token ids are pairwise distinct; span ids are
   pairwise distinct across all n-best <ccg>s of the sentence; in every <ccg> each span is a leaf over token i with offsets
   [i, i+1) or its child ids resolve to spans of that <ccg> whose offsets tile it (begin = begin(left), end(left) =
   begin(right), end = end(right)); the terminal spans enumerate the sentence's tokens in order; exactly one span has
   root="true" and it is the one @root names.  No hypothesis on categories or labels. *)
Theorem C15_jigg_wf : forall use_symbol doc, Forall nbest_tok_ok doc ->
  exists root, enc_jigg use_symbol doc = Some root /\ length (doc_sentences root) = length doc /\
               Forall sentence_wf (doc_sentences root).
Proof. exact enc_jigg_wf. Qed.

(* ---------------------------------------------------------------------------------------------------------------
   (4) ccg2lambda's build_ccg_tree on each <ccg> of a sentence returns a nested element isomorphic to the derivation
   (ccg_iso): same shape, category attribute = the Jigg spelling of the node's category, rule attribute = op_symbol when
   use_symbol else op_string, the k-th leaf refers to the k-th token.  For arbitrary trees (no hypothesis). *)
Theorem C15_build_ccg_tree_iso : forall use_symbol sid nb s, jsentence use_symbol sid nb = Some s ->
  Forall2 (fun ts ccg => exists e, build_ccg_tree ccg = Some (Some e) /\ ccg_iso use_symbol sid (fst ts) 0 e) nb (sent_ccgs s).
Proof. exact build_sentence. Qed.

Theorem C15_build_ccg_tree_value : forall use_symbol sid t score n j,
  build_ccg_tree (jccg use_symbol sid t score n j) = Some (Some (nest use_symbol sid true t n 0)).
Proof. exact build_ccg_tree_jccg. Qed.

(* ---------------------------------------------------------------------------------------------------------------
   (5) normalize_token: for every text, the result starts with '_' and contains none of  . , ( ) ! -  *)
Theorem C15_normalize_token_clean : forall t,
  starts_us (normalize_token t) = true /\ forall d, In d stripped -> has d (normalize_token t) = false.
Proof. intros t. split; [apply normalize_token_starts | apply normalize_token_clean]. Qed.

(* normalize_tokens on a <token>: surf becomes normalize_token surf unless it already starts with '_';
   base="*" takes the surface form first *)
Theorem C15_normalize_tokens_surf : forall a s, attr_get a_surf a = Some s ->
  attr_get a_surf (normalize_attrs a) = Some (if starts_us s then s else normalize_token s).
Proof. exact normalize_attrs_surf. Qed.
Theorem C15_normalize_tokens_base : forall a b, attr_get a_base a = Some b ->
  attr_get a_base (normalize_attrs a) =
  Some (let b1 := if text_eqb b v_star then tok_get_default a_surf v_star a else b in if starts_us b1 then b1 else normalize_token b1).
Proof. exact normalize_attrs_base. Qed.
(* ... so a token that already starts with '_' keeps its punctuation: "_." stays "_." (ccg2lambda_tools.py:61,65) *)
Theorem C15_normalize_tokens_clean_refuted : exists a v, attr_get a_surf (normalize_attrs a) = Some v /\ has 46 v = true.
Proof. exists [(a_surf, [95; 46])], [95; 46]. vm_compute. split; reflexivity. Qed.

(* ---------------------------------------------------------------------------------------------------------------
   non-vacuity: non-trivial values meet the hypotheses, and the statements compute on them *)
Definition ex_tok (w : text) : token := [(k_word, w); (k_lemma, [108]); (k_pos, [78;78]); (k_entity, [79]); (k_chunk, [73;45;78;80])].
Definition ex_np : cat := Atom [78;80] FNone.
Definition ex_vp : cat := Fun (Atom [83] (FUn [100;99;108])) [cBS] ex_np.
Definition ex_en : tree :=
  Bin (Atom [83] (FUn [100;99;108])) [98;97] [60] false
      (Un ex_np [116;114] s_unsym (Leaf (Atom [78] FNone) (ex_tok [60;38;34;62]) s_lex s_lexsym))      (* the word is: less-than, ampersand, double quote, greater-than *)
      (Leaf ex_vp (ex_tok [114;117;110;115]) s_lex s_lexsym).
Example ex_en_wf : Forall (Forall (wf_xml puncts)) [[ex_en; ex_en]; [ex_en]].
Proof. apply doc_xmlb_ok. vm_compute. reflexivity. Qed.
Example ex_en_roundtrip :
  option_map (map snd) (read_xml parse (fun _ _ _ => ([63], [60], false)) (enc_xml [[ex_en]])) =
  Some [Bin (Atom [83] (FUn [100;99;108])) [98;97] [60] false
          (Un ex_np [116;114] s_unsym (Leaf (Atom [78] FNone) (five (ex_tok [60;38;34;62])) s_lex s_lexsym))
          (Leaf ex_vp (five (ex_tok [114;117;110;115])) s_lex s_lexsym)].
Proof. vm_compute. reflexivity. Qed.

Definition ex_ja_tok (w : text) : token := [(k_word, w); (k_pos, [21517;35422]); (a_base, [42])].
Definition ex_ja_np : cat := Atom [78;80] (FTer [99;97;115;101] [110;99] [109;111;100] [110;109] [102;105;110] [102]).
Definition ex_ja_s : cat := Atom [83] (FTer [109;111;100] [110;109] [102;111;114;109] [98;97;115;101] [102;105;110] [116]).
Definition ex_ja (hl : bool) : tree :=
  Bin ex_ja_s [98;97] [60] hl (Leaf ex_ja_np (ex_ja_tok [29483]) s_lex s_lexsym)
      (Un (Fun ex_ja_s [cBS] ex_ja_np) [65;68;86;48] [65;68;86;48] (Leaf (Fun ex_ja_s [cBS] ex_ja_np) (ex_ja_tok [36208;12427]) s_lex s_lexsym)).
Definition ex_doc : list (list (tree * option text)) := [[(ex_ja true, Some [45;49;46;53]); (ex_ja false, None)]; [(ex_ja false, None)]].
Example ex_ja_ok : Forall (nbest_ok puncts) ex_doc.
Proof. apply forallb_Forall with (p := nbest_okb puncts); [apply nbest_okb_ok | vm_compute; reflexivity]. Qed.
Example ex_ja_tok_ok : Forall nbest_tok_ok ex_doc.
Proof. apply forallb_Forall with (p := nbest_tok_okb); [apply nbest_tok_okb_ok | vm_compute; reflexivity]. Qed.
Example ex_ja_roundtrip :
  match enc_jigg true ex_doc with
  | Some root => option_map (map (fun r => tcat (snd r))) (read_jigg parse (fun _ _ _ => ([63], [63], true)) root)
  | None => None
  end = Some [ex_ja_s; ex_ja_s; ex_ja_s].
Proof. vm_compute. reflexivity. Qed.
Example ex_unary_feature_spelling : cmv ex_vp = [83;91;100;99;108;61;116;114;117;101;93;92;78;80].    (* S[dcl=true]\NP *)
Proof. vm_compute. reflexivity. Qed.
Example ex_normalize : normalize_token [85;46;83;46;45;40;120;41;33] = [95;85;95;68;79;84;83;95;68;79;84;95;100;97;115;104;95;95;76;69;70;84;66;120;95;82;73;71;72;84;66;95;69;88;67;76;65;77;65;84;73;79;78].
Proof. vm_compute. reflexivity. Qed.
