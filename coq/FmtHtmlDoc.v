(* C07 - printer/html.py, document level: to_mathml / to_string(format='html') as a text, and an independent reader of that text.
     fparse, fformat          str.format for templates whose fields are {<digits>} ( {{ and }} are the braces themselves )
     fstr                     an f-string: its literal parts with the values of its holes between them
     html_doc                 to_mathml: per sentence the header  <p>ID=k: words</p>, per tree  <p>Log prob=s</p><math ..>tree</math>,
                              all of it put into the page template _MATHML_MAIN
     dec_html_doc             the reader: finds <body>, checks what is before it (doctype, <html>, a well-nested <head>) and after it
                              (</body>, </html>), parses the body with the tag / text parser of FmtHtml.v, classifies the body elements
                              (<p>ID=..>, <p>Log prob=..>, <math>) and returns the sentence headers (number, words) and the records
                              (sentence number, index of the tree in its sentence, score text, view of the derivation)
   The constant texts of the printer are NOT written in this file: html_main_template, html_id_lits, html_prob_lits, html_math_lits
   come from GenFmt.v, which translate/gen_fmt.py regenerates from depccg/printer/html.py on every run.  The reader is written from the
   format (tag names p / math / head / html / body, the keywords `ID=`, `: `, `Log prob=`) and does not look at GenFmt.v.
   MODEL ONLY - no proofs here.  Python exceptions are None: KeyError (a token without 'word'), IndexError (empty batch, a sentence with an
   empty n-best list; a template field beyond the arguments), ValueError (a single brace in the template).
   The score is the text of f'{prob:.5e}' (float formatting is a library function: the text is an input of the model). *)
From Coq Require Import List NArith Bool Arith String Ascii.
Import ListNotations.
Require Import Cat Tree GenTables GenFmt Fmt FmtHtml.
Local Open Scope N_scope.

(* ---------- decimal numbers ---------- *)
Definition is_digit (c : N) : bool := (48 <=? c) && (c <=? 57).
Fixpoint read_N_go (s : text) (acc : N) : option N :=
  match s with
  | [] => Some acc
  | c :: r => if is_digit c then read_N_go r (acc * 10 + (c - 48)) else None
  end.
(* int(s) for a non-empty run of ASCII digits *)
Definition read_nat (s : text) : option nat :=
  match s with [] => None | _ => option_map N.to_nat (read_N_go s 0) end.

(* ---------- str.format ---------- *)
Inductive fpiece := FLit (s : text) | FArg (n : nat).
(* where the scanner is: in literal text; just after '{'; inside {digits ; just after '}' *)
Inductive fstate := SLit | SOpen | SField (ds : text) | SClose.
Definition flit (acc : text) : list fpiece := match acc with [] => [] | _ => [FLit (rev acc)] end.
Definition cLBR : N := 123.
Definition cRBR : N := 125.
(* None: a single '{' or '}' (ValueError), or a field that is not {<digits>} - those ( {} {name} {0!r} {0:>8} ) are outside this model
   and the translator refuses a template that has one *)
Fixpoint fparse_go (s : text) (st : fstate) (acc : text) : option (list fpiece) :=
  match s with
  | [] => match st with SLit => Some (flit acc) | _ => None end
  | c :: r =>
      match st with
      | SLit => if N.eqb c cLBR then fparse_go r SOpen acc
                else if N.eqb c cRBR then fparse_go r SClose acc
                else fparse_go r SLit (c :: acc)
      | SOpen => if N.eqb c cLBR then fparse_go r SLit (cLBR :: acc)
                 else if is_digit c then fparse_go r (SField [c]) acc
                 else None
      | SField ds => if is_digit c then fparse_go r (SField (c :: ds)) acc
                     else if N.eqb c cRBR then
                       match read_nat (rev ds), fparse_go r SLit [] with
                       | Some n, Some l => Some (flit acc ++ FArg n :: l)
                       | _, _ => None
                       end
                     else None
      | SClose => if N.eqb c cRBR then fparse_go r SLit (cRBR :: acc) else None
      end
  end.
Definition fparse (tmpl : text) : option (list fpiece) := fparse_go tmpl SLit [].
Fixpoint fsubst (ps : list fpiece) (args : list text) : option text :=
  match ps with
  | [] => Some []
  | FLit s :: r => option_map (app s) (fsubst r args)
  | FArg n :: r =>
      match nth_error args n, fsubst r args with
      | Some a, Some x => Some (a ++ x)
      | _, _ => None                                              (* IndexError: Replacement index out of range *)
      end
  end.
(* tmpl.format( *args ) for text arguments *)
Definition fformat (tmpl : text) (args : list text) : option text :=
  match fparse tmpl with Some ps => fsubst ps args | None => None end.

(* an f-string with the literal parts `lits` (one more than it has holes) and the values `args` of its holes *)
Fixpoint fstr (lits args : list text) : text :=
  match lits with
  | [] => []
  | l :: ls => l ++ match args with a :: r => a ++ fstr ls r | [] => fstr ls [] end
  end.

(* ---------- to_mathml / to_string(format='html') ---------- *)
(* one (score, tree) record: result += f'<p>Log prob={prob:.5e}</p>'; result += f'<math ...>{tree_str}</math>' *)
Definition html_record (st : text * tree) : option text :=
  option_map (fun body => fstr html_prob_lits [fst st] ++ fstr html_math_lits [body]) (mathml_subtree (snd st)).
(* one sentence: the header shows the words of the FIRST tree of the n-best list *)
Definition html_sentence (g : nat * list (text * tree)) : option text :=
  match snd g with
  | [] => None                                                    (* trees[0]: IndexError *)
  | (_, t0) :: _ =>
      match tree_word t0 with
      | None => None                                              (* KeyError 'word' *)
      | Some ws =>
          match concat_opt (map html_record (snd g)) with
          | Some body => Some (fstr html_id_lits [show_nat (fst g); html_escape ws] ++ body)
          | None => None
          end
      end
  end.
Definition html_doc (b : list (list (text * tree))) : option text :=
  match b with
  | [] => None                                                    (* to_string: nbest_trees[0] IndexError *)
  | _ => match concat_opt (map html_sentence (number_groups 1 b)) with
         | Some r => fformat html_main_template [r]
         | None => None
         end
  end.

(* ================= the reader ================= *)
Definition t_p : text := Eval vm_compute in T "p".
Definition t_math : text := Eval vm_compute in T "math".
Definition t_head : text := Eval vm_compute in T "head".
Definition k_id : text := Eval vm_compute in T "ID=".
Definition k_colon_sp : text := Eval vm_compute in T ": ".
Definition k_logprob : text := Eval vm_compute in T "Log prob=".
Definition x_doctype : text := Eval vm_compute in T "<!doctype html>".
Definition x_html_open : text := Eval vm_compute in T "<html".
Definition x_html_close : text := Eval vm_compute in T "</html>".
Definition x_body_open : text := Eval vm_compute in T "<body>".
Definition x_body_close : text := Eval vm_compute in T "</body>".

(* the first occurrence of p in s: (what is before it, what is after it) *)
Fixpoint find_split (p s : text) {struct s} : option (text * text) :=
  match strip_prefix p s with
  | Some y => Some ([], y)
  | None => match s with
            | [] => None
            | c :: r => match find_split p r with Some (x, y) => Some (c :: x, y) | None => None end
            end
  end.

(* --- what may stand before <body>: the doctype, <html ...>, one <head> element with well-nested content --- *)
Definition void_tags : list text := Eval vm_compute in map T ["meta"; "link"; "base"; "br"; "hr"; "img"; "input"]%string.
Definition is_void (tag : text) : bool := existsb (text_eqb tag) void_tags.
(* FmtHtml.hparse_nodes with void elements (no content, no closing tag); used on the head only *)
Fixpoint dparse_nodes (fuel : nat) (s : text) : option (list hnode * text) :=
  match fuel with
  | O => None
  | S f =>
      match s with
      | [] => Some ([], [])
      | c :: r =>
          if N.eqb c cLT then
            match r with
            | [] => None
            | d :: _ =>
                if N.eqb d cSL then Some ([], s)
                else
                  let '(tag, r1) := span_until name_stop r in
                  let '(attrs, r2) := span_until (N.eqb cGT) r1 in
                  match tag, r2 with
                  | _ :: _, _ :: r3 =>
                      if is_void tag then
                        match dparse_nodes f r3 with
                        | Some (sibs, r6) => Some (HEl tag attrs [] :: sibs, r6)
                        | None => None
                        end
                      else
                      match dparse_nodes f r3 with
                      | Some (kids, r4) =>
                          match strip_prefix ([cLT; cSL] ++ tag ++ [cGT]) r4 with
                          | Some r5 =>
                              match dparse_nodes f r5 with
                              | Some (sibs, r6) => Some (HEl tag attrs kids :: sibs, r6)
                              | None => None
                              end
                          | None => None
                          end
                      | None => None
                      end
                  | _, _ => None
                  end
            end
          else
            let '(raw, r1) := span_until (N.eqb cLT) s in
            match dparse_nodes f r1 with
            | Some (sibs, r2) => Some (HText (html_unescape raw) :: sibs, r2)
            | None => None
            end
      end
  end.
Definition h_ws_char (c : N) : bool := existsb (N.eqb c) [9; 10; 12; 13; 32].
Definition skip_ws (s : text) : text := snd (span_until (fun c => negb (h_ws_char c)) s).
Definition ascii_lower_c (c : N) : N := if (65 <=? c) && (c <=? 90) then c + 32 else c.
Definition frame_before_ok (s : text) : bool :=
  let s0 := skip_ws s in
  text_eqb (map ascii_lower_c (firstn 15 s0)) x_doctype &&
  match strip_prefix x_html_open (skip_ws (skipn 15 s0)) with
  | Some s2 =>
      let '(attrs, s3) := span_until (N.eqb cGT) s2 in
      match s3 with
      | _ :: s4 =>
          attrs_ok attrs &&
          match dparse_nodes (S (List.length s4)) s4 with
          | Some (ns, []) => match filter (fun n => negb (h_is_ws_node n)) ns with [HEl tag _ _] => text_eqb tag t_head | _ => false end
          | _ => false
          end
      | [] => false
      end
  | None => false
  end.
(* after </body>: </html>, whitespace around it *)
Definition frame_tail_ok (s : text) : bool :=
  match strip_prefix x_html_close (skip_ws s) with Some r => h_is_ws r | None => false end.

(* the children of <body> *)
Definition dec_html_frame (txt : text) : option (list hnode) :=
  match find_split x_body_open txt with
  | Some (before, r) =>
      if frame_before_ok before then
        match hparse_nodes (S (List.length r)) r with
        | Some (ns, rest) =>
            match strip_prefix x_body_close rest with
            | Some tail => if frame_tail_ok tail then Some ns else None
            | None => None
            end
        | None => None
        end
      else None
  | None => None
  end.

(* what an element of the body is *)
Inductive bitem :=
| BId (k : nat) (words : text)       (* <p>ID=k: words</p> *)
| BProb (s : text)                   (* <p>Log prob=s</p> *)
| BMath (kids : list hnode)          (* <math ...>kids</math> *)
| BBad.
Definition classify (n : hnode) : bitem :=
  match n with
  | HEl tag _ kids =>
      if text_eqb tag t_p then
        match h_text_of kids with
        | Some s =>
            match strip_prefix k_id s with
            | Some r =>
                let '(ds, r1) := span_until (fun c => negb (is_digit c)) r in
                match read_nat ds, strip_prefix k_colon_sp r1 with
                | Some k, Some ws => BId k ws
                | _, _ => BBad
                end
            | None => match strip_prefix k_logprob s with Some p => BProb p | None => BBad end
            end
        | None => BBad
        end
      else if text_eqb tag t_math then BMath kids
      else BBad
  | HText _ => BBad
  end.

Definition html_rec : Type := (nat * nat * text * view text)%type.
(* cur = (number of the sentence we are in, index of its next tree); a tree is a score line followed by a <math> element whose
   content reads as one derivation *)
Fixpoint dec_items (cur : option (nat * nat)) (items : list bitem) : option (list html_rec) :=
  match items with
  | [] => Some []
  | BId k _ :: r => dec_items (Some (k, 1%nat)) r
  | BProb s :: BMath kids :: r =>
      match cur with
      | Some (k, i) =>
          match dec_mathml_list kids, dec_items (Some (k, S i)) r with
          | Some v, Some l => Some ((k, i, s, v) :: l)
          | _, _ => None
          end
      | None => None
      end
  | _ => None
  end.
Definition dec_headers (items : list bitem) : list (nat * text) :=
  flat_map (fun it => match it with BId k w => [(k, w)] | _ => [] end) items.

Definition dec_html_doc (txt : text) : option (list (nat * text) * list html_rec) :=
  match dec_html_frame txt with
  | Some ns =>
      let items := map classify (filter (fun n => negb (h_is_ws_node n)) ns) in
      option_map (fun l => (dec_headers items, l)) (dec_items None items)
  | None => None
  end.

(* ================= what the document is expected to carry ================= *)
(* per sentence: its 1-based number and the words of its first tree *)
Definition html_doc_headers (b : list (list (text * tree))) : option (list (nat * text)) :=
  opt_list (map (fun g : nat * list (text * tree) =>
                   match snd g with
                   | (_, t0) :: _ => option_map (fun w => (fst g, w)) (tree_word t0)
                   | [] => None
                   end) (number_groups 1 b)).
(* per tree, in order: sentence number, index among the n-best of its sentence, score text, view *)
Definition html_doc_records (b : list (list (text * tree))) : option (list html_rec) :=
  opt_list (map (fun r : nat * nat * (text * tree) =>
                   option_map (fun v => (fst (fst r), snd (fst r), fst (snd r), v)) (view_html (snd (snd r)))) (number_batch b)).
Definition html_doc_views (b : list (list (text * tree))) : option (list (nat * text) * list html_rec) :=
  match html_doc_headers b, html_doc_records b with Some h, Some r => Some (h, r) | _, _ => None end.

(* ================= side conditions ================= *)
(* the score text has none of the five characters html.escape rewrites (to_mathml does not escape it); every text of
   f'{x:.5e}' is such a text: digits, '.', 'e', '+', '-', inf, nan *)
Definition score_plain (s : text) : bool := forallb (fun c => negb (existsb (N.eqb c) [cAMP; cLT; cGT; cQUOT; cAPOS])) s.
