(* Basic facts about the category model (decidable equalities, well-formedness predicates). *)
From Coq Require Import List NArith Bool Lia.
Import ListNotations.
Require Import Cat.
Open Scope N_scope.

Lemma text_eqb_eq a b : text_eqb a b = true <-> a = b.
Proof.
  revert b; induction a as [|x a IH]; intros [|y b]; simpl; split; intros H; try congruence; try discriminate.
  - apply andb_true_iff in H as [H1 H2]. apply N.eqb_eq in H1. apply IH in H2. congruence.
  - inversion H; subst. rewrite N.eqb_refl. simpl. now apply IH.
Qed.
Lemma text_eqb_refl a : text_eqb a a = true. Proof. now apply text_eqb_eq. Qed.
Lemma text_eqb_neq a b : text_eqb a b = false <-> a <> b.
Proof. split; intros H. - intros E. apply text_eqb_eq in E. congruence. - destruct (text_eqb a b) eqn:E; [apply text_eqb_eq in E; congruence|reflexivity]. Qed.
Lemma text_eqb_sym a b : text_eqb a b = text_eqb b a.
Proof. destruct (text_eqb a b) eqn:E. - apply text_eqb_eq in E; subst. now rewrite text_eqb_refl. - symmetry. apply text_eqb_neq. apply text_eqb_neq in E. congruence. Qed.
Lemma text_eq_dec (a b : text) : {a = b} + {a <> b}.
Proof. destruct (text_eqb a b) eqn:E; [left; now apply text_eqb_eq | right; now apply text_eqb_neq]. Qed.

Lemma text_in_In t l : text_in t l = true <-> In t l.
Proof.
  unfold text_in. rewrite existsb_exists. split.
  - intros [x [Hin Hx]]. apply text_eqb_eq in Hx. now subst.
  - intros H. exists t. split; [assumption | apply text_eqb_refl].
Qed.

Lemma feat_eqb_eq a b : feat_eqb a b = true <-> a = b.
Proof.
  destruct a, b; simpl; split; intros H; try congruence; try discriminate.
  - apply text_eqb_eq in H. congruence.
  - inversion H. apply text_eqb_refl.
  - repeat (apply andb_true_iff in H as [H ?]).
    repeat match goal with Hx : text_eqb _ _ = true |- _ => apply text_eqb_eq in Hx end. congruence.
  - inversion H; subst. now rewrite !text_eqb_refl.
Qed.
Lemma feat_eqb_refl a : feat_eqb a a = true. Proof. now apply feat_eqb_eq. Qed.

Lemma cat_eqb_eq a b : cat_eqb a b = true <-> a = b.
Proof.
  revert b; induction a as [x f | l IHl s r IHr]; intros [y g | l' s' r']; simpl; split; intros H; try congruence; try discriminate.
  - apply andb_true_iff in H as [H1 H2]. apply text_eqb_eq in H1. apply feat_eqb_eq in H2. congruence.
  - inversion H; subst. now rewrite text_eqb_refl, feat_eqb_refl.
  - apply andb_true_iff in H as [H H3]. apply andb_true_iff in H as [H1 H2].
    apply IHl in H1. apply text_eqb_eq in H2. apply IHr in H3. congruence.
  - inversion H; subst. rewrite text_eqb_refl. simpl.
    assert (cat_eqb l' l' = true) as -> by now apply IHl. assert (cat_eqb r' r' = true) as -> by now apply IHr. reflexivity.
Qed.
Lemma cat_eqb_refl a : cat_eqb a a = true. Proof. now apply cat_eqb_eq. Qed.
Lemma cat_eq_dec (a b : cat) : {a = b} + {a <> b}.
Proof. destruct (cat_eqb a b) eqn:E; [left; now apply cat_eqb_eq | right; intros H; apply cat_eqb_eq in H; congruence]. Qed.

(* ---------- well-formedness (what the property calls a "category value") ---------- *)
Definition std9 : list N := [cLB; cRB; cLP; cRP; cSL; cBS; cBAR; cLT; cGT].
Definition special9 (c : N) : bool := existsb (N.eqb c) std9.
Definition plainc (c : N) : bool := negb (special9 c) && negb (N.eqb c cSP).
Definition allplain (t : text) : bool := forallb plainc t.
Definition plain (t : text) : Prop := t <> [] /\ allplain t = true.
Definition nokv (t : text) : Prop := has cEQ t = false /\ has cCOMMA t = false.
Definition wf_feat (f : feat) : Prop :=
  match f with
  | FNone => True
  | FUn v => plain v /\ (has cEQ v && has cCOMMA v = false)
  | FTer k1 v1 k2 v2 k3 v3 => Forall (fun t => allplain t = true /\ nokv t) [k1; v1; k2; v2; k3; v3]
  end.
Definition slashP (s : text) : Prop := s = [cSL] \/ s = [cBS] \/ s = [cBAR].

Section WF.
Variable puncts : list text.
(* an atom whose name is a punctuation name carries no feature: the reader never looks for one there *)
Fixpoint wf (c : cat) : Prop :=
  match c with
  | Atom b f => plain b /\ wf_feat f /\ (text_in b puncts = true -> f = FNone)
  | Fun l s r => wf l /\ slashP s /\ wf r
  end.
End WF.

(* boolean version, used to state computed facts about shipped data *)
Definition nokvb (t : text) : bool := negb (has cEQ t) && negb (has cCOMMA t).
Definition plainb (t : text) : bool := match t with [] => false | _ => allplain t end.
Definition wf_featb (f : feat) : bool :=
  match f with
  | FNone => true
  | FUn v => plainb v && negb (has cEQ v && has cCOMMA v)
  | FTer k1 v1 k2 v2 k3 v3 => forallb (fun t => allplain t && nokvb t) [k1; v1; k2; v2; k3; v3]
  end.
Definition feat_is_none (f : feat) : bool := match f with FNone => true | _ => false end.
Fixpoint wfb (puncts : list text) (c : cat) : bool :=
  match c with
  | Atom b f => plainb b && wf_featb f && (negb (text_in b puncts) || feat_is_none f)
  | Fun l s r => wfb puncts l && is_slash s && wfb puncts r
  end.

Lemma plainb_plain t : plainb t = true <-> plain t.
Proof.
  unfold plain, plainb. destruct t as [|x t]; split; intros H.
  - discriminate.
  - destruct H as [H _]. congruence.
  - split; [discriminate | exact H].
  - destruct H as [_ H]. exact H.
Qed.

Lemma is_slash_slashP s : is_slash s = true <-> slashP s.
Proof.
  unfold is_slash, slashP. rewrite !orb_true_iff, !text_eqb_eq. tauto.
Qed.

Lemma wf_featb_ok f : wf_featb f = true <-> wf_feat f.
Proof.
  destruct f as [|v|k1 v1 k2 v2 k3 v3]; simpl.
  - tauto.
  - rewrite andb_true_iff, plainb_plain, negb_true_iff. tauto.
  - unfold nokvb, nokv. rewrite !andb_true_iff, !negb_true_iff.
    split.
    + intros H. repeat constructor; tauto.
    + intros H.
      apply Forall_cons_iff in H as [H1 H]. apply Forall_cons_iff in H as [H2 H]. apply Forall_cons_iff in H as [H3 H].
      apply Forall_cons_iff in H as [H4 H]. apply Forall_cons_iff in H as [H5 H]. apply Forall_cons_iff in H as [H6 _].
      tauto.
Qed.

Lemma feat_is_none_ok f : feat_is_none f = true <-> f = FNone.
Proof. destruct f; simpl; split; intros H; congruence. Qed.

Lemma wfb_ok puncts c : wfb puncts c = true <-> wf puncts c.
Proof.
  induction c as [b f | l IHl s r IHr]; simpl.
  - rewrite !andb_true_iff, plainb_plain, wf_featb_ok, orb_true_iff, negb_true_iff, feat_is_none_ok.
    split.
    + intros [[Hb Hf] Hp]. split; [exact Hb | split; [exact Hf |]]. intros Hin. destruct Hp as [Hp|Hp]; [congruence|assumption].
    + intros (Hb & Hf & Hp). split; [split; [exact Hb | exact Hf] |]. destruct (text_in b puncts); [right; now apply Hp | left; reflexivity].
  - rewrite !andb_true_iff, IHl, IHr, is_slash_slashP. tauto.
Qed.

(* two lists with the same elements give the same membership test *)
Definition nincl (l1 l2 : list N) : bool := forallb (fun x => existsb (N.eqb x) l2) l1.
Lemma existsb_ext_set l1 l2 : nincl l1 l2 && nincl l2 l1 = true -> forall c, existsb (N.eqb c) l1 = existsb (N.eqb c) l2.
Proof.
  intros H c. apply andb_true_iff in H as [H12 H21]. unfold nincl in *. rewrite forallb_forall in H12, H21.
  destruct (existsb (N.eqb c) l1) eqn:E1; destruct (existsb (N.eqb c) l2) eqn:E2; try reflexivity; exfalso.
  - apply existsb_exists in E1 as [x [Hin Hx]]. apply N.eqb_eq in Hx; subst x. specialize (H12 c Hin). congruence.
  - apply existsb_exists in E2 as [x [Hin Hx]]. apply N.eqb_eq in Hx; subst x. specialize (H21 c Hin). congruence.
Qed.

Lemma Forall_plain_of_bool l : forallb plainb l = true -> Forall plain l.
Proof. intros H. rewrite forallb_forall in H. apply Forall_forall. intros x Hx. apply plainb_plain. now apply H. Qed.
