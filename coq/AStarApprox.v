(* A* search with an INEXACT agenda: the popped item need not have the maximal exact priority, only a priority
   within a slack [delta] of it.  This is what the heap of parsing.h does on real-valued log-probabilities: it
   compares float32 priorities; if every stored priority is within delta/2 of the exact (real-number) priority of
   the derivation it stands for, the item the heap reports as the maximum is within delta of the exact maximum.
   DEFINITIONS ONLY (abstract level on AStar.v, implementation level on AStarImpl.v, and an executable run
   checker); the proofs are in AStarApproxProofs.v, the theorems in P_C01_approx.v. *)
From Coq Require Import List ZArith Bool Arith.
Import ListNotations.
Require Import AStar AStarLoss AStarImpl AStarCheck.
Open Scope Z_scope.

(* number of nodes of a derivation, and the bound multiplier of the near-optimality theorem *)
Fixpoint dsize {C : Type} (d : @deriv C) : nat :=
  match d with
  | DLeaf _ _ => 1%nat
  | DUn _ _ d' => S (dsize d')
  | DBin _ _ _ l r => S (dsize l + dsize r)
  end.
Definition approxB {C : Type} (d : @deriv C) : Z := Z.of_nat (dsize d) + 1.

Section Approx.
Context {C : Type}.
Variable ceqb : C -> C -> bool.
Variable n : nat.
Variable tag : nat -> C -> Z.
Variable dep : nat -> nat -> Z.
Variable adm : nat -> list C.
Variable besttag bestdep : nat -> Z.
Variable bin : C -> C -> list (C * bool).
Variable un : C -> list C.
Variable isroot : C -> bool.
Variable pen : Z.
Variable dedup : bool.
Variable plus : bool.
Variable remove_one : @item C -> list (@item C) -> list (@item C).
Variable max_step nbest : nat.
Variable delta : Z.                     (* slack of the agenda, same unit as the scores *)

Notation item := (@item C).
Notation state := (@state C).
Notation prio := (prio n tag dep besttag bestdep pen plus).
Notation step := (step ceqb n bin un isroot dedup remove_one).
Notation running := (running max_step nbest).

(* the popped item is on the agenda and no agenda item beats its exact priority by more than delta *)
Definition valid_pop_d (a : item) (st : state) : Prop :=
  In a (agenda st) /\ forall b, In b (agenda st) -> prio b <= prio a + delta.

Inductive reach_d : state -> Prop :=
| reach_d_init : reach_d (init n adm)
| reach_d_step st a : reach_d st -> running st -> valid_pop_d a st -> reach_d (step a st).

(* executable run checker: a run is given by the agenda positions of the popped items *)
Definition valid_pop_d_b (a : item) (st : state) : bool :=
  forallb (fun b => prio b <=? prio a + delta) (agenda st).
Definition running_b (st : state) : bool :=
  (nsteps st <? max_step)%nat && (length (goal st) <? nbest)%nat && negb (match agenda st with [] => true | _ => false end).
Fixpoint run_d (ks : list nat) (st : state) : option state :=
  match ks with
  | [] => Some st
  | k :: rest =>
      match nth_error (agenda st) k with
      | None => None
      | Some a => if running_b st && valid_pop_d_b a st then run_d rest (step a st) else None
      end
  end.
End Approx.

(* ---- the same relaxation on the implementation-level model (stored float-like fields) ---- *)
Section ApproxImpl.
Context {C : Type}.
Variable ceqb : C -> C -> bool.
Variable n : nat.
Variable tag : nat -> C -> Z.
Variable dep : nat -> nat -> Z.
Variable adm : nat -> list C.
Variable besttag bestdep : nat -> Z.
Variable bin : C -> C -> list (C * bool).
Variable un : C -> list C.
Variable isroot : C -> bool.
Variable pen : Z.
Variable dedup : bool.
Variable max_step nbest : nat.
Variable delta : Z.

Notation jitem := (@jitem C).
Notation jstate := (@jstate C).

Definition jvalid_pop_d (a : jitem) (st : jstate) : Prop :=
  In a (jagenda st) /\ forall b, In b (jagenda st) -> jprio b <= jprio a + delta.

Inductive jreach_d : jstate -> Prop :=
| jreach_d_init : jreach_d (jinit n tag adm besttag bestdep)
| jreach_d_step st a : jreach_d st -> jrunning max_step nbest st -> jvalid_pop_d a st ->
    jreach_d (jstep ceqb n dep besttag bestdep bin un isroot pen dedup a st).
End ApproxImpl.

(* ---- a concrete one-token problem on which the bound of the theorem is attained ----
   categories: 0 = A (root, tag 0, the optimum), 1 = B (tag -d, unary B => A, penalty 0), 2 = R (root, tag -2d).
   A run that is valid with slack d = 4: pop B, pop A<-B (enters the chart under the key of A, inside -d), pop the
   leaf A (dropped: its key is taken), pop the leaf R, pop the goal item of R: score -2d.  The optimum scores 0 and has
   one node: the gap 2d equals d * (1 + 1). *)
Definition ax_delta : Z := 4.
Definition ax_tag (i : nat) (c : nat) : Z := match c with 0%nat => 0 | 1%nat => -4 | _ => -8 end.
Definition ax_dep (i j : nat) : Z := 0.
Definition ax_adm (i : nat) : list nat := [0%nat; 1%nat; 2%nat].
Definition ax_best (i : nat) : Z := 0.
Definition ax_bin (x y : nat) : list (nat * bool) := [].
Definition ax_un (x : nat) : list nat := match x with 1%nat => [0%nat] | _ => [] end.
Definition ax_isroot (c : nat) : bool := match c with 1%nat => false | _ => true end.
Definition ax_opt : @deriv nat := DLeaf 0 0%nat.
Definition ax_got : @deriv nat := DLeaf 0 2%nat.
Definition ax_run : list nat := [1%nat; 0%nat; 1%nat; 1%nat; 0%nat].

(* ---- the same with two tokens: the optimum S(A0, A1) has 3 nodes and scores 0; each leaf loses d against the unary
   detour B => A, the root cell loses d against S(X, Y), and the goal pop loses d against the other root R(P, Q):
   the run returns R(P, Q) with score -4d = -d * (3 + 1).
   categories: 0 = A, 1 = B, 2 = X, 3 = Y, 4 = P, 5 = Q, 6 = S (root), 7 = R (root); slack d = 4 *)
Definition bx_tag (i c : nat) : Z :=
  match c with 0%nat => 0 | 1%nat => -4 | 2%nat => -6 | 3%nat => -6 | 4%nat => -8 | 5%nat => -8 | _ => -100 end.
Definition bx_adm (i : nat) : list nat := match i with 0%nat => [0; 1; 2; 4]%nat | _ => [0; 1; 3; 5]%nat end.
Definition bx_bin (x y : nat) : list (nat * bool) :=
  match x, y with
  | 0%nat, 0%nat => [(6%nat, true)] | 2%nat, 3%nat => [(6%nat, true)] | 4%nat, 5%nat => [(7%nat, true)] | _, _ => []
  end.
Definition bx_isroot (c : nat) : bool := (c =? 6)%nat || (c =? 7)%nat.
Definition bx_opt : @deriv nat := DBin 0 6%nat true (DLeaf 0 0%nat) (DLeaf 1 0%nat).
Definition bx_got : @deriv nat := DBin 0 7%nat true (DLeaf 0 4%nat) (DLeaf 1 5%nat).
Definition bx_run : list nat := [1; 0; 0; 3; 0; 3; 2; 3; 2; 2; 0; 2; 1; 0]%nat.

(* ---- trace replay that MEASURES the slack: the pops reported by the hook of the real search (float32 priorities), replayed
   on the exact model; returns the final state and the least delta for which the run is a run with slack delta ---- *)
Section ApproxReplay.
Context {C : Type}.
Variable ceqb : C -> C -> bool.
Variable n : nat.
Variable tag : nat -> C -> Z.
Variable dep : nat -> nat -> Z.
Variable adm : nat -> list C.
Variable besttag bestdep : nat -> Z.
Variable bin : C -> C -> list (C * bool).
Variable un : C -> list C.
Variable isroot : C -> bool.
Variable pen : Z.
Variable dedup : bool.
Variable max_step nbest : nat.

Notation jitem := (@jitem C).
Notation jstate := (@jstate C).
Notation jstep := (jstep ceqb n dep besttag bestdep bin un isroot pen dedup).

Definition jslack (a : jitem) (st : jstate) : Z :=
  fold_left (fun m b => Z.max m (jprio b - jprio a)) (jagenda st) 0.

Fixpoint jreplay_s (tr : list (@trec C)) (k : nat) (stored : list jitem) (st : jstate) (acc : Z) : (jstate * Z) + nat :=
  match tr with
  | [] => inl (st, acc)
  | t :: rest =>
      match resolve stored t with
      | None => inr k
      | Some a =>
          if jrunning_b max_step nbest st && existsb (jitem_eqb ceqb a) (jagenda st) then
            let was_stored := negb (jfin a) && negb (dedup && existsb (jkey_eqb ceqb a) (jchart st)) in
            if Bool.eqb was_stored (t_stored t)
            then jreplay_s rest (S k) (if was_stored then stored ++ [a] else stored) (jstep a st) (Z.max acc (jslack a st))
            else inr k
          else inr k
      end
  end.

Definition jaccepts_s (tr : list (@trec C)) : option (jstate * Z) :=
  match jreplay_s tr 0 [] (jinit n tag adm besttag bestdep) 0 with
  | inl (st, d) => if jrunning_b max_step nbest st then None else Some (st, d)
  | inr _ => None
  end.
End ApproxReplay.

(* ---- on concrete problems (AStarCheck.problem, the record the correspondence cases are written in) ---- *)
Definition p_reach_d (p : problem) (delta : Z) : @jstate nat -> Prop :=
  jreach_d Nat.eqb (p_n p) (p_tagf p) (p_depf p) (p_adm p) (p_besttag p) (p_bestdep p) (lookup2 (p_bin p)) (lookup1 (p_un p))
           (p_isroot p) (p_pen p) (p_dedup p) (p_max_step p) (p_nbest p) delta.
Definition p_accepts_s (p : problem) (tr : list (@trec nat)) : option (@jstate nat * Z) :=
  jaccepts_s Nat.eqb (p_n p) (p_tagf p) (p_depf p) (p_adm p) (p_besttag p) (p_bestdep p) (lookup2 (p_bin p)) (lookup1 (p_un p))
             (p_isroot p) (p_pen p) (p_dedup p) (p_max_step p) (p_nbest p) tr.

(* correspondence case of the real-valued stream: the pop order of the real (float32) search, with the exact scores of the
   popped items, is a run of the exact model whose measured slack is [delta]; status and first parse agree *)
Definition run_ok_s (p : problem) (tr : list (@trec nat)) (status : nat) (goals : list (@deriv nat)) (scores : list Z) (delta : Z) : bool :=
  match p_accepts_s p tr with
  | None => false
  | Some (st, d) =>
      (d =? delta) && (jstatus st =? status)%nat &&
      (if (status =? 0)%nat then derivs_eqb (map (@jder nat) (jgoal st)) goals && zs_eqb (map (@jprio nat) (jgoal st)) scores else true)
  end.
