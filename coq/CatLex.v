(* The lexer of Category.parse on printed categories: lex (show c) = toks c. *)
From Coq Require Import List NArith Bool Lia.
Import ListNotations.
Require Import Cat CatFacts.
Open Scope N_scope.

Section Lex.
Variable specials : list N.
Hypothesis Hspec : forall c, special specials c = special9 c.
Variable puncts : list text.

Notation lex_go := (lex_go specials).
Notation wf := (wf puncts).

Lemma lex_go_plain b r acc : allplain b = true -> lex_go (b ++ r) acc = lex_go r (rev b ++ acc).
Proof.
  revert acc; induction b as [|x b IH]; intros acc H; simpl in *; [reflexivity|].
  apply andb_true_iff in H as [Hx Hb]. unfold plainc in Hx. apply andb_true_iff in Hx as [H1 H2].
  rewrite Hspec. apply negb_true_iff in H1, H2. rewrite H1, H2. rewrite IH by assumption.
  now rewrite <- app_assoc.
Qed.

Lemma lex_go_special s r acc : special9 s = true -> lex_go (s :: r) acc = flush acc ++ [s] :: lex_go r [].
Proof. intros H. simpl. now rewrite Hspec, H. Qed.

(* what may follow a printed operand: the end, or one of the split characters *)
Definition boundary (r : text) : Prop := match r with [] => True | s :: _ => special9 s = true end.

Lemma lex_go_flush r acc : boundary r -> acc <> [] -> lex_go r acc = [rev acc] ++ lex_go r [].
Proof.
  intros Hb Ha. destruct r as [|s r]; simpl in *.
  - destruct acc; [congruence|]. reflexivity.
  - rewrite Hspec, Hb. destruct acc; [congruence|]. reflexivity.
Qed.

Lemma allplain_app a b : allplain (a ++ b) = allplain a && allplain b.
Proof. unfold allplain. apply forallb_app. Qed.

Lemma allplain_show_feat f : wf_feat f -> allplain (show_feat f) = true.
Proof.
  destruct f as [|v|k1 v1 k2 v2 k3 v3]; cbn [wf_feat show_feat]; intros H.
  - reflexivity.
  - destruct H as [[_ H] _]. exact H.
  - apply Forall_cons_iff in H as [[H1 _] H]. apply Forall_cons_iff in H as [[H2 _] H]. apply Forall_cons_iff in H as [[H3 _] H].
    apply Forall_cons_iff in H as [[H4 _] H]. apply Forall_cons_iff in H as [[H5 _] H]. apply Forall_cons_iff in H as [[H6 _] _].
    rewrite !allplain_app. rewrite H1, H2, H3, H4, H5, H6. reflexivity.
Qed.

Lemma rev_nonnil {A} (l : list A) : l <> [] -> rev l <> [].
Proof. destruct l; [congruence|]. simpl. intros _ H. apply app_eq_nil in H as [_ H]. discriminate. Qed.

Lemma lex_show_gen c : wf c -> forall r, boundary r -> lex_go (show c ++ r) [] = toks c ++ lex_go r [].
Proof.
  induction c as [b f | l IHl s rr IHr]; intros Hwf r Hb.
  - destruct Hwf as ([Hbne Hbp] & Hf & _). simpl.
    destruct (show_feat f) as [|c0 ft] eqn:E.
    + rewrite lex_go_plain by assumption. rewrite app_nil_r.
      rewrite lex_go_flush by (try assumption; now apply rev_nonnil). now rewrite rev_involutive.
    + assert (Hft : allplain (c0 :: ft) = true) by (rewrite <- E; now apply allplain_show_feat).
      rewrite <- app_assoc. rewrite lex_go_plain by assumption. rewrite app_nil_r.
      cbn [app]. rewrite lex_go_special by reflexivity.
      assert (flush (rev b) = [b]) as ->.
      { unfold flush. destruct (rev b) eqn:Er; [exfalso; now apply (rev_nonnil b) | rewrite <- Er; now rewrite rev_involutive]. }
      replace (c0 :: (ft ++ [cRB]) ++ r) with ((c0 :: ft) ++ cRB :: r) by (cbn [app]; now rewrite <- app_assoc).
      rewrite lex_go_plain by assumption. rewrite app_nil_r. rewrite lex_go_special by reflexivity.
      assert (flush (rev (c0 :: ft)) = [c0 :: ft]) as ->.
      { unfold flush. destruct (rev (c0 :: ft)) eqn:Er; [exfalso; apply (rev_nonnil (c0 :: ft)); [discriminate|assumption] | rewrite <- Er; now rewrite rev_involutive]. }
      reflexivity.
  - destruct Hwf as (Hl & Hs & Hr).
    assert (Hp : forall x, wf x -> (forall r0, boundary r0 -> lex_go (show x ++ r0) [] = toks x ++ lex_go r0 []) ->
                 forall r0, boundary r0 -> lex_go (pshow x ++ r0) [] = ptoks x ++ lex_go r0 []).
    { intros x Hx IH r0 Hr0. destruct x as [bx fx | lx sx rx]; [now apply IH|].
      unfold pshow, ptoks. rewrite <- !app_assoc. cbn [app]. rewrite lex_go_special by reflexivity. simpl flush. cbn [app].
      rewrite IH by reflexivity. rewrite lex_go_special by reflexivity. simpl flush. cbn [app]. reflexivity. }
    change (show (Fun l s rr)) with (pshow l ++ s ++ pshow rr).
    change (toks (Fun l s rr)) with (ptoks l ++ [s] ++ ptoks rr).
    assert (Hsc : exists ch, s = [ch] /\ special9 ch = true).
    { destruct Hs as [-> | [-> | ->]]; eexists; split; reflexivity. }
    destruct Hsc as (ch & -> & Hch).
    rewrite <- !app_assoc. cbn [app].
    rewrite (Hp l Hl (IHl Hl)) by exact Hch.
    rewrite lex_go_special by assumption. simpl flush. cbn [app].
    rewrite (Hp rr Hr (IHr Hr)) by assumption. reflexivity.
Qed.

Theorem lex_show c : wf c -> lex specials (show c) = toks c.
Proof.
  intros H. unfold lex. rewrite <- (app_nil_r (show c)). rewrite lex_show_gen by (try assumption; exact I).
  simpl. now rewrite app_nil_r.
Qed.

(* blanks between tokens do not matter *)
Definition tok_ok (t : text) : Prop := (exists s, t = [s] /\ special9 s = true) \/ plain t.
Definition is_plain_tok (t : text) : bool := match t with [] => false | _ => allplain t end.
Fixpoint spaces (n : nat) : text := match n with O => [] | S k => cSP :: spaces k end.
(* render ws ts: token i preceded by (ws i) blanks; [sep] blanks forced between two adjacent plain tokens *)
Fixpoint render (ws : list nat) (ts : list text) : text :=
  match ts with
  | [] => spaces (hd O ws)
  | t :: ts' =>
      let extra := match ts' with t' :: _ => if is_plain_tok t && is_plain_tok t' then [cSP] else [] | [] => [] end in
      spaces (hd O ws) ++ t ++ extra ++ render (tl ws) ts'
  end.

Lemma lex_go_spaces n r : lex_go (spaces n ++ r) [] = lex_go r [].
Proof.
  induction n as [|n IH]; [reflexivity|].
  cbn [spaces app Cat.lex_go]. rewrite Hspec. change (special9 cSP) with false. change (N.eqb cSP cSP) with true.
  cbn iota. cbn [flush app]. exact IH.
Qed.

Lemma lex_go_space_flush r acc : acc <> [] -> lex_go (cSP :: r) acc = [rev acc] ++ lex_go r [].
Proof.
  intros Ha. cbn [Cat.lex_go]. rewrite Hspec. change (special9 cSP) with false. change (N.eqb cSP cSP) with true.
  cbn iota. destruct acc; [congruence|]. reflexivity.
Qed.

Definition boundary2 (r : text) : Prop := match r with [] => True | s :: _ => special9 s = true \/ s = cSP end.

Lemma lex_go_plain_tok t r : plain t -> boundary2 r -> lex_go (t ++ r) [] = t :: lex_go r [].
Proof.
  intros [Hne Hp] Hb. rewrite lex_go_plain by assumption. rewrite app_nil_r.
  pose proof (rev_nonnil t Hne) as Hr.
  destruct r as [|s r].
  - cbn [Cat.lex_go]. destruct (rev t) eqn:Er; [congruence|]. cbn [flush]. rewrite <- Er. now rewrite rev_involutive.
  - destruct Hb as [Hs | ->].
    + rewrite lex_go_flush by assumption. now rewrite rev_involutive.
    + rewrite lex_go_space_flush by assumption. rewrite rev_involutive. cbn [app]. f_equal.
      change (cSP :: r) with (spaces 1 ++ r). now rewrite lex_go_spaces.
Qed.

Lemma render_boundary2 ws ts t : Forall tok_ok ts ->
  boundary2 ((match ts with t' :: _ => if is_plain_tok t && is_plain_tok t' then [cSP] else [] | [] => [] end) ++ render ws ts)
  \/ is_plain_tok t = false.
Proof.
  intros Hok. destruct ts as [|t' ts'].
  - left. cbn [app render]. destruct (hd O ws); simpl; auto.
  - destruct (is_plain_tok t) eqn:Et; [|now right]. left.
    destruct (is_plain_tok t') eqn:Et'; cbn [andb app].
    + simpl. now right.
    + cbn [render]. destruct (hd O ws) as [|k]; [|simpl; now right].
      cbn [spaces app]. apply Forall_cons_iff in Hok as [Ht' _].
      destruct Ht' as [(s' & -> & Hs') | [Hne' Hp']].
      * simpl. now left.
      * exfalso. destruct t'; [now apply Hne'|]. cbn [is_plain_tok] in Et'. congruence.
Qed.

Theorem lex_render ts : Forall tok_ok ts -> forall ws, lex specials (render ws ts) = ts.
Proof.
  unfold lex. induction ts as [|t ts IH]; intros Hok ws.
  - simpl. rewrite <- (app_nil_r (spaces _)). now rewrite lex_go_spaces.
  - apply Forall_cons_iff in Hok as [Ht Hts]. cbn [render]. rewrite lex_go_spaces.
    destruct Ht as [(s & -> & Hs) | Hpl].
    + cbn [app]. rewrite lex_go_special by assumption. simpl flush. cbn [app].
      assert (is_plain_tok [s] = false) as ->.
      { simpl. unfold plainc. now rewrite Hs. }
      destruct ts; cbn [andb app]; now rewrite IH.
    + destruct (render_boundary2 (tl ws) ts t Hts) as [Hb | Hf].
      * rewrite lex_go_plain_tok by assumption. f_equal.
        destruct ts as [|t' ts']; [cbn [app]; now apply IH|].
        destruct (is_plain_tok t && is_plain_tok t'); cbn [app]; [|now apply IH].
        change (cSP :: render (tl ws) (t' :: ts')) with (spaces 1 ++ render (tl ws) (t' :: ts')).
        rewrite lex_go_spaces. now apply IH.
      * exfalso. destruct Hpl as [Hne Hp]. destruct t; [now apply Hne|]. cbn [is_plain_tok] in Hf. congruence.
Qed.
End Lex.
