(* C04 - the GENERATED Japanese combinators (GenJa.v) against the schemata of JaSpec.v:
   an evaluation lemma per combinator (what it computes, in terms of the comparisons `core`), then soundness,
   completeness on identical parts and absence of errors, for each combinator and for apply_binary_rules. *)
From Coq Require Import List NArith Bool Lia.
Import ListNotations.
Require Import Cat CatFacts Unify GramPrims GenTables GenJa GenJaroots JaSpec JaLemmas.
Open Scope N_scope.

(* ================= the common form of the ten unifying combinators ================= *)
Definition comb_result (xe ye : env) (guard modf : bool) (other : cat) (build : mapping_t -> cat) (s1 s2 : text) : res (option cres) :=
  if guard then
    do m <- core xe ye;
    match m with
    | Some m' => Ok_ (Some {| rcat := if modf then other else build m'; op_string := s1; op_symbol := s2; head_is_left := false |})
    | None => Ok_ None
    end
  else Ok_ None.

Lemma slash_bar_l s : slash_ok [cBAR] s = true.
Proof. unfold slash_ok. rewrite (text_eqb_refl [cBAR]). now rewrite orb_true_r. Qed.
Lemma slash_fwd s : slash_ok [47] s = true <-> fwd s.
Proof.
  unfold slash_ok, fwd, t_fwd, t_bar. change (text_eqb [47] [cBAR]) with false. rewrite orb_false_r, orb_true_iff, !text_eqb_eq.
  unfold cBAR. split; (intros [H|H]; [left | right]); congruence.
Qed.
Lemma slash_bwd s : slash_ok [92] s = true <-> bwd s.
Proof.
  unfold slash_ok, bwd, t_bwd, t_bar. change (text_eqb [92] [cBAR]) with false. rewrite orb_false_r, orb_true_iff, !text_eqb_eq.
  unfold cBAR. split; (intros [H|H]; [left | right]); congruence.
Qed.

Ltac finish_eval :=
  unfold comb_result;
  repeat match goal with |- context [slash_ok ?p ?s] => is_var s; destruct (slash_ok p s); [|reflexivity] end;
  cbn [andb]; cbn -[core cat_xor cat_eqb subst]; rewrite ?andb_true_r;
  match goal with |- context [cat_xor ?u ?v] => destruct (cat_xor u v); [|reflexivity] end;
  match goal with |- context [core ?xe ?ye] =>
    let K := fresh "K" in set (K := core xe ye);
    repeat match goal with |- context [core ?xe' ?ye'] => change (core xe' ye') with K end;
    clearbody K; destruct K as [[m|]|e0]; try reflexivity end;
  cbn -[subst cat_eqb];
  match goal with |- context [cat_eqb ?u ?v] => destruct (cat_eqb u v); reflexivity end.
Ltac start_eval :=
  cbn [bind]; rewrite unify_linear by reflexivity;
  match goal with |- context [pbinds ?p _] => unfold p end;
  match goal with |- context [pbinds ?p _] => is_const p; unfold p end.
Ltac shape_fail := cbn [pbinds]; rewrite ?slash_bar_l; repeat match goal with |- context [slash_ok ?p ?s] => is_var s; destruct (slash_ok p s) end; reflexivity.

Notation v_a := [97] (only parsing). Notation v_b := [98] (only parsing). Notation v_c := [99] (only parsing).
Notation v_d := [100] (only parsing). Notation v_e := [101] (only parsing). Notation v_f := [102] (only parsing).

Lemma fa_eval x y : forward_application x y =
  match x with
  | Fun a s b =>
      comb_result [(v_a, a); (v_b, b)] [(v_b, y)] (slash_ok [47] s && cat_xor y b) (cat_eqb a b) y
        (fun m => subst m a) [102;97] [62]
  | _ => Ok_ None
  end.
Proof.
  unfold forward_application. start_eval.
  destruct x as [|a s b]; [reflexivity|]. cbn [pbinds app]. finish_eval.
Qed.

Lemma ba_eval x y : backward_application x y =
  match y with
  | Fun a s b' =>
      comb_result [(v_b, x)] [(v_a, a); (v_b, b')] (slash_ok [92] s && cat_xor b' x) (cat_eqb a b') x
        (fun m => subst m a) [98;97] [60]
  | _ => Ok_ None
  end.
Proof.
  unfold backward_application. start_eval.
  destruct y as [|a s b']; [reflexivity|]. cbn [pbinds app]. finish_eval.
Qed.

Lemma fc_eval x y : forward_composition x y =
  match x, y with
  | Fun a s b, Fun b' s' c =>
      comb_result [(v_a, a); (v_b, b)] [(v_b, b'); (v_c, c)] (slash_ok [47] s && slash_ok [47] s' && cat_xor b' b) (cat_eqb a b) y
        (fun m => Fun (subst m a) [47] (subst m c)) [102;99] [62;66]
  | _, _ => Ok_ None
  end.
Proof.
  unfold forward_composition. start_eval.
  destruct x as [|a s b]; [reflexivity|]. destruct y as [|b' s' c]; [shape_fail|]. cbn [pbinds app]. finish_eval.
Qed.

Lemma bx1_eval x y : generalized_backward_composition1 x y =
  match x, y with
  | Fun b s1 c, Fun a s b' =>
      comb_result [(v_b, b); (v_c, c)] [(v_a, a); (v_b, b')] (slash_ok [92] s1 && slash_ok [92] s && cat_xor b' b) (cat_eqb a b') x
        (fun m => Fun (subst m a) [92] (subst m c)) [98;120] [60;66;49]
  | _, _ => Ok_ None
  end.
Proof.
  unfold generalized_backward_composition1. start_eval.
  destruct x as [|b s1 c]; [reflexivity|]. destruct y as [|a s b']; [shape_fail|]. cbn [pbinds app]. finish_eval.
Qed.

Lemma bx2_eval x y : generalized_backward_composition2 x y =
  match x, y with
  | Fun (Fun b s1 c) s2 d, Fun a s b' =>
      comb_result [(v_b, b); (v_c, c); (v_d, d)] [(v_a, a); (v_b, b')] (slash_ok [92] s1 && slash_ok [92] s && cat_xor b' b) (cat_eqb a b') x
        (fun m => Fun (Fun (subst m a) [92] (subst m c)) s2 (subst m d)) [98;120] [60;66;50]
  | _, _ => Ok_ None
  end.
Proof.
  unfold generalized_backward_composition2. start_eval.
  destruct x as [|[|b s1 c] s2 d]; try reflexivity; [shape_fail|]. destruct y as [|a s b']; [shape_fail|].
  cbn [pbinds app]. rewrite !slash_bar_l. finish_eval.
Qed.

Lemma bx3_eval x y : generalized_backward_composition3 x y =
  match x, y with
  | Fun (Fun (Fun b s1 c) s2 d) s3 e, Fun a s b' =>
      comb_result [(v_b, b); (v_c, c); (v_d, d); (v_e, e)] [(v_a, a); (v_b, b')] (slash_ok [92] s1 && slash_ok [92] s && cat_xor b' b) (cat_eqb a b') x
        (fun m => Fun (Fun (Fun (subst m a) [92] (subst m c)) s2 (subst m d)) s3 (subst m e)) [98;120] [60;66;51]
  | _, _ => Ok_ None
  end.
Proof.
  unfold generalized_backward_composition3. start_eval.
  destruct x as [|[|[|b s1 c] s2 d] s3 e]; try reflexivity; [shape_fail|shape_fail|]. destruct y as [|a s b']; [shape_fail|].
  cbn [pbinds app]. rewrite !slash_bar_l. finish_eval.
Qed.

Lemma bx4_eval x y : generalized_backward_composition4 x y =
  match x, y with
  | Fun (Fun (Fun (Fun b s1 c) s2 d) s3 e) s4 f, Fun a s b' =>
      comb_result [(v_b, b); (v_c, c); (v_d, d); (v_e, e); (v_f, f)] [(v_a, a); (v_b, b')] (slash_ok [92] s1 && slash_ok [92] s && cat_xor b' b) (cat_eqb a b') x
        (fun m => Fun (Fun (Fun (Fun (subst m a) [92] (subst m c)) s2 (subst m d)) s3 (subst m e)) s4 (subst m f)) [98;120] [60;66;52]
  | _, _ => Ok_ None
  end.
Proof.
  unfold generalized_backward_composition4. start_eval.
  destruct x as [|[|[|[|b s1 c] s2 d] s3 e] s4 f]; try reflexivity; [shape_fail|shape_fail|shape_fail|]. destruct y as [|a s b']; [shape_fail|].
  cbn [pbinds app]. rewrite !slash_bar_l. finish_eval.
Qed.

Lemma fx1_eval x y : generalized_forward_composition1 x y =
  match x, y with
  | Fun a s b, Fun b' s' c =>
      comb_result [(v_a, a); (v_b, b)] [(v_b, b'); (v_c, c)] (slash_ok [47] s && slash_ok [92] s' && cat_xor b' b) (cat_eqb a b) y
        (fun m => Fun (subst m a) [47] (subst m c)) [102;120] [62;66;120;49]
  | _, _ => Ok_ None
  end.
Proof.
  unfold generalized_forward_composition1. start_eval.
  destruct x as [|a s b]; [reflexivity|]. destruct y as [|b' s' c]; [shape_fail|]. cbn [pbinds app]. finish_eval.
Qed.

Lemma fx2_eval x y : generalized_forward_composition2 x y =
  match x, y with
  | Fun a s b, Fun (Fun b' s' c) s2 d =>
      comb_result [(v_a, a); (v_b, b)] [(v_b, b'); (v_c, c); (v_d, d)] (slash_ok [47] s && slash_ok [92] s' && cat_xor b' b) (cat_eqb a b) y
        (fun m => Fun (Fun (subst m a) [92] (subst m c)) s2 (subst m d)) [102;120] [62;66;120;50]
  | _, _ => Ok_ None
  end.
Proof.
  unfold generalized_forward_composition2. start_eval.
  destruct x as [|a s b]; [reflexivity|]. destruct y as [|[|b' s' c] s2 d]; [shape_fail|shape_fail|].
  cbn [pbinds app]. rewrite !slash_bar_l. finish_eval.
Qed.

Lemma fx3_eval x y : generalized_forward_composition3 x y =
  match x, y with
  | Fun a s b, Fun (Fun (Fun b' s' c) s2 d) s3 e =>
      comb_result [(v_a, a); (v_b, b)] [(v_b, b'); (v_c, c); (v_d, d); (v_e, e)] (slash_ok [47] s && slash_ok [92] s' && cat_xor b' b) (cat_eqb a b) y
        (fun m => Fun (Fun (Fun (subst m a) [92] (subst m c)) s2 (subst m d)) s3 (subst m e)) [102;120] [62;66;120;51]
  | _, _ => Ok_ None
  end.
Proof.
  unfold generalized_forward_composition3. start_eval.
  destruct x as [|a s b]; [reflexivity|]. destruct y as [|[|[|b' s' c] s2 d] s3 e]; [shape_fail|shape_fail|shape_fail|].
  cbn [pbinds app]. rewrite !slash_bar_l. finish_eval.
Qed.

(* sentence sequencing: the list of root categories in the generated code is the table of the source *)
Lemma conjoin_eval x y : conjoin x y =
  Ok_ (if cat_in x ja_roots && cat_in y ja_roots
       then Some {| rcat := y; op_string := [111;116;104;101;114]; op_symbol := [83;83;69;81]; head_is_left := false |}
       else None).
Proof.
  unfold conjoin. cbn [bind].
  repeat match goal with |- context [cat_in ?u ?l] => lazymatch l with ja_roots => fail | _ => change l with ja_roots end end.
  destruct (cat_in x ja_roots); [|reflexivity]. destruct (cat_in y ja_roots); reflexivity.
Qed.
