(* C04 - the GENERATED Japanese combinators (GenJa.v) against the schemata of JaSpec.v:
   an evaluation lemma per combinator (what it computes, in terms of the comparisons `core`), then soundness,
   completeness on identical parts and absence of errors, for each combinator and for apply_binary_rules. *)
From Coq Require Import List NArith Bool Lia.
Import ListNotations.
Require Import Cat CatFacts Unify GramPrims GenTables GenJa GenJaroots JaSpec JaLemmas.
Open Scope N_scope.

(* ================= the common form of the ten unifying combinators ================= *)
Definition comb_result (xe ye : env) (guard modf : bool) (other : cat) (build : mapping_t -> cat) (s1 s2 : text) : res (option cres) :=
  if guard then
    do m <- core xe ye;
    match m with
    | Some m' => Ok_ (Some {| rcat := if modf then other else build m'; op_string := s1; op_symbol := s2; head_is_left := false |})
    | None => Ok_ None
    end
  else Ok_ None.

Lemma slash_bar_l s : slash_ok [cBAR] s = true.
Proof. unfold slash_ok. rewrite (text_eqb_refl [cBAR]). now rewrite orb_true_r. Qed.
Lemma slash_fwd s : slash_ok [47] s = true <-> fwd s.
Proof.
  unfold slash_ok, fwd, t_fwd, t_bar. change (text_eqb [47] [cBAR]) with false. rewrite orb_false_r, orb_true_iff, !text_eqb_eq.
  unfold cBAR. split; (intros [H|H]; [left | right]); congruence.
Qed.
Lemma slash_bwd s : slash_ok [92] s = true <-> bwd s.
Proof.
  unfold slash_ok, bwd, t_bwd, t_bar. change (text_eqb [92] [cBAR]) with false. rewrite orb_false_r, orb_true_iff, !text_eqb_eq.
  unfold cBAR. split; (intros [H|H]; [left | right]); congruence.
Qed.

Ltac finish_eval :=
  unfold comb_result;
  repeat match goal with |- context [slash_ok ?p ?s] => is_var s; destruct (slash_ok p s); [|reflexivity] end;
  cbn [andb]; cbn -[core cat_xor cat_eqb subst]; rewrite ?andb_true_r;
  match goal with |- context [cat_xor ?u ?v] => destruct (cat_xor u v); [|reflexivity] end;
  match goal with |- context [core ?xe ?ye] =>
    let K := fresh "K" in set (K := core xe ye);
    repeat match goal with |- context [core ?xe' ?ye'] => change (core xe' ye') with K end;
    clearbody K; destruct K as [[m|]|e0]; try reflexivity end;
  cbn -[subst cat_eqb];
  match goal with |- context [cat_eqb ?u ?v] => destruct (cat_eqb u v); reflexivity end.
Ltac start_eval :=
  cbn [bind]; rewrite unify_linear by reflexivity;
  match goal with |- context [pbinds ?p _] => unfold p end;
  match goal with |- context [pbinds ?p _] => is_const p; unfold p end.
Ltac shape_fail := cbn [pbinds]; rewrite ?slash_bar_l; repeat match goal with |- context [slash_ok ?p ?s] => is_var s; destruct (slash_ok p s) end; reflexivity.

Notation v_a := [97] (only parsing). Notation v_b := [98] (only parsing). Notation v_c := [99] (only parsing).
Notation v_d := [100] (only parsing). Notation v_e := [101] (only parsing). Notation v_f := [102] (only parsing).

Lemma fa_eval x y : forward_application x y =
  match x with
  | Fun a s b =>
      comb_result [(v_a, a); (v_b, b)] [(v_b, y)] (slash_ok [47] s && cat_xor y b) (cat_eqb a b) y
        (fun m => subst m a) [102;97] [62]
  | _ => Ok_ None
  end.
Proof.
  unfold forward_application. start_eval.
  destruct x as [|a s b]; [reflexivity|]. cbn [pbinds app]. finish_eval.
Qed.

Lemma ba_eval x y : backward_application x y =
  match y with
  | Fun a s b' =>
      comb_result [(v_b, x)] [(v_a, a); (v_b, b')] (slash_ok [92] s && cat_xor b' x) (cat_eqb a b') x
        (fun m => subst m a) [98;97] [60]
  | _ => Ok_ None
  end.
Proof.
  unfold backward_application. start_eval.
  destruct y as [|a s b']; [reflexivity|]. cbn [pbinds app]. finish_eval.
Qed.

Lemma fc_eval x y : forward_composition x y =
  match x, y with
  | Fun a s b, Fun b' s' c =>
      comb_result [(v_a, a); (v_b, b)] [(v_b, b'); (v_c, c)] (slash_ok [47] s && slash_ok [47] s' && cat_xor b' b) (cat_eqb a b) y
        (fun m => Fun (subst m a) [47] (subst m c)) [102;99] [62;66]
  | _, _ => Ok_ None
  end.
Proof.
  unfold forward_composition. start_eval.
  destruct x as [|a s b]; [reflexivity|]. destruct y as [|b' s' c]; [shape_fail|]. cbn [pbinds app]. finish_eval.
Qed.

Lemma bx1_eval x y : generalized_backward_composition1 x y =
  match x, y with
  | Fun b s1 c, Fun a s b' =>
      comb_result [(v_b, b); (v_c, c)] [(v_a, a); (v_b, b')] (slash_ok [92] s1 && slash_ok [92] s && cat_xor b' b) (cat_eqb a b') x
        (fun m => Fun (subst m a) [92] (subst m c)) [98;120] [60;66;49]
  | _, _ => Ok_ None
  end.
Proof.
  unfold generalized_backward_composition1. start_eval.
  destruct x as [|b s1 c]; [reflexivity|]. destruct y as [|a s b']; [shape_fail|]. cbn [pbinds app]. finish_eval.
Qed.

Lemma bx2_eval x y : generalized_backward_composition2 x y =
  match x, y with
  | Fun (Fun b s1 c) s2 d, Fun a s b' =>
      comb_result [(v_b, b); (v_c, c); (v_d, d)] [(v_a, a); (v_b, b')] (slash_ok [92] s1 && slash_ok [92] s && cat_xor b' b) (cat_eqb a b') x
        (fun m => Fun (Fun (subst m a) [92] (subst m c)) s2 (subst m d)) [98;120] [60;66;50]
  | _, _ => Ok_ None
  end.
Proof.
  unfold generalized_backward_composition2. start_eval.
  destruct x as [|[|b s1 c] s2 d]; try reflexivity; [shape_fail|]. destruct y as [|a s b']; [shape_fail|].
  cbn [pbinds app]. rewrite !slash_bar_l. finish_eval.
Qed.

Lemma bx3_eval x y : generalized_backward_composition3 x y =
  match x, y with
  | Fun (Fun (Fun b s1 c) s2 d) s3 e, Fun a s b' =>
      comb_result [(v_b, b); (v_c, c); (v_d, d); (v_e, e)] [(v_a, a); (v_b, b')] (slash_ok [92] s1 && slash_ok [92] s && cat_xor b' b) (cat_eqb a b') x
        (fun m => Fun (Fun (Fun (subst m a) [92] (subst m c)) s2 (subst m d)) s3 (subst m e)) [98;120] [60;66;51]
  | _, _ => Ok_ None
  end.
Proof.
  unfold generalized_backward_composition3. start_eval.
  destruct x as [|[|[|b s1 c] s2 d] s3 e]; try reflexivity; [shape_fail|shape_fail|]. destruct y as [|a s b']; [shape_fail|].
  cbn [pbinds app]. rewrite !slash_bar_l. finish_eval.
Qed.

Lemma bx4_eval x y : generalized_backward_composition4 x y =
  match x, y with
  | Fun (Fun (Fun (Fun b s1 c) s2 d) s3 e) s4 f, Fun a s b' =>
      comb_result [(v_b, b); (v_c, c); (v_d, d); (v_e, e); (v_f, f)] [(v_a, a); (v_b, b')] (slash_ok [92] s1 && slash_ok [92] s && cat_xor b' b) (cat_eqb a b') x
        (fun m => Fun (Fun (Fun (Fun (subst m a) [92] (subst m c)) s2 (subst m d)) s3 (subst m e)) s4 (subst m f)) [98;120] [60;66;52]
  | _, _ => Ok_ None
  end.
Proof.
  unfold generalized_backward_composition4. start_eval.
  destruct x as [|[|[|[|b s1 c] s2 d] s3 e] s4 f]; try reflexivity; [shape_fail|shape_fail|shape_fail|]. destruct y as [|a s b']; [shape_fail|].
  cbn [pbinds app]. rewrite !slash_bar_l. finish_eval.
Qed.

Lemma fx1_eval x y : generalized_forward_composition1 x y =
  match x, y with
  | Fun a s b, Fun b' s' c =>
      comb_result [(v_a, a); (v_b, b)] [(v_b, b'); (v_c, c)] (slash_ok [47] s && slash_ok [92] s' && cat_xor b' b) (cat_eqb a b) y
        (fun m => Fun (subst m a) [47] (subst m c)) [102;120] [62;66;120;49]
  | _, _ => Ok_ None
  end.
Proof.
  unfold generalized_forward_composition1. start_eval.
  destruct x as [|a s b]; [reflexivity|]. destruct y as [|b' s' c]; [shape_fail|]. cbn [pbinds app]. finish_eval.
Qed.

Lemma fx2_eval x y : generalized_forward_composition2 x y =
  match x, y with
  | Fun a s b, Fun (Fun b' s' c) s2 d =>
      comb_result [(v_a, a); (v_b, b)] [(v_b, b'); (v_c, c); (v_d, d)] (slash_ok [47] s && slash_ok [92] s' && cat_xor b' b) (cat_eqb a b) y
        (fun m => Fun (Fun (subst m a) [92] (subst m c)) s2 (subst m d)) [102;120] [62;66;120;50]
  | _, _ => Ok_ None
  end.
Proof.
  unfold generalized_forward_composition2. start_eval.
  destruct x as [|a s b]; [reflexivity|]. destruct y as [|[|b' s' c] s2 d]; [shape_fail|shape_fail|].
  cbn [pbinds app]. rewrite !slash_bar_l. finish_eval.
Qed.

Lemma fx3_eval x y : generalized_forward_composition3 x y =
  match x, y with
  | Fun a s b, Fun (Fun (Fun b' s' c) s2 d) s3 e =>
      comb_result [(v_a, a); (v_b, b)] [(v_b, b'); (v_c, c); (v_d, d); (v_e, e)] (slash_ok [47] s && slash_ok [92] s' && cat_xor b' b) (cat_eqb a b) y
        (fun m => Fun (Fun (Fun (subst m a) [92] (subst m c)) s2 (subst m d)) s3 (subst m e)) [102;120] [62;66;120;51]
  | _, _ => Ok_ None
  end.
Proof.
  unfold generalized_forward_composition3. start_eval.
  destruct x as [|a s b]; [reflexivity|]. destruct y as [|[|[|b' s' c] s2 d] s3 e]; [shape_fail|shape_fail|shape_fail|].
  cbn [pbinds app]. rewrite !slash_bar_l. finish_eval.
Qed.

(* sentence sequencing: the list of root categories in the generated code is the table of the source *)
Lemma conjoin_eval x y : conjoin x y =
  Ok_ (if cat_in x ja_roots && cat_in y ja_roots
       then Some {| rcat := y; op_string := [111;116;104;101;114]; op_symbol := [83;83;69;81]; head_is_left := false |}
       else None).
Proof.
  unfold conjoin. cbn [bind].
  repeat match goal with |- context [cat_in ?u ?l] => lazymatch l with ja_roots => fail | _ => change l with ja_roots end end.
  destruct (cat_in x ja_roots); [|reflexivity]. destruct (cat_in y ja_roots); reflexivity.
Qed.

(* ================= what the common form guarantees ================= *)
Section Comb.
Variables (xe ye : env) (b : text) (bx by_ : cat) (guard modf : bool) (other : cat) (build : mapping_t -> cat) (s1 s2 : text).
Hypothesis Hside : side_ok xe ye b = true.
Hypothesis Hbx : dget text_eqb b xe = Some bx.
Hypothesis Hby : dget text_eqb b ye = Some by_.
Hypothesis Hg : guard = true -> cat_xor by_ bx = true.

Lemma comb_sound r : ternary bx -> ternary by_ -> comb_result xe ye guard modf other build s1 s2 = Ok_ (Some r) ->
  guard = true /\ matches bx by_ /\ op_string r = s1 /\ op_symbol r = s2 /\ head_is_left r = false /\
  exists m, (forall c, inst (pairs bx by_) c (subst m c)) /\ rcat r = if modf then other else build m.
Proof.
  intros Tx Ty H. unfold comb_result in H. destruct guard; [|discriminate].
  assert (Hsk : skeleton bx = skeleton by_) by (symmetry; apply xor_skeleton; now apply Hg).
  destruct (core xe ye) as [[m|]|e] eqn:Ec; simpl in H; try discriminate.
  inversion H; subst r; simpl.
  destruct (core_sound xe ye b bx by_ Hside Hbx Hby Hsk m Tx Ty Ec) as [M I].
  split; [reflexivity|]. split; [exact M|]. split; [reflexivity|]. split; [reflexivity|]. split; [reflexivity|]. exists m. split; [exact I | reflexivity].
Qed.
Lemma comb_total : ternary bx -> ternary by_ -> exists o, comb_result xe ye guard modf other build s1 s2 = Ok_ o.
Proof.
  intros Tx Ty. unfold comb_result. destruct guard; [|eauto].
  assert (Hsk : skeleton bx = skeleton by_) by (symmetry; apply xor_skeleton; now apply Hg).
  destruct (core_total xe ye b bx by_ Hside Hbx Hby Hsk Tx Ty) as [[m|] ->]; simpl; eauto.
Qed.
End Comb.

Lemma comb_complete xe ye b bx guard modf other build s1 s2 :
  side_ok xe ye b = true -> dget text_eqb b xe = Some bx -> dget text_eqb b ye = Some bx -> guard = true ->
  exists m, (forall c, subst m c = c) /\
    comb_result xe ye guard modf other build s1 s2 =
    Ok_ (Some {| rcat := if modf then other else build m; op_string := s1; op_symbol := s2; head_is_left := false |}).
Proof.
  intros Hs Hx Hy ->. destruct (core_ident xe ye b bx Hs Hx Hy) as (m & Hc & Hid).
  exists m. split; [exact Hid|]. unfold comb_result. now rewrite Hc.
Qed.

Lemma result_is_of a b other res (schema : cat -> Prop) v :
  res = (if cat_eqb a b then other else v) -> schema v -> result_is a b other res schema.
Proof.
  intros -> Hs. split; intros H.
  - now rewrite (proj2 (cat_eqb_eq a b) H).
  - destruct (cat_eqb a b) eqn:E; [apply cat_eqb_eq in E; contradiction | exact Hs].
Qed.

Ltac use_comb H vb vbx vby :=
  eapply comb_sound with (b := vb) (bx := vbx) (by_ := vby) in H;
  [ | reflexivity | reflexivity | reflexivity | intros G_; repeat (apply andb_true_iff in G_ as [G_ ?]); assumption | assumption | assumption ].

(* ================= soundness, combinator by combinator ================= *)
Lemma fa_sound x y r : ternary x -> ternary y -> forward_application x y = Ok_ (Some r) -> Justified_ja r x y.
Proof.
  intros Tx Ty H. rewrite fa_eval in H. destruct x as [|a s b]; [discriminate|]. destruct Tx as [Ta Tb].
  use_comb H [98] b y. destruct H as (G & M & _ & S2 & Hd & m & Hm & Hr). apply andb_true_iff in G as [Gs _].
  eapply J_fa; [reflexivity | now apply slash_fwd | exact M | exact S2 | exact Hd |].
  eapply result_is_of; [exact Hr | apply Hm].
Qed.
Lemma ba_sound x y r : ternary x -> ternary y -> backward_application x y = Ok_ (Some r) -> Justified_ja r x y.
Proof.
  intros Tx Ty H. rewrite ba_eval in H. destruct y as [|a s b']; [discriminate|]. destruct Ty as [Ta Tb].
  use_comb H [98] x b'. destruct H as (G & M & _ & S2 & Hd & m & Hm & Hr). apply andb_true_iff in G as [Gs _].
  eapply J_ba; [reflexivity | now apply slash_bwd | exact M | exact S2 | exact Hd |].
  eapply result_is_of; [exact Hr | apply Hm].
Qed.
Lemma fc_sound x y r : ternary x -> ternary y -> forward_composition x y = Ok_ (Some r) -> Justified_ja r x y.
Proof.
  intros Tx Ty H. rewrite fc_eval in H. destruct x as [|a s b]; [discriminate|]. destruct y as [|b' s' c]; [discriminate|].
  destruct Tx as [Ta Tb]. destruct Ty as [Tb' Tc].
  use_comb H [98] b b'. destruct H as (G & M & _ & S2 & Hd & m & Hm & Hr).
  apply andb_true_iff in G as [G _]. apply andb_true_iff in G as [G1 G2].
  eapply J_fc; [reflexivity | reflexivity | now apply slash_fwd | now apply slash_fwd | exact M | exact S2 | exact Hd |].
  eapply result_is_of; [exact Hr |]. exists (subst m a), (subst m c). repeat split; apply Hm.
Qed.
Lemma fx1_sound x y r : ternary x -> ternary y -> generalized_forward_composition1 x y = Ok_ (Some r) -> Justified_ja r x y.
Proof.
  intros Tx Ty H. rewrite fx1_eval in H. destruct x as [|a s b]; [discriminate|]. destruct y as [|b' s' c]; [discriminate|].
  destruct Tx as [Ta Tb]. destruct Ty as [Tb' Tc].
  use_comb H [98] b b'. destruct H as (G & M & _ & S2 & Hd & m & Hm & Hr).
  apply andb_true_iff in G as [G _]. apply andb_true_iff in G as [G1 G2].
  eapply J_fx1; [reflexivity | reflexivity | now apply slash_fwd | now apply slash_bwd | exact M | exact S2 | exact Hd |].
  eapply result_is_of; [exact Hr |]. exists (subst m a), (subst m c). repeat split; apply Hm.
Qed.

Ltac outer_tac Hm := repeat (constructor; [split; [reflexivity | apply Hm]|]); constructor.

Lemma bx1_sound x y r : ternary x -> ternary y -> generalized_backward_composition1 x y = Ok_ (Some r) -> Justified_ja r x y.
Proof.
  intros Tx Ty H. rewrite bx1_eval in H. destruct x as [|b s1 c]; [discriminate|]. destruct y as [|a s b']; [discriminate|].
  destruct Tx as [Tb Tc]. destruct Ty as [Ta Tb'].
  use_comb H [98] b b'. destruct H as (G & M & _ & S2 & Hd & m & Hm & Hr).
  apply andb_true_iff in G as [G _]. apply andb_true_iff in G as [G1 G2].
  eapply J_bx with (o := []); [reflexivity | reflexivity | now apply slash_bwd | now apply slash_bwd | exact M | simpl; lia | exact S2 | exact Hd |].
  eapply result_is_of; [exact Hr |]. exists (subst m a), (subst m c), []. split; [apply Hm|]. split; [apply Hm|]. split; [outer_tac Hm | reflexivity].
Qed.
Lemma bx2_sound x y r : ternary x -> ternary y -> generalized_backward_composition2 x y = Ok_ (Some r) -> Justified_ja r x y.
Proof.
  intros Tx Ty H. rewrite bx2_eval in H. destruct x as [|[|b s1 c] s2 d]; try discriminate. destruct y as [|a s b']; [discriminate|].
  destruct Tx as [[Tb Tc] Td]. destruct Ty as [Ta Tb'].
  use_comb H [98] b b'. destruct H as (G & M & _ & S2 & Hd & m & Hm & Hr).
  apply andb_true_iff in G as [G _]. apply andb_true_iff in G as [G1 G2].
  eapply J_bx with (o := [(s2, d)]); [reflexivity | reflexivity | now apply slash_bwd | now apply slash_bwd | exact M | simpl; lia | exact S2 | exact Hd |].
  eapply result_is_of; [exact Hr |]. exists (subst m a), (subst m c), [(s2, subst m d)].
  split; [apply Hm|]. split; [apply Hm|]. split; [outer_tac Hm | reflexivity].
Qed.
Lemma bx3_sound x y r : ternary x -> ternary y -> generalized_backward_composition3 x y = Ok_ (Some r) -> Justified_ja r x y.
Proof.
  intros Tx Ty H. rewrite bx3_eval in H. destruct x as [|[|[|b s1 c] s2 d] s3 e]; try discriminate. destruct y as [|a s b']; [discriminate|].
  destruct Tx as [[[Tb Tc] Td] Te]. destruct Ty as [Ta Tb'].
  use_comb H [98] b b'. destruct H as (G & M & _ & S2 & Hd & m & Hm & Hr).
  apply andb_true_iff in G as [G _]. apply andb_true_iff in G as [G1 G2].
  eapply J_bx with (o := [(s2, d); (s3, e)]); [reflexivity | reflexivity | now apply slash_bwd | now apply slash_bwd | exact M | simpl; lia | exact S2 | exact Hd |].
  eapply result_is_of; [exact Hr |]. exists (subst m a), (subst m c), [(s2, subst m d); (s3, subst m e)].
  split; [apply Hm|]. split; [apply Hm|]. split; [outer_tac Hm | reflexivity].
Qed.
Lemma bx4_sound x y r : ternary x -> ternary y -> generalized_backward_composition4 x y = Ok_ (Some r) -> Justified_ja r x y.
Proof.
  intros Tx Ty H. rewrite bx4_eval in H. destruct x as [|[|[|[|b s1 c] s2 d] s3 e] s4 f]; try discriminate. destruct y as [|a s b']; [discriminate|].
  destruct Tx as [[[[Tb Tc] Td] Te] Tf]. destruct Ty as [Ta Tb'].
  use_comb H [98] b b'. destruct H as (G & M & _ & S2 & Hd & m & Hm & Hr).
  apply andb_true_iff in G as [G _]. apply andb_true_iff in G as [G1 G2].
  eapply J_bx with (o := [(s2, d); (s3, e); (s4, f)]); [reflexivity | reflexivity | now apply slash_bwd | now apply slash_bwd | exact M | simpl; lia | exact S2 | exact Hd |].
  eapply result_is_of; [exact Hr |]. exists (subst m a), (subst m c), [(s2, subst m d); (s3, subst m e); (s4, subst m f)].
  split; [apply Hm|]. split; [apply Hm|]. split; [outer_tac Hm | reflexivity].
Qed.
Lemma fx2_sound x y r : ternary x -> ternary y -> generalized_forward_composition2 x y = Ok_ (Some r) -> Justified_ja r x y.
Proof.
  intros Tx Ty H. rewrite fx2_eval in H. destruct x as [|a s b]; [discriminate|]. destruct y as [|[|b' s' c] s2 d]; try discriminate.
  destruct Tx as [Ta Tb]. destruct Ty as [[Tb' Tc] Td].
  use_comb H [98] b b'. destruct H as (G & M & _ & S2 & Hd & m & Hm & Hr).
  apply andb_true_iff in G as [G _]. apply andb_true_iff in G as [G1 G2].
  eapply J_fxn with (o := [(s2, d)]); [reflexivity | reflexivity | now apply slash_fwd | now apply slash_bwd | exact M | simpl; lia | exact S2 | exact Hd |].
  eapply result_is_of; [exact Hr |]. exists (subst m a), (subst m c), [(s2, subst m d)].
  split; [apply Hm|]. split; [apply Hm|]. split; [outer_tac Hm | reflexivity].
Qed.
Lemma fx3_sound x y r : ternary x -> ternary y -> generalized_forward_composition3 x y = Ok_ (Some r) -> Justified_ja r x y.
Proof.
  intros Tx Ty H. rewrite fx3_eval in H. destruct x as [|a s b]; [discriminate|]. destruct y as [|[|[|b' s' c] s2 d] s3 e]; try discriminate.
  destruct Tx as [Ta Tb]. destruct Ty as [[[Tb' Tc] Td] Te].
  use_comb H [98] b b'. destruct H as (G & M & _ & S2 & Hd & m & Hm & Hr).
  apply andb_true_iff in G as [G _]. apply andb_true_iff in G as [G1 G2].
  eapply J_fxn with (o := [(s2, d); (s3, e)]); [reflexivity | reflexivity | now apply slash_fwd | now apply slash_bwd | exact M | simpl; lia | exact S2 | exact Hd |].
  eapply result_is_of; [exact Hr |]. exists (subst m a), (subst m c), [(s2, subst m d); (s3, subst m e)].
  split; [apply Hm|]. split; [apply Hm|]. split; [outer_tac Hm | reflexivity].
Qed.
Lemma cat_in_In c l : cat_in c l = true <-> In c l.
Proof.
  unfold cat_in. rewrite existsb_exists. split.
  - intros [z [Hin Hz]]. apply cat_eqb_eq in Hz. now subst.
  - intros H. exists c. split; [assumption | apply cat_eqb_refl].
Qed.
Lemma conjoin_sound x y r : conjoin x y = Ok_ (Some r) -> Justified_ja r x y.
Proof.
  rewrite conjoin_eval. intros H. destruct (cat_in x ja_roots && cat_in y ja_roots) eqn:E; inversion H; subst r.
  apply andb_true_iff in E as [Ex Ey]. apply J_sseq; try reflexivity; now apply cat_in_In.
Qed.

(* ================= absence of errors, combinator by combinator ================= *)
Definition total_on (c : combinator) : Prop := forall x y, ternary x -> ternary y -> exists o, c x y = Ok_ o.

Ltac use_total vb vbx vby :=
  eapply comb_total with (b := vb) (bx := vbx) (by_ := vby);
  [ reflexivity | reflexivity | reflexivity | intros G_; repeat (apply andb_true_iff in G_ as [G_ ?]); assumption | simpl in *; tauto | simpl in *; tauto ].

Lemma fa_total : total_on forward_application.
Proof. intros x y Tx Ty. rewrite fa_eval. destruct x as [|a s b]; [eauto|]. use_total [98] b y. Qed.
Lemma ba_total : total_on backward_application.
Proof. intros x y Tx Ty. rewrite ba_eval. destruct y as [|a s b']; [eauto|]. use_total [98] x b'. Qed.
Lemma fc_total : total_on forward_composition.
Proof. intros x y Tx Ty. rewrite fc_eval. destruct x as [|a s b]; [eauto|]. destruct y as [|b' s' c]; [eauto|]. use_total [98] b b'. Qed.
Lemma bx1_total : total_on generalized_backward_composition1.
Proof. intros x y Tx Ty. rewrite bx1_eval. destruct x as [|b s1 c]; [eauto|]. destruct y as [|a s b']; [eauto|]. use_total [98] b b'. Qed.
Lemma bx2_total : total_on generalized_backward_composition2.
Proof. intros x y Tx Ty. rewrite bx2_eval. destruct x as [|[|b s1 c] s2 d]; eauto. destruct y as [|a s b']; [eauto|]. use_total [98] b b'. Qed.
Lemma bx3_total : total_on generalized_backward_composition3.
Proof. intros x y Tx Ty. rewrite bx3_eval. destruct x as [|[|[|b s1 c] s2 d] s3 e]; eauto. destruct y as [|a s b']; [eauto|]. use_total [98] b b'. Qed.
Lemma bx4_total : total_on generalized_backward_composition4.
Proof. intros x y Tx Ty. rewrite bx4_eval. destruct x as [|[|[|[|b s1 c] s2 d] s3 e] s4 f]; eauto. destruct y as [|a s b']; [eauto|]. use_total [98] b b'. Qed.
Lemma fx1_total : total_on generalized_forward_composition1.
Proof. intros x y Tx Ty. rewrite fx1_eval. destruct x as [|a s b]; [eauto|]. destruct y as [|b' s' c]; [eauto|]. use_total [98] b b'. Qed.
Lemma fx2_total : total_on generalized_forward_composition2.
Proof. intros x y Tx Ty. rewrite fx2_eval. destruct x as [|a s b]; [eauto|]. destruct y as [|[|b' s' c] s2 d]; eauto. use_total [98] b b'. Qed.
Lemma fx3_total : total_on generalized_forward_composition3.
Proof. intros x y Tx Ty. rewrite fx3_eval. destruct x as [|a s b]; [eauto|]. destruct y as [|[|[|b' s' c] s2 d] s3 e]; eauto. use_total [98] b b'. Qed.
Lemma conjoin_total : total_on conjoin.
Proof. intros x y _ _. rewrite conjoin_eval. eauto. Qed.

(* ================= the combinator loop ================= *)
Lemma collect_In cs x y : forall rs r, collect cs x y = Ok_ rs -> In r rs -> exists c, In c cs /\ c x y = Ok_ (Some r).
Proof.
  induction cs as [|c cs IH]; intros rs r H Hin; simpl in H.
  - inversion H; subst. destruct Hin.
  - destruct (c x y) as [o|e] eqn:Ec; simpl in H; [|discriminate].
    destruct (collect cs x y) as [rest|e] eqn:Er; simpl in H; [|discriminate]. inversion H; subst rs.
    destruct o as [v|].
    + destruct Hin as [<-|Hin]; [exists c; split; [now left | assumption]|].
      destruct (IH _ _ eq_refl Hin) as (c' & Hc' & E). exists c'. split; [now right | assumption].
    + destruct (IH _ _ eq_refl Hin) as (c' & Hc' & E). exists c'. split; [now right | assumption].
Qed.
Lemma collect_has cs x y : forall rs c r, collect cs x y = Ok_ rs -> In c cs -> c x y = Ok_ (Some r) -> In r rs.
Proof.
  induction cs as [|c0 cs IH]; intros rs c r H Hin Hc; simpl in H; [destruct Hin|].
  destruct (c0 x y) as [o|e] eqn:Ec; simpl in H; [|discriminate].
  destruct (collect cs x y) as [rest|e] eqn:Er; simpl in H; [|discriminate]. inversion H; subst rs.
  destruct Hin as [->|Hin].
  - rewrite Hc in Ec. inversion Ec; subst o. now left.
  - assert (In r rest) by (eapply IH; eauto). destruct o; [now right | assumption].
Qed.
Lemma collect_total cs x y : (forall c, In c cs -> exists o, c x y = Ok_ o) -> exists rs, collect cs x y = Ok_ rs.
Proof.
  induction cs as [|c cs IH]; intros H; simpl; [eauto|].
  destruct (H c (or_introl eq_refl)) as [o ->]. destruct IH as [rs ->]; [intros c' Hc'; apply H; now right|]. simpl. eauto.
Qed.

Lemma clear_features_nil c : clear_features [] c = c.
Proof. induction c as [b f | l IHl s r IHr]; simpl; [reflexivity | now rewrite IHl, IHr]. Qed.
Lemma apply_binary_rules_None x y : apply_binary_rules x y None = collect combinators x y.
Proof. unfold apply_binary_rules, apply_binary, key_clear. now rewrite !clear_features_nil. Qed.

Lemma combinators_cases (P : combinator -> Prop) :
  P forward_application -> P backward_application -> P forward_composition ->
  P generalized_backward_composition1 -> P generalized_backward_composition2 -> P generalized_backward_composition3 -> P generalized_backward_composition4 ->
  P generalized_forward_composition1 -> P generalized_forward_composition2 -> P generalized_forward_composition3 -> P conjoin ->
  forall c, In c combinators -> P c.
Proof.
  intros. unfold combinators in *. simpl in *.
  repeat match goal with H : _ \/ _ |- _ => destruct H as [<-|H]; [assumption|] end. contradiction.
Qed.

Theorem ja_sound x y rs r : ternary x -> ternary y -> apply_binary_rules x y None = Ok_ rs -> In r rs -> Justified_ja r x y.
Proof.
  intros Tx Ty H Hin. rewrite apply_binary_rules_None in H. destruct (collect_In _ _ _ _ _ H Hin) as (c & Hc & E).
  revert c Hc E. apply (combinators_cases (fun c => c x y = Ok_ (Some r) -> Justified_ja r x y)).
  - now apply fa_sound. - now apply ba_sound. - now apply fc_sound.
  - now apply bx1_sound. - now apply bx2_sound. - now apply bx3_sound. - now apply bx4_sound.
  - now apply fx1_sound. - now apply fx2_sound. - now apply fx3_sound. - apply conjoin_sound.
Qed.
Theorem ja_binary_total_None x y : ternary x -> ternary y -> exists rs, apply_binary_rules x y None = Ok_ rs.
Proof.
  intros Tx Ty. rewrite apply_binary_rules_None. apply collect_total. intros c Hc. revert c Hc.
  apply (combinators_cases (fun c => exists o, c x y = Ok_ o)).
  - now apply fa_total. - now apply ba_total. - now apply fc_total.
  - now apply bx1_total. - now apply bx2_total. - now apply bx3_total. - now apply bx4_total.
  - now apply fx1_total. - now apply fx2_total. - now apply fx3_total. - now apply conjoin_total.
Qed.

(* ================= consequences of a justification ================= *)
Lemma justified_head r x y : Justified_ja r x y -> head_is_left r = false.
Proof. intros J. destruct J; assumption. Qed.
Lemma justified_symbol r x y : Justified_ja r x y ->
  In (op_symbol r) [sym_fa; sym_ba; sym_fc; sym_bx 1; sym_bx 2; sym_bx 3; sym_bx 4; sym_fx 1; sym_fx 2; sym_fx 3; sym_sseq].
Proof.
  intros J. destruct J as [a s b _ _ _ -> | a s b _ _ _ -> | a s b b' s' c _ _ _ _ _ -> | b s c o a s' b' _ _ _ _ _ Hl -> | a s b b' s' c _ _ _ _ _ ->
                          | a s b b' s' c o _ _ _ _ _ Hl -> | _ _ ->]; simpl; try tauto.
  - destruct o as [|? [|? [|? [|? ?]]]]; simpl in *; try lia; tauto.
  - destruct o as [|? [|? [|? ?]]]; simpl in *; try lia; tauto.
Qed.

Lemma inst_feats P c c' : inst P c c' -> forall f, In f (feats c') -> In f (feats c) \/ exists g, In (f, g) P \/ In (g, f) P.
Proof.
  induction 1 as [b f NB | b f g [V HP] | l s r l' r' Hl IHl Hr IHr]; intros h Hh.
  - now left.
  - unfold feats in Hh. simpl in Hh. destruct Hh as [<-|[]]. right. exists f. tauto.
  - rewrite feats_app in *. apply in_app_or in Hh. destruct Hh as [Hh|Hh]; [destruct (IHl _ Hh) | destruct (IHr _ Hh)]; auto;
      left; apply in_or_app; auto.
Qed.
Lemma pairs_in b b' f g : In (f, g) (pairs b b') -> In f (feats b) /\ In g (feats b').
Proof. unfold pairs. intros H. split; [eapply in_combine_l | eapply in_combine_r]; eassumption. Qed.
Lemma inst_from b b' c c' : inst (pairs b b') c c' -> forall f, In f (feats c') -> In f (feats c) \/ In f (feats b) \/ In f (feats b').
Proof.
  intros H f Hf. destruct (inst_feats _ _ _ H f Hf) as [H1|[g [H1|H1]]]; [now left | |]; apply pairs_in in H1; tauto.
Qed.
Lemma feats_wrap core o : forall f, In f (feats (wrap core o)) <-> In f (feats core) \/ exists sd, In sd o /\ In f (feats (snd sd)).
Proof.
  unfold wrap. revert core. induction o as [|[s d] o IH]; intros core f; simpl.
  - split; [now left | intros [H|[sd [[] _]]]; assumption].
  - rewrite IH. rewrite feats_app, in_app_iff. simpl. split.
    + intros [[H|H]|[sd [H1 H2]]]; [now left | right; exists (s, d); auto | right; exists sd; auto].
    + intros [H|[sd [[<-|H1] H2]]]; [left; now left | left; now right | right; exists sd; auto].
Qed.
Lemma inst_outer_from b b' o o' : inst_outer (pairs b b') o o' -> forall sd' f, In sd' o' -> In f (feats (snd sd')) ->
  (exists sd, In sd o /\ In f (feats (snd sd))) \/ In f (feats b) \/ In f (feats b').
Proof.
  induction 1 as [|sd sd' o o' [_ Hi] Hr IH]; intros sd0 f Hin Hf; [destruct Hin|].
  destruct Hin as [<-|Hin].
  - destruct (inst_from _ _ _ _ Hi f Hf) as [H1|H1]; [left; exists sd; split; [now left | assumption] | now right].
  - destruct (IH _ _ Hin Hf) as [[sd1 [H1 H2]]|H1]; [left; exists sd1; split; [now right | assumption] | now right].
Qed.

Theorem justified_feats r x y : Justified_ja r x y -> forall f, In f (feats (rcat r)) -> In f (feats x) \/ In f (feats y).
Proof.
  intros J f Hf.
  destruct J as [a s b -> _ _ _ _ [R1 R2] | a s b -> _ _ _ _ [R1 R2] | a s b b' s' c -> -> _ _ _ _ _ [R1 R2]
                | b s c o a s' b' -> -> _ _ _ _ _ _ [R1 R2] | a s b b' s' c -> -> _ _ _ _ _ [R1 R2]
                | a s b b' s' c o -> -> _ _ _ _ _ _ [R1 R2] | _ _ _ _ R].
  - destruct (cat_eq_dec a b) as [E|E]; [rewrite (R1 E) in Hf; now right|].
    destruct (inst_from _ _ _ _ (R2 E) f Hf) as [H|[H|H]]; rewrite ?feats_app, ?in_app_iff; tauto.
  - destruct (cat_eq_dec a b) as [E|E]; [rewrite (R1 E) in Hf; now left|].
    destruct (inst_from _ _ _ _ (R2 E) f Hf) as [H|[H|H]]; rewrite ?feats_app, ?in_app_iff; tauto.
  - destruct (cat_eq_dec a b) as [E|E]; [rewrite (R1 E) in Hf; now right|].
    destruct (R2 E) as (a' & c' & Ia & Ic & Er). rewrite Er, feats_app, in_app_iff in Hf.
    destruct Hf as [Hf|Hf]; [destruct (inst_from _ _ _ _ Ia f Hf) as [H|[H|H]] | destruct (inst_from _ _ _ _ Ic f Hf) as [H|[H|H]]];
      rewrite ?feats_app, ?in_app_iff; tauto.
  - destruct (cat_eq_dec a b') as [E|E]; [rewrite (R1 E) in Hf; now left|].
    destruct (R2 E) as (a' & c' & o' & Ia & Ic & Io & Er). rewrite Er in Hf. apply feats_wrap in Hf. rewrite feats_wrap. rewrite !feats_app, !in_app_iff in *.
    destruct Hf as [[Hf|Hf]|[sd' [H1 H2]]].
    + destruct (inst_from _ _ _ _ Ia f Hf) as [H|[H|H]]; tauto.
    + destruct (inst_from _ _ _ _ Ic f Hf) as [H|[H|H]]; tauto.
    + destruct (inst_outer_from _ _ _ _ Io _ _ H1 H2) as [H|[H|H]]; tauto.
  - destruct (cat_eq_dec a b) as [E|E]; [rewrite (R1 E) in Hf; now right|].
    destruct (R2 E) as (a' & c' & Ia & Ic & Er). rewrite Er, feats_app, in_app_iff in Hf.
    destruct Hf as [Hf|Hf]; [destruct (inst_from _ _ _ _ Ia f Hf) as [H|[H|H]] | destruct (inst_from _ _ _ _ Ic f Hf) as [H|[H|H]]];
      rewrite ?feats_app, ?in_app_iff; tauto.
  - destruct (cat_eq_dec a b) as [E|E]; [rewrite (R1 E) in Hf; now right|].
    destruct (R2 E) as (a' & c' & o' & Ia & Ic & Io & Er). rewrite Er in Hf. apply feats_wrap in Hf. rewrite feats_wrap. rewrite !feats_app, !in_app_iff in *.
    destruct Hf as [[Hf|Hf]|[sd' [H1 H2]]].
    + destruct (inst_from _ _ _ _ Ia f Hf) as [H|[H|H]]; tauto.
    + destruct (inst_from _ _ _ _ Ic f Hf) as [H|[H|H]]; tauto.
    + destruct (inst_outer_from _ _ _ _ Io _ _ H1 H2) as [H|[H|H]]; tauto.
  - rewrite R in Hf. now right.
Qed.

(* ================= completeness on identical parts ================= *)
Definition returns (c : combinator) (x y : cat) (sym : text) (res : cat) : Prop :=
  exists r, c x y = Ok_ (Some r) /\ op_symbol r = sym /\ rcat r = res /\ head_is_left r = false.

Ltac use_complete vbx :=
  match goal with |- context [comb_result ?xe ?ye ?g ?mf ?o ?bd ?s1 ?s2] =>
    destruct (comb_complete xe ye [98] vbx g mf o bd s1 s2) as (m & Hid & Hc);
    [ reflexivity | reflexivity | reflexivity
    | rewrite !andb_true_iff; repeat split; try apply xor_refl; try (apply slash_fwd; assumption); try (apply slash_bwd; assumption)
    | rewrite Hc; eexists; split; [reflexivity|]; simpl; rewrite ?Hid; auto ] end.

Lemma fa_complete a s b : fwd s -> returns forward_application (Fun a s b) b sym_fa (if cat_eqb a b then b else a).
Proof. intros Hs. unfold returns. rewrite fa_eval. use_complete b. Qed.
Lemma ba_complete a s b : bwd s -> returns backward_application b (Fun a s b) sym_ba (if cat_eqb a b then b else a).
Proof. intros Hs. unfold returns. rewrite ba_eval. use_complete b. Qed.
Lemma fc_complete a s b s' c : fwd s -> fwd s' ->
  returns forward_composition (Fun a s b) (Fun b s' c) sym_fc (if cat_eqb a b then Fun b s' c else Fun a t_fwd c).
Proof. intros Hs Hs'. unfold returns. rewrite fc_eval. use_complete b. Qed.
Lemma fx1_complete a s b s' c : fwd s -> bwd s' ->
  returns generalized_forward_composition1 (Fun a s b) (Fun b s' c) (sym_fx 1) (if cat_eqb a b then Fun b s' c else Fun a t_fwd c).
Proof. intros Hs Hs'. unfold returns. rewrite fx1_eval. use_complete b. Qed.
Lemma fx2_complete a s b s' c s2 d : fwd s -> bwd s' ->
  returns generalized_forward_composition2 (Fun a s b) (Fun (Fun b s' c) s2 d) (sym_fx 2)
          (if cat_eqb a b then Fun (Fun b s' c) s2 d else Fun (Fun a t_bwd c) s2 d).
Proof. intros Hs Hs'. unfold returns. rewrite fx2_eval. use_complete b. Qed.
Lemma fx3_complete a s b s' c s2 d s3 e : fwd s -> bwd s' ->
  returns generalized_forward_composition3 (Fun a s b) (Fun (Fun (Fun b s' c) s2 d) s3 e) (sym_fx 3)
          (if cat_eqb a b then Fun (Fun (Fun b s' c) s2 d) s3 e else Fun (Fun (Fun a t_bwd c) s2 d) s3 e).
Proof. intros Hs Hs'. unfold returns. rewrite fx3_eval. use_complete b. Qed.
Lemma bx1_complete b s1 c a s : bwd s1 -> bwd s ->
  returns generalized_backward_composition1 (Fun b s1 c) (Fun a s b) (sym_bx 1) (if cat_eqb a b then Fun b s1 c else Fun a t_bwd c).
Proof. intros Hs Hs'. unfold returns. rewrite bx1_eval. use_complete b. Qed.
Lemma bx2_complete b s1 c s2 d a s : bwd s1 -> bwd s ->
  returns generalized_backward_composition2 (Fun (Fun b s1 c) s2 d) (Fun a s b) (sym_bx 2)
          (if cat_eqb a b then Fun (Fun b s1 c) s2 d else Fun (Fun a t_bwd c) s2 d).
Proof. intros Hs Hs'. unfold returns. rewrite bx2_eval. use_complete b. Qed.
Lemma bx3_complete b s1 c s2 d s3 e a s : bwd s1 -> bwd s ->
  returns generalized_backward_composition3 (Fun (Fun (Fun b s1 c) s2 d) s3 e) (Fun a s b) (sym_bx 3)
          (if cat_eqb a b then Fun (Fun (Fun b s1 c) s2 d) s3 e else Fun (Fun (Fun a t_bwd c) s2 d) s3 e).
Proof. intros Hs Hs'. unfold returns. rewrite bx3_eval. use_complete b. Qed.
Lemma bx4_complete b s1 c s2 d s3 e s4 f a s : bwd s1 -> bwd s ->
  returns generalized_backward_composition4 (Fun (Fun (Fun (Fun b s1 c) s2 d) s3 e) s4 f) (Fun a s b) (sym_bx 4)
          (if cat_eqb a b then Fun (Fun (Fun (Fun b s1 c) s2 d) s3 e) s4 f else Fun (Fun (Fun (Fun a t_bwd c) s2 d) s3 e) s4 f).
Proof. intros Hs Hs'. unfold returns. rewrite bx4_eval. use_complete b. Qed.
Lemma conjoin_complete x y : In x ja_roots -> In y ja_roots -> returns conjoin x y sym_sseq y.
Proof.
  intros Hx Hy. unfold returns. rewrite conjoin_eval. apply cat_in_In in Hx, Hy. rewrite Hx, Hy. simpl.
  eexists. split; [reflexivity|]. simpl. auto.
Qed.

Theorem ja_complete x y sym c : ternary x -> ternary y -> Expected_ja x y sym c ->
  exists rs r, apply_binary_rules x y None = Ok_ rs /\ In r rs /\ op_symbol r = sym /\ rcat r = c /\ head_is_left r = false.
Proof.
  intros Tx Ty E. destruct (ja_binary_total_None x y Tx Ty) as [rs Hrs]. exists rs.
  assert (K : forall c0, In c0 combinators -> returns c0 x y sym c -> exists r, apply_binary_rules x y None = Ok_ rs /\ In r rs /\ op_symbol r = sym /\ rcat r = c /\ head_is_left r = false).
  { intros c0 Hc0 (r & Hr & H1 & H2 & H3). exists r. split; [assumption|]. split; [|auto].
    rewrite apply_binary_rules_None in Hrs. eapply collect_has; eassumption. }
  assert (M : forall c0, In c0 combinators -> In c0 combinators) by auto.
  destruct E as [a s b -> -> Hs | a s b -> -> Hs | a s b s' c -> -> Hs Hs' | b s c o a s' -> -> Hs Hs' Hl
                | a s b s' c -> -> Hs Hs' | a s b s' c o -> -> Hs Hs' Hl | Hx Hy].
  - apply (K forward_application); [unfold combinators; simpl; tauto | now apply fa_complete].
  - apply (K backward_application); [unfold combinators; simpl; tauto | now apply ba_complete].
  - apply (K forward_composition); [unfold combinators; simpl; tauto | now apply fc_complete].
  - destruct o as [|[s2 d] [|[s3 e] [|[s4 f] [|? ?]]]]; simpl in Hl; try lia.
    + apply (K generalized_backward_composition1); [unfold combinators; simpl; tauto | now apply bx1_complete].
    + apply (K generalized_backward_composition2); [unfold combinators; simpl; tauto | now apply bx2_complete].
    + apply (K generalized_backward_composition3); [unfold combinators; simpl; tauto | now apply bx3_complete].
    + apply (K generalized_backward_composition4); [unfold combinators; simpl; tauto | now apply bx4_complete].
  - apply (K generalized_forward_composition1); [unfold combinators; simpl; tauto | now apply fx1_complete].
  - destruct o as [|[s2 d] [|[s3 e] [|? ?]]]; simpl in Hl; try lia.
    + apply (K generalized_forward_composition2); [unfold combinators; simpl; tauto | now apply fx2_complete].
    + apply (K generalized_forward_composition3); [unfold combinators; simpl; tauto | now apply fx3_complete].
  - apply (K conjoin); [unfold combinators; simpl; tauto | now apply conjoin_complete].
Qed.

(* ================= labels and head flag, on every input (no domain hypothesis) ================= *)
Definition labelled (s1 s2 : text) (c : combinator) : Prop :=
  forall x y r, c x y = Ok_ (Some r) -> op_string r = s1 /\ op_symbol r = s2 /\ head_is_left r = false.
Lemma comb_labels xe ye guard modf other build s1 s2 r :
  comb_result xe ye guard modf other build s1 s2 = Ok_ (Some r) -> op_string r = s1 /\ op_symbol r = s2 /\ head_is_left r = false.
Proof.
  unfold comb_result. destruct guard; [|discriminate]. destruct (core xe ye) as [[m|]|e]; simpl; try discriminate.
  intros H. inversion H. simpl. auto.
Qed.
Lemma fa_labelled : labelled [102;97] sym_fa forward_application.
Proof. intros x y r. rewrite fa_eval. destruct x; [discriminate|]. apply comb_labels. Qed.
Lemma ba_labelled : labelled [98;97] sym_ba backward_application.
Proof. intros x y r. rewrite ba_eval. destruct y; [discriminate|]. apply comb_labels. Qed.
Lemma fc_labelled : labelled [102;99] sym_fc forward_composition.
Proof. intros x y r. rewrite fc_eval. destruct x; [discriminate|]. destruct y; [discriminate|]. apply comb_labels. Qed.
Lemma bx1_labelled : labelled [98;120] (sym_bx 1) generalized_backward_composition1.
Proof. intros x y r. rewrite bx1_eval. destruct x; [discriminate|]. destruct y; [discriminate|]. apply comb_labels. Qed.
Lemma bx2_labelled : labelled [98;120] (sym_bx 2) generalized_backward_composition2.
Proof. intros x y r. rewrite bx2_eval. destruct x as [|[|] ? ?]; try discriminate. destruct y; [discriminate|]. apply comb_labels. Qed.
Lemma bx3_labelled : labelled [98;120] (sym_bx 3) generalized_backward_composition3.
Proof. intros x y r. rewrite bx3_eval. destruct x as [|[|[|] ? ?] ? ?]; try discriminate. destruct y; [discriminate|]. apply comb_labels. Qed.
Lemma bx4_labelled : labelled [98;120] (sym_bx 4) generalized_backward_composition4.
Proof. intros x y r. rewrite bx4_eval. destruct x as [|[|[|[|] ? ?] ? ?] ? ?]; try discriminate. destruct y; [discriminate|]. apply comb_labels. Qed.
Lemma fx1_labelled : labelled [102;120] (sym_fx 1) generalized_forward_composition1.
Proof. intros x y r. rewrite fx1_eval. destruct x; [discriminate|]. destruct y; [discriminate|]. apply comb_labels. Qed.
Lemma fx2_labelled : labelled [102;120] (sym_fx 2) generalized_forward_composition2.
Proof. intros x y r. rewrite fx2_eval. destruct x; [discriminate|]. destruct y as [|[|] ? ?]; try discriminate. apply comb_labels. Qed.
Lemma fx3_labelled : labelled [102;120] (sym_fx 3) generalized_forward_composition3.
Proof. intros x y r. rewrite fx3_eval. destruct x; [discriminate|]. destruct y as [|[|[|] ? ?] ? ?]; try discriminate. apply comb_labels. Qed.
Lemma conjoin_labelled : labelled [111;116;104;101;114] sym_sseq conjoin.
Proof. intros x y r. rewrite conjoin_eval. destruct (_ && _); intros H; inversion H. simpl. auto. Qed.

Theorem ja_labels x y rs r : apply_binary_rules x y None = Ok_ rs -> In r rs ->
  head_is_left r = false /\ ja_op_string (op_symbol r) = Some (op_string r).
Proof.
  intros H Hin. rewrite apply_binary_rules_None in H. destruct (collect_In _ _ _ _ _ H Hin) as (c & Hc & E).
  revert c Hc E. apply (combinators_cases (fun c => c x y = Ok_ (Some r) -> head_is_left r = false /\ ja_op_string (op_symbol r) = Some (op_string r))); intros E;
    [ apply fa_labelled in E | apply ba_labelled in E | apply fc_labelled in E | apply bx1_labelled in E | apply bx2_labelled in E
    | apply bx3_labelled in E | apply bx4_labelled in E | apply fx1_labelled in E | apply fx2_labelled in E | apply fx3_labelled in E
    | apply conjoin_labelled in E ]; destruct E as (-> & -> & ->); split; reflexivity.
Qed.
