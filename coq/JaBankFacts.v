(* Cursor facts for the model of _JaCCGLineReader, the DEPENDENCY regex on annotated category texts. *)
From Coq Require Import List NArith Bool Lia Arith.
Import ListNotations.
Require Import Cat CatFacts CatRoundTrip Tree Ptb PtbEscape JaBank.
Open Scope N_scope.

(* ---------- index_of ---------- *)
Lemma index_of_app c a r : has c a = false -> index_of c (a ++ c :: r) = Some (length a).
Proof.
  induction a as [|x a IH]; intros H.
  - cbn. now rewrite N.eqb_refl.
  - rewrite has_cons in H. apply orb_false_iff in H as [Hx Ha]. cbn [app index_of]. rewrite N.eqb_sym, Hx. now rewrite (IH Ha).
Qed.
Lemma index_of_none c a : has c a = false -> index_of c a = None.
Proof.
  induction a as [|x a IH]; intros H; [reflexivity|].
  rewrite has_cons in H. apply orb_false_iff in H as [Hx Ha]. cbn [index_of]. rewrite N.eqb_sym, Hx. now rewrite (IH Ha).
Qed.

(* ---------- the cursor on a line that is known piecewise ---------- *)
Section Cursor.
Variable line : text.

Lemma skipn_pre (pre rest : text) : line = pre ++ rest -> skipn (length pre) line = rest.
Proof. intros ->. induction pre as [|x pre IH]; [reflexivity|exact IH]. Qed.

Lemma peek_at pre c rest : line = pre ++ c :: rest -> peek line (length pre) = Some c.
Proof. intros ->. unfold peek. induction pre as [|x pre IH]; [reflexivity|exact IH]. Qed.

Lemma check_at pre c rest : line = pre ++ c :: rest -> check line c (length pre) = true.
Proof. intros H. unfold check. rewrite (peek_at pre c rest H). apply N.eqb_refl. Qed.

Lemma find_at pre a c rest : line = pre ++ a ++ c :: rest -> has c a = false ->
  find_from line c (length pre) = Some (length pre + length a)%nat.
Proof. intros H Ha. unfold find_from. rewrite (skipn_pre pre _ H). now rewrite index_of_app. Qed.

Lemma slice_at pre a rest : line = pre ++ a ++ rest -> slice line (length pre) (Some (length pre + length a)%nat) = a.
Proof.
  intros H. unfold slice. rewrite (skipn_pre pre _ H).
  replace (length pre + length a - length pre)%nat with (length a) by lia.
  rewrite firstn_app, Nat.sub_diag, firstn_all. cbn [firstn]. apply app_nil_r.
Qed.

(* self.next(c) when the next c is known *)
Lemma next_at pre a c rest : line = pre ++ a ++ c :: rest -> has c a = false ->
  next line c (length pre) = (a, length (pre ++ a ++ [c])).
Proof.
  intros H Ha. unfold next. rewrite (find_at pre a c rest H Ha). rewrite (slice_at pre a (c :: rest) H).
  f_equal. rewrite !app_length. cbn [length]. lia.
Qed.

(* the test of next_node: the text between the first character and the next blank *)
Lemma is_tree_at_spec combinators pre x a rest : line = pre ++ x :: a ++ cSP :: rest -> has cSP (x :: a) = false ->
  is_tree_at combinators line (length pre) = text_in a combinators.
Proof.
  intros H Ha. unfold is_tree_at.
  change (x :: a ++ cSP :: rest) with ((x :: a) ++ cSP :: rest) in H. rewrite (find_at pre (x :: a) cSP rest H Ha).
  assert (H' : line = (pre ++ [x]) ++ a ++ cSP :: rest) by (rewrite H; rewrite <- app_assoc; reflexivity).
  pose proof (slice_at (pre ++ [x]) a (cSP :: rest) H') as Hs.
  rewrite app_length in Hs. cbn [length] in Hs.
  replace (S (length pre)) with (length pre + 1)%nat by lia.
  replace (length pre + length (x :: a))%nat with (length pre + 1 + length a)%nat by (cbn [length]; lia).
  now rewrite Hs.
Qed.
End Cursor.

(* ---------- DEPENDENCY.sub on a category text with {..} blocks inserted ---------- *)
(* what may stand between the braces of an inserted block *)
Definition block_ok (a : text) : Prop :=
  a <> [] /\ has cRC a = false /\ has cNL a = false /\ has cSP a = false /\ has cUS a = false.

(* Annot base txt: txt is base with blocks '{' a '}' inserted at arbitrary places *)
Inductive Annot : text -> text -> Prop :=
| AN_nil : Annot [] []
| AN_char c b t : Annot b t -> Annot (c :: b) (c :: t)
| AN_block a b t : block_ok a -> Annot b t -> Annot b (cLC :: a ++ cRC :: t).

Lemma Annot_refl b : Annot b b.
Proof. induction b; constructor; assumption. Qed.

Lemma dep_close_spec a t : forall n, has cRC a = false -> has cNL a = false -> dep_close (a ++ cRC :: t) n = Some (S (n + length a)).
Proof.
  induction a as [|x a IH]; intros n H1 H2.
  - cbn. rewrite Nat.add_0_r. reflexivity.
  - rewrite has_cons in H1, H2. apply orb_false_iff in H1 as [Hx1 Ha1]. apply orb_false_iff in H2 as [Hx2 Ha2].
    cbn [app dep_close]. rewrite (N.eqb_sym x cRC), Hx1, (N.eqb_sym x cNL), Hx2. rewrite IH by assumption. cbn [length]. f_equal. lia.
Qed.

Lemma dep_sub_go_skip a t : dep_sub_go (a ++ t) (length a) = dep_sub_go t 0.
Proof. induction a as [|x a IH]; [reflexivity|exact IH]. Qed.

Lemma dep_sub_block a t : block_ok a -> dep_sub_go (cLC :: a ++ cRC :: t) 0 = dep_sub_go t 0.
Proof.
  intros (Hne & H1 & H2 & _). destruct a as [|x a]; [congruence|].
  rewrite has_cons in H1, H2. apply orb_false_iff in H1 as [Hx1 Ha1]. apply orb_false_iff in H2 as [Hx2 Ha2].
  cbn [dep_sub_go app]. change (N.eqb cLC cLC) with true. cbn iota. unfold dep_match.
  rewrite (N.eqb_sym x cNL), Hx2. rewrite dep_close_spec by assumption.
  replace (a ++ cRC :: t) with ((a ++ [cRC]) ++ t) by (rewrite <- app_assoc; reflexivity).
  replace (1 + length a)%nat with (length (a ++ [cRC])) by (rewrite app_length; cbn [length]; lia).
  apply dep_sub_go_skip.
Qed.

Lemma dep_sub_annot b t : Annot b t -> has cLC b = false -> dep_sub t = b.
Proof.
  unfold dep_sub. induction 1 as [|c b t H IH|a b t Ha H IH]; intros Hb.
  - reflexivity.
  - rewrite has_cons in Hb. apply orb_false_iff in Hb as [Hc Hb]. cbn [dep_sub_go]. rewrite N.eqb_sym, Hc. now rewrite (IH Hb).
  - rewrite dep_sub_block by assumption. now apply IH.
Qed.

Lemma Annot_has ch b t : Annot b t -> N.eqb ch cLC = false -> N.eqb ch cRC = false ->
  (forall a, block_ok a -> has ch a = false) -> has ch b = false -> has ch t = false.
Proof.
  intros H HL HR Hblk. induction H as [|c b t H IH|a b t Ha H IH]; intros Hb.
  - reflexivity.
  - rewrite has_cons in *. apply orb_false_iff in Hb as [Hc Hb]. now rewrite Hc, (IH Hb).
  - rewrite has_cons, has_app, has_cons. rewrite HL, HR, (Hblk a Ha), (IH Hb). reflexivity.
Qed.

Lemma Annot_noblank b t : Annot b t -> has cSP b = false -> has cSP t = false.
Proof. intros H. apply (Annot_has cSP b t H); [reflexivity|reflexivity|]. intros a (_ & _ & _ & Ha & _). exact Ha. Qed.
Lemma Annot_nous b t : Annot b t -> has cUS b = false -> has cUS t = false.
Proof. intros H. apply (Annot_has cUS b t H); [reflexivity|reflexivity|]. intros a (_ & _ & _ & _ & Ha). exact Ha. Qed.

Lemma Annot_same_or_brace b t : Annot b t -> t = b \/ has cLC t = true.
Proof.
  induction 1 as [|c b t H IH|a b t Ha H IH].
  - now left.
  - destruct IH as [-> | IH]; [now left|]. right. rewrite has_cons, IH. apply orb_true_r.
  - right. rewrite has_cons. now rewrite N.eqb_refl.
Qed.

Lemma Annot_length b t : Annot b t -> (length b <= length t)%nat.
Proof. induction 1 as [|c b t H IH|a b t Ha H IH]; cbn [length]; [lia|lia|]. rewrite app_length. cbn [length]. lia. Qed.

(* ---------- misc ---------- *)
Lemma has_removelast c t : has c t = false -> has c (removelast t) = false.
Proof.
  induction t as [|x t IH]; intros H; [reflexivity|]. rewrite has_cons in H. apply orb_false_iff in H as [Hx Ht].
  destruct t as [|y t]; [reflexivity|]. cbn [removelast]. rewrite has_cons, Hx. now apply IH.
Qed.
