(* _parse_ptb rejects unbalanced lines and every proper prefix of a printed line (C20, PTB half). *)
From Coq Require Import List NArith Bool Lia Arith.
Import ListNotations.
Require Import Cat CatFacts CatLex CatRoundTrip Tree Ptb PtbEscape PtbProofs.
Open Scope N_scope.

(* ---------- every accepted item list is balanced: as many opening items as closing brackets ---------- *)
Fixpoint ncat (st : list pitem) : nat :=
  match st with [] => O | PCat _ :: r => S (ncat r) | PTree _ :: r => ncat r end.

Lemma opens_cons i r : opens (i :: r) = ((if is_opener i then 1 else 0) + opens r)%nat.
Proof. unfold opens. cbn [filter]. destruct (is_opener i); reflexivity. Qed.
Lemma opens_app a b : opens (a ++ b) = (opens a + opens b)%nat.
Proof. unfold opens. now rewrite filter_app, app_length. Qed.
Lemma closers_app a b : closers (a ++ b) = (closers a + closers b)%nat.
Proof. induction a as [|i a IH]; [reflexivity|]. cbn [app closers]. rewrite IH. lia. Qed.

Section Balance.
Variable parse_cat : text -> option cat.
Variable guess : cat -> cat -> cat -> text * text * bool.
Notation run := (run parse_cat guess).
Notation closes := (closes guess).
Notation close_node := (close_node guess).
Notation reduce := (reduce guess).

Lemma pop_trees_ncat st : forall acc kids c r, pop_trees st acc = Some (kids, c, r) -> ncat st = S (ncat r).
Proof.
  induction st as [|[c0|t0] st IH]; intros acc kids c r H; cbn [pop_trees] in H.
  - discriminate.
  - inversion H; subst. reflexivity.
  - cbn [ncat]. now apply (IH _ _ _ _ H).
Qed.

Lemma close_node_ncat st st' : close_node st = Some st' -> ncat st = S (ncat st').
Proof.
  unfold Ptb.close_node. destruct (pop_trees st []) as [[[kids c] r]|] eqn:E; [|discriminate].
  apply pop_trees_ncat in E. destruct kids as [|x [|y [|z kids]]]; try discriminate.
  - intros H; inversion H; subst. exact E.
  - destruct (guess c (tcat x) (tcat y)) as [[o s] h]. intros H; inversion H; subst. exact E.
Qed.

Lemma closes_ncat k : forall st st', closes k st = Some st' -> ncat st = (k + ncat st')%nat.
Proof.
  induction k as [|k IH]; intros st st' H; cbn [Ptb.closes] in H.
  - inversion H; subst. reflexivity.
  - destruct (close_node st) as [st1|] eqn:E; [|discriminate]. apply close_node_ncat in E. apply IH in H. lia.
Qed.

Lemma reduce_ncat item st st' : reduce item st = Some st' -> ncat st = (snd (peel item) + ncat st')%nat.
Proof.
  unfold Ptb.reduce. destruct (peel item) as [core n]. destruct core as [|c0 core]; destruct n as [|k]; try discriminate.
  destruct st as [|[c|t] r]; cbn [terminal]; try discriminate.
  intros H. apply closes_ncat in H. cbn [ncat snd] in *. lia.
Qed.

Lemma run_ncat items : forall st st', run items st = Some st' -> (ncat st + opens items = closers items + ncat st')%nat.
Proof.
  induction items as [|item rest IH]; intros st st' H.
  - cbn in H. inversion H; subst. cbn. lia.
  - rewrite opens_cons. cbn [closers]. cbn [Ptb.run] in H. destruct item as [|c0 tl0]; [discriminate|].
    cbn [is_opener]. destruct (N.eqb c0 cLP).
    + destruct (parse_cat tl0) as [c|]; [|discriminate]. apply IH in H. cbn [ncat] in H. lia.
    + destruct (peel (c0 :: tl0)) as [core n] eqn:Ep. destruct n as [|k]; [discriminate|].
      destruct (reduce (c0 :: tl0) st) as [st1|] eqn:Er; [|discriminate].
      apply reduce_ncat in Er. rewrite Ep in Er. apply IH in H. cbn [snd] in *. lia.
Qed.

Theorem read_items_balanced items t : read_items parse_cat guess items = Some t -> opens items = closers items.
Proof.
  unfold read_items, finish. destruct (run items []) as [st|] eqn:E; [|discriminate].
  destruct st as [|[c|t0] [|x st]]; try discriminate. intros _. apply run_ncat in E. cbn [ncat] in E. lia.
Qed.

Corollary unbalanced_rejected items : opens items <> closers items -> read_items parse_cat guess items = None.
Proof. intros H. destruct (read_items parse_cat guess items) eqn:E; [|reflexivity]. apply read_items_balanced in E. congruence. Qed.

Corollary read_line_balanced line t : read_line parse_cat guess line = Some t -> opens (line_items line) = closers (line_items line).
Proof. unfold read_line. destruct (prefixb t_ROOT line); [apply read_items_balanced|discriminate]. Qed.

(* an empty item (two blanks in a row, a trailing blank) is an error *)
Lemma run_empty_item a b : forall st, run (a ++ [] :: b) st = None.
Proof.
  induction a as [|item a IH]; intros st; [reflexivity|]. cbn [app Ptb.run].
  destruct item as [|c0 tl0]; [reflexivity|]. destruct (N.eqb c0 cLP).
  - destruct (parse_cat tl0); [apply IH|reflexivity].
  - destruct (peel (c0 :: tl0)) as [core [|k]]; [reflexivity|]. destruct (reduce (c0 :: tl0) st); [apply IH|reflexivity].
Qed.
End Balance.

(* ---------- counting on a printed line ---------- *)
Fixpoint nodes (t : tree) : nat :=
  match t with Leaf _ _ _ _ => 1%nat | Un _ _ _ t1 => S (nodes t1) | Bin _ _ _ _ l r => S (nodes l + nodes r) end.

Lemma repeat_app_inv {A} (c : A) n : forall l y, l ++ y = repeat c n -> l = repeat c (length l) /\ (length l + length y = n)%nat.
Proof.
  induction n as [|n IH]; intros l y H; cbn [repeat] in H.
  - apply app_eq_nil in H as [-> ->]. split; reflexivity.
  - destruct l as [|x l]; cbn [app] in H.
    + split; [reflexivity|]. subst y. cbn [length]. now rewrite repeat_length.
    + inversion H; subst x. destruct (IH l y H2) as [Hl Hn]. split; [cbn [length repeat]; now f_equal | cbn [length]; lia].
Qed.

(* a closing item: not an opener, and it carries exactly its k brackets *)
Lemma closer_item w k : w <> [] -> is_opener (esc_word w ++ rp k) = false /\ snd (peel (esc_word w ++ rp k)) = k.
Proof.
  intros Hne. pose proof (esc_word_nonnil w Hne) as Hen. destruct (esc_word_no_paren w) as [HnoL HnoR].
  split; [|now rewrite peel_core].
  destruct (esc_word w) as [|c0 e]; [congruence|]. cbn [app is_opener].
  rewrite has_cons in HnoL. apply orb_false_iff in HnoL as [H _]. now rewrite N.eqb_sym.
Qed.

(* a proper prefix of a closing item carries fewer brackets *)
Lemma peel_prefix_closer e j x y : has cRP e = false -> e <> [] -> x ++ y = e ++ rp (S j) -> y <> [] -> (snd (peel x) <= j)%nat.
Proof.
  intros He Hne H Hy. apply app_eq_app in H as [l [[Hx Hl] | [Hx Hl]]].
  - symmetry in Hl. apply repeat_app_inv in Hl as [Hl Hn].
    assert (length y <> 0)%nat by (destruct y; [congruence|cbn; lia]).
    subst x. rewrite Hl. fold (rp (length l)). rewrite peel_core by assumption. cbn [snd]. lia.
  - subst e. apply has_false_app in He as [Hx _]. rewrite peel_noclose by assumption. cbn. lia.
Qed.

Section Prefix.
Variable puncts : list text.
Notation wf_ptb := (wf_ptb puncts).

Lemma items_count t : wf_ptb t -> forall k, opens (items t k) = nodes t /\ closers (items t k) = (nodes t + k)%nat.
Proof.
  induction t as [c tok ops sym | c ops sym t1 IH | c ops sym hl l IHl r IHr]; cbn [wf_ptb]; intros Hwf k; cbn [items nodes].
  - destruct Hwf as (_ & w & Hw & Hne & _). rewrite (leaf_word_of tok w Hw).
    destruct (closer_item w (S k) Hne) as [Ho Hp]. rewrite !opens_cons. cbn [closers is_opener]. rewrite N.eqb_refl, Ho, Hp.
    cbn. split; lia.
  - destruct Hwf as (_ & Ht). destruct (IH Ht (S k)) as [Ho Hc]. rewrite opens_cons. cbn [closers is_opener]. rewrite N.eqb_refl, Ho, Hc.
    split; lia.
  - destruct Hwf as (_ & Hl & Hr). destruct (IHl Hl O) as [Hol Hcl]. destruct (IHr Hr (S k)) as [Hor Hcr].
    rewrite opens_cons. cbn [closers is_opener]. rewrite N.eqb_refl, opens_app, closers_app, Hol, Hcl, Hor, Hcr. split; lia.
Qed.

(* the Dyck property: before the last item, strictly more is opened than closed *)
Lemma items_prefix t : wf_ptb t -> forall k p q, items t k = p ++ q -> p <> [] -> q <> [] -> (closers p < opens p)%nat.
Proof.
  induction t as [c tok ops sym | c ops sym t1 IH | c ops sym hl l IHl r IHr]; cbn [wf_ptb]; intros Hwf k p q E Hp Hq.
  - cbn [items] in E. destruct p as [|x p]; [congruence|]. destruct p as [|x2 p].
    + cbn [app] in E. inversion E; subst. rewrite opens_cons. cbn [closers is_opener]. rewrite N.eqb_refl. cbn. lia.
    + exfalso. cbn [app] in E. injection E as E1 E2 E3. destruct q as [|q0 q]; [congruence|]. destruct p; discriminate.
  - destruct Hwf as (_ & Ht). cbn [items] in E. destruct p as [|x p]; [congruence|]. cbn [app] in E. injection E as E1 E2. subst x.
    rewrite opens_cons. cbn [closers is_opener]. rewrite N.eqb_refl. destruct p as [|x2 p]; [cbn; lia|].
    pose proof (IH Ht (S k) (x2 :: p) q E2 ltac:(discriminate) Hq). lia.
  - destruct Hwf as (_ & Hl & Hr). cbn [items] in E. destruct p as [|x p]; [congruence|]. cbn [app] in E. injection E as E1 E2. subst x.
    rewrite opens_cons. cbn [closers is_opener]. rewrite N.eqb_refl.
    destruct (items_count l Hl O) as [Hol Hcl].
    apply app_eq_app in E2 as [l2 [[Hx Hy] | [Hx Hy]]].
    + (* p stays in the left subtree *) destruct p as [|x2 p]; [cbn; lia|].
      destruct l2 as [|z l2].
      * rewrite app_nil_r in Hx. rewrite <- Hx, Hol, Hcl. lia.
      * pose proof (IHl Hl O (x2 :: p) (z :: l2) Hx ltac:(discriminate) ltac:(discriminate)). lia.
    + (* p reaches into the right subtree *) subst p. rewrite opens_app, closers_app, Hol, Hcl.
      destruct l2 as [|z l2]; [cbn; lia|].
      pose proof (IHr Hr (S k) (z :: l2) q Hy ltac:(discriminate) Hq). lia.
Qed.

Lemma items_prefix_weak t : wf_ptb t -> forall p q, items t 0 = p ++ q -> (closers p <= opens p)%nat.
Proof.
  intros Hwf p q E. destruct p as [|x p]; [cbn; lia|]. destruct q as [|y q].
  - rewrite app_nil_r in E. rewrite <- E. destruct (items_count t Hwf O) as [-> ->]. lia.
  - pose proof (items_prefix t Hwf O (x :: p) (y :: q) E ltac:(discriminate) ltac:(discriminate)). lia.
Qed.

(* every item is an opening item or a closing item *)
Definition item_shape (x : text) : Prop :=
  is_opener x = true \/ exists w j, x = esc_word w ++ rp (S j) /\ w <> [].
Lemma items_shape t : wf_ptb t -> forall k, Forall item_shape (items t k).
Proof.
  induction t as [c tok ops sym | c ops sym t1 IH | c ops sym hl l IHl r IHr]; cbn [wf_ptb]; intros Hwf k; cbn [items].
  - destruct Hwf as (_ & w & Hw & Hne & _). rewrite (leaf_word_of tok w Hw).
    constructor; [left; reflexivity|]. constructor; [|constructor]. right. now exists w, k.
  - destruct Hwf as (_ & Ht). constructor; [left; reflexivity | now apply IH].
  - destruct Hwf as (_ & Hl & Hr). constructor; [left; reflexivity|]. apply Forall_app; split; [now apply IHl | now apply IHr].
Qed.

Lemma items_first t k : exists c rest, items t k = (cLP :: show c) :: rest.
Proof. destruct t; cbn [items]; eexists; eexists; reflexivity. Qed.
End Prefix.

(* ---------- a character prefix of a blank-joined text, as items ---------- *)
Lemma prefix_join c : forall xs content q,
  Forall (fun x => has c x = false) xs -> xs <> [] -> content ++ q = join [c] xs ->
  exists p x y rest, xs = p ++ (x ++ y) :: rest /\ split_on c content [] = p ++ [x] /\ (y = [] -> rest = [] -> q = []).
Proof.
  induction xs as [|x0 xs IH]; intros content q Hall Hne E; [congruence|].
  apply Forall_cons_iff in Hall as [Hx0 Hxs]. destruct xs as [|x1 xs].
  - cbn [join] in E. exists [], content, q, []. subst x0. apply has_false_app in Hx0 as [Hc _].
    split; [reflexivity|]. split; [now rewrite split_on_nochar | intros -> _; reflexivity].
  - rewrite join_cons in E by discriminate. cbn [app] in E.
    apply app_eq_app in E as [l [[Hc Hq] | [Hc Hq]]].
    + (* content = x0 ++ l *)
      destruct l as [|c0 l].
      * rewrite app_nil_r in Hc. subst content. exists [], x0, [], (x1 :: xs). rewrite app_nil_r.
        split; [reflexivity|]. split; [now rewrite split_on_nochar | intros _ Hr; discriminate].
      * cbn [app] in Hq. injection Hq as Hc0 Hq'. subst c0.
        destruct (IH l q Hxs ltac:(discriminate) (eq_sym Hq')) as (p & x & y & rest & Hxs' & Hsp & Hlast).
        exists (x0 :: p), x, y, rest. split; [cbn [app]; now rewrite Hxs'|]. split; [|exact Hlast].
        subst content. rewrite split_on_app by assumption. cbn [rev app]. now rewrite Hsp.
    + (* content is a prefix of x0 *)
      exists [], content, l, (x1 :: xs). subst x0. apply has_false_app in Hx0 as [Hc0 _].
      split; [reflexivity|]. split; [now rewrite split_on_nochar | intros _ Hr; discriminate].
Qed.

Section Reject.
Variable puncts : list text.
Variable parse_cat : text -> option cat.
Variable guess : cat -> cat -> cat -> text * text * bool.
Notation wf_ptb := (wf_ptb puncts).

(* the characters between '(ROOT ' and the last ')' : every proper prefix of them is rejected *)
Lemma body_prefix_rejected t : wf_ptb t -> forall content q,
  content ++ q = join [cSP] (items t 0) -> q <> [] -> read_items parse_cat guess (split_on cSP content []) = None.
Proof.
  intros Hwf content q E Hq.
  destruct (prefix_join cSP (items t 0) content q (items_noblank puncts t O Hwf) (items_nonnil t O) E) as (p & x & y & rest & Hit & Hsp & Hlast).
  rewrite Hsp. destruct x as [|c0 x'].
  - (* the prefix ends with a blank, or is empty: an empty item *)
    unfold read_items. now rewrite run_empty_item.
  - apply unbalanced_rejected. rewrite opens_app, closers_app. rewrite opens_cons. cbn [closers opens filter length].
    assert (Hproper : y <> [] \/ rest <> []).
    { destruct y as [|y0 y]; [|left; discriminate]. destruct rest as [|r0 rest]; [|right; discriminate]. exfalso. now apply Hq, Hlast. }
    destruct (is_opener (c0 :: x')) eqn:Eo.
    + (* a (possibly cut) opening item *)
      destruct p as [|p0 p]; [cbn; lia|].
      pose proof (items_prefix puncts t Hwf O (p0 :: p) (((c0 :: x') ++ y) :: rest) Hit ltac:(discriminate) ltac:(discriminate)). lia.
    + (* a (possibly cut) closing item *)
      pose proof (items_shape puncts t Hwf O) as Hsh. rewrite Hit in Hsh. apply Forall_app in Hsh as [_ Hsh].
      apply Forall_cons_iff in Hsh as [Hsh _]. destruct Hsh as [Hop | (w & j & Hw & Hne)].
      { cbn [app is_opener] in Hop. cbn [is_opener] in Eo. congruence. }
      destruct y as [|y0 y].
      * (* the whole closing item, but not the last one *)
        destruct rest as [|r0 rest]; [destruct Hproper; congruence|].
        rewrite app_nil_r in Hit.
        assert (Hit' : items t 0 = (p ++ [c0 :: x']) ++ r0 :: rest) by (rewrite <- app_assoc; exact Hit).
        pose proof (items_prefix puncts t Hwf O _ _ Hit' ltac:(intros E0; apply app_eq_nil in E0 as [_ E0]; discriminate) ltac:(discriminate)) as Hlt.
        rewrite opens_app, closers_app, opens_cons in Hlt. cbn [closers opens filter length] in Hlt. rewrite Eo in Hlt. lia.
      * (* a closing item cut short *)
        destruct (esc_word_no_paren w) as [_ HnoR].
        pose proof (peel_prefix_closer (esc_word w) j (c0 :: x') (y0 :: y) HnoR (esc_word_nonnil w Hne) Hw ltac:(discriminate)) as Hm.
        assert (Hit' : items t 0 = (p ++ [(c0 :: x') ++ y0 :: y]) ++ rest) by (rewrite <- app_assoc; exact Hit).
        pose proof (items_prefix_weak puncts t Hwf _ _ Hit') as Hle.
        rewrite opens_app, closers_app, opens_cons in Hle. cbn [closers opens filter length] in Hle.
        destruct (closer_item w (S j) Hne) as [Ho Hp]. rewrite <- Hw in Ho, Hp. rewrite Ho, Hp in Hle. lia.
Qed.

Lemma removelast_prefix {A} (p q s : list A) (x : A) : p ++ q = s ++ [x] -> q <> [] -> s <> [] ->
  exists q', removelast p ++ q' = s /\ q' <> [].
Proof.
  intros E Hq Hs. destruct (exists_last Hq) as (q0 & z & ->).
  rewrite app_assoc in E. apply app_inj_tail in E as [E _].
  destruct p as [|a0 p0].
  - exists s. split; [reflexivity|assumption].
  - destruct (@exists_last _ (a0 :: p0) ltac:(discriminate)) as (pp & a & Ep). rewrite Ep in *.
    rewrite removelast_last. exists (a :: q0). split; [now rewrite <- E, <- app_assoc | discriminate].
Qed.

(* every proper prefix (character granularity) of a printed line is rejected *)
Theorem print_prefix_rejected t line : wf_ptb t -> print_ptb t = Some line ->
  forall p q, line = p ++ q -> q <> [] -> read_line parse_cat guess p = None.
Proof.
  intros Hwf Hline p q E Hq.
  destruct (ptb_rec_items puncts t Hwf) as (s & Hs & Hj). unfold print_ptb in Hline. rewrite Hs in Hline. injection Hline as Hline. rewrite <- Hline in E. clear Hline line.
  unfold read_line. destruct (prefixb t_ROOT p) eqn:Epre; [|reflexivity].
  apply prefixb_split in Epre as [p' ->]. rewrite <- app_assoc in E.
  change (t_ROOT ++ (s ++ [cRP]) = t_ROOT ++ (p' ++ q)) in E. apply app_inv_head in E.
  unfold line_items. change (skipn 6 (t_ROOT ++ p')) with p'.
  specialize (Hj O). cbn [rp repeat] in Hj. rewrite app_nil_r in Hj.
  assert (Hsne : s <> []).
  { intros ->. symmetry in Hj. destruct (items_first t O) as (c & rest & Hi). rewrite Hi in Hj.
    destruct rest; cbn in Hj; discriminate. }
  destruct (removelast_prefix p' q s cRP (eq_sym E) Hq Hsne) as (q' & Hcut & Hq').
  rewrite Hj in Hcut. now apply (body_prefix_rejected t Hwf _ q').
Qed.
End Reject.
