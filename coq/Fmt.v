(* C07 - output formats of depccg.printer: a format-independent view of a derivation, the encoders
   conll (printer/conll.py), json (printer/my_json.py), auto_extended (printer/auto.py), the batch numbering of
   printer/__init__.py:to_string / xml_of / to_jigg_xml / to_prolog_* / to_mathml, and independent decoders.
   MODEL ONLY - no proofs here.  Python exceptions are explicit: None = KeyError (a token without 'word'),
   IndexError (empty batch) or a failed assert.
   The readers of auto / ptb / ja / xml / jigg_xml are modelled in Auto*.v, Ptb*.v, JaBank*.v, Xml*.v (C08, C20, C15). *)
From Coq Require Import List NArith ZArith Bool Arith String Ascii.
Import ListNotations.
Require Import Cat Tree GenTables.
Open Scope N_scope.

(* ---------- text helpers ---------- *)
Definition T (s : string) : text := map N_of_ascii (list_ascii_of_string s).
Arguments T s%string.

(* sep.join(xs) *)
Fixpoint join (sep : text) (xs : list text) : text :=
  match xs with
  | [] => []
  | [x] => x
  | x :: r => x ++ sep ++ join sep r
  end.

(* str(n) for a non-negative integer *)
Fixpoint digits (fuel : nat) (n : N) (acc : text) : text :=
  match fuel with
  | O => acc
  | S f => let acc' := (48 + N.modulo n 10) :: acc in
           if N.eqb (N.div n 10) 0 then acc' else digits f (N.div n 10) acc'
  end.
Definition show_N (n : N) : text := digits (S (N.size_nat n)) n [].
Definition show_nat (n : nat) : text := show_N (N.of_nat n).

Fixpoint assoc (k : text) (tbl : list (text * text)) : option text :=
  match tbl with [] => None | (k', v) :: r => if text_eqb k k' then Some v else assoc k r end.

(* word.replace(pat, by) for a one-character pattern; None = a pattern this model does not cover *)
Definition replace_pat (pat by_ : text) (w : text) : option text :=
  match pat with
  | [c] => Some (flat_map (fun x => if N.eqb x c then by_ else [x]) w)
  | _ => None
  end.

(* utils.denormalize: the if-chain (GenTables.denormalize_table), then the .replace chain (GenTables.denormalize_replace) *)
Definition denormalize (w : text) : option text :=
  match assoc w denormalize_table with
  | Some r => Some r
  | None => fold_left (fun acc pr => match acc with Some x => replace_pat (fst pr) (snd pr) x | None => None end)
                      denormalize_replace (Some w)
  end.

(* Category.parse on the tables of the source *)
Definition parse_cat (t : text) : option cat := Cat.parse_toks puncts (Cat.lex specials t).

(* constants *)
Definition s_openL : text := Eval vm_compute in T "(<L".
Definition s_openT : text := Eval vm_compute in T "(<T".
Definition s_closeL : text := Eval vm_compute in T ">)".
Definition s_rp : text := Eval vm_compute in T ")".
Definition s_sp_rp : text := Eval vm_compute in T " )".
Definition s_one_gt : text := Eval vm_compute in T "1>".
Definition s_two_gt : text := Eval vm_compute in T "2>".
Definition s_us : text := Eval vm_compute in T "_".
Definition s_tab : text := [9].
Definition s_nl : text := [10].
Definition k_cat : text := Eval vm_compute in T "cat".
Definition k_type : text := Eval vm_compute in T "type".
Definition k_children : text := Eval vm_compute in T "children".
Definition k_log_prob : text := Eval vm_compute in T "log_prob".
Definition head_digit (hl : bool) : text := if hl then [48] else [49].     (* 0 if node.head_is_left else 1 *)

(* ---------- the format-independent view ---------- *)
(* L = what a format shows of a leaf's token.  A format that does not carry rule labels has lab = [],
   one that does not carry head flags has hl = true everywhere. *)
Inductive view (L : Type) : Type :=
| VLeaf (c : cat) (x : L)
| VUn (c : cat) (lab : text) (v : view L)
| VBin (c : cat) (lab : text) (hl : bool) (l r : view L).
Arguments VLeaf {L} c x.
Arguments VUn {L} c lab v.
Arguments VBin {L} c lab hl l r.

Fixpoint vmap {L M : Type} (f : L -> M) (v : view L) : view M :=
  match v with
  | VLeaf c x => VLeaf c (f x)
  | VUn c lab v1 => VUn c lab (vmap f v1)
  | VBin c lab hl l r => VBin c lab hl (vmap f l) (vmap f r)
  end.
Fixpoint vleaves {L : Type} (v : view L) : list (cat * L) :=
  match v with VLeaf c x => [(c, x)] | VUn _ _ v1 => vleaves v1 | VBin _ _ _ l r => vleaves l ++ vleaves r end.
Definition vcat {L : Type} (v : view L) : cat := match v with VLeaf c _ => c | VUn c _ _ => c | VBin c _ _ _ _ => c end.
(* shape + categories only: what all eleven formats have in common *)
Fixpoint skeleton_of {L : Type} (v : view L) : view unit :=
  match v with
  | VLeaf c _ => VLeaf c tt
  | VUn c _ v1 => VUn c [] (skeleton_of v1)
  | VBin c _ _ l r => VBin c [] true (skeleton_of l) (skeleton_of r)
  end.

(* projection of a derivation: which label (op_string / op_symbol / none) and whether head flags are carried *)
Inductive label_kind := LabNone | LabString | LabSymbol.
Definition pick_label (k : label_kind) (ops sym : text) : text :=
  match k with LabNone => [] | LabString => ops | LabSymbol => sym end.
Fixpoint project {L : Type} (leaf : token -> option L) (k : label_kind) (heads : bool) (t : tree) : option (view L) :=
  match t with
  | Leaf c tok _ _ => match leaf tok with Some x => Some (VLeaf c x) | None => None end
  | Un c ops sym t1 => match project leaf k heads t1 with Some v => Some (VUn c (pick_label k ops sym) v) | None => None end
  | Bin c ops sym hl l r =>
      match project leaf k heads l, project leaf k heads r with
      | Some a, Some b => Some (VBin c (pick_label k ops sym) (if heads then hl else true) a b)
      | _, _ => None
      end
  end.
Definition tree_skeleton (t : tree) : option (view unit) := project (fun _ => Some tt) LabNone false t.

(* what each format carries of a leaf (word spelling, token fields), of a node (label kind, head flag):
     auto           denormalized word, pos (default POS)                     no label     head flags
     auto_extended  denormalized word, lemma pos entity chunk (default XX)  op_string    head flags
     conll          rows: denormalized word, lemma pos (default _), head     (fragments = auto with pos default _)
     json / xml     all token items in order                                 op_string    -
     jigg_xml       token items (word->surf, lemma->base), begin/end         op_string (en) / op_symbol (ja)
     ptb            word with ( ) written -LRB- -RRB-                        -            -
     ja             normalized word, joined pos / inflection                 op_symbol    -
     deriv          word, span                                               op_symbol    -
     html           word (html-escaped)                                      op_string    -
     prolog         word, lemma pos chunk entity / surf base pos infl        functor      -          *)

(* ---------- auto_extended (printer/auto.py: auto_extended_of) ---------- *)
Definition tok5 : Type := (text * text * text * text * text)%type.   (* word lemma pos entity chunk *)
Definition leaf5 (tok : token) : option tok5 :=
  match leaf_word tok with
  | None => None                                    (* KeyError: 'word' *)
  | Some w =>
      match denormalize w with
      | None => None
      | Some w' => Some (w', tok_get_default k_lemma s_XX tok, tok_get_default k_pos s_XX tok,
                         tok_get_default k_entity s_XX tok, tok_get_default k_chunk s_XX tok)
      end
  end.
Definition view_autox (t : tree) : option (view tok5) := project leaf5 LabString true t.

(* the blank-separated fields of the line *)
Fixpoint autox_fields (t : tree) : option (list text) :=
  match t with
  | Leaf c tok _ _ =>
      match leaf5 tok with
      | None => None
      | Some (w, le, po, en, ch) => Some [s_openL; show c; w; le; po; en; ch; show c ++ s_closeL]
      end
  | Un c ops _ t1 =>
      match autox_fields t1 with
      | None => None
      | Some f1 => Some ([s_openT; show c; ops; head_digit true; s_one_gt] ++ f1 ++ [s_rp])   (* a unary node keeps the default head_is_left=True *)
      end
  | Bin c ops _ hl l r =>
      match autox_fields l, autox_fields r with
      | Some f1, Some f2 => Some ([s_openT; show c; ops; head_digit hl; s_two_gt] ++ f1 ++ f2 ++ [s_rp])
      | _, _ => None
      end
  end.
Definition print_autox (t : tree) : option text := option_map (join [cSP]) (autox_fields t).

(* independent reader of the fields *)
Definition strip_suffix2 (a b : N) (f : text) : option text :=
  match rev f with
  | y :: x :: r => if N.eqb x a && N.eqb y b then Some (rev r) else None
  | _ => None
  end.
Definition read_head (f : text) : option bool :=
  match f with [48] => Some true | [49] => Some false | _ => None end.

Fixpoint dec_ax (fuel : nat) (fs : list text) : option (view tok5 * list text) :=
  match fuel with
  | O => None
  | S n =>
    match fs with
    | tag :: c1 :: rest =>
        if text_eqb tag s_openL then
          match rest with
          | w :: le :: po :: en :: ch :: c2 :: rest' =>
              match parse_cat c1, strip_suffix2 62 41 c2 with
              | Some c, Some c2' => if text_eqb c1 c2' then Some (VLeaf c (w, le, po, en, ch), rest') else None
              | _, _ => None
              end
          | _ => None
          end
        else if text_eqb tag s_openT then
          match rest with
          | lab :: hd :: nc :: rest' =>
              match parse_cat c1, read_head hd with
              | Some c, Some hl =>
                  if text_eqb nc s_one_gt then
                    match dec_ax n rest' with
                    | Some (v, cl :: rest'') => if text_eqb cl s_rp then Some (VUn c lab v, rest'') else None
                    | _ => None
                    end
                  else if text_eqb nc s_two_gt then
                    match dec_ax n rest' with
                    | Some (l, r1) =>
                        match dec_ax n r1 with
                        | Some (r, cl :: r2) => if text_eqb cl s_rp then Some (VBin c lab hl l r, r2) else None
                        | _ => None
                        end
                    | None => None
                    end
                  else None
              | _, _ => None
              end
          | _ => None
          end
        else None
    | _ => None
    end
  end.
Definition dec_autox_fields (fs : list text) : option (view tok5) :=
  match dec_ax (List.length fs) fs with Some (v, []) => Some v | _ => None end.
(* the line itself: split on U+0020 *)
Definition dec_autox (line : text) : option (view tok5) := dec_autox_fields (split_on cSP line []).

(* ---------- conll (printer/conll.py) ---------- *)
(* results[i] = v;  None = IndexError *)
Fixpoint set_nth {A : Type} (i : nat) (v : A) (l : list A) : option (list A) :=
  match l, i with
  | [], _ => None
  | _ :: r, O => Some (v :: r)
  | x :: r, S j => match set_nth j v r with Some r' => Some (x :: r') | None => None end
  end.

(* _resolve_dependencies.rec with the list `results` threaded; returns the new list and the head index *)
Fixpoint resolve (t : tree) (res : list Z) : option (list Z * nat) :=
  match t with
  | Leaf _ _ _ _ => Some (res ++ [(-1)%Z], List.length res)
  | Un _ _ _ t1 => resolve t1 res
  | Bin _ _ _ hl l r =>
      match resolve l res with
      | None => None
      | Some (r1, lh) =>
          match resolve r r1 with
          | None => None
          | Some (r2, rh) =>
              if hl then match set_nth rh (Z.of_nat lh) r2 with Some r3 => Some (r3, lh) | None => None end
              else match set_nth lh (Z.of_nat rh) r2 with Some r3 => Some (r3, rh) | None => None end
          end
      end
  end.
Definition count_root (l : list Z) : nat := List.length (filter (Z.eqb (-1)) l).
(* _resolve_dependencies: the assert is the `exactly one -1` test *)
Definition resolve_dependencies (t : tree) : option (list Z) :=
  match resolve t [] with
  | Some (res, _) => if Nat.eqb (count_root res) 1 then Some res else None
  | None => None
  end.
(* the head column: dependencies[i] + 1 *)
Definition deps_of (t : tree) : option (list nat) :=
  option_map (map (fun d => Z.to_nat (d + 1))) (resolve_dependencies t).

Record row := mkrow { r_idx : nat; r_word : text; r_lemma : text; r_pos : text; r_head : nat; r_cat : cat; r_frag : text }.

Definition leaf_frag (c : cat) (pos w : text) : text :=
  join [cSP] [s_openL; show c; pos; pos; w; show c ++ s_closeL].
Definition node_open (c : cat) (hl : bool) (n : text) : text :=
  join [cSP] [s_openT; show c; head_digit hl; n].
Fixpoint app_last_frag (s : text) (rows : list row) : list row :=
  match rows with
  | [] => []
  | [r] => [mkrow (r_idx r) (r_word r) (r_lemma r) (r_pos r) (r_head r) (r_cat r) (r_frag r ++ s)]
  | r :: rest => r :: app_last_frag s rest
  end.

(* conll_of.rec: `stack` = pending node openers, `counter` = next word number; returns the rows and the new counter *)
Fixpoint rows_rec (deps : list nat) (t : tree) (stack : list text) (counter : nat) : option (list row * nat) :=
  match t with
  | Leaf c tok _ _ =>
      match leaf_word tok with
      | None => None
      | Some w =>
          match denormalize w, nth_error deps (counter - 1) with
          | Some w', Some h =>
              let pos := tok_get_default k_pos s_us tok in
              Some ([mkrow counter w' (tok_get_default k_lemma s_us tok) pos h c
                           (join [cSP] (stack ++ [leaf_frag c pos w']))], S counter)
          | _, _ => None
          end
      end
  | Un c _ _ t1 =>
      match rows_rec deps t1 (stack ++ [node_open c true s_one_gt]) counter with
      | Some (rows, k) => Some (app_last_frag s_sp_rp rows, k)
      | None => None
      end
  | Bin c _ _ hl l r =>
      match rows_rec deps l (stack ++ [node_open c hl s_two_gt]) counter with
      | Some (rows1, k1) =>
          match rows_rec deps r [] k1 with
          | Some (rows2, k2) => Some (rows1 ++ app_last_frag s_sp_rp rows2, k2)
          | None => None
          end
      | None => None
      end
  end.
Definition conll_rows (t : tree) : option (list row) :=
  match deps_of t with
  | Some deps => match rows_rec deps t [] 1 with Some (rows, _) => Some rows | None => None end
  | None => None
  end.
Definition row_text (r : row) : text :=
  join s_tab [show_nat (r_idx r); r_word r; r_lemma r; r_pos r; r_pos r; s_us; show_nat (r_head r); show (r_cat r); s_us; r_frag r].
Definition print_conll (t : tree) : option text := option_map (fun rows => join s_nl (map row_text rows)) (conll_rows t).

(* ---------- json (printer/my_json.py: json_of with full=False) ---------- *)
Inductive jvalue :=
| JStr (s : text)
| JNum (s : text)                      (* a float, kept as the text Python prints for it *)
| JObj (items : list (text * jvalue))  (* a dict, in insertion order *)
| JArr (xs : list jvalue).

(* d[k] = v *)
Fixpoint dict_set {V : Type} (k : text) (v : V) (d : list (text * V)) : list (text * V) :=
  match d with
  | [] => [(k, v)]
  | (k', v') :: r => if text_eqb k k' then (k', v) :: r else (k', v') :: dict_set k v r
  end.
Fixpoint dict_get {V : Type} (k : text) (d : list (text * V)) : option V :=
  match d with [] => None | (k', v) :: r => if text_eqb k k' then Some v else dict_get k r end.
Fixpoint dict_del {V : Type} (k : text) (d : list (text * V)) : list (text * V) :=
  match d with [] => [] | (k', v) :: r => if text_eqb k k' then dict_del k r else (k', v) :: dict_del k r end.

Fixpoint enc_json (t : tree) : jvalue :=
  match t with
  | Leaf c tok _ _ => JObj (dict_set k_cat (JStr (show c)) (map (fun kv => (fst kv, JStr (snd kv))) tok))
  | Un c ops _ t1 => JObj [(k_type, JStr ops); (k_cat, JStr (show c)); (k_children, JArr [enc_json t1])]
  | Bin c ops _ _ l r => JObj [(k_type, JStr ops); (k_cat, JStr (show c)); (k_children, JArr [enc_json l; enc_json r])]
  end.

Definition view_json (t : tree) : option (view token) := project (fun tok => Some tok) LabString false t.

(* independent reader: a bottom-up fold over the JSON value *)
Fixpoint jfold {A : Type} (fs fn : text -> A) (fo : list (text * A) -> A) (fa : list A -> A) (j : jvalue) : A :=
  match j with
  | JStr s => fs s
  | JNum s => fn s
  | JObj items => fo ((fix go (l : list (text * jvalue)) : list (text * A) :=
                         match l with [] => [] | (k, v) :: r => (k, jfold fs fn fo fa v) :: go r end) items)
  | JArr xs => fa ((fix go (l : list jvalue) : list A :=
                      match l with [] => [] | x :: r => jfold fs fn fo fa x :: go r end) xs)
  end.

Inductive dj := DStr (s : text) | DNum (s : text) | DArr (l : list dj) | DNode (v : option (view token)).
Fixpoint all_strings (d : list (text * dj)) : option token :=
  match d with
  | [] => Some []
  | (k, DStr s) :: r => match all_strings r with Some t => Some ((k, s) :: t) | None => None end
  | _ => None
  end.
Definition dec_obj (items : list (text * dj)) : dj :=
  match dict_get k_children items with
  | Some (DArr kids) =>
      match dict_get k_type items, dict_get k_cat items, List.length items with
      | Some (DStr ty), Some (DStr cs), 3%nat =>
          match parse_cat cs, kids with
          | Some c, [DNode (Some v)] => DNode (Some (VUn c ty v))
          | Some c, [DNode (Some l); DNode (Some r)] => DNode (Some (VBin c ty true l r))
          | _, _ => DNode None
          end
      | _, _, _ => DNode None
      end
  | Some _ => DNode None
  | None =>
      match dict_get k_cat items with
      | Some (DStr cs) =>
          match parse_cat cs, all_strings (dict_del k_cat items) with
          | Some c, Some tok => DNode (Some (VLeaf c tok))
          | _, _ => DNode None
          end
      | _ => DNode None
      end
  end.
Definition dec_json (j : jvalue) : option (view token) :=
  match jfold DStr DNum dec_obj DArr j with DNode v => v | _ => None end.

(* ---------- numbering of a batch (sentences x n-best) ---------- *)
(* for tree_index, x in enumerate(trees, i) *)
Fixpoint number_trees {A : Type} (k i : nat) (ts : list A) : list (nat * nat * A) :=
  match ts with [] => [] | x :: r => (k, i, x) :: number_trees k (S i) r end.
(* for sentence_index, trees in enumerate(batch, k) *)
Fixpoint number_from {A : Type} (k : nat) (b : list (list A)) : list (nat * nat * A) :=
  match b with [] => [] | ts :: r => number_trees k 1 ts ++ number_from (S k) r end.
Definition number_batch {A : Type} (b : list (list A)) : list (nat * nat * A) := number_from 1 b.
(* the grouped form used by the json / jigg / html assembly *)
Fixpoint number_groups {A : Type} (k : nat) (b : list (list A)) : list (nat * list A) :=
  match b with [] => [] | ts :: r => (k, ts) :: number_groups (S k) r end.

(* to_string for the line-oriented formats: header line(s), the tree, one print() each.
   A record is (text of the score as Python formats it, tree).  None: nbest_trees[0] / nbest_trees[0][0] IndexError, or the formatter fails *)
Definition header (conll : bool) (k : nat) (score : text) : text :=
  if conll then T "# ID=" ++ show_nat k ++ s_nl ++ T "# log probability=" ++ score
  else T "ID=" ++ show_nat k ++ T ", log probability=" ++ score.
Fixpoint concat_opt (l : list (option text)) : option text :=
  match l with
  | [] => Some []
  | None :: _ => None
  | Some x :: r => match concat_opt r with Some y => Some (x ++ y) | None => None end
  end.
Definition to_string_lines (conll : bool) (fmt : tree -> option text) (b : list (list (text * tree))) : option text :=
  match b with
  | [] => None
  | [] :: _ => None
  | _ => concat_opt (map (fun rec : nat * nat * (text * tree) =>
                            let '(k, _, (score, t)) := rec in
                            option_map (fun body => header conll k score ++ s_nl ++ body ++ s_nl) (fmt t))
                         (number_batch b))
  end.
(* to_string(format='json') before json.dumps: {k: [json_of(tree) + log_prob, ...]} *)
Definition json_batch (b : list (list (text * tree))) : option jvalue :=
  match b with
  | [] => None
  | [] :: _ => None
  | _ => Some (JObj (map (fun g : nat * list (text * tree) =>
                            (show_nat (fst g),
                             JArr (map (fun st : text * tree =>
                                          match enc_json (snd st) with
                                          | JObj items => JObj (dict_set k_log_prob (JNum (fst st)) items)
                                          | j => j
                                          end) (snd g))))
                         (number_groups 1 b)))
  end.
(* ids written by xml_of (sentence, id), to_jigg_xml (s{k-1}_ccg{i-1}) and the sentence numbers of prolog / html / json *)
Definition xml_numbers {A : Type} (b : list (list A)) : list (nat * nat) := map (fun x => (fst (fst x), snd (fst x))) (number_batch b).
Definition jigg_numbers {A : Type} (b : list (list A)) : list (nat * nat) := map (fun x => (pred (fst (fst x)), pred (snd (fst x)))) (number_batch b).
Definition sentence_numbers {A : Type} (b : list (list A)) : list nat := map (fun x => fst (fst x)) (number_batch b).
