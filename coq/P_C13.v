(* C13 - Categories behave as values.  Property theorems only.
   Model: Cat.v (cat_eqb = __eq__, cat_xor = __xor__, eq_str = == with a str, clear_features, feat_eq_str, show),
   CatValue.v (dataclass field hash over an abstract str/None/tuple hash; hashed containers).
   `puncts` is regenerated from depccg/cat.py on every run (GenTables.v). *)
From Coq Require Import List NArith ZArith Bool.
Import ListNotations.
Require Import Cat CatFacts CatLex CatRoundTrip CatValue CatValueProofs GenTables P_C05.

(* ---- equality ---- *)
(* == holds exactly for the same structure, slashes, atom names and features *)
Theorem C13_eqb_iff : forall x y, cat_eqb x y = true <-> x = y.
Proof. exact cat_eqb_eq. Qed.

(* ---- hash: for EVERY choice of the string hash, hash(None) and the tuple hash ---- *)
Theorem C13_hash_respects : forall hstr hnone htuple x y, x = y -> cat_hash hstr hnone htuple x = cat_hash hstr hnone htuple y.
Proof. exact hash_respects. Qed.

Theorem C13_eqb_hash : forall hstr hnone htuple x y, cat_eqb x y = true -> cat_hash hstr hnone htuple x = cat_hash hstr hnone htuple y.
Proof. exact eqb_hash. Qed.

(* so hashed sets and dicts find exactly the keys that are == (seen rules, unary rules, category ids, caches) *)
Theorem C13_hashed_set_finds : forall hstr hnone htuple c keys, hashed_mem hstr hnone htuple c keys = true <-> In c keys.
Proof. intros. rewrite hashed_mem_plain. apply plain_mem_In. Qed.

Theorem C13_hashed_dict_finds : forall hstr hnone htuple (V : Type) c (d1 d2 : list (cat * V)) v,
  (forall w, ~ In (c, w) d1) -> hashed_get hstr hnone htuple c (d1 ++ (c, v) :: d2) = Some v.
Proof. intros. rewrite hashed_get_plain. now apply plain_get_first. Qed.

Theorem C13_hashed_dict_sound : forall hstr hnone htuple (V : Type) c (d : list (cat * V)) v,
  hashed_get hstr hnone htuple c d = Some v -> In (c, v) d.
Proof. intros hstr hnone htuple V c d v. rewrite hashed_get_plain. apply plain_get_In. Qed.

(* ---- comparison with a string: succeeds exactly for the category's own canonical text ---- *)
Theorem C13_eq_str_iff : forall c s, eq_str c s = true <-> s = show c.
Proof. exact eq_str_iff. Qed.

(* and a string is the text of at most one well-formed value *)
Theorem C13_eq_str_unique : forall a b s, wf puncts a -> wf puncts b -> eq_str a s = true -> eq_str b s = true -> a = b.
Proof.
  intros a b s Ha Hb H1 H2. apply eq_str_iff in H1. apply eq_str_iff in H2.
  apply (C05_show_injective a b Ha Hb). congruence.
Qed.

(* ---- feature-blind comparison ^ ---- *)
Theorem C13_xor_equiv :
  (forall x, cat_xor x x = true) /\ (forall x y, cat_xor x y = cat_xor y x) /\
  (forall x y z, cat_xor x y = true -> cat_xor y z = true -> cat_xor x z = true).
Proof. exact (conj xor_refl (conj xor_sym xor_trans)). Qed.

Theorem C13_eq_implies_xor : forall x y, cat_eqb x y = true -> cat_xor x y = true.
Proof. exact eq_implies_xor. Qed.

(* strictly coarser: S[dcl] ^ S, but S[dcl] != S *)
Theorem C13_xor_coarser : exists x y, wf puncts x /\ wf puncts y /\ cat_xor x y = true /\ cat_eqb x y = false /\ x <> y.
Proof.
  exists (Atom [83%N] (FUn [100%N;99%N;108%N])), (Atom [83%N] FNone).
  split; [apply wfb_ok; vm_compute; reflexivity|]. split; [apply wfb_ok; vm_compute; reflexivity|].
  split; [reflexivity|]. split; [reflexivity | discriminate].
Qed.

(* ^ is "equal after erasing every feature" *)
Theorem C13_xor_iff_skeleton : forall x y, cat_xor x y = true <-> skeleton x = skeleton y.
Proof. exact xor_iff_skeleton. Qed.

(* ---- erasing named features ---- *)
(* named names f: f == one of the names, the way Python decides `self.feature in args` (Feature.__eq__ with a str) *)
Theorem C13_clear_spec : forall names c,
  atoms (clear_features names c) = map (fun a => (fst a, if named names (snd a) then FNone else snd a)) (atoms c)
  /\ skeleton (clear_features names c) = skeleton c.
Proof. intros names c. split; [apply clear_atoms | apply clear_skeleton]. Qed.

(* atoms (names + features, in order) and skeleton (shape, slashes, names) determine the value: nothing else can change *)
Theorem C13_value_determined : forall x y, skeleton x = skeleton y -> feats x = feats y -> x = y.
Proof. exact skeleton_feats_inj. Qed.

Theorem C13_clear_idem : forall names c, clear_features names (clear_features names c) = clear_features names c.
Proof. exact clear_idem. Qed.

Theorem C13_clear_noop : forall names c, (forall f, In f (feats c) -> named names f = false) -> clear_features names c = c.
Proof. exact clear_noop. Qed.

(* a feature that equals none of the names is kept at every position where it occurs ... *)
Theorem C13_clear_only_named : forall names c i b f, nth_error (atoms c) i = Some (b, f) -> named names f = false ->
  nth_error (atoms (clear_features names c)) i = Some (b, f).
Proof. exact clear_keeps. Qed.

(* ... and one that equals a name is erased at every position where it occurs *)
Theorem C13_clear_all_named : forall names c i b f, nth_error (atoms c) i = Some (b, f) -> named names f = true ->
  nth_error (atoms (clear_features names c)) i = Some (b, FNone).
Proof. exact clear_erases. Qed.

Theorem C13_clear_xor : forall names c, cat_xor (clear_features names c) c = true.
Proof. exact clear_xor. Qed.

(* a name is the text of a feature: for a well-formed feature g with a text, "f == text of g" is "f = g" *)
Theorem C13_name_denotes : forall f g, wf_feat g -> g <> FNone -> feat_eq_str f (show_feat g) = feat_eqb f g.
Proof. exact name_denotes. Qed.

(* ---- non-vacuity ---- *)
Definition tS := [83%N]. Definition tNP := [78%N;80%N]. Definition tdcl := [100%N;99%N;108%N]. Definition tnb := [110%N;98%N].
Definition ex1 : cat := Fun (Fun (Atom tS (FUn tdcl)) [cBS] (Atom tNP (FUn tnb))) [cSL] (Atom tNP (FUn tnb)).   (* (S[dcl]\NP[nb])/NP[nb] *)
Definition ex2 : cat := Fun (Fun (Atom tS (FUn tdcl)) [cBS] (Atom tNP FNone)) [cSL] (Atom tNP FNone).
Example ex_wf1 : wf puncts ex1. Proof. apply wfb_ok. vm_compute. reflexivity. Qed.
Example ex_clear : clear_features [tnb; [cX]] ex1 = ex2. Proof. vm_compute. reflexivity. Qed.
Example ex_clear_idem : clear_features [tnb; [cX]] ex2 = ex2. Proof. vm_compute. reflexivity. Qed.
Example ex_xor : cat_xor ex1 ex2 = true /\ cat_eqb ex1 ex2 = false. Proof. vm_compute. split; reflexivity. Qed.
Example ex_eq_str : eq_str ex2 (show ex2) = true /\ eq_str ex2 ([cLP] ++ show ex2 ++ [cRP]) = false. Proof. vm_compute. split; reflexivity. Qed.
Example ex_hash : cat_hash ex_hstr 0%Z ex_htuple ex1 <> cat_hash ex_hstr 0%Z ex_htuple ex2
               /\ hashed_mem ex_hstr 0%Z ex_htuple ex2 [ex1; clear_features [tnb] ex1] = true.
Proof. vm_compute. split; [discriminate | reflexivity]. Qed.
Example ex_const_hash : hashed_mem (fun _ => 0%Z) 0%Z (fun _ => 0%Z) ex2 [ex1; ex2] = true.   (* a constant hash is an instance too *)
Proof. vm_compute. reflexivity. Qed.
