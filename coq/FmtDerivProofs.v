(* C07 (stretch) - the interval-stack reader of FmtDeriv.v rebuilds the derivation from what deriv_of prints. *)
From Coq Require Import List NArith Bool Arith Lia.
Import ListNotations.
Require Import Cat Tree Fmt FmtDeriv.
Local Open Scope nat_scope.

(* total width of the cells of a subtree (0 for a leaf without a word: deriv_of fails there) *)
Fixpoint tw (t : tree) : nat :=
  match t with
  | Leaf c tok _ _ => match leaf_word tok with Some w => cell_width (c, w) | None => 0 end
  | Un _ _ _ t1 => tw t1
  | Bin _ _ _ _ l r => tw l + tw r
  end.
(* the node lines in post-order, with their column extents *)
Fixpoint post (t : tree) (lw : nat) : list dline :=
  match t with
  | Leaf _ _ _ _ => []
  | Un c _ sym t1 => post t1 lw ++ [DNode lw (lw + tw t1) sym c]
  | Bin c _ sym _ l r => post l lw ++ post r (lw + tw l) ++ [DNode lw (lw + (tw l + tw r)) sym c]
  end.

Lemma tw_pos t cs : leaf_cells t = Some cs -> 2 <= tw t.
Proof.
  revert cs. induction t as [c tok o y | c o y t1 IH | c o y hl l IHl r IHr]; intros cs E; cbn [leaf_cells tw] in *.
  - destruct (leaf_word tok); [|discriminate]. unfold cell_width. lia.
  - now apply (IH cs).
  - destruct (leaf_cells l) as [a|]; [|discriminate]. specialize (IHl a eq_refl). lia.
Qed.

Lemma deriv_rec_post t cs : leaf_cells t = Some cs -> forall lw, deriv_rec t lw = Some (post t lw, lw + tw t).
Proof.
  revert cs. induction t as [c tok o y | c o y t1 IH | c o y hl l IHl r IHr]; intros cs E lw; cbn [leaf_cells deriv_rec tw post] in *.
  - destruct (leaf_word tok) as [w|]; [|discriminate]. unfold cell_width. cbn [fst snd]. f_equal. f_equal. lia.
  - rewrite (IH cs E lw). cbn zeta. replace (Nat.max lw (lw + tw t1)) with (lw + tw t1) by lia. reflexivity.
  - destruct (leaf_cells l) as [a|] eqn:Ea; [|discriminate]. destruct (leaf_cells r) as [b|] eqn:Eb; [|discriminate].
    rewrite (IHl a eq_refl lw). cbn zeta. replace (Nat.max lw (lw + tw l)) with (lw + tw l) by lia.
    rewrite (IHr b eq_refl (lw + tw l)). cbn zeta. replace (Nat.max (lw + tw l) (lw + tw l + tw r)) with (lw + (tw l + tw r)) by lia. reflexivity.
Qed.

(* ---- the stack machine ---- *)
Definition flushS (h : nat) (st : dstate) : dstate := let '(sk, c, col) := st in flush h c col sk.
Definition flush_allS (st : dstate) : dstate := let '(sk, c, col) := st in flush_all c col sk.
Definition below (lw : nat) (sk : list item) : Prop := Forall (fun it => fst (fst it) < lw) sk.

Lemma flush_stop h cells sk : flush h cells h sk = (sk, cells, h).
Proof. destruct cells as [|x r]; cbn [flush]; [reflexivity | now rewrite Nat.ltb_irrefl]. Qed.

Lemma flush_flush a b cells : a <= b -> forall col sk, flushS b (flush a cells col sk) = flush b cells col sk.
Proof.
  intros Hab. induction cells as [|x r IH]; intros col sk; cbn [flush flushS]; [reflexivity|].
  destruct (Nat.ltb_spec col a) as [A|A].
  - destruct (Nat.ltb_spec col b) as [B|B]; [|lia]. apply IH.
  - cbn [flushS flush]. reflexivity.
Qed.

Lemma flush_all_flush h cells : forall col sk, flush_allS (flush h cells col sk) = flush_all cells col sk.
Proof.
  induction cells as [|x r IH]; intros col sk; cbn [flush flush_all flush_allS]; [reflexivity|].
  destruct (col <? h); [apply IH | reflexivity].
Qed.

Lemma pop_below lw sk acc : below lw sk -> pop_from lw sk acc = (acc, sk).
Proof.
  intros H. destruct sk as [|[[s e] v] r]; cbn [pop_from]; [reflexivity|].
  apply Forall_inv in H. cbn [fst] in H. destruct (Nat.leb_spec lw s); [lia | reflexivity].
Qed.

Lemma drun_app a b st : drun (a ++ b) st = match drun a st with Some st' => drun b st' | None => None end.
Proof. revert st. induction a as [|d a IH]; intros st; cbn [app drun]; [reflexivity|]. destruct (dstep d st); [apply IH | reflexivity]. Qed.

Lemma below_weaken lw lw' sk : lw <= lw' -> below lw sk -> below lw' sk.
Proof. intros H B. unfold below in *. eapply Forall_impl; [|exact B]. cbn. intros it Hi. lia. Qed.

Lemma stack_invariant t : forall cs v, leaf_cells t = Some cs -> view_deriv t = Some v ->
  forall lw S0 rest st, flushS lw st = (S0, cs ++ rest, lw) -> below lw S0 ->
  exists st', drun (post t lw) st = Some st' /\ flushS (lw + tw t) st' = ((lw, lw + tw t, v) :: S0, rest, lw + tw t).
Proof.
  unfold view_deriv.
  induction t as [c tok o y | c o y t1 IH | c o y hl l IHl r IHr]; intros cs v Ec Ev lw S0 rest st Hf Hb;
    cbn [leaf_cells project post tw pick_label] in *.
  - destruct (leaf_word tok) as [w|]; [|discriminate]. inversion Ec; subst cs. inversion Ev; subst v.
    exists st. split; [reflexivity|]. destruct st as [[sk c0] col0]. cbn [flushS] in *.
    rewrite <- (flush_flush lw (lw + cell_width (c, w)) c0 ltac:(lia) col0 sk), Hf. cbn [flushS app flush].
    assert (W : 2 <= cell_width (c, w)) by (unfold cell_width; lia).
    destruct (Nat.ltb_spec lw (lw + cell_width (c, w))) as [_|A]; [|lia]. cbn [fst snd]. apply flush_stop.
  - destruct (project leaf_word LabSymbol false t1) as [v1|] eqn:E1; [|discriminate]. inversion Ev; subst v.
    destruct (IH cs v1 Ec eq_refl lw S0 rest st Hf Hb) as (st1 & R1 & F1).
    rewrite drun_app, R1. cbn [drun]. destruct st1 as [[S1 c1] col1]. cbn [flushS] in F1. cbn [dstep]. rewrite F1.
    cbn [pop_from]. rewrite Nat.leb_refl. rewrite (pop_below lw S0 _ Hb). rewrite !Nat.eqb_refl. cbn [andb].
    eexists. split; [reflexivity|]. cbn [flushS]. apply flush_stop.
  - destruct (leaf_cells l) as [a|] eqn:Ea; [|discriminate]. destruct (leaf_cells r) as [b|] eqn:Eb; [|discriminate]. inversion Ec; subst cs.
    destruct (project leaf_word LabSymbol false l) as [v1|] eqn:E1; [|discriminate].
    destruct (project leaf_word LabSymbol false r) as [v2|] eqn:E2; [|discriminate]. inversion Ev; subst v.
    pose proof (tw_pos l a Ea) as Wl. pose proof (tw_pos r b Eb) as Wr.
    rewrite <- app_assoc in Hf.
    destruct (IHl a v1 eq_refl eq_refl lw S0 (b ++ rest) st Hf Hb) as (st1 & R1 & F1).
    assert (Hb1 : below (lw + tw l) ((lw, lw + tw l, v1) :: S0)).
    { constructor; [cbn [fst]; lia | apply (below_weaken lw); [lia | exact Hb]]. }
    destruct (IHr b v2 eq_refl eq_refl (lw + tw l) _ rest st1 F1 Hb1) as (st2 & R2 & F2).
    rewrite drun_app, R1, drun_app, R2. cbn [drun]. destruct st2 as [[S2 c2] col2]. cbn [flushS] in F2. cbn [dstep].
    replace (lw + (tw l + tw r)) with (lw + tw l + tw r) by lia. rewrite F2.
    cbn [pop_from]. destruct (Nat.leb_spec lw (lw + tw l)) as [_|A]; [|lia]. rewrite Nat.leb_refl.
    rewrite (pop_below lw S0 _ Hb). rewrite !Nat.eqb_refl. cbn [andb].
    eexists. split; [reflexivity|]. cbn [flushS]. apply flush_stop.
Qed.

Theorem deriv_roundtrip t cs : leaf_cells t = Some cs ->
  exists lines v, deriv_struct t = Some (cs, lines) /\ view_deriv t = Some v /\ dec_deriv cs lines = Some v.
Proof.
  intros Ec.
  assert (Ev : forall cs0, leaf_cells t = Some cs0 -> exists v, view_deriv t = Some v).
  { unfold view_deriv. clear Ec cs. induction t as [c tok o y | c o y t1 IH | c o y hl l IHl r IHr]; intros cs Ec; cbn [leaf_cells project] in *.
    - destruct (leaf_word tok); [eauto | discriminate].
    - destruct (IH cs Ec) as [v E]. rewrite E. eauto.
    - destruct (leaf_cells l) as [a|]; [|discriminate]. destruct (leaf_cells r) as [b|]; [|discriminate].
      destruct (IHl a eq_refl) as [v1 E1]. destruct (IHr b eq_refl) as [v2 E2]. rewrite E1, E2. eauto. }
  specialize (Ev cs Ec). destruct Ev as [v Ev].
  exists (post t 0), v. unfold deriv_struct. rewrite Ec, (deriv_rec_post t cs Ec 0). split; [reflexivity|]. split; [exact Ev|].
  assert (Hf : flushS 0 ([], cs, 0) = ([], cs ++ [], 0)) by (cbn [flushS]; rewrite app_nil_r; apply flush_stop).
  destruct (stack_invariant t cs v Ec Ev 0 [] [] _ Hf ltac:(constructor)) as (st' & R & F).
  unfold dec_deriv. rewrite R. destruct st' as [[sk c1] col1]. cbn [flushS] in F.
  pose proof (flush_all_flush (0 + tw t) c1 col1 sk) as G. rewrite F in G. cbn [flush_allS flush_all] in G. rewrite <- G. reflexivity.
Qed.

(* the view keeps the words, the leaf categories, every node's category and rule symbol *)
Lemma view_deriv_leaves t v : view_deriv t = Some v -> Some (vleaves v) = leaf_cells t.
Proof.
  unfold view_deriv. revert v. induction t as [c tok o y | c o y t1 IH | c o y hl l IHl r IHr]; intros v E; cbn [project leaf_cells] in *.
  - destruct (leaf_word tok); [|discriminate]. inversion E; reflexivity.
  - destruct (project _ _ _ t1) as [v1|]; [|discriminate]. inversion E; subst. cbn [vleaves]. now apply IH.
  - destruct (project _ _ _ l) as [v1|]; [|discriminate]. destruct (project _ _ _ r) as [v2|]; [|discriminate].
    inversion E; subst. cbn [vleaves]. rewrite <- (IHl v1 eq_refl), <- (IHr v2 eq_refl). reflexivity.
Qed.
